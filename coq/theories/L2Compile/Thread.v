(* L2t / Thread: how bitvector.Nodes.*.flatten threads the memory buffer
   `mem` through an arithmetic expression under one comparator (the part of
   the translation that the value-level model Expr.ceval does not show):

     Comparator.flatten   mem = list(); p, q = flatten of the operands with
                          that one list; flatten_comparator(op, p, q, mem)
     Arithmetic.flatten   p, q = flatten of the operands with the caller's
                          list; flatten_arithmetic(op, p, q, mem)
     Operator.flatten     ite in arithmetic scope: guard flattened without
                          memory, branches with the caller's list, then
                          equalize_width, ite_function(start = len(mem)),
                          mem.extend
     Unary.flatten        X / ': same memory, prime flag set

   A parsed tree is a [pnode] (class name, operator / value, operands).
   [anode] is the shape of an arithmetic-scope tree: leaves are the nodes
   whose flatten returns bits without touching the memory (variables,
   numerals; their bits are given), the guard of an ite is a Boolean-scope
   node whose flatten returns one formula.  No proofs here (ThreadProofs.v). *)
From Coq Require Import String Ascii ZArith List Bool.
From Omega Require Import L1Circuits.Circuits L1Circuits.Deep L1Circuits.PyBits
  L2Compile.Expr L2Compile.Emit.
Import ListNotations.

Inductive pnode := PNode (cls op : string) (args : list pnode).

(* what a flatten method returns: a formula (str), bits (list) or a buffer
   text (str starting with $) *)
(* a Boolean-scope formula: formulas of Deep.bx and buffer texts under the
   propositional operators of prefix syntax (a buffer is not a Deep.bx) *)
Inductive px :=
| PB (b : bx)
| PBuf (f : fbuf)
| PNot (a : px)
| PAnd (a b : px)
| POr (a b : px)
| PXor (a b : px).

Inductive fres := RStr (b : bx) | RBits (l : list bx) | RBuf (f : fbuf) | RForm (p : px).

Definition is_bits (r : fres) : bool := match r with RBits _ => true | _ => false end.

(* a flatten result used as a formula (isinstance(x, str)) *)
Definition px_of_fres (r : fres) : option px :=
  match r with
  | RStr b => Some (PB b)
  | RBuf f => Some (PBuf f)
  | RForm p => Some p
  | RBits _ => None
  end.

(* an operator prefix kept in a Python string at run time (a value of
   Nodes.opmap such as "&", "| !", "! ^") applied to the formulas written
   after it: " {op} {x} {y} " *)
Inductive ptok := TNot | TAnd | TOr | TXor | THole (i : nat) | TBad.

Definition ptok_of_string (s : string) : ptok :=
  if String.eqb s "!" then TNot else if String.eqb s "&" then TAnd
  else if String.eqb s "|" then TOr else if String.eqb s "^" then TXor else TBad.

Fixpoint split_blank (s acc : string) : list string :=
  match s with
  | EmptyString => if String.eqb acc "" then [] else [acc]
  | String c r =>
      if Ascii.eqb c " "
      then (if String.eqb acc "" then [] else [acc]) ++ split_blank r ""
      else split_blank r (acc ++ String c EmptyString)
  end.

Fixpoint parse_px (fuel : nat) (toks : list ptok) (holes : list px)
  : option (px * list ptok) :=
  match fuel with
  | O => None
  | S f =>
      match toks with
      | [] => None
      | THole i :: r => match nth_error holes i with Some p => Some (p, r) | None => None end
      | TNot :: r =>
          match parse_px f r holes with Some (a, r') => Some (PNot a, r') | None => None end
      | TBad :: _ => None
      | tk :: r =>
          match parse_px f r holes with
          | Some (a, r1) =>
              match parse_px f r1 holes with
              | Some (b, r2) =>
                  Some (match tk with TAnd => PAnd a b | TOr => POr a b | _ => PXor a b end, r2)
              | None => None
              end
          | None => None
          end
      end
  end.

Definition py_apply_prefix (op : string) (args : list px) : option px :=
  let toks := map ptok_of_string (split_blank op "") ++ map THole (seq 0 (length args)) in
  match parse_px (2 * length toks + 2) toks args with
  | Some (p, []) => Some p
  | _ => None
  end.

Inductive anode :=
| ALeaf (u : pnode) (bits : list bx)
| APrime (op : string) (a : anode)
| AArith (o : aop) (op : string) (a b : anode)
| AIte (g : pnode) (gb : bx) (a b : anode).

(* the tree that the parser builds *)
Fixpoint node_of (e : anode) : pnode :=
  match e with
  | ALeaf u _ => u
  | APrime op a => PNode "Unary" op [node_of a]
  | AArith _ op a b => PNode "Arithmetic" op [node_of a; node_of b]
  | AIte g _ a b => PNode "Operator" "ite" [g; node_of a; node_of b]
  end.

(* (result bits, memory after) *)
Fixpoint d_aflat (e : anode) (mem : list bx) : list bx * list bx :=
  match e with
  | ALeaf _ bits => (bits, mem)
  | APrime _ a => d_aflat a mem
  | AArith o _ a b =>
      let '(p, m1) := d_aflat a mem in
      let '(q, m2) := d_aflat b m1 in
      let '(r, cells) := d_flatten_arithmetic o p q (length m2) in
      (r, (m2 ++ cells)%list)
  | AIte _ gb a b =>
      let '(y, m1) := d_aflat a mem in
      let '(z, m2) := d_aflat b m1 in
      let '(p, q) := d_equalize_width y z 0 in
      let '(r, ite_mem) := d_ite_function gb p q (length m2) in
      (r, (m2 ++ ite_mem)%list)
  end.

(* Comparator.flatten on arithmetic operands: the cells of the buffer *)
Definition d_cmp_flat (o : cmp) (a b : anode) : list bx :=
  let '(p, m1) := d_aflat a [] in
  let '(q, m2) := d_aflat b m1 in
  d_comparator_mem o p q m2.

(* ---- values *)
Fixpoint reg_free (e : bx) : bool :=
  match e with
  | XC _ | XV _ => true
  | XR _ => false
  | XNot a => reg_free a
  | XAnd a b | XOr a b | XXor a b => reg_free a && reg_free b
  end.

Section Values.
Variable vars : nat -> bool.

Fixpoint aval (e : anode) : list bool :=
  match e with
  | ALeaf _ bits => map (evalx vars []) bits
  | APrime _ a => aval a
  | AArith o _ a b =>
      match o with
      | AAdd => fst (adder_subtractor (aval a) (aval b) true 1)
      | ASub => fst (adder_subtractor (aval a) (aval b) false 1)
      | AMul => multiplier (aval a) (aval b)
      | ADiv => fst (restoring_divider (aval a) (aval b))
      | AMod => snd (restoring_divider (aval a) (aval b))
      end
  | AIte _ gb a b =>
      let '(p, q) := equalize_width (aval a) (aval b) 0 in
      ite_function (evalx vars [] gb) p q
  end.
End Values.

(* leaves are non-empty and do not read registers (variable bits, constant
   bits); guards do not read registers of the enclosing buffer *)
Fixpoint awf (e : anode) : bool :=
  match e with
  | ALeaf _ bits => negb (Nat.eqb (length bits) 0) && forallb reg_free bits
  | APrime _ a => awf a
  | AArith _ _ a b => awf a && awf b
  | AIte _ gb a b => reg_free gb && awf a && awf b
  end.
