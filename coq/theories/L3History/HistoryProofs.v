(* Proofs about the context state machine (model: History.v):
   frame, redeclare_guard, idempotent, store faithfulness and history
   independence. *)
From Coq Require Import List Bool String Ascii ZArith Lia.
From Omega Require Import L4Steps.Mangle L4Steps.MangleProofs
  L4Steps.Stepper L4Steps.StepperProofs L3History.History.
Import ListNotations.
Open Scope string_scope.

(* ------------------------------------------------- contexts only ever grow *)
Definition extends (c c' : ctx) : Prop :=
  (exists l, c_vars c' = (c_vars c ++ l)%list) /\
  (exists l, c_store c' = (c_store c ++ l)%list).

Lemma extends_refl : forall c, extends c c.
Proof. intros c. split; exists []; rewrite app_nil_r; reflexivity. Qed.

Lemma extends_trans : forall a b c, extends a b -> extends b c -> extends a c.
Proof.
  intros a b c [[l1 E1] [m1 F1]] [[l2 E2] [m2 F2]]. split.
  - exists (l1 ++ l2)%list. rewrite E2, E1, app_assoc. reflexivity.
  - exists (m1 ++ m2)%list. rewrite F2, F1, app_assoc. reflexivity.
Qed.

Lemma declare1_extends : forall c d, extends c (fst (declare1 c d)).
Proof.
  intros c d. unfold declare1. destruct (find_var (vd_name d) (c_vars c)).
  - destruct (hint_eqb _ _); apply extends_refl.
  - simpl. split; [exists [d]; reflexivity|exists []; rewrite app_nil_r; reflexivity].
Qed.

Lemma fold_declare1_extends : forall ds c,
  extends c (fold_left (fun c d => fst (declare1 c d)) ds c).
Proof.
  induction ds as [|d ds IH]; intros c; simpl; [apply extends_refl|].
  eapply extends_trans; [apply declare1_extends|apply IH].
Qed.

Lemma declare_extends : forall c ds, extends c (fst (declare c ds)).
Proof.
  intros c ds. unfold declare. destruct (forallb _ ds); simpl.
  - apply fold_declare1_extends.
  - apply extends_refl.
Qed.

Lemma push_extends : forall c e, extends c (fst (push c e)).
Proof.
  intros c e. simpl. split; [exists []; rewrite app_nil_r; reflexivity|exists [e]; reflexivity].
Qed.

Lemma with_handle_extends : forall c h k,
  (forall e, extends c (fst (k e))) -> extends c (fst (with_handle c h k)).
Proof.
  intros c h k H. unfold with_handle. destruct (nth_error (c_store c) h).
  - apply H.
  - apply extends_refl.
Qed.

Lemma step1_extends : forall c o, extends c (fst (step1 c o)).
Proof.
  intros c o. destruct o; simpl;
    try (apply with_handle_extends; intros; try apply push_extends;
         apply with_handle_extends; intros; apply push_extends).
  - apply declare_extends.
  - apply push_extends.
  - destruct (nth_error (c_store c) h); [|apply extends_refl].
    assert (D := declare_extends c (aux_decls c xs)).
    destruct (declare c (aux_decls c xs)) as [c' o'] eqn:E. simpl in D.
    destruct o'; simpl; try exact D.
    eapply extends_trans; [exact D|]. apply (push_extends c' e).
  - apply extends_refl.
Qed.

Lemma get_set_same : forall k w c, get k (set k w c) = c.
Proof. intros [] w c; reflexivity. Qed.

Lemma get_set_other : forall k w c, get (negb k) (set k w c) = get (negb k) w.
Proof. intros [] w c; reflexivity. Qed.

Lemma wstep_extends : forall w o k, extends (get k w) (get k (fst (wstep w o))).
Proof.
  intros w o k. destruct o as [k0 o|k0 h]; simpl.
  - assert (E := step1_extends (get k0 w) o).
    destruct (step1 (get k0 w) o) as [c r]. simpl in *.
    destruct k, k0; simpl; try exact E; apply extends_refl.
  - destruct (nth_error (c_store (get k0 w)) h); [|apply extends_refl].
    simpl. destruct k, k0; simpl; try apply extends_refl;
      apply (push_extends _ e).
Qed.

Lemma wrun_extends : forall os w k, extends (get k w) (get k (fst (wrun w os))).
Proof.
  induction os as [|o os IH]; intros w k; simpl; [apply extends_refl|].
  assert (E := wstep_extends w o k).
  destruct (wstep w o) as [w' r]. simpl in E.
  specialize (IH w' k). destruct (wrun w' os) as [w'' rs]. simpl in *.
  eapply extends_trans; eauto.
Qed.

(* frame: a predicate obtained earlier is the same stored table after any
   sequence of operations in either context *)
Theorem frame : forall os w k h e,
  nth_error (c_store (get k w)) h = Some e ->
  nth_error (c_store (get k (fst (wrun w os)))) h = Some e.
Proof.
  intros os w k h e H. destruct (wrun_extends os w k) as [_ [l E]].
  rewrite E. rewrite nth_error_app1; [exact H|].
  apply nth_error_Some. congruence.
Qed.

(* a stored table reads only the identifiers it was tabulated over *)
Theorem entry_reads_own : forall e, reads_only (fst e) (denote e).
Proof. intros [ds t]. apply eval_tbl_reads_only. Qed.

(* ------------------------------------------------------- redeclare_guard *)
Lemma find_var_app : forall x vs l d,
  find_var x vs = Some d -> find_var x (vs ++ l) = Some d.
Proof.
  induction vs as [|d0 vs IH]; simpl; intros l d H; [discriminate|].
  destruct (String.eqb x (vd_name d0)); [exact H|apply IH, H].
Qed.

(* declarations are never changed by later operations *)
Theorem declarations_stable : forall os w k x d,
  find_var x (c_vars (get k w)) = Some d ->
  find_var x (c_vars (get k (fst (wrun w os)))) = Some d.
Proof.
  intros os w k x d H. destruct (wrun_extends os w k) as [[l E] _].
  rewrite E. apply find_var_app, H.
Qed.

Theorem redeclare_guard : forall c d old,
  find_var (vd_name d) (c_vars c) = Some old ->
  (hint_eqb (vd_hint old) (vd_hint d) = false -> declare c [d] = (c, Refused)) /\
  (hint_eqb (vd_hint old) (vd_hint d) = true -> declare c [d] = (c, Done)).
Proof.
  intros c d old H. unfold declare. simpl. rewrite H. split; intros E; rewrite E; simpl.
  - reflexivity.
  - unfold declare1. rewrite H, E. reflexivity.
Qed.

(* a refused declaration changes nothing, whatever else was declared with it *)
Theorem declare_refused_unchanged : forall c ds c',
  declare c ds = (c', Refused) -> c' = c.
Proof.
  intros c ds c' H. unfold declare in H. destruct (forallb _ ds); congruence.
Qed.

Theorem declare_conflict_refused : forall c ds d old,
  In d ds -> find_var (vd_name d) (c_vars c) = Some old ->
  hint_eqb (vd_hint old) (vd_hint d) = false ->
  declare c ds = (c, Refused).
Proof.
  intros c ds d old I F E. unfold declare.
  destruct (forallb _ ds) eqn:A; [|reflexivity].
  rewrite forallb_forall in A. specialize (A d I). rewrite F, E in A. discriminate.
Qed.

(* ------------------------------------------------------ store faithfulness *)
Lemma branch_map : forall (f : Z -> tbl) z dom,
  In z dom -> branch z dom (map f dom) = Some (f z).
Proof.
  induction dom as [|d dom IH]; simpl; intros H; [contradiction|].
  destruct (Z.eqb z d) eqn:E.
  - apply Z.eqb_eq in E. subst. reflexivity.
  - destruct H as [H|H]; [subst; rewrite Z.eqb_refl in E; discriminate|apply IH, H].
Qed.

Lemma tab_eval : forall ds0 p v, reads_only ds0 p ->
  forall ds w, NoDup (names ds) -> in_dom ds v ->
  (forall y, In y (names ds0) -> ~ In y (names ds) -> w y = v y) ->
  eval_tbl ds (tabulate ds p w) v = p v.
Proof.
  intros ds0 p v RO. induction ds as [|[x dom] ds IH]; intros w ND ID AG; simpl.
  - apply RO. intros y Hy. apply AG; [exact Hy|intros []].
  - inversion ND as [|? ? Hn ND']; subst.
    rewrite branch_map by (apply ID; left; reflexivity).
    apply IH; [exact ND'|intros y d Hy; apply ID; right; exact Hy|].
    intros y Hy Hn'. unfold upd. destruct (String.eqb y x) eqn:E.
    + apply String.eqb_eq in E. subst. reflexivity.
    + apply AG; [exact Hy|]. intros [F|F]; [|contradiction].
      subst. rewrite String.eqb_refl in E. discriminate.
Qed.

(* the table stored for a predicate that reads only the (declared)
   identifiers xs denotes that predicate on every valuation inside the
   declared ranges *)
Theorem mk_entry_faithful : forall c xs p v,
  NoDup (names (ctx_decls c)) ->
  reads_only (restrict_decls (ctx_decls c) xs) p ->
  in_dom (ctx_decls c) v ->
  denote (mk_entry c xs p) v = p v.
Proof.
  intros c xs p v ND RO ID. unfold denote, mk_entry. simpl.
  apply (tab_eval (restrict_decls (ctx_decls c) xs) p v RO).
  - apply NoDup_names_filter, ND.
  - apply in_dom_filter, ID.
  - intros y Hy Hn. contradiction.
Qed.

(* meaning of formulas: only the free identifiers matter ... *)
Lemma tsem_agree : forall t v w, agree_on (tvars t) v w -> tsem v t = tsem w t.
Proof.
  induction t; simpl; intros v w AG.
  - apply AG. left. reflexivity.
  - reflexivity.
  - rewrite (IHt1 v w), (IHt2 v w); [reflexivity| |];
      intros y Hy; apply AG, in_or_app; auto.
  - rewrite (IHt1 v w), (IHt2 v w); [reflexivity| |];
      intros y Hy; apply AG, in_or_app; auto.
Qed.

Lemma agree_app_l : forall a b v w, agree_on (a ++ b)%list v w -> agree_on a v w.
Proof. intros a b v w H y Hy. apply H, in_or_app. left. exact Hy. Qed.
Lemma agree_app_r : forall a b v w, agree_on (a ++ b)%list v w -> agree_on b v w.
Proof. intros a b v w H y Hy. apply H, in_or_app. right. exact Hy. Qed.

Lemma agree_upd_minus : forall xs x z v w,
  agree_on (minus xs [x]) v w -> agree_on xs (upd v x z) (upd w x z).
Proof.
  intros xs x z v w AG y Hy. unfold upd. destruct (String.eqb y x) eqn:E; [reflexivity|].
  apply AG. unfold minus. apply filter_In. split; [exact Hy|].
  simpl. rewrite E. reflexivity.
Qed.

Lemma existsb_ext_in : forall (A : Type) (f g : A -> bool) l,
  (forall a, In a l -> f a = g a) -> existsb f l = existsb g l.
Proof.
  induction l as [|a l IH]; simpl; intros H; [reflexivity|].
  rewrite H by (left; reflexivity). rewrite IH; [reflexivity|].
  intros; apply H; right; assumption.
Qed.

Lemma forallb_ext_in : forall (A : Type) (f g : A -> bool) l,
  (forall a, In a l -> f a = g a) -> forallb f l = forallb g l.
Proof.
  induction l as [|a l IH]; simpl; intros H; [reflexivity|].
  rewrite H by (left; reflexivity). rewrite IH; [reflexivity|].
  intros; apply H; right; assumption.
Qed.

Lemma sem_agree : forall rng f v w, agree_on (fvars f) v w -> sem rng v f = sem rng w f.
Proof.
  intros rng. induction f; simpl; intros v w AG; try reflexivity.
  - rewrite (AG x) by (left; reflexivity). reflexivity.
  - rewrite (tsem_agree a v w), (tsem_agree b v w);
      [reflexivity|eapply agree_app_r, AG|eapply agree_app_l, AG].
  - rewrite (tsem_agree a v w) by exact AG. reflexivity.
  - rewrite (IHf v w AG). reflexivity.
  - rewrite (IHf1 v w), (IHf2 v w);
      [reflexivity|eapply agree_app_r, AG|eapply agree_app_l, AG].
  - rewrite (IHf1 v w), (IHf2 v w);
      [reflexivity|eapply agree_app_r, AG|eapply agree_app_l, AG].
  - rewrite (IHf1 v w), (IHf2 v w);
      [reflexivity|eapply agree_app_r, AG|eapply agree_app_l, AG].
  - rewrite (IHf1 v w), (IHf2 v w);
      [reflexivity|eapply agree_app_r, AG|eapply agree_app_l, AG].
  - rewrite (IHf1 v w), (IHf2 v w), (IHf3 v w); [reflexivity| | |].
    + eapply agree_app_r, agree_app_r, AG.
    + eapply agree_app_l, agree_app_r, AG.
    + eapply agree_app_l, AG.
  - apply existsb_ext_in. intros z _. apply IHf, agree_upd_minus, AG.
  - apply forallb_ext_in. intros z _. apply IHf, agree_upd_minus, AG.
Qed.

(* ... and only the ranges of the quantified identifiers *)
Fixpoint bvars (f : form) : list string :=
  match f with
  | FNot g => bvars g
  | FAnd g h | FOr g h | FImp g h | FIff g h => (bvars g ++ bvars h)%list
  | FIte c g h => (bvars c ++ bvars g ++ bvars h)%list
  | FEx x g | FAll x g => x :: bvars g
  | _ => []
  end.

Lemma sem_rng_agree : forall rng rng' f,
  (forall x, In x (bvars f) -> rng x = rng' x) ->
  forall v, sem rng v f = sem rng' v f.
Proof.
  intros rng rng'. induction f; simpl; intros AG v; try reflexivity.
  - rewrite IHf by exact AG. reflexivity.
  - rewrite IHf1, IHf2; [reflexivity| |]; intros y Hy; apply AG, in_or_app; auto.
  - rewrite IHf1, IHf2; [reflexivity| |]; intros y Hy; apply AG, in_or_app; auto.
  - rewrite IHf1, IHf2; [reflexivity| |]; intros y Hy; apply AG, in_or_app; auto.
  - rewrite IHf1, IHf2; [reflexivity| |]; intros y Hy; apply AG, in_or_app; auto.
  - rewrite IHf1, IHf2, IHf3; [reflexivity| | |]; intros y Hy; apply AG.
    + apply in_or_app. right. apply in_or_app. right. exact Hy.
    + apply in_or_app. right. apply in_or_app. left. exact Hy.
    + apply in_or_app. left. exact Hy.
  - rewrite (AG x) by (left; reflexivity).
    apply existsb_ext_in. intros z _. apply IHf. intros y Hy. apply AG. right. exact Hy.
  - rewrite (AG x) by (left; reflexivity).
    apply forallb_ext_in. intros z _. apply IHf. intros y Hy. apply AG. right. exact Hy.
Qed.

Definition declared (c : ctx) (x : string) : Prop := In x (names (ctx_decls c)).

Lemma names_ctx_decls : forall c, names (ctx_decls c) = map vd_name (c_vars c).
Proof. intros c. unfold names, ctx_decls. rewrite map_map. reflexivity. Qed.

Lemma restrict_names : forall ds xs x,
  In x (names ds) -> In x xs -> In x (names (restrict_decls ds xs)).
Proof.
  intros ds xs x Hn Hx. apply names_In in Hn. destruct Hn as [dom Hd].
  eapply In_names. apply restrict_In. split; eauto.
Qed.

(* add_faithful: the predicate stored by `add_expr` denotes the integer
   semantics of the formula, on every valuation inside the declared ranges *)
Theorem add_faithful : forall c f c' h v,
  NoDup (names (ctx_decls c)) ->
  (forall x, In x (fvars f) -> declared c x) ->
  step1 c (OAdd f) = (c', Handle h) ->
  in_dom (ctx_decls c) v ->
  exists e, nth_error (c_store c') h = Some e /\
            denote e v = sem (ranges c) v f.
Proof.
  intros c f c' h v ND DECL H ID. simpl in H. injection H as <- <-. simpl.
  eexists. split.
  - rewrite nth_error_app2 by lia. rewrite Nat.sub_diag. reflexivity.
  - apply mk_entry_faithful; [exact ND| |exact ID].
    intros v1 v2 AG. apply sem_agree. intros y Hy. apply AG.
    apply restrict_names; [apply DECL, Hy|exact Hy].
Qed.

(* history_independent: adding the same formula later, in a context that
   has grown, gives the same meaning *)
Lemma find_var_ranges : forall c c' x,
  extends c c' -> In x (map vd_name (c_vars c)) -> ranges c' x = ranges c x.
Proof.
  intros c c' x [[l E] _] H. unfold ranges. rewrite E.
  destruct (find_var x (c_vars c)) as [d|] eqn:F.
  - rewrite (find_var_app _ _ l _ F). reflexivity.
  - exfalso. clear - F H. induction (c_vars c) as [|d vs IH]; simpl in *; [contradiction|].
    destruct (String.eqb x (vd_name d)) eqn:E; [discriminate|].
    destruct H as [H|H]; [subst; rewrite String.eqb_refl in E; discriminate|auto].
Qed.

Theorem history_independent : forall c c' f v,
  extends c c' ->
  (forall x, In x (bvars f) -> declared c x) ->
  sem (ranges c') v f = sem (ranges c) v f.
Proof.
  intros c c' f v EX DECL. apply sem_rng_agree. intros x Hx.
  apply find_var_ranges; [exact EX|]. rewrite <- names_ctx_decls. apply DECL, Hx.
Qed.

(* ------------------------------------------------------------ idempotent *)
Lemma nth_error_snoc : forall (A : Type) (l : list A) a,
  nth_error (l ++ [a]) (List.length l) = Some a.
Proof. intros. rewrite nth_error_app2 by lia. rewrite Nat.sub_diag. reflexivity. Qed.

Lemma nth_error_keep : forall (A : Type) (l : list A) a h x,
  nth_error l h = Some x -> nth_error (l ++ [a]) h = Some x.
Proof.
  intros A l a h x H. rewrite nth_error_app1; [exact H|].
  apply nth_error_Some. congruence.
Qed.

Definition pushed (c : ctx) (e : entry) : ctx :=
  {| c_vars := c_vars c; c_store := (c_store c ++ [e])%list |}.

Lemma mk_entry_pushed : forall c e xs p,
  mk_entry (pushed c e) xs p = mk_entry c xs p.
Proof. reflexivity. Qed.

Lemma ranges_pushed : forall c e, ranges (pushed c e) = ranges c.
Proof. reflexivity. Qed.

(* repeating an operation that returned a predicate returns the same
   predicate (the same stored table) again *)
Theorem idempotent : forall c o c1 h1 c2 h2,
  step1 c o = (c1, Handle h1) -> step1 c1 o = (c2, Handle h2) ->
  nth_error (c_store c2) h2 = nth_error (c_store c1) h1.
Proof.
  intros c o c1 h1 c2 h2 H1 H2.
  destruct o; simpl in H1.
  - (* declare never returns a handle *)
    unfold declare in H1. destruct (forallb _ ds); discriminate.
  - injection H1 as <- <-. simpl in H2. injection H2 as <- <-. simpl.
    rewrite !nth_error_snoc. reflexivity.
  - unfold with_handle in H1. destruct (nth_error (c_store c) h) as [e|] eqn:N; [|discriminate].
    simpl in H1. injection H1 as <- <-. simpl in H2. unfold with_handle in H2. simpl in H2.
    rewrite (nth_error_keep _ _ _ _ _ N) in H2. simpl in H2. injection H2 as <- <-. simpl.
    rewrite !nth_error_snoc. reflexivity.
  - unfold with_handle in H1. destruct (nth_error (c_store c) h) as [e|] eqn:N; [|discriminate].
    simpl in H1. injection H1 as <- <-. simpl in H2. unfold with_handle in H2. simpl in H2.
    rewrite (nth_error_keep _ _ _ _ _ N) in H2. simpl in H2. injection H2 as <- <-. simpl.
    rewrite !nth_error_snoc. reflexivity.
  - unfold with_handle in H1. destruct (nth_error (c_store c) h) as [e|] eqn:N; [|discriminate].
    simpl in H1. injection H1 as <- <-. simpl in H2. unfold with_handle in H2. simpl in H2.
    rewrite (nth_error_keep _ _ _ _ _ N) in H2. simpl in H2. injection H2 as <- <-. simpl.
    rewrite !nth_error_snoc. reflexivity.
  - unfold with_handle in H1. destruct (nth_error (c_store c) h) as [e|] eqn:N; [|discriminate].
    simpl in H1. injection H1 as <- <-. simpl in H2. unfold with_handle in H2. simpl in H2.
    rewrite (nth_error_keep _ _ _ _ _ N) in H2. simpl in H2. injection H2 as <- <-. simpl.
    rewrite !nth_error_snoc. reflexivity.
  - unfold with_handle in H1. destruct (nth_error (c_store c) h) as [e|] eqn:N; [|discriminate].
    simpl in H1. injection H1 as <- <-. simpl in H2. unfold with_handle in H2. simpl in H2.
    rewrite (nth_error_keep _ _ _ _ _ N) in H2. simpl in H2. injection H2 as <- <-. simpl.
    rewrite !nth_error_snoc. reflexivity.
  - unfold with_handle in H1.
    destruct (nth_error (c_store c) h0) as [e1|] eqn:N1; [|discriminate].
    destruct (nth_error (c_store c) h3) as [e2|] eqn:N2; [|discriminate].
    simpl in H1. injection H1 as <- <-. simpl in H2. unfold with_handle in H2. simpl in H2.
    rewrite (nth_error_keep _ _ _ _ _ N1), (nth_error_keep _ _ _ _ _ N2) in H2.
    simpl in H2. injection H2 as <- <-. simpl.
    rewrite !nth_error_snoc. reflexivity.
  - unfold with_handle in H1.
    destruct (nth_error (c_store c) h0) as [e1|] eqn:N1; [|discriminate].
    destruct (nth_error (c_store c) h3) as [e2|] eqn:N2; [|discriminate].
    simpl in H1. injection H1 as <- <-. simpl in H2. unfold with_handle in H2. simpl in H2.
    rewrite (nth_error_keep _ _ _ _ _ N1), (nth_error_keep _ _ _ _ _ N2) in H2.
    simpl in H2. injection H2 as <- <-. simpl.
    rewrite !nth_error_snoc. reflexivity.
  - (* to_expr: both results are the entry of the argument *)
    destruct (nth_error (c_store c) h) as [e|] eqn:N; [|discriminate].
    assert (D := declare_extends c (aux_decls c xs)).
    destruct (declare c (aux_decls c xs)) as [c' o'] eqn:E1. simpl in D.
    assert (O : o' = Done \/ o' = Refused).
    { unfold declare in E1. destruct (forallb _ (aux_decls c xs)); injection E1 as _ <-; auto. }
    destruct O as [-> | ->]; [|discriminate]. unfold push in H1. injection H1 as <- <-.
    destruct D as [_ [l EL]].
    simpl in H2.
    assert (N' : nth_error (c_store c' ++ [e]) h = Some e).
    { apply nth_error_keep. rewrite EL. rewrite nth_error_app1; [exact N|].
      apply nth_error_Some. congruence. }
    rewrite N' in H2.
    set (c1' := {| c_vars := c_vars c'; c_store := (c_store c' ++ [e])%list |}) in *.
    destruct (declare c1' (aux_decls c1' xs)) as [c'' o''] eqn:E2.
    assert (O : o'' = Done \/ o'' = Refused).
    { unfold declare in E2. destruct (forallb _ _); injection E2 as _ <-; auto. }
    destruct O as [-> | ->]; [|discriminate]. unfold push in H2. injection H2 as <- <-. simpl.
    rewrite !nth_error_snoc. reflexivity.
  - discriminate.
Qed.

(* non-vacuity: a run in which a conflicting declaration is refused and an
   earlier predicate keeps its table while the context grows *)
Definition ex_x : vdecl := {| vd_name := "x"; vd_hint := HInt 0 3; vd_vals := [0; 1; 2; 3]%Z |}.
Definition ex_x' : vdecl := {| vd_name := "x"; vd_hint := HInt 0 7; vd_vals := [0; 1; 2; 3; 4; 5; 6; 7]%Z |}.
Definition ex_y : vdecl := {| vd_name := "y"; vd_hint := HBool; vd_vals := [0; 1]%Z |}.
Definition ex_ops : list wop :=
  [WOp false (ODeclare [ex_x]);
   WOp false (OAdd (FCmp Lt (TVar "x") (TConst 2)));
   WOp false (ODeclare [ex_x']);
   WOp false (ODeclare [ex_y]);
   WOp false (OToExpr ["x"] 0);
   WOp false (OAdd (FCmp Lt (TVar "x") (TConst 2)))].

Example history_example :
  snd (wrun {| w0 := empty_ctx; w1 := empty_ctx |} ex_ops)
  = [Done; Handle 0; Refused; Done; Handle 1; Handle 2] /\
  let c := w0 (fst (wrun {| w0 := empty_ctx; w1 := empty_ctx |} ex_ops)) in
  nth_error (c_store c) 0 = nth_error (c_store c) 1 /\
  nth_error (c_store c) 0 = nth_error (c_store c) 2 /\
  List.length (c_vars c) = 10.
Proof. vm_compute. repeat split; reflexivity. Qed.
