(* L1 / Circuits: the arithmetic circuits of omega/logic/bitvector.py as
   functions on concrete bit vectors.

   A bit vector is a [list bool], little-endian, LAST bit = sign (two's
   complement), exactly the lists of bit formulas that bitvector.py passes
   around, evaluated under one assignment of the bits.  Every definition here
   has the topology of the Python function of the same name (same width
   equalisation, same carry chain, same stage recursion); the memory-buffer
   addressing ([$ n ...], [? i]) of the emitted prefix string is not
   represented: a memory cell is the value it holds.

   No proofs here (see CircuitsProofs.v). *)
From Coq Require Import ZArith List Bool.
Import ListNotations.
Open Scope Z_scope.

Definition b2z (b : bool) : Z := if b then 1 else 0.

(* unsigned value of a little-endian vector *)
Fixpoint uval (l : list bool) : Z :=
  match l with
  | [] => 0
  | b :: r => b2z b + 2 * uval r
  end.

(* bitvector.twos_complement_to_int: last bit is the sign bit *)
Fixpoint sval (l : list bool) : Z :=
  match l with
  | [] => 0
  | [s] => - b2z s
  | b :: r => b2z b + 2 * sval r
  end.

(* bitvector.sign: x[-1] *)
Definition sign (x : list bool) : bool := last x false.

(* bitvector.sign_extension (the assertions 2 <= len(x) <= n < 32 are
   checked by the compiler model, L2) *)
Definition sign_extension (x : list bool) (n : nat) : list bool :=
  x ++ repeat (sign x) (n - length x).

(* bitvector.equalize_width *)
Definition equalize_width (x y : list bool) (extend_by : nat)
  : list bool * list bool :=
  let n := (Nat.max (length x) (length y) + extend_by)%nat in
  (sign_extension x n, sign_extension y n).

(* bitvector.pad *)
Definition pad (x : list bool) (n : nat) : list bool :=
  x ++ repeat false (n - length x).

(* bitvector.fixed_shift(x, c, left=True) with truncation *)
Definition fixed_shift_left (x : list bool) (c : nat) : list bool :=
  repeat false c ++ firstn (length x - c) x.

(* bitvector.truncate *)
Definition truncate (x : list bool) (n : nat) : list bool := firstn n x.

(* the full-adder chain of adder_subtractor:
     result_i = a_i ^ b_i ^ carry_i
     carry_{i+1} = (a_i & b_i) | ((a_i ^ b_i) & carry_i)  *)
Fixpoint ripple (p q : list bool) (c : bool) : list bool * bool :=
  match p, q with
  | a :: p', b :: q' =>
      let s := xorb (xorb a b) c in
      let c' := (a && b) || (xorb a b && c) in
      let '(r, cf) := ripple p' q' c' in (s :: r, cf)
  | _, _ => ([], c)
  end.

(* bitvector.adder_subtractor: (result, carry) *)
Definition adder_subtractor (x y : list bool) (add : bool) (extend_by : nat)
  : list bool * bool :=
  let '(p, q) := equalize_width x y extend_by in
  if add then ripple p q false else ripple p (map negb q) true.

(* bitvector.less_than: "^ ! ^ p[-1] q[-1] carry" on the (equal-width)
   operands, carry of p - q with one extension bit *)
Definition less_than (p q : list bool) : bool :=
  let '(_, carry) := adder_subtractor p q false 1 in
  xorb (negb (xorb (sign p) (sign q))) carry.

(* bitvector.inequality: "| ^ a b | ^ a b ... 0" *)
Fixpoint inequality (p q : list bool) : bool :=
  match p, q with
  | a :: p', b :: q' => xorb a b || inequality p' q'
  | _, _ => false
  end.

(* bitvector.flatten_comparator after parsing; [CLe] covers both spellings
   "<=" and "=<" (repair F11) *)
Inductive cmp := CLt | CLe | CEq | CNe | CGe | CGt.

Definition comparator (o : cmp) (x y : list bool) : bool :=
  let '(p, q) := equalize_width x y 0 in
  match o with
  | CEq => negb (inequality p q)
  | CNe => inequality p q
  | CLt => less_than p q
  | CLe => negb (less_than q p)
  | CGt => less_than q p
  | CGe => negb (less_than p q)
  end.

(* the unrepaired flatten_comparator treats "=<" like ">=" (finding F11) *)
Definition comparator_old_eqless (x y : list bool) : bool :=
  let '(p, q) := equalize_width x y 0 in negb (less_than p q).

(* bitvector.ite_function: cell_i = (b_i & a) | (c_i & !a) *)
Fixpoint ite_function (a : bool) (b c : list bool) : list bool :=
  match b, c with
  | p :: b', q :: c' => ((p && a) || (q && negb a)) :: ite_function a b' c'
  | _, _ => []
  end.

(* bitvector.ite_connective *)
Definition ite_connective (a b c : bool) : bool := (b && a) || (c && negb a).

(* bitvector._negate_if: one bit wider than x *)
Definition negate_if (guard : bool) (x : list bool) : list bool :=
  let n := length x in
  let zero := pad [false] n in
  let '(neg_x, _) := adder_subtractor zero x false 1 in
  let ext_x := sign_extension x (n + 1) in
  ite_function guard neg_x ext_x.

(* bitvector.abs_ *)
Definition abs_ (x : list bool) : list bool := negate_if (sign x) x.

(* bitvector._multiplier: [mult_stages x y k] is the result of stage k-1
   (k = 0 is the base stage -1) *)
Fixpoint mult_stages (x y : list bool) (k : nat) : list bool :=
  match k with
  | O => repeat false (length x)
  | S k' =>
      let mul_res := mult_stages x y k' in
      let shifted_x := fixed_shift_left x k' in
      let b := nth k' y false in
      let z := map (fun a => a && b) shifted_x in
      fst (adder_subtractor mul_res z true 0)
  end.

(* bitvector.multiplier (the truncation to ALU_BITWIDTH is unreachable:
   sign_extension asserts n < 32 first; L2 models that guard) *)
Definition multiplier (x y : list bool) : list bool :=
  let nx := length x in
  let ny := length y in
  let '(p, q) := equalize_width x y (Nat.min nx ny) in
  mult_stages p q (length q).

(* bitvector._restoring_divider for operands x, y of the same width n,
   y already padded to 2n and shifted left by n:
   [div_stages x y n k] = (quotient bits so far, partial remainder) after
   stage k-1; quo.insert(0, q) puts the newest bit first = least
   significant *)
Fixpoint div_stages (x y : list bool) (n k : nat) : list bool * list bool :=
  match k with
  | O => ([], pad x (2 * n))
  | S k' =>
      let '(quo, p) := div_stages x y n k' in
      let shifted_p := fixed_shift_left p 1 in
      let '(r, _) := adder_subtractor shifted_p y false 0 in
      let q := negb (sign r) in
      (q :: quo, ite_function q r shifted_p)
  end.

Definition restoring_divider_pos (x y : list bool) : list bool * list bool :=
  let n := length x in
  let y2 := fixed_shift_left (pad y (2 * n)) n in
  let '(quo, rem) := div_stages x y2 n n in
  (quo, skipn n rem).

(* bitvector.restoring_divider WITH the repair F1 (equalize the widths of
   |x| and |y| before dividing): (quotient, remainder) *)
Definition restoring_divider (x y : list bool) : list bool * list bool :=
  let a := abs_ x in
  let b := abs_ y in
  let '(a, b) := equalize_width a b 0 in
  let '(quo, rem) := restoring_divider_pos a b in
  let x_sign := sign x in
  let y_sign := sign y in
  (negate_if (xorb x_sign y_sign) quo, negate_if x_sign rem).

(* the unrepaired function (finding F1): the register is sized by the
   dividend only.  (pad asserts n > len(x) in the code; here it is total.) *)
Definition restoring_divider_old (x y : list bool) : list bool * list bool :=
  let a := abs_ x in
  let b := abs_ y in
  let '(quo, rem) := restoring_divider_pos a b in
  let x_sign := sign x in
  let y_sign := sign y in
  (negate_if (xorb x_sign y_sign) quo, negate_if x_sign rem).

(* bitvector.int_to_twos_complement *)
Fixpoint to_bits (n : nat) (z : Z) : list bool :=
  match n with
  | O => []
  | S n' => Z.odd z :: to_bits n' (Z.div2 z)
  end.

(* Python int.bit_length *)
Definition bit_length (z : Z) : nat :=
  match Z.abs z with
  | Z0 => O
  | a => Z.to_nat (Z.log2 a + 1)
  end.

Definition int_to_twos_complement (z : Z) : list bool :=
  let n := bit_length z in
  to_bits (Nat.max n 1) z ++ [z <? 0].
