(* L0 / BitsProofs: facts about the bit-vector model of Bits.v. *)
From Coq Require Import ZArith List Bool Lia.
From Omega Require Import L0Bits.Bits.
Import ListNotations.
Open Scope Z_scope.

(* --- bit_length ------------------------------------------------------------ *)
Lemma bit_length_nonneg z : 0 <= bit_length z.
Proof.
  unfold bit_length. destruct (z =? 0); [lia|].
  pose proof (Z.log2_nonneg (Z.abs z)). lia.
Qed.

Lemma bit_length_zero z : bit_length z = 0 <-> z = 0.
Proof.
  unfold bit_length. destruct (Z.eqb_spec z 0); split; intros; try lia.
  pose proof (Z.log2_nonneg (Z.abs z)). lia.
Qed.

Lemma bit_length_abs z : bit_length (Z.abs z) = bit_length z.
Proof.
  unfold bit_length. rewrite Z.abs_involutive.
  destruct (Z.eqb_spec z 0), (Z.eqb_spec (Z.abs z) 0); lia.
Qed.

Lemma bit_length_opp z : bit_length (- z) = bit_length z.
Proof. rewrite <- bit_length_abs, Z.abs_opp. apply bit_length_abs. Qed.

Lemma bit_length_upper z : Z.abs z < 2 ^ bit_length z.
Proof.
  unfold bit_length. destruct (Z.eqb_spec z 0).
  - subst. simpl. lia.
  - assert (0 < Z.abs z) by lia.
    pose proof (Z.log2_spec (Z.abs z) H).
    replace (Z.log2 (Z.abs z) + 1) with (Z.succ (Z.log2 (Z.abs z))) by lia. lia.
Qed.

Lemma bit_length_lower z : z <> 0 -> 2 ^ (bit_length z - 1) <= Z.abs z.
Proof.
  intro n. unfold bit_length. destruct (Z.eqb_spec z 0); [lia|].
  assert (0 < Z.abs z) by lia.
  pose proof (Z.log2_spec (Z.abs z) H).
  replace (Z.log2 (Z.abs z) + 1 - 1) with (Z.log2 (Z.abs z)) by lia. lia.
Qed.

Lemma bit_length_mono a b : 0 <= a <= b -> bit_length a <= bit_length b.
Proof.
  intros [Ha Hab]. unfold bit_length.
  destruct (Z.eqb_spec a 0), (Z.eqb_spec b 0); try lia.
  - pose proof (Z.log2_nonneg (Z.abs b)). lia.
  - rewrite !Z.abs_eq by lia. pose proof (Z.log2_le_mono a b Hab). lia.
Qed.

(* --- uval / sval ----------------------------------------------------------- *)
Lemma b2z_range b : 0 <= Z.b2z b <= 1.
Proof. destruct b; simpl; lia. Qed.

Lemma uval_range l : 0 <= uval l < 2 ^ Z.of_nat (length l).
Proof.
  induction l as [|b r IH].
  - simpl. lia.
  - cbn [uval length]. rewrite Nat2Z.inj_succ, Z.pow_succ_r by lia.
    pose proof (b2z_range b). lia.
Qed.

Lemma uval_app l s :
  uval (l ++ [s]) = uval l + Z.b2z s * 2 ^ Z.of_nat (length l).
Proof.
  induction l as [|b r IH].
  - simpl. change (2 ^ 0) with 1. lia.
  - cbn [app uval length]. rewrite IH, Nat2Z.inj_succ, Z.pow_succ_r by lia. lia.
Qed.

Lemma sval_app_sign l s :
  sval (l ++ [s]) = uval l - Z.b2z s * 2 ^ Z.of_nat (length l).
Proof.
  unfold twos_complement_to_int.
  rewrite removelast_last, last_last, app_length. cbn [length].
  replace (Z.of_nat (length l + 1) - 1) with (Z.of_nat (length l)) by lia. lia.
Qed.

Lemma sval_single s : sval [s] = - Z.b2z s.
Proof. change [s] with ([] ++ [s]). rewrite sval_app_sign. simpl. change (2 ^ 0) with 1. lia. Qed.

Lemma sval_cons b r : r <> [] -> sval (b :: r) = Z.b2z b + 2 * sval r.
Proof.
  intro Hr. destruct (exists_last Hr) as [l [s ->]].
  change (b :: l ++ [s]) with ((b :: l) ++ [s]).
  rewrite !sval_app_sign. cbn [uval length].
  rewrite Nat2Z.inj_succ, Z.pow_succ_r by lia. lia.
Qed.

Lemma sval_range l : l <> [] ->
  - 2 ^ (Z.of_nat (length l) - 1) <= sval l < 2 ^ (Z.of_nat (length l) - 1).
Proof.
  intro Hl. destruct (exists_last Hl) as [r [s ->]].
  rewrite sval_app_sign, app_length. cbn [length].
  replace (Z.of_nat (length r + 1) - 1) with (Z.of_nat (length r)) by lia.
  pose proof (uval_range r). pose proof (b2z_range s).
  destruct s; simpl Z.b2z in *; lia.
Qed.

(* --- zbits ---------------------------------------------------------------- *)
Lemma zbits_length n z : length (zbits n z) = n.
Proof. revert z; induction n; intros; simpl; auto. Qed.

Lemma div2_odd z : z = 2 * Z.div2 z + Z.b2z (Z.odd z).
Proof. apply Z.div2_odd. Qed.

Lemma uval_zbits n z : uval (zbits n z) = z mod 2 ^ Z.of_nat n.
Proof.
  revert z; induction n; intros.
  - simpl. change (2 ^ 0) with 1. rewrite Z.mod_1_r. reflexivity.
  - cbn [zbits uval]. rewrite IHn, Nat2Z.inj_succ, Z.pow_succ_r by lia.
    assert (Hp : 0 < 2 ^ Z.of_nat n) by (apply Z.pow_pos_nonneg; lia).
    rewrite Z.rem_mul_r by lia.
    rewrite Z.div2_div.
    replace (z mod 2) with (Z.b2z (Z.odd z)).
    2:{ rewrite Zmod_odd. destruct (Z.odd z); reflexivity. }
    lia.
Qed.

Lemma zbits_nth n z i : (i < n)%nat ->
  nth i (zbits n z) false = Z.testbit z (Z.of_nat i).
Proof.
  revert z i; induction n; intros z i Hi; [lia|].
  destruct i.
  - simpl. symmetry. apply Z.bit0_odd.
  - cbn [zbits nth]. rewrite IHn by lia.
    rewrite Nat2Z.inj_succ, <- Z.div2_bits, Z.div2_div by lia. reflexivity.
Qed.

Lemma zbits_snoc n z :
  zbits (S n) z = zbits n z ++ [Z.testbit z (Z.of_nat n)].
Proof.
  revert z; induction n; intros.
  - cbn [zbits app Z.of_nat]. rewrite Z.bit0_odd. reflexivity.
  - change (zbits (S (S n)) z) with (Z.odd z :: zbits (S n) (Z.div2 z)).
    rewrite IHn. cbn [zbits app]. f_equal. f_equal. f_equal.
    rewrite Nat2Z.inj_succ, <- Z.div2_bits, Z.div2_div by lia. reflexivity.
Qed.

(* signed: the n low bits of z, read as two's complement, give back z *)
Lemma sval_zbits n z : (1 <= n)%nat ->
  - 2 ^ (Z.of_nat n - 1) <= z < 2 ^ (Z.of_nat n - 1) ->
  sval (zbits n z) = z.
Proof.
  revert z; induction n; intros z Hn Hz; [lia|].
  destruct n.
  - simpl in Hz. change (2 ^ 0) with 1 in Hz.
    cbn [zbits]. rewrite sval_single.
    assert (z = 0 \/ z = -1) as [-> | ->] by lia; reflexivity.
  - cbn [zbits]. rewrite sval_cons by discriminate.
    change (Z.odd (Z.div2 z) :: zbits n (Z.div2 (Z.div2 z)))
      with (zbits (S n) (Z.div2 z)).
    rewrite IHn; [symmetry; rewrite Z.add_comm; apply div2_odd | lia |].
    replace (Z.of_nat (S (S n)) - 1) with (Z.succ (Z.of_nat (S n) - 1)) in Hz by lia.
    rewrite Z.pow_succ_r in Hz by lia.
    pose proof (div2_odd z). pose proof (b2z_range (Z.odd z)). lia.
Qed.

Lemma zbits_sval l : l <> [] -> zbits (length l) (sval l) = l.
Proof.
  induction l as [|b r IH]; intro Hl; [congruence|].
  destruct r as [|c r'].
  - rewrite sval_single. destruct b; reflexivity.
  - rewrite sval_cons by discriminate.
    cbn [length zbits].
    assert (Ho : Z.odd (Z.b2z b + 2 * sval (c :: r')) = b).
    { rewrite Z.odd_add_mul_2. destruct b; reflexivity. }
    assert (Hd : Z.div2 (Z.b2z b + 2 * sval (c :: r')) = sval (c :: r')).
    { rewrite Z.div2_div. generalize (sval (c :: r')); intro x.
      replace (Z.b2z b + 2 * x) with (x * 2 + Z.b2z b) by lia.
      rewrite Z.div_add_l by lia.
      destruct b; [change (Z.b2z true / 2) with 0 | change (Z.b2z false / 2) with 0]; lia. }
    rewrite Ho, Hd. f_equal.
    change (Z.odd (sval (c :: r')) :: zbits (length r') (Z.div2 (sval (c :: r'))))
      with (zbits (length (c :: r')) (sval (c :: r'))).
    apply IH. discriminate.
Qed.

Lemma sval_inj l1 l2 : l1 <> [] -> length l1 = length l2 ->
  sval l1 = sval l2 -> l1 = l2.
Proof.
  intros H1 Hlen Hv.
  assert (H2 : l2 <> []) by (destruct l1, l2; simpl in *; congruence).
  rewrite <- (zbits_sval l1 H1), <- (zbits_sval l2 H2), Hlen, Hv. reflexivity.
Qed.

(* --- hints: the value map is a bijection from bit fields onto limits ------- *)
Lemma pow2_pos n : 0 <= n -> 0 < 2 ^ n.
Proof. intros; apply Z.pow_pos_nonneg; lia. Qed.

Lemma wnat_width h : wf_hint h -> Z.of_nat (wnat h) = h_width h.
Proof. intros [H _]. unfold wnat. lia. Qed.

Lemma append_sign_bit_signed {A} (z o : A) bits h :
  h_signed h = true -> (2 <= length bits)%nat ->
  append_sign_bit z o bits h = Some bits.
Proof.
  intros Hs Hl. unfold append_sign_bit. rewrite Hs.
  destruct (Nat.ltb_spec (length bits) 2); [lia|reflexivity].
Qed.

Lemma append_sign_bit_unsigned {A} (z o : A) bits h :
  wf_hint h -> h_signed h = false ->
  append_sign_bit z o bits h =
    Some (bits ++ [if fst (h_dom h) >=? 0 then z else o]).
Proof.
  intros (Hw & _ & Hd & Hle) Hs. specialize (Hd Hs).
  unfold append_sign_bit. rewrite Hs. destruct (h_dom h) as [mn mx].
  simpl in *.
  destruct (Z.ltb_spec (mn * mx) 0) as [Hm|Hm]; [nia|].
  destruct (Z.geb_spec mn 0); [reflexivity|].
  destruct (Z.ltb_spec mx 0); [reflexivity|lia].
Qed.

(* every bit field of the declared width has a value, inside the limits, and
   the field is recovered from the value *)
Theorem decode_in_limits h bits : wf_hint h -> length bits = wnat h ->
  exists z, decode_val h bits = Some z /\ in_limits h z = true /\
            encode_val h z = bits.
Proof.
  intros Hwf Hlen. pose proof (wnat_width h Hwf) as Hw.
  destruct Hwf as (Hw1 & Hs2 & Hd & Hle).
  unfold decode_val, in_limits, limits_of, encode_val.
  destruct (h_signed h) eqn:Hs.
  - specialize (Hs2 eq_refl).
    rewrite append_sign_bit_signed by (auto; lia).
    exists (sval bits). split; [reflexivity|].
    assert (Hne : bits <> []) by (destruct bits; simpl in *; [lia|discriminate]).
    pose proof (sval_range bits Hne) as Hr. rewrite Hlen, Hw in Hr.
    split.
    + cbn [fst snd]. apply andb_true_iff; split; apply Z.leb_le; lia.
    + rewrite <- Hlen. apply zbits_sval; auto.
  - rewrite append_sign_bit_unsigned by (repeat split; auto).
    specialize (Hd eq_refl).
    exists (sval (bits ++ [if fst (h_dom h) >=? 0 then false else true])).
    split; [reflexivity|].
    rewrite sval_app_sign. pose proof (uval_range bits) as Hr.
    rewrite Hlen, Hw in *.
    destruct (Z.geb_spec (fst (h_dom h)) 0); cbn [fst snd Z.b2z].
    + split; [apply andb_true_iff; split; apply Z.leb_le; lia|].
      rewrite Z.mul_0_l, Z.sub_0_r.
      apply nth_ext with (d := false) (d' := false); rewrite zbits_length; auto.
      intros i Hi. rewrite zbits_nth by auto.
      rewrite <- (Z.mod_small (uval bits) (2 ^ h_width h)) at 1 by lia.
      rewrite <- Hw, <- (uval_zbits (wnat h)).
  Abort.
