"""C12 — enumerated state machine is an input-complete sub-machine."""
from vlib import core, games, gr1games, transducers, games_enum_gen
from vlib.core import Broken, Mismatch, Failing
from vlib.gr1games import QINITS

ID = 'C12'
LEVEL = 'proof'
THEORIES = ['theories/L4Enum/EnumProofs.vo', 'theories/L4/Tables.vo',
            'theories/L4Enum/EnumOrderProofs.vo',
            'theories/L4Enum/EnumArenaProofs.vo',
            'theories/L4Enum/EnumContracts.vo',
            'theories/L4Enum/EnumCode.vo',
            'theories/L4Enum/EnumCodeProofs.vo']

HEADER = '''From Coq Require Import List Bool Arith.
Import ListNotations.
From Omega Require Import L4.Tables L4Enum.EnumModel.
Definition tabE (ny : nat) (t : list (list bool)) (x y x' : nat) : bool :=
  nth (x' * ny) (nth (x * ny + y) t []) false.
Definition tabS (ny : nat) (t : list (list bool)) (x y x' y' : nat) : bool :=
  nth (x' * ny + y') (nth (x * ny + y) t []) false.
'''


def prove(ctx):
    with ctx.coq_lock():
        # tie T: regenerate gen/GamesEnumGen.v from the current
        # omega/games/enumeration.py, then re-prove GenProofs/GamesEnumBridge.v
        # (generated code = code-level model L4Enum/EnumCode.v, by
        # conversion; the C12 theorems restated about the generated
        # functions) and the statements of Properties/C12.v built on it
        notes = games_enum_gen.ensure_games_enum(ctx)
        ctx.checker_cmds.append(
            'PYTHONPATH=tools python3 tools/vlib/games_enum_gen.py > '
            'coq/gen/GamesEnumGen.v (translator tools/py2coq_games_enum.py)')
        ctx.prove_with_deps('Properties/C12.v')
    ctx.extra['translation'] = dict(
        source=games_enum_gen.SRC, functions=games_enum_gen.FUNCTIONS,
        not_translated=games_enum_gen.NOT_TRANSLATED,
        generated='coq/' + games_enum_gen.GENERATED,
        code_level_model='coq/theories/L4Enum/EnumCode.v',
        simulation='coq/theories/L4Enum/EnumCodeProofs.v',
        bridge='coq/GenProofs/GamesEnumBridge.v', notes=notes)
    ctx.trusted.append(
        'translator tie T: tools/py2coq_games_enum.py '
        '(enumeration.action_to_steps, _action_to_steps, '
        '_select_candidate_nodes, _primed_vars_per_quantifier, _init_search, '
        '_forall_init, _exist_init, _forall_exist_init, _exist_forall_init, '
        '_find_node, _add_new_node, _node_tuple -> Gallina over the arena '
        'algebra theories/L4Enum/EnumArena.v: BDDs = canonical tables of '
        'their meaning over the valuations, all variables of a player = one '
        'vector-valued variable, dicts = insertion-ordered association '
        'lists, networkx.DiGraph = nodes with attribute dicts + edge set + '
        'initial_nodes, any exception = None, `while` = recursion on fuel, '
        'loop state = the names live at the loop head, aliasing discipline '
        'checked; fails closed; everything skipped is a note in '
        'coq/gen/GamesEnumGen.v and in the evidence)')
    ctx.trusted.append(
        'hand-written abstract model theories/L4Enum/EnumModel.v; the '
        'translated code is tied to it by the simulation of '
        'L4Enum/EnumCodeProofs.v (code-level model L4Enum/EnumCode.v, proved '
        'EQUAL to the generated functions on every run). Remaining tie H: '
        'what the dd operations let/exist/forall/&/==/pick denote and '
        'enumeration._add_to_visited (a formula built as a string and '
        'parsed; taken as visited \\/ cube) - covered by evaluating the '
        'verified checker check_graph in Coq on the graphs returned by the '
        'real enumeration and by the explicit oracle for the initial nodes')
    ctx.assumptions.append(
        'domain: environment action independent of the component\'s next '
        'values; dd pick / pick_iter meet the contracts of '
        'L4Enum/EnumContracts.v for BDDs that depend only on care_vars '
        '(pick: a member assigning exactly care_vars; pick_iter: all '
        'members, each once; no order assumed; satisfiable: '
        'C12_pick_contracts_satisfiable)')


def make_handmade(rng, backend, moore):
    """Automaton with hand-made actions; returns dict or None."""
    decl = games.random_decl(rng, max_states=16, allow_const=False)
    ar = games.Arena(decl, backend)
    E = games.rand_table2(rng, ar, rng.choice([0.5, 0.8]), no_yp=True)
    # make the environment action non-blocking somewhere: fine either way
    dens = rng.choice([0.5, 0.8, 0.95])
    S = games.rand_table2(rng, ar, dens, no_xp=moore)
    EIcol = [rng.random() < 0.6 for _ in range(ar.nx)]
    if not any(EIcol):
        EIcol[0] = True
    SI = games.rand_table1(rng, ar, 0.6)
    aut = ar.aut
    aut.moore = moore
    aut.plus_one = True
    aut.varlist['impl'] = list(aut.varlist['sys'])
    aut.prime_varlists()
    EI = [EIcol[x] for (c, x, y) in ar.states()]
    aut.action['env'] = ar.bdd2(E)
    aut.action['impl'] = ar.bdd2(S)
    aut.init['env'] = ar.bdd1(EI)
    aut.init['impl'] = ar.bdd1(SI)
    return dict(kind='handmade', ear=ar, aut=aut, E=E, S=S, EIcol=EIcol,
                SI=SI, moore=moore, decl=decl, backend=backend)


def make_synth(rng, backend, moore, plus_one, q):
    """Synthesized Streett implementation (env action without y')."""
    for _ in range(8):
        g = gr1games.make_game(rng, backend, 8)
        ar = g['ar']
        if ar.nc != 1:
            continue
        # make the environment action independent of y'
        g['E'] = [[row[xp * ar.ny] for xp in range(ar.nx)
                   for yp in range(ar.ny)] for row in g['E']]
        EIcol = [rng.random() < 0.7 for _ in range(ar.nx)]
        if not any(EIcol):
            EIcol[0] = True
        g['EI'] = [EIcol[x] for (c, x, y) in ar.states()]
        g['SI'] = [True] * ar.ns
        r = transducers.build_streett(g, moore, plus_one, q)
        if r is None:
            continue
        ear = r['ear']
        from props.c02 import _c
        return dict(kind='synth', ear=ear, aut=r['aut'],
                    E=_c.lifted(g, r, tab2=g['E']), S=r['action'],
                    EIcol=EIcol, SI=r['init'], moore=moore, case=gr1games.case_of(g),
                    plus_one=plus_one)
    return None


def enumerate_real(inst, q):
    """Run the real enumeration; returns (nodes, edges, initial) as index
    pairs, or ('rejected', message)."""
    import omega.games.enumeration as enum
    ear, aut = inst['ear'], inst['aut']
    aut.qinit = q
    # the requested initial quantification must be satisfiable at all
    EI, SI = inst['EIcol'], inst['SI']
    si = lambda x, y: SI[ear.sidx(0, x, y)]
    X, Y = range(ear.nx), range(ear.ny)
    sat = {r'\A \A': True,
           r'\E \E': any(si(x, y) for x in X for y in Y),
           r'\A \E': all(any(si(x, y) for y in Y) for x in X if EI[x]),
           r'\E \A': any(all(si(x, y) for x in X) for y in Y)}[q]
    if not sat:
        return ('rejected', 'initial quantification unsatisfiable')
    try:
        with games.quiet():
            g = enum.action_to_steps(aut, 'env', 'impl', q)
    except AssertionError as e:
        return ('rejected', repr(e)[:200])
    xs = {tuple(sorted(v.items())): i for i, v in enumerate(ear.vals['env'])}
    ys = {tuple(sorted(v.items())): i for i, v in enumerate(ear.vals['sys'])}
    envn, sysn = ear.names['env'], ear.names['sys']
    ids = sorted(g.nodes)
    pos = {u: i for i, u in enumerate(ids)}
    nodes = []
    for u in ids:
        d = g.nodes[u]
        x = xs[tuple(sorted((k, d[k]) for k in envn))]
        y = ys[tuple(sorted((k, d[k]) for k in sysn))]
        nodes.append((x, y))
    edges = [(pos[a], pos[b]) for a, b in g.edges]
    initial = sorted(pos[u] for u in g.initial_nodes)
    return nodes, edges, initial


def init_oracle(inst, q, nodes, initial):
    """Initial nodes follow the requested qinit pattern (explicit check)."""
    ear = inst['ear']
    EI, SI = inst['EIcol'], inst['SI']
    ini = [nodes[i] for i in initial]
    si = lambda x, y: SI[ear.sidx(0, x, y)]
    if len(set(ini)) != len(ini):
        return 'duplicate initial nodes'
    if q == r'\A \A':
        exp = {(x, y) for x in range(ear.nx) for y in range(ear.ny)
               if EI[x] and si(x, y)}
        return None if set(ini) == exp else 'forall-forall: wrong initial set'
    if q == r'\E \E':
        return None if len(ini) == 1 and si(*ini[0]) else \
            'exists-exists: not exactly one SysInit state'
    if q == r'\A \E':
        ok = (sorted(x for x, _ in ini) == [x for x in range(ear.nx) if EI[x]]
              and all(si(x, y) for x, y in ini))
        return None if ok else 'forall-exists: not one SysInit state per EnvInit value'
    ys = {y for _, y in ini}
    ok = (len(ys) <= 1 and sorted(x for x, _ in ini) ==
          [x for x in range(ear.nx) if EI[x]] and
          all(si(x, y) for y in ys for x in range(ear.nx)))
    return None if ok else 'exists-forall: not a single y good for every x'


def graph_oracle(inst, nodes, edges):
    """Explicit check of C12's statement (used by search)."""
    ear = inst['ear']
    E, S = inst['E'], inst['S']
    if len(set(nodes)) != len(nodes):
        return 'two nodes with the same valuation'
    for a, b in edges:
        (x, y), (xp, yp) = nodes[a], nodes[b]
        s, j = ear.sidx(0, x, y), xp * ear.ny + yp
        if not (E[s][j] and S[s][j]):
            return f'edge {nodes[a]}->{nodes[b]} not allowed by both actions'
    for u, (x, y) in enumerate(nodes):
        s = ear.sidx(0, x, y)
        for xp in range(ear.nx):
            n = sum(1 for a, b in edges if a == u and nodes[b][0] == xp)
            want = 1 if E[s][xp * ear.ny] else 0
            if n != want:
                return (f'node {nodes[u]} has {n} edges for next env value '
                        f'{xp}, expected {want}')
    return None


def coq_term(inst, nodes, edges):
    ear = inst['ear']
    pr = lambda l: '[' + ';'.join(f'({a},{b})' for a, b in l) + ']'
    return (f'check_graph {ear.nx} {ear.ny} (tabE {ear.ny} {games.lit2(inst["E"])}) '
            f'(tabS {ear.ny} {games.lit2(inst["S"])}) '
            f'(mkG {pr(nodes)} [] {pr(edges)})')


def gen_instances(ctx, n):
    out = []
    for i in range(n):
        backend = 'cudd' if i % 2 else 'autoref'
        moore = bool(ctx.rng.getrandbits(1))
        if i % 3 == 0:
            inst = make_handmade(ctx.rng, backend, moore)
        else:
            inst = make_synth(ctx.rng, backend, moore,
                              bool(ctx.rng.getrandbits(1)),
                              ctx.rng.choice(QINITS))
        if inst:
            out.append(inst)
    return out


# ------------------------------------------- enumerate_state_machine (tie H)
def esm_case(rng, backend):
    """Random initial predicate and action over a small arena."""
    decl = games.random_decl(rng, max_states=12, allow_const=False)
    ar = games.Arena(decl, backend)
    init = games.rand_table1(rng, ar, rng.choice([0.1, 0.3]))
    if not any(init):
        init[rng.randrange(ar.ns)] = True
    act = games.rand_table2(rng, ar, rng.choice([0.05, 0.15, 0.3]))
    if not any(any(r) for r in act):
        act[0][0] = True
    return dict(kind='esm', decl=decl, backend=backend, init=init, action=act)


def esm_check(case):
    """enumerate_state_machine against explicit reachability: the nodes are
    exactly the valuations reachable from `init` by `action`, the edges exactly
    the action steps between them.  Returns a description of the difference
    or None (also None when the library refuses the input by assertion)."""
    import omega.games.enumeration as enum
    ar = games.Arena(case['decl'], case['backend'])
    aut = ar.aut
    init, act = case['init'], case['action']
    u, a = ar.bdd1(init), ar.bdd2(act)
    names = ar.names['env'] + ar.names['sys']
    try:
        g = enum.enumerate_state_machine(u, a, aut)
    except AssertionError as e:
        return None if (u == aut.false or a == aut.false) else \
            f'enumerate_state_machine raised {e!r}'
    keys = set()
    for _, d in g.nodes(data=True):
        keys |= set(d)
    if keys != set(names):
        # a variable outside the support of init and action is not part of
        # the node labels: compare on the projection
        names = [n for n in names if n in keys]
    st = ar.states()
    proj = lambda s: tuple(ar.state_dict(*s)[n] for n in names)
    reach = {i for i, s in enumerate(st) if init[ar.sidx(*s)]}
    frontier = list(reach)
    succ = {}
    while frontier:
        i = frontier.pop()
        c, x, y = st[i]
        out = set()
        for xp in range(ar.nx):
            for yp in range(ar.ny):
                if act[ar.sidx(c, x, y)][xp * ar.ny + yp]:
                    j = st.index((c, xp, yp))
                    out.add(j)
                    if j not in reach:
                        reach.add(j)
                        frontier.append(j)
        succ[i] = out
    exp_nodes = {proj(st[i]) for i in reach}
    exp_edges = {(proj(st[i]), proj(st[j])) for i in reach for j in succ[i]}
    got_nodes = [tuple(d[n] for n in names) for _, d in g.nodes(data=True)]
    if len(set(got_nodes)) != len(got_nodes):
        return 'two nodes carry the same valuation'
    lab = {k: tuple(d[n] for n in names) for k, d in g.nodes(data=True)}
    got_edges = {(lab[p], lab[q]) for p, q in g.edges()}
    if set(got_nodes) != exp_nodes:
        return (f'nodes differ from the reachable valuations: missing '
                f'{sorted(exp_nodes - set(got_nodes))[:3]}, spurious '
                f'{sorted(set(got_nodes) - exp_nodes)[:3]} (over {names})')
    if got_edges != exp_edges:
        return (f'edges differ from the action steps: missing '
                f'{sorted(exp_edges - got_edges)[:3]}, spurious '
                f'{sorted(got_edges - exp_edges)[:3]} (over {names})')
    return None


def correspond(ctx):
    n = 160 if ctx.thorough else 30
    terms, info = [], []
    rejected = graphs = 0
    nodes_total = 0
    mism = []
    kinds = {}
    sample = None
    for inst in gen_instances(ctx, n):
        for q in QINITS:
            r = enumerate_real(inst, q)
            if r[0] == 'rejected':
                rejected += 1
                continue
            nodes, edges, initial = r
            graphs += 1
            nodes_total += len(nodes)
            kinds[inst['kind']] = kinds.get(inst['kind'], 0) + 1
            bad = init_oracle(inst, q, nodes, initial)
            if bad:
                mism.append(Mismatch('initial nodes: ' + bad,
                                     case_of(inst, q), impl=dict(
                                         nodes=nodes, initial=initial),
                                     property_fails=True))
            terms.append(coq_term(inst, nodes, edges))
            info.append((inst, q, nodes, edges))
            if sample is None and len(nodes) > 2:
                sample = dict(case_of(inst, q), nodes=nodes, edges=edges,
                              initial=initial)
    res = ctx.eval_groups('corr', HEADER, [('', terms)], shard=12)
    for (inst, q, nodes, edges), ok in zip(info, res):
        if not ok:
            why = graph_oracle(inst, nodes, edges)
            mism.append(Mismatch(
                'verified checker rejects the enumerated graph: ' + str(why),
                case_of(inst, q), impl=dict(nodes=nodes, edges=edges),
                property_fails=True))
    n_esm = 400 if ctx.thorough else 60
    for i in range(n_esm):
        case = esm_case(ctx.rng, 'cudd' if i % 2 else 'autoref')
        try:
            bad = esm_check(case)
        except Exception as e:
            bad = f'raised {e!r}'
        if bad:
            mism.append(Mismatch('enumerate_state_machine: ' + bad, case,
                                 property_fails=True))
    ctx.extra['enumerate_state_machine'] = dict(
        cases=n_esm, rule='random initial predicates and actions over '
        'arenas of at most 12 valuations, both back ends; nodes = reachable '
        'valuations and edges = action steps, by explicit search (tie H only)')
    ctx.cov['evaluations'] += len(res) + n_esm
    ctx.cov['distinct_nontrivial'] += sum(
        1 for (_, _, nodes, _) in info if len(nodes) > 1)
    ctx.cov['rule'] = (
        'one third hand-made actions (random tables, environment action '
        'independent of y\', Moore components independent of x\'), two thirds '
        'Streett implementations synthesized by the real gr1 code; each '
        'enumerated by the real action_to_steps for the 4 qinit forms, Moore '
        'and Mealy, alternating back ends; the returned graph is checked by '
        'the verified check_graph evaluated in Coq and its initial nodes by '
        'an explicit oracle. Inputs the library rejects with its own '
        'assertion (component has no successor) are counted as rejected. '
        'non-trivial = graph with more than one node')
    ctx.cov['samples'] = [sample] if sample else []
    ctx.extra['correspondence'] = dict(
        graphs=graphs, rejected=rejected, nodes_total=nodes_total,
        by_kind=kinds, mismatches=len(mism))
    return mism


def case_of(inst, q):
    d = dict(kind=inst['kind'], qinit=q, moore=inst['moore'],
             E=inst['E'], S=inst['S'], EIcol=inst['EIcol'], SI=inst['SI'])
    if 'decl' in inst:
        d['decl'] = inst['decl']
        d['backend'] = inst['backend']
    if 'case' in inst:
        d['game'] = inst['case']
        d['plus_one'] = inst['plus_one']
    return d


def search(ctx, broken, mismatches):
    for m in mismatches:
        if m.property_fails:
            return [Failing(m.what, m.case, got=m.impl)]
    for inst in gen_instances(ctx, 120 if ctx.thorough else 40):
        for q in QINITS:
            r = enumerate_real(inst, q)
            if r[0] == 'rejected':
                continue
            nodes, edges, initial = r
            bad = graph_oracle(inst, nodes, edges) or \
                init_oracle(inst, q, nodes, initial)
            if bad:
                return [Failing(bad, case_of(inst, q),
                                got=dict(nodes=nodes, edges=edges,
                                         initial=initial))]
    return []


def rebuild_instance(case):
    """Instance from the case stored in a replay file."""
    moore = case['moore']
    if 'decl' in case:
        ar = games.Arena(case['decl'], case['backend'])
        aut = ar.aut
        aut.moore = moore
        aut.plus_one = True
        aut.varlist['impl'] = list(aut.varlist['sys'])
        aut.prime_varlists()
        EIcol = case['EIcol']
        EI = [EIcol[x] for (c, x, y) in ar.states()]
        aut.action['env'] = ar.bdd2(case['E'])
        aut.action['impl'] = ar.bdd2(case['S'])
        aut.init['env'] = ar.bdd1(EI)
        aut.init['impl'] = ar.bdd1(case['SI'])
        return dict(kind='handmade', ear=ar, aut=aut, E=case['E'], S=case['S'],
                    EIcol=EIcol, SI=case['SI'], moore=moore)
    if 'game' in case:
        g = gr1games.rebuild(case['game'])
        r = transducers.build_streett(g, moore, case['plus_one'], case['qinit'])
        if r is None:
            return None
        from props.c02 import _c
        return dict(kind='synth', ear=r['ear'], aut=r['aut'],
                    E=_c.lifted(g, r, tab2=g['E']), S=r['action'],
                    EIcol=case['EIcol'], SI=r['init'], moore=moore)
    return None


def replay(path):
    import json
    d = json.load(open(path))
    case = d.get('input') or d.get('case')
    if case and case.get('kind') == 'esm':
        bad = esm_check(case)
        print('still fails: ' + bad if bad else 'passes')
        return 1 if bad else 0
    if not case or 'qinit' not in case:
        print('no concrete input in replay file:', d.get('broken'))
        return 1
    inst = rebuild_instance(case)
    if inst is None:
        print('the instance cannot be rebuilt (construction refused)')
        return 2
    r = enumerate_real(inst, case['qinit'])
    if r[0] == 'rejected':
        print('passes (the enumeration rejects this input:', r[1], ')')
        return 0
    nodes, edges, initial = r
    bad = graph_oracle(inst, nodes, edges) or \
        init_oracle(inst, case['qinit'], nodes, initial)
    if bad:
        print('still fails:', bad)
        return 1
    print('passes')
    return 0
