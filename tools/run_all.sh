#!/bin/bash
# Run every registered quick (or $1 = thorough) check on the current tree.
cd /verif
tier=${1:-quick}
for id in $(python3 -c "import json; print(' '.join(c['property_id'] for c in json.load(open('MANIFEST.json'))['checks']))"); do
  s=$(date +%s)
  out=$(./check $id --tier $tier 2>&1)
  rc=$?
  e=$(( $(date +%s) - s ))
  v=$(echo "$out" | grep -c '^VIOLATION')
  k=$(echo "$out" | grep -c '^KNOWN-FINDING')
  echo "$id rc=$rc violations=$v known=$k ${e}s"
done
