(* Tie T for C13: the code generated on every run from
   omega/symbolic/codegen.py (gen/CodegenGen.v, by tools/py2coq_codegen.py)
   computes the hand-written model L7Codegen/{Bits,Dag,Render,Step}.v.

   int_to_bits: Leibniz (the generated function returns Some of the model's
   list of bits, for all x and width).
   The emitter (_latch_name, _latch_ref, _register_nodes, _collect_layers,
   _comment_level, _dumps_node, _dumps_layer, _append_sep,
   dumps_bdd_as_code): the generated code returns the TOKEN LIST
   Render.render lays out for the program Dag.dumps_bdd_as_code emits, for
   any accessors of the BDD manager that agree with the DAG, any syntax
   table with non-empty operator tokens and every fuel above the number of
   levels; or None, exactly when a code line contains the comment token
   (the ValueError of _append_sep).

   The proofs only evaluate the generated code (loop bodies are captured by
   unification), so renamed locals and split expressions pass. *)
From Coq Require Import List Bool ZArith Arith Lia String Ascii Permutation.
Import ListNotations.
From Omega Require Import L7Codegen.Pred L7Codegen.Bits L7Codegen.BitsProofs
  L7Codegen.Dag L7Codegen.DagProofs L7Codegen.Render L7Codegen.RenderProofs
  L7Codegen.Synth L7Codegen.Step.
From OmegaGen Require Import C13_tables CodegenGen.

(* ------------------------------------------------ the fixed prelude *)
Lemma mapM_total {A B} (f : A -> option B) (g : A -> B) l :
  (forall x, In x l -> f x = Some (g x)) -> mapM f l = Some (map g l).
Proof.
  induction l as [|x l IH]; intros H; [reflexivity|]. cbn [mapM map].
  rewrite (H x (or_introl eq_refl)), IH; [reflexivity|].
  intros y Hy. apply H. right. exact Hy.
Qed.

(* ================================================ int_to_bits *)
Section IntToBits.
Local Open Scope Z_scope.

(* binary digits of a positive number, least significant first *)
Fixpoint pbits (p : positive) : list bool :=
  match p with
  | xH => [true]
  | xO q => false :: pbits q
  | xI q => true :: pbits q
  end.
Definition bchar (b : bool) : ascii := if b then "1"%char else "0"%char.

Lemma chars_app s1 s2 :
  list_ascii_of_string (s1 ++ s2) =
  (list_ascii_of_string s1 ++ list_ascii_of_string s2)%list.
Proof. induction s1; cbn; congruence. Qed.

Lemma chars_pos_digits : forall p acc,
  list_ascii_of_string (pos_digits p acc) =
  (map bchar (rev (pbits p)) ++ list_ascii_of_string acc)%list.
Proof.
  induction p as [q IH|q IH|]; intros acc; cbn [pos_digits pbits rev].
  - rewrite IH, map_app, <- app_assoc. reflexivity.
  - rewrite IH, map_app, <- app_assoc. reflexivity.
  - reflexivity.
Qed.

Lemma pos_digits_head : forall p acc,
  exists r, pos_digits p acc = String "1" r.
Proof.
  induction p as [q IH|q IH|]; intros acc; cbn [pos_digits].
  - apply IH.
  - apply IH.
  - eexists. reflexivity.
Qed.

Lemma pbits_length p : List.length (pbits p) = Pos.to_nat (Pos.size p).
Proof.
  induction p; cbn [pbits List.length Pos.size]; rewrite ?Pos2Nat.inj_succ;
    try rewrite IHp; reflexivity.
Qed.

Lemma bits_of_zero k : bits_of k 0 = repeat false k.
Proof. induction k; cbn; congruence. Qed.

Lemma pbits_bits_of : forall p k,
  bits_of (Pos.to_nat (Pos.size p) + k) (Zpos p) =
  (pbits p ++ repeat false k)%list.
Proof.
  induction p as [q IH|q IH|]; intros k; cbn [Pos.size pbits];
    rewrite ?Pos2Nat.inj_succ.
  - cbn [plus bits_of app]. rewrite <- IH. reflexivity.
  - cbn [plus bits_of app]. rewrite <- IH. reflexivity.
  - change (Pos.to_nat 1) with 1%nat. cbn [plus bits_of pbits app].
    change (Z.div2 1) with 0. rewrite bits_of_zero. reflexivity.
Qed.

Lemma chars_zeros k : list_ascii_of_string (zeros k) = repeat "0"%char k.
Proof. induction k; cbn; congruence. Qed.

Lemma length_chars s : List.length (list_ascii_of_string s) = String.length s.
Proof. induction s; cbn; congruence. Qed.

Lemma rev_repeat {A} (x : A) k : rev (repeat x k) = repeat x k.
Proof.
  induction k; [reflexivity|]. cbn [repeat rev]. rewrite IHk.
  clear. induction k; cbn; congruence.
Qed.

Lemma zeros_false k : repeat "0"%char k = map bchar (repeat false k).
Proof. induction k; cbn; congruence. Qed.

Lemma digits_back l :
  mapM (fun c => match digit_of_char c with
                 | Some z => Some (negb (z =? 0))
                 | None => None
                 end) (map bchar l) = Some l.
Proof.
  induction l as [|b l IH]; [reflexivity|]. cbn [map mapM]. rewrite IH.
  destruct b; reflexivity.
Qed.

(* bin / lstrip / zfill / reversed / bool(int()) of a non-negative number *)
Lemma binary_digits m y : 0 <= m -> 0 <= y ->
  mapM (fun c => match digit_of_char c with
                 | Some z => Some (negb (z =? 0))
                 | None => None
                 end)
       (rev (list_ascii_of_string
               (py_zfill m (py_lstrip "-0b" (py_bin y))))) =
  Some (bits_of (Z.to_nat (Z.max m (bit_length y))) y).
Proof.
  intros Hm Hy. destruct y as [|p|p]; [| |lia].
  - (* 0: bin is '0b0', everything is stripped *)
    cbn [py_bin bit_length].
    change (py_lstrip "-0b" "0b0") with EmptyString.
    unfold py_zfill. cbn [String.length]. rewrite Z.sub_0_r, chars_zeros.
    rewrite rev_repeat, Z.max_l by lia. rewrite bits_of_zero.
    rewrite zeros_false. apply digits_back.
  - cbn [py_bin bit_length].
    destruct (pos_digits_head p "") as [r Hr].
    change ("0b" ++ pos_digits p "")%string
      with (String "0" (String "b" (pos_digits p ""))).
    rewrite Hr.
    change (py_lstrip "-0b" (String "0" (String "b" (String "1" r))))
      with (String "1" r).
    rewrite <- Hr. clear r Hr.
    assert (String.length (pos_digits p "") = Pos.to_nat (Pos.size p)) as Hl.
    { rewrite <- length_chars, chars_pos_digits, app_nil_r, map_length,
        rev_length. apply pbits_length. }
    assert (py_zfill m (pos_digits p "") =
            (zeros (Z.to_nat (m - Z.of_nat (String.length (pos_digits p ""))))
             ++ pos_digits p "")%string) as ->.
    { destruct (pos_digits_head p "") as [r Hr]. rewrite Hr. reflexivity. }
    rewrite Hl, chars_app, chars_zeros, chars_pos_digits, app_nil_r.
    rewrite rev_app_distr, rev_repeat, <- map_rev, rev_involutive.
    set (k := Z.to_nat (m - Z.of_nat (Pos.to_nat (Pos.size p)))).
    replace (Z.to_nat (Z.max m (Zpos (Pos.size p))))
      with (Pos.to_nat (Pos.size p) + k)%nat by (subst k; lia).
    rewrite pbits_bits_of.
    rewrite zeros_false, <- map_app. apply digits_back.
Qed.

Ltac decide_tests :=
  repeat match goal with
         | |- context [Z.leb ?a ?b] =>
             first [rewrite (proj2 (Z.leb_le a b)) by lia
                   |rewrite (proj2 (Z.leb_gt a b)) by lia]
         | |- context [Z.ltb ?a ?b] =>
             first [rewrite (proj2 (Z.ltb_lt a b)) by lia
                   |rewrite (proj2 (Z.ltb_ge a b)) by lia]
         end.

Theorem int_to_bits_is_translated_code x width :
  cg_int_to_bits x width = Some (int_to_bits x width).
Proof.
  unfold cg_int_to_bits, int_to_bits, py_pow. cbv zeta.
  set (m := Z.max (Z.max width (bit_length x)) 1).
  assert (1 <= m) as Hm by (subst m; lia).
  assert (x < 0 -> 0 <= 2 ^ m + x) as Hneg.
  { intros Hx. destruct x as [|p|p]; try lia.
    pose proof (size_bounds p) as [_ Hp]. cbn [bit_length] in m.
    assert (2 ^ Zpos (Pos.size p) <= 2 ^ m)
      by (apply Z.pow_le_mono_r; subst m; lia).
    lia. }
  destruct (Z.leb_spec 0 x) as [Hx|Hx]; decide_tests; cbv beta iota;
    rewrite ?(Z.add_comm x (2 ^ m));
    rewrite binary_digits by (try apply Hneg; lia); reflexivity.
Qed.
End IntToBits.

(* ================================================ the emitter *)
Local Open Scope string_scope.

Lemma tok_ne s : s <> "" -> tok s = [s].
Proof.
  intros H. unfold tok. destruct (String.eqb_spec s ""); [contradiction|].
  reflexivity.
Qed.

(* str(k).replace('-', 'n') *)
Lemma replace_app a b s1 s2 :
  str_replace1 a b (s1 ++ s2) = str_replace1 a b s1 ++ str_replace1 a b s2.
Proof. induction s1; cbn; congruence. Qed.

Lemma replace_uint d :
  str_replace1 "-" "n" (DecimalString.NilEmpty.string_of_uint d) =
  DecimalString.NilEmpty.string_of_uint d.
Proof. induction d; cbn; congruence. Qed.

Lemma latch_id u : str_replace1 "-" "n" (py_str_Z u) = zname u.
Proof.
  unfold py_str_Z, zname, dec_N. rewrite replace_app, replace_uint.
  destruct (Z.ltb u 0); reflexivity.
Qed.

(* defaultdict reads *)
Lemma layer_at_touch l l' L : layer_at l (dd_touch l' L) = layer_at l L.
Proof.
  induction L as [|[k us] L IH]; cbn [dd_touch layer_at].
  - destruct (Nat.eqb_spec l' l); reflexivity.
  - destruct (Nat.eqb_spec k l').
    + reflexivity.
    + cbn [layer_at]. rewrite IH. reflexivity.
Qed.

Lemma touch_key l L : In l (map fst L) -> dd_touch l L = L.
Proof.
  induction L as [|[k us] L IH]; cbn [map fst In dd_touch]; [tauto|].
  intros [->|H].
  - rewrite Nat.eqb_refl. reflexivity.
  - destruct (Nat.eqb k l); [reflexivity|]. rewrite IH by exact H. reflexivity.
Qed.

Lemma add_touch l u L : add_to_layer l u (dd_touch l L) = add_to_layer l u L.
Proof.
  induction L as [|[k us] L IH]; cbn [dd_touch add_to_layer].
  - rewrite Nat.eqb_refl. reflexivity.
  - destruct (Nat.eqb k l) eqn:E.
    + cbn [add_to_layer]. rewrite E. reflexivity.
    + cbn [add_to_layer]. rewrite E, IH. reflexivity.
Qed.

(* loops whose body is a total step function under an invariant that may
   mention what is still to be processed *)
Lemma for_inv {A S} (I : S -> list A -> Prop) (body : S -> A -> option S)
  (step : S -> A -> S) : forall l,
  (forall s x r, I s (x :: r) -> body s x = Some (step s x) /\ I (step s x) r) ->
  forall s, I s l -> for_ l body s = Some (fold_left step l s).
Proof.
  induction l as [|x l IH]; intros H s Hs; [reflexivity|].
  cbn [for_ fold_left]. destruct (H s x l Hs) as [-> Hn].
  apply IH; assumption.
Qed.

Lemma for_rel {A S} (I : S -> list A -> Prop) (body : S -> A -> option S) :
  forall l,
  (forall s x r, I s (x :: r) -> exists s', body s x = Some s' /\ I s' r) ->
  forall s, I s l -> exists s', for_ l body s = Some s' /\ I s' [].
Proof.
  induction l as [|x l IH]; intros H s Hs.
  - exists s. split; [reflexivity|exact Hs].
  - cbn [for_]. destruct (H s x l Hs) as [s' [-> Hn]]. apply IH; assumption.
Qed.

Section Emit.
(* what the code reads of a reference *)
Variables (ref_is_terminal ref_negated : Z -> bool) (ref_low ref_high : Z -> Z)
  (ref_var : Z -> string) (bdd_succ : Z -> nat * Z * Z).
Variables (d : dag) (names : list string) (renaming : list (string * string)).
Variable tbl : list (string * string).
Variable sy : syntax.
(* the table has the seven entries *)
Hypothesis Hsy : syntax_of tbl = Some sy.
(* the operator / constant / comment tokens are not the empty string *)
Hypothesis Htok : s_true sy <> "" /\ s_not sy <> "" /\ s_and sy <> "" /\
                  s_or sy <> "" /\ s_comment sy <> "".
(* the accessors read the DAG; a node's variable stands for a non-empty
   expression *)
Hypothesis Hreads : forall u i, find_info d u = Some i ->
  ref_is_terminal u = i_term i /\ ref_negated u = i_neg i /\
  (i_term i = false ->
     ref_low u = i_low i /\ ref_high u = i_high i /\
     bdd_succ u = (i_level i, i_low i, i_high i) /\
     dict_get_default renaming (ref_var u) (ref_var u) = bitname names (i_var i)
     /\ bitname names (i_var i) <> "").

Lemma tbl_fields :
  assoc_s "TRUE" tbl = Some (s_true sy) /\ assoc_s "NOT" tbl = Some (s_not sy) /\
  assoc_s "AND" tbl = Some (s_and sy) /\ assoc_s "OR" tbl = Some (s_or sy) /\
  assoc_s "COMMENT" tbl = Some (s_comment sy) /\
  assoc_s "SEP" tbl = Some (s_sep sy).
Proof.
  unfold syntax_of in Hsy.
  destruct (assoc_s "FALSE" tbl), (assoc_s "TRUE" tbl), (assoc_s "NOT" tbl),
    (assoc_s "AND" tbl), (assoc_s "OR" tbl), (assoc_s "COMMENT" tbl),
    (assoc_s "SEP" tbl); try discriminate.
  injection Hsy as <-. cbn. repeat split; reflexivity.
Qed.

Theorem latch_name_is_translated_code u i : find_info d u = Some i ->
  cg_latch_name ref_is_terminal u tbl =
  Some (rend sy (latch_exp (latch_name d u))).
Proof.
  intros H. destruct (Hreads u i H) as (Ht & _).
  destruct tbl_fields as (FT & _). destruct Htok as (NT & _).
  unfold cg_latch_name, latch_name. rewrite Ht, H, ?FT.
  destruct (i_term i); cbv zeta.
  - rewrite tok_ne by exact NT. reflexivity.
  - rewrite latch_id. reflexivity.
Qed.

Theorem latch_ref_is_translated_code u i : find_info d u = Some i ->
  cg_latch_ref ref_is_terminal ref_negated u tbl =
  Some (rend sy (ref_exp (latch_ref d u))).
Proof.
  intros H. destruct (Hreads u i H) as (_ & Hn & _).
  destruct tbl_fields as (_ & FN & _). destruct Htok as (_ & NN & _).
  unfold cg_latch_ref. rewrite (latch_name_is_translated_code u i H), Hn.
  unfold latch_ref, ref_exp. rewrite H. cbn [r_neg r_latch]. cbv zeta.
  destruct (i_neg i).
  - rewrite FN, tok_ne by exact NN. reflexivity.
  - reflexivity.
Qed.

(* _register_nodes: one more unit of fuel than the model, which lets the
   fuel run out at terminals *)
Theorem register_nodes_is_translated_code nlev :
  wf_dag d nlev = true ->
  forall f u L i, find_info d u = Some i ->
  (i_term i = true \/ nlev <= i_level i + f) ->
  cg_register_nodes ref_is_terminal bdd_succ (S f) u L =
  Some (register f d u L).
Proof.
  intros WF. induction f as [|f IH]; intros u L i H Hf.
  - destruct (Hreads u i H) as (Ht & _).
    cbn [cg_register_nodes register]. rewrite Ht.
    destruct (i_term i) eqn:T; [reflexivity|].
    destruct (wf_info d nlev WF u i H T) as (Lt & _).
    destruct Hf as [|Hf]; [discriminate|lia].
  - destruct (Hreads u i H) as (Ht & _ & Hnt).
    remember (S f) as g eqn:Eg. cbn [cg_register_nodes]. subst g.
    cbn [register]. rewrite Ht, H.
    destruct (i_term i) eqn:T; [reflexivity|].
    destruct (Hnt eq_refl) as (_ & _ & Hs & _). rewrite Hs.
    cbv beta iota zeta. rewrite layer_at_touch.
    destruct (mem_z u (layer_at (i_level i) L)) eqn:M.
    + rewrite touch_key; [reflexivity|].
      apply mem_z_In in M. eapply In_layer_key. exact M.
    + rewrite add_touch.
      destruct (wf_info d nlev WF u i H T) as (Lt & C1 & C2).
      assert (forall c, child_ok d nlev i c = true ->
                exists j, find_info d c = Some j /\
                  (i_term j = true \/ nlev <= i_level j + f)) as Hc.
      { intros c Hcc.
        destruct (child_ok_info d nlev i c Hcc) as [j [Fj [Tj|[Tj Lj]]]];
          exists j; (split; [exact Fj|]); [left; exact Tj|right].
        destruct Hf as [|Hf]; [congruence|lia]. }
      destruct (Hc _ C1) as [j1 [F1 B1]]. destruct (Hc _ C2) as [j2 [F2 B2]].
      rewrite (IH (i_low i) _ j1 F1 B1), (IH (i_high i) _ j2 F2 B2).
      reflexivity.
Qed.

(* ------------------------------------------------ lines *)
Variable outname : nat -> string.

(* the tokens of a statement, without the separator *)
Definition stmt_toks (c : stmt) : list string :=
  match c with
  | SComment l => [s_comment sy; "level"; ":"; dec_nat l]
  | SLatch k bit hi lo =>
      latch_word k :: EQ :: rend sy (node_exp names bit hi lo)
  | SOut name r => out_word (outname name) :: EQ :: rend sy (ref_exp r)
  end.

Lemma render_stmt_toks c :
  render_stmt sy names outname c =
  (stmt_toks c ++ match c with SComment _ => [] | _ => sep_toks sy end)%list.
Proof.
  destruct c; cbn [render_stmt stmt_toks app]; reflexivity.
Qed.

Lemma join_nl_render p :
  join_nl (map (render_stmt sy names outname) p) = render sy names outname p.
Proof.
  induction p as [|c p IH]; [reflexivity|].
  destruct p as [|c' p']; [reflexivity|].
  change (render sy names outname (c :: c' :: p'))
    with (render_stmt sy names outname c ++ NL ::
          render sy names outname (c' :: p'))%list.
  rewrite <- IH. reflexivity.
Qed.

(* _collect_layers *)
Definition root_name (r : nat * Z) : string * Z := (outname (fst r), snd r).
Definition collect_step (nlev : nat) (st : layers * list (list string))
  (r : string * Z) : layers * list (list string) :=
  (register nlev d (snd r) (fst st),
   (snd st ++ [out_word (fst r) :: EQ ::
               rend sy (ref_exp (latch_ref d (snd r)))])%list).

Lemma collect_fold nlev : forall roots L ls,
  fold_left (collect_step nlev) (map root_name roots) (L, ls) =
  (fst (collect_layers nlev d roots L),
   (ls ++ map stmt_toks (snd (collect_layers nlev d roots L)))%list).
Proof.
  induction roots as [|[n u] roots IH]; intros L ls.
  - cbn. rewrite app_nil_r. reflexivity.
  - cbn [map fold_left collect_layers]. unfold collect_step at 2.
    cbn [root_name fst snd]. rewrite IH.
    destruct (collect_layers nlev d roots (register nlev d u L)) as [L' lines].
    cbn [fst snd map stmt_toks]. rewrite <- app_assoc. reflexivity.
Qed.

Theorem collect_layers_is_translated_code nlev roots :
  wf_dag d nlev = true ->
  (forall r, In r roots -> root_ok_p d nlev (snd r)) ->
  cg_collect_layers ref_is_terminal ref_negated bdd_succ (S nlev)
    (map root_name roots) tbl =
  Some (fst (collect_layers nlev d roots []),
        map stmt_toks (snd (collect_layers nlev d roots []))).
Proof.
  intros WF Hr. unfold cg_collect_layers. cbv zeta.
  erewrite (for_inv
    (fun _ rest => forall r, In r rest -> root_ok_p d nlev (snd r))
    _ (collect_step nlev)).
  - rewrite collect_fold. reflexivity.
  - intros [L ls] [nm u] rest HI. split; [|intros r Hin; apply HI; right; exact Hin].
    destruct (HI (nm, u) (or_introl eq_refl)) as [i [Fi Bi]]. cbn [snd] in Fi, Bi.
    rewrite (register_nodes_is_translated_code nlev WF nlev u L i Fi)
      by (destruct Bi; [left; assumption|right; lia]).
    rewrite (latch_ref_is_translated_code u i Fi). reflexivity.
  - intros r Hin. apply in_map_iff in Hin. destruct Hin as [r0 [<- Hin]].
    apply Hr, Hin.
Qed.

(* ------------------------------------------------ _dumps_node, _dumps_layer *)
Definition lw (k : Z) : list string := [latch_word k].

Lemma toks_mem_lw k done : ~ In k done -> toks_mem (lw k) (map lw done) = false.
Proof.
  induction done as [|x done IH]; intros H; [reflexivity|].
  cbn [map toks_mem existsb]. unfold lw at 1 2. cbn [list_eqb_s].
  rewrite latch_word_eqb, andb_true_r.
  destruct (Z.eqb_spec k x) as [->|_]; [exfalso; apply H; left; reflexivity|].
  apply IH. intros Hin. apply H. right. exact Hin.
Qed.

(* a node of a layer: in the table, not terminal, with children in the table *)
Definition node_ok (k : Z) : Prop :=
  exists i j1 j2, find_info d k = Some i /\ i_term i = false /\
    find_info d (i_low i) = Some j1 /\ find_info d (i_high i) = Some j2.

Definition node_step (st : list (list string) * list (list string)) (k : Z) :=
  ((fst st ++ [stmt_toks (dumps_node d k)])%list, lw k :: snd st).

Theorem dumps_node_is_translated_code k lines latches :
  node_ok k -> toks_mem (lw k) latches = false ->
  cg_dumps_node ref_is_terminal ref_negated ref_low ref_high ref_var
    k lines latches tbl renaming = Some (node_step (lines, latches) k).
Proof.
  intros (i & j1 & j2 & Fi & Ti & F1 & F2) Hm.
  destruct (Hreads k i Fi) as (Ht & _ & Hnt).
  destruct (Hnt Ti) as (Hlo & Hhi & _ & Hbit & Nbit).
  destruct tbl_fields as (_ & FN & FA & FO & _).
  destruct Htok as (_ & NN & NA & NO & _).
  unfold cg_dumps_node. cbv zeta.
  rewrite (latch_name_is_translated_code k i Fi).
  assert (latch_name d k = LName k) as ->
    by (unfold latch_name; rewrite Fi, Ti; reflexivity).
  rewrite Ht, Ti. cbn [negb rend latch_exp].
  fold (lw k). rewrite Hm. cbn [negb].
  rewrite Hlo, Hhi, (latch_ref_is_translated_code _ j1 F1),
    (latch_ref_is_translated_code _ j2 F2), Hbit, FA, FO, FN.
  rewrite !tok_ne by assumption.
  unfold node_step, dumps_node. rewrite Fi. cbn [fst snd stmt_toks].
  unfold node_exp. cbn [rend]. unfold lw, LP, RP, EQ.
  repeat (rewrite <- ?app_assoc; cbn [app]). reflexivity.
Qed.

Lemma node_fold : forall ks ln la,
  fold_left node_step ks (ln, la) =
  ((ln ++ map (fun k => stmt_toks (dumps_node d k)) ks)%list,
   (rev (map lw ks) ++ la)%list).
Proof.
  induction ks as [|k ks IH]; intros ln la.
  - cbn. rewrite app_nil_r. reflexivity.
  - cbn [fold_left map rev]. unfold node_step at 2. cbn [fst snd].
    rewrite IH, <- !app_assoc. reflexivity.
Qed.

Theorem dumps_layer_is_translated_code ks lines done :
  Forall node_ok ks -> NoDup (ks ++ done) ->
  cg_dumps_layer ref_is_terminal ref_negated ref_low ref_high ref_var
    ks lines (map lw done) tbl renaming =
  Some (fold_left node_step ks (lines, map lw done)).
Proof.
  intros Hok Hnd. unfold cg_dumps_layer.
  erewrite (for_inv
    (fun st rest => Forall node_ok rest /\
       exists dn, snd st = map lw dn /\ NoDup (rest ++ dn))
    _ node_step).
  - destruct (fold_left node_step ks (lines, map lw done)). reflexivity.
  - intros [ln la] k rest (Hf & dn & Hla & Hn). cbn [snd] in Hla. subst la.
    inversion Hf as [|? ? Hk Hrest]; subst.
    cbn [app] in Hn. inversion Hn as [|? ? Hnotin Hn']; subst.
    rewrite (dumps_node_is_translated_code k ln (map lw dn) Hk).
    2:{ apply toks_mem_lw. intros Hin. apply Hnotin, in_or_app. right. exact Hin. }
    split; [reflexivity|]. split; [exact Hrest|].
    exists (k :: dn). split; [reflexivity|].
    apply (Permutation_NoDup (Permutation_middle rest dn k)). exact Hn.
  - split; [exact Hok|]. exists done. split; [reflexivity|exact Hnd].
Qed.

(* ------------------------------------------------ the layers, top down *)
Lemma nodup_app {A} (a b : list A) :
  NoDup a -> NoDup b -> (forall x, In x a -> ~ In x b) -> NoDup (a ++ b).
Proof.
  induction a as [|x a IH]; intros Ha Hb Hd; [exact Hb|].
  inversion Ha as [|? ? Hx Ha']; subst. cbn [app]. constructor.
  - intros Hin. apply in_app_or in Hin. destruct Hin as [Hin|Hin];
      [exact (Hx Hin)|exact (Hd x (or_introl eq_refl) Hin)].
  - apply IH; [exact Ha'|exact Hb|]. intros y Hy. apply Hd. right. exact Hy.
Qed.

Lemma nodup_cut {A} (a b c : list A) : NoDup (a ++ b ++ c) -> NoDup (a ++ c).
Proof.
  induction b as [|x b IHb]; intros H; [exact H|]. apply IHb.
  apply NoDup_remove_1 with (a := x). exact H.
Qed.

Lemma nodup_flat_map {A B} (g : A -> list B) : forall lv,
  NoDup lv -> (forall l, NoDup (g l)) ->
  (forall l l' x, In x (g l) -> In x (g l') -> l = l') ->
  NoDup (flat_map g lv).
Proof.
  induction lv as [|l lv IH]; intros Hn Hg Hd; [constructor|].
  inversion Hn as [|? ? Hnot Hn']; subst. cbn [flat_map].
  apply nodup_app; [apply Hg | apply IH; assumption|].
  intros x Hx Hin. apply in_flat_map in Hin. destruct Hin as [l' [Hl' Hx']].
  apply Hnot. rewrite (Hd l l' x Hx Hx'). exact Hl'.
Qed.

Section Layers.
Variable L : layers.
Hypothesis Hclosed : closed d L.
Hypothesis Hlok : layers_ok L.

Lemma closed_node_ok l x : In x (layer_at l L) -> node_ok x.
Proof.
  intros Hin. destruct (Hclosed l x Hin) as (i & Fi & Ti & _ & C1 & C2).
  destruct C1 as [j1 [F1 _]]. destruct C2 as [j2 [F2 _]].
  exists i, j1, j2. auto.
Qed.

Lemma all_keys_nodup :
  NoDup (flat_map (fun l => layer_at l L) (sort_desc (map fst L))).
Proof.
  destruct Hlok as [Hk Hl].
  apply nodup_flat_map.
  - apply desc_nodup, desc_sort, Hk.
  - exact Hl.
  - intros l l' x H1 H2.
    destruct (Hclosed l x H1) as (i & Fi & _ & E1 & _).
    destruct (Hclosed l' x H2) as (i' & Fi' & _ & E2 & _).
    congruence.
Qed.

Definition level_step
  (st : layers * list (list string) * list (list string)) (l : nat) :=
  let r := fold_left node_step (layer_at l (fst (fst st)))
             ((snd (fst st) ++ [stmt_toks (SComment l)])%list, snd st) in
  (fst (fst st), fst r, snd r).

Lemma level_fold : forall lv ln la,
  fst (fold_left level_step lv (L, ln, la)) =
  (L, (ln ++ map stmt_toks
         (flat_map (fun l => SComment l :: map (dumps_node d) (layer_at l L))
                   lv))%list).
Proof.
  induction lv as [|l lv IH]; intros ln la.
  - cbn. rewrite app_nil_r. reflexivity.
  - cbn [fold_left flat_map]. unfold level_step at 2. cbn [fst snd].
    rewrite node_fold. cbn [fst snd]. rewrite IH.
    rewrite map_app. cbn [map]. rewrite map_map, <- !app_assoc. reflexivity.
Qed.

(* the invariant of the loop over the levels: the latches assigned so far
   and the nodes still to come are pairwise distinct *)
Definition level_inv
  (st : layers * list (list string) * list (list string)) (rest : list nat) :=
  fst (fst st) = L /\ Forall (fun l => In l (map fst L)) rest /\
  exists dn, snd st = map lw dn /\
    NoDup (flat_map (fun l => layer_at l L) rest ++ dn).

Lemma level_inv_init : level_inv (L, [], []) (sort_desc (map fst L)).
Proof.
  split; [reflexivity|]. split.
  - apply Forall_forall. intros l Hl. apply (proj1 (In_sort_desc _ _)), Hl.
  - exists []. split; [reflexivity|]. rewrite app_nil_r. apply all_keys_nodup.
Qed.

Lemma map_lw_inj a : forall b, map lw a = map lw b -> a = b.
Proof.
  induction a as [|x a IH]; intros [|y b] H; try discriminate; [reflexivity|].
  cbn [map] in H. injection H as Hx Hr. apply zname_inj in Hx. subst y.
  f_equal. apply IH, Hr.
Qed.

Lemma level_inv_step ln dn l rest :
  level_inv (L, ln, map lw dn) (l :: rest) ->
  (exists dn', snd (level_step (L, ln, map lw dn) l) = map lw dn') /\
  level_inv (level_step (L, ln, map lw dn) l) rest.
Proof.
  intros (_ & Hkeys & dn0 & Hla & Hnd). cbn [snd] in Hla.
  apply map_lw_inj in Hla. subst dn0.
  inversion Hkeys as [|? ? Hl Hrest]; subst.
  unfold level_step. cbn [fst snd]. rewrite node_fold. cbn [fst snd].
  assert ((rev (map lw (layer_at l L)) ++ map lw dn)%list =
          map lw (rev (layer_at l L) ++ dn)) as E
    by (rewrite map_app, map_rev; reflexivity).
  rewrite E. split; [eexists; reflexivity|].
  split; [reflexivity|]. split; [exact Hrest|].
  exists (rev (layer_at l L) ++ dn)%list. split; [reflexivity|].
  cbn [flat_map] in Hnd. rewrite <- app_assoc in Hnd.
  apply (Permutation_NoDup (l := (layer_at l L ++
           flat_map (fun l0 => layer_at l0 L) rest ++ dn)%list));
    [|exact Hnd].
  rewrite !app_assoc. apply Permutation_app_tail.
  rewrite Permutation_app_comm. apply Permutation_app_head.
  apply Permutation_rev.
Qed.
End Layers.

(* ------------------------------------------------ _append_sep *)
Lemma prefix_refl s : String.prefix s s = true.
Proof.
  induction s as [|c s IH]; [reflexivity|]. cbn [String.prefix].
  destruct (ascii_dec c c); [exact IH|contradiction].
Qed.

(* a code line does not begin with, nor contain, the comment token (else
   _append_sep takes it for a comment, or raises ValueError) *)
Definition code_ok (c : stmt) : bool :=
  match c with
  | SComment _ => true
  | _ => negb (toks_startswith (stmt_toks c) (s_comment sy)) &&
         negb (toks_contains (stmt_toks c) (s_comment sy))
  end.

Theorem append_sep_is_translated_code c : code_ok c = true ->
  cg_append_sep (stmt_toks c) tbl = Some (render_stmt sy names outname c).
Proof.
  intros Hc. destruct tbl_fields as (_ & _ & _ & _ & FC & FS).
  unfold cg_append_sep. rewrite FC, FS. cbv zeta.
  rewrite render_stmt_toks. destruct c.
  - cbn [stmt_toks toks_startswith]. rewrite prefix_refl, app_nil_r. reflexivity.
  - cbn [code_ok] in Hc. apply andb_true_iff in Hc. destruct Hc as [H1 H2].
    apply negb_true_iff in H1, H2. rewrite H1, H2. reflexivity.
  - cbn [code_ok] in Hc. apply andb_true_iff in Hc. destruct Hc as [H1 H2].
    apply negb_true_iff in H1, H2. rewrite H1, H2. reflexivity.
Qed.

Lemma mapM_map {A B C} (f : B -> option C) (h : A -> B) (g : A -> C) p :
  (forall c, In c p -> f (h c) = Some (g c)) ->
  mapM f (map h p) = Some (map g p).
Proof.
  induction p as [|c p IH]; intros H; [reflexivity|]. cbn [map mapM].
  rewrite (H c (or_introl eq_refl)), IH; [reflexivity|].
  intros c' Hc'. apply H. right. exact Hc'.
Qed.

(* ------------------------------------------------ dumps_bdd_as_code *)
Theorem dumps_bdd_as_code_is_translated_code nlev roots lang oren :
  assoc_langs lang languages = Some tbl ->
  match oren with Some o => o | None => [] end = renaming ->
  wf_dag d nlev = true ->
  (forall r, In r roots -> root_ok_p d nlev (snd r)) ->
  forallb code_ok (dumps_bdd_as_code nlev d roots) = true ->
  cg_dumps_bdd_as_code ref_is_terminal ref_negated ref_low ref_high ref_var
    bdd_succ (S nlev) (map root_name roots) lang oren =
  Some (render sy names outname (dumps_bdd_as_code nlev d roots)).
Proof.
  intros Hlang Hren WF Hroots Hcode.
  destruct tbl_fields as (_ & _ & _ & _ & FC & _).
  destruct Htok as (_ & _ & _ & _ & NC).
  unfold cg_dumps_bdd_as_code. cbv zeta. rewrite Hren, Hlang. clear Hren Hlang.
  rewrite (collect_layers_is_translated_code nlev roots WF Hroots).
  unfold dumps_bdd_as_code in *.
  assert (closed d []) as C0 by (intros l x []).
  assert (layers_ok []) as O0 by (split; [constructor|intros l; constructor]).
  destruct (collect_layers_spec d nlev WF roots [] C0 O0)
    as (HC & HO & _ & _ & _).
  destruct (collect_layers nlev d roots []) as [L outs]. cbn [fst snd] in *.
  cbv beta iota zeta.
  erewrite (for_inv (level_inv L) _ level_step).
  - (* after the loop: the separators, the line breaks *)
    pose proof (level_fold L (sort_desc (map fst L)) [] []) as HF.
    destruct (fold_left level_step (sort_desc (map fst L)) (L, [], []))
      as [[L' ln] la]. cbn [fst app] in HF. injection HF as -> ->.
    cbv beta iota zeta. fold (dumps_layers d L).
    rewrite <- map_app.
    rewrite (mapM_map _ stmt_toks (render_stmt sy names outname)).
    + rewrite join_nl_render. reflexivity.
    + intros c Hc. rewrite append_sep_is_translated_code; [reflexivity|].
      rewrite forallb_forall in Hcode. apply Hcode, Hc.
  - (* one level *)
    intros [[Ls ln] la] l rest HI.
    assert (Ls = L) as -> by (destruct HI as (E & _); exact E).
    destruct HI as (E0 & Hkeys & dn & Hla & Hnd). cbn [snd] in Hla. subst la.
    assert (level_inv L (L, ln, map lw dn) (l :: rest)) as HI
      by (split; [reflexivity|]; split; [exact Hkeys|];
          exists dn; split; [reflexivity|exact Hnd]).
    destruct (level_inv_step L ln dn l rest HI) as [_ HI'].
    split; [|exact HI'].
    inversion Hkeys as [|? ? Hl Hrest]; subst.
    cbv beta iota zeta. rewrite (touch_key l L Hl).
    unfold cg_comment_level. rewrite FC, tok_ne by exact NC. cbv zeta.
    cbn [flat_map] in Hnd. rewrite <- app_assoc in Hnd.
    rewrite (dumps_layer_is_translated_code (layer_at l L) _ dn).
    + unfold level_step. cbn [fst snd stmt_toks].
      destruct (fold_left node_step (layer_at l L) _). reflexivity.
    + apply Forall_forall. intros x Hx. apply (closed_node_ok L HC l x Hx).
    + apply (nodup_cut _ _ _ Hnd).
  - apply (level_inv_init L HC HO).
Qed.
End Emit.

(* ================================================ the accessors of a DAG *)
(* what int(u) / u.var / u.negated / node.low / node.high / bdd.succ read of
   a DAG given as a table (Dag.dag); node.var is the name of the input bit *)
Definition dag_term (d : dag) (u : Z) : bool :=
  match find_info d u with Some i => i_term i | None => false end.
Definition dag_neg (d : dag) (u : Z) : bool :=
  match find_info d u with Some i => i_neg i | None => false end.
Definition dag_low (d : dag) (u : Z) : Z :=
  match find_info d u with Some i => i_low i | None => 0%Z end.
Definition dag_high (d : dag) (u : Z) : Z :=
  match find_info d u with Some i => i_high i | None => 0%Z end.
Definition dag_var (d : dag) (names : list string) (u : Z) : string :=
  match find_info d u with Some i => bitname names (i_var i) | None => "" end.
Definition dag_succ (d : dag) (u : Z) : nat * Z * Z :=
  match find_info d u with
  | Some i => (i_level i, i_low i, i_high i)
  | None => (O, 0%Z, 0%Z)
  end.

(* every node tests an input bit whose expression is not empty *)
Definition dag_names_ok (d : dag) (names : list string) : bool :=
  forallb (fun e => i_term (snd e) ||
                    negb (String.eqb (bitname names (i_var (snd e))) "")) d.

Lemma dag_reads d names : dag_names_ok d names = true ->
  forall u i, find_info d u = Some i ->
  dag_term d u = i_term i /\ dag_neg d u = i_neg i /\
  (i_term i = false ->
     dag_low d u = i_low i /\ dag_high d u = i_high i /\
     dag_succ d u = (i_level i, i_low i, i_high i) /\
     dict_get_default [] (dag_var d names u) (dag_var d names u) =
     bitname names (i_var i) /\ bitname names (i_var i) <> "").
Proof.
  intros Hn u i H. unfold dag_term, dag_neg, dag_low, dag_high, dag_succ,
    dag_var. rewrite H. split; [reflexivity|]. split; [reflexivity|].
  intros T. split; [reflexivity|]. split; [reflexivity|].
  split; [reflexivity|]. split; [reflexivity|].
  intros E. unfold dag_names_ok in Hn. rewrite forallb_forall in Hn.
  specialize (Hn _ (find_info_In d u i H)). cbn [snd] in Hn.
  rewrite T, E in Hn. discriminate.
Qed.

Lemma lang_syntax_assoc lang : forall langs,
  lang_syntax lang langs =
  match assoc_langs lang langs with Some t => syntax_of t | None => None end.
Proof.
  induction langs as [|[k t] r IH]; [reflexivity|].
  cbn [lang_syntax assoc_langs]. rewrite String.eqb_sym.
  destruct (String.eqb lang k); [reflexivity|exact IH].
Qed.

Definition tokens_nonempty (sy : syntax) : bool :=
  negb (String.eqb (s_true sy) "") && negb (String.eqb (s_not sy) "") &&
  negb (String.eqb (s_and sy) "") && negb (String.eqb (s_or sy) "") &&
  negb (String.eqb (s_comment sy) "").

Lemma tokens_nonempty_spec sy : tokens_nonempty sy = true ->
  s_true sy <> "" /\ s_not sy <> "" /\ s_and sy <> "" /\ s_or sy <> "" /\
  s_comment sy <> "".
Proof.
  unfold tokens_nonempty. rewrite !andb_true_iff, !negb_true_iff.
  intros ((((H1 & H2) & H3) & H4) & H5).
  repeat split; apply String.eqb_neq; assumption.
Qed.

(* the emitter run on a DAG, for a language of the extracted table: the
   TEXT dumps_bdd_as_code returns is the token list Render.render lays out *)
Theorem emitter_is_translated_code :
  forall lang sy, lang_syntax lang languages = Some sy ->
  tokens_nonempty sy = true ->
  forall d names outname nlev roots,
  dag_names_ok d names = true ->
  wf_dag d nlev = true ->
  (forall r, In r roots -> root_ok_p d nlev (snd r)) ->
  forallb (code_ok names sy outname) (dumps_bdd_as_code nlev d roots) = true ->
  cg_dumps_bdd_as_code (dag_term d) (dag_neg d) (dag_low d) (dag_high d)
    (dag_var d names) (dag_succ d) (S nlev)
    (map (root_name outname) roots) lang None =
  Some (render sy names outname (dumps_bdd_as_code nlev d roots)).
Proof.
  intros lang sy Hl Ht d names outname nlev roots Hn WF Hr Hc.
  rewrite lang_syntax_assoc in Hl.
  destruct (assoc_langs lang languages) as [tbl|] eqn:Ea; [|discriminate].
  apply (dumps_bdd_as_code_is_translated_code (dag_term d) (dag_neg d)
           (dag_low d) (dag_high d) (dag_var d names) (dag_succ d) d names []
           tbl sy Hl (tokens_nonempty_spec sy Ht) (dag_reads d names Hn)
           outname nlev roots lang None Ea eq_refl WF Hr Hc).
Qed.

(* hence (RenderProofs): evaluating the text the translated emitter returns
   gives every root the value of the BDD *)
Corollary translated_text_evaluates_bdd :
  forall lang sy, lang_syntax lang languages = Some sy ->
  tokens_nonempty sy = true -> syntax_ok sy = true ->
  forall d names outname nlev roots a text,
  names_ok sy names = true -> dag_names_ok d names = true ->
  wf_dag d nlev = true -> dag_bits_ok (List.length names) d = true ->
  (forall r, In r roots -> root_ok_p d nlev (snd r)) ->
  cg_dumps_bdd_as_code (dag_term d) (dag_neg d) (dag_low d) (dag_high d)
    (dag_var d names) (dag_succ d) (S nlev)
    (map (root_name outname) roots) lang None = Some text ->
  forallb (code_ok names sy outname) (dumps_bdd_as_code nlev d roots) = true ->
  run_text sy names a text =
  Some (map (fun r => (out_word (outname (fst r)),
                       ref_val (S nlev) d a (snd r))) roots).
Proof.
  intros lang sy Hl Ht Hs d names outname nlev roots a text Hno Hdn WF Hb Hr
    Hg Hc.
  rewrite (emitter_is_translated_code lang sy Hl Ht d names outname nlev roots
             Hdn WF Hr Hc) in Hg.
  injection Hg as <-.
  apply rendered_text_evaluates_bdd; assumption.
Qed.

(* ================================================ twos_complement_to_int *)
Section Twos.
Local Open Scope Z_scope.

Lemma zsum_cons x l : zsum (x :: l) = x + zsum l.
Proof.
  unfold zsum. cbn [fold_left]. rewrite Z.add_0_l.
  assert (forall l a b, fold_left Z.add l (a + b) = a + fold_left Z.add l b) as H.
  { clear. induction l as [|y l IH]; intros a b; cbn [fold_left]; [reflexivity|].
    rewrite <- Z.add_assoc. apply IH. }
  rewrite <- (Z.add_0_r x) at 1. apply H.
Qed.

Lemma weighted_sum : forall (l : list bool) k,
  mapM (fun '(i, b) => match py_pow 2 (Z.of_nat i) with
                       | Some t => Some (b * t)
                       | None => None
                       end) (enumerate_from k (map b2z l)) =
  Some (map (fun '(i, b) => b * 2 ^ Z.of_nat i) (enumerate_from k (map b2z l))).
Proof.
  intros l k. apply mapM_total. intros [i b] _. unfold py_pow.
  destruct (Z.ltb_spec (Z.of_nat i) 0); [lia|reflexivity].
Qed.

Lemma zsum_uval : forall (l : list bool) k,
  zsum (map (fun '(i, b) => b * 2 ^ Z.of_nat i) (enumerate_from k (map b2z l)))
  = 2 ^ Z.of_nat k * uval l.
Proof.
  induction l as [|b l IH]; intros k.
  - cbn. lia.
  - cbn [map enumerate_from uval]. rewrite zsum_cons, IH.
    rewrite Nat2Z.inj_succ, Z.pow_succ_r by lia. ring.
Qed.

Lemma py_pow_nat n : py_pow 2 (Z.of_nat n) = Some (2 ^ Z.of_nat n).
Proof. unfold py_pow. destruct (Z.ltb_spec (Z.of_nat n) 0); [lia|reflexivity]. Qed.

Lemma last_error_map (l : list bool) : l <> [] ->
  last_error (map b2z l) = Some (b2z (last l false)).
Proof.
  induction l as [|b l IH]; [congruence|]. intros _.
  destruct l as [|c l]; [reflexivity|].
  change (last_error (map b2z (b :: c :: l)))
    with (last_error (map b2z (c :: l))).
  change (last (b :: c :: l) false) with (last (c :: l) false).
  apply IH. discriminate.
Qed.

Lemma removelast_map {A B} (f : A -> B) l :
  removelast (map f l) = map f (removelast l).
Proof.
  induction l as [|x l IH]; [reflexivity|].
  destruct l as [|y l]; [reflexivity|].
  change (removelast (map f (x :: y :: l)))
    with (f x :: removelast (map f (y :: l))).
  rewrite IH. reflexivity.
Qed.

Theorem twos_complement_is_translated_code bits :
  bv_twos_complement_to_int bits =
  match bits with [] => None | _ => Some (twos_complement_to_int bits) end.
Proof.
  unfold bv_twos_complement_to_int, twos_complement_to_int. cbv zeta.
  destruct bits as [|b bits]; [reflexivity|].
  set (l := b :: bits).
  assert (sub_nat (List.length l) 1 = Some (List.length l - 1)%nat) as ->
    by (unfold sub_nat; subst l; cbn [List.length Nat.leb]; reflexivity).
  rewrite (mapM_total _ b2z) by (intros; reflexivity).
  rewrite last_error_map by (subst l; discriminate).
  rewrite ?py_pow_nat, removelast_map. unfold enumerate.
  rewrite weighted_sum, zsum_uval, ?py_pow_nat. cbv beta iota.
  replace (Z.of_nat (List.length l - 1)) with (Z.of_nat (List.length l) - 1)
    by (subst l; cbn [List.length]; lia).
  apply f_equal. change (2 ^ Z.of_nat 0) with 1. ring.
Qed.
End Twos.

(* ================================================ _list_bits, assign_bitvectors *)
(* The table `vrs` of a layout (Step.layout): variable x is called
   [vname x], the bit at position p is called [bname p]; a Boolean variable
   has no 'bitnames' and its single bit carries the name of the variable. *)
Section Names.
Variables (vname : nat -> string) (bname : Pred.var -> string).
Variable ly : layout.

Definition attr_of (x : nat) : attr :=
  match var_type ly x with
  | TBool => {| a_type := "bool"; a_bitnames := None |}
  | TInt _ _ => {| a_type := "int";
                   a_bitnames := Some (map bname (var_bits ly x)) |}
  end.
Definition table_of : list (string * attr) :=
  map (fun x => (vname x, attr_of x)) (seq 0 (List.length ly)).

Hypothesis vname_inj : forall x y,
  (x < List.length ly)%nat -> (y < List.length ly)%nat ->
  vname x = vname y -> x = y.
Hypothesis bool_bit : forall x, (x < List.length ly)%nat ->
  var_type ly x = TBool -> map bname (var_bits ly x) = [vname x].

Lemma table_get x : (x < List.length ly)%nat ->
  dict_get table_of (vname x) = Some (attr_of x).
Proof.
  intros Hx. unfold table_of.
  assert (forall n k, (k + n = List.length ly)%nat -> (k <= x)%nat ->
            dict_get (map (fun y => (vname y, attr_of y)) (seq k n)) (vname x)
            = Some (attr_of x)) as H.
  { induction n as [|n IH]; intros k Hk Hle; [lia|].
    cbn [seq map dict_get].
    destruct (String.eqb_spec (vname x) (vname k)) as [E|E].
    - apply vname_inj in E; [subst k; reflexivity|lia|lia].
    - apply IH; [lia|]. destruct (Nat.eq_dec k x); [subst; congruence|lia]. }
  apply (H (List.length ly) O); lia.
Qed.

(* a loop that appends to its accumulator *)
Lemma for_append {A B} (l : list A) (body : list B -> A -> option (list B))
  (g : A -> list B) :
  (forall w x, In x l -> body w x = Some (w ++ g x)%list) ->
  forall w, for_ l body w = Some (w ++ flat_map g l)%list.
Proof.
  induction l as [|x l IH]; intros H w; cbn [for_ flat_map].
  - rewrite app_nil_r. reflexivity.
  - rewrite (H w x (or_introl eq_refl)).
    rewrite IH by (intros w' y Hy; apply H; right; exact Hy).
    rewrite app_assoc. reflexivity.
Qed.

Theorem list_bits_is_translated_code out_vars :
  (forall x, In x out_vars -> (x < List.length ly)%nat) ->
  cg_list_bits (map vname out_vars) table_of =
  Some (map bname (list_bits ly out_vars)).
Proof.
  intros Hov. unfold cg_list_bits. cbv zeta.
  erewrite (for_append _ _
    (fun v => match dict_get table_of v with
              | Some a => if String.eqb (a_type a) "bool" then [v]
                          else match a_bitnames a with
                               | Some bs => bs
                               | None => []
                               end
              | None => []
              end)).
  - cbn [app]. f_equal. unfold list_bits.
    induction out_vars as [|x ov IH]; [reflexivity|].
    cbn [map flat_map]. rewrite map_app, <- IH
      by (intros y Hy; apply Hov; right; exact Hy).
    f_equal. rewrite table_get by (apply Hov; left; reflexivity).
    unfold attr_of. destruct (var_type ly x) eqn:T; cbn [a_type a_bitnames].
    + change (String.eqb "bool" "bool") with true. cbv iota.
      symmetry. apply bool_bit; [apply Hov; left; reflexivity|exact T].
    + change (String.eqb "int" "bool") with false. reflexivity.
  - intros w v Hv. apply in_map_iff in Hv. destruct Hv as [x [<- Hx]].
    rewrite table_get by (apply Hov; exact Hx).
    unfold attr_of. destruct (var_type ly x); cbn [a_type a_bitnames].
    + change (String.eqb "bool" "bool") with true. reflexivity.
    + change (String.eqb "int" "bool") with false. reflexivity.
Qed.

(* assign_bitvectors: every variable of the state is mapped to the bits
   Bits.encode gives for its value (a Boolean to its one bit) *)
Definition enc (x : nat) (v : Bits.val) : bvval :=
  match var_type ly x with
  | TBool => BVbool (hd false (encode TBool v))
  | TInt lo hi => BVlist (encode (TInt lo hi) v)
  end.

Lemma dict_set_fresh {B} (d : list (string * B)) k v :
  ~ In k (map fst d) -> dict_set d k v = (d ++ [(k, v)])%list.
Proof.
  induction d as [|[k' v'] d IH]; intros H; [reflexivity|].
  cbn [dict_set app]. cbn [map fst In] in H.
  destruct (String.eqb_spec k k') as [->|_]; [exfalso; apply H; left; reflexivity|].
  rewrite IH by (intros Hin; apply H; right; exact Hin). reflexivity.
Qed.

Theorem assign_bitvectors_is_translated_code (state : list (nat * Bits.val)) :
  NoDup (map fst state) ->
  (forall x v, In (x, v) state -> (x < List.length ly)%nat /\
     List.length (var_bits ly x) = nbits (var_type ly x)) ->
  cg_assign_bitvectors (map (fun xv => (vname (fst xv), snd xv)) state) table_of
  = Some (map (fun xv => (vname (fst xv), enc (fst xv) (snd xv))) state).
Proof.
  intros Hnd Hst. unfold cg_assign_bitvectors. cbv zeta.
  set (f := fun xv : nat * Bits.val => (vname (fst xv), snd xv)).
  set (g := fun xv : nat * Bits.val => (vname (fst xv), enc (fst xv) (snd xv))).
  match goal with
  | |- match for_ _ ?body _ with _ => _ end = _ =>
      destruct (for_rel
        (fun (bv : list (string * bvval)) (rest : list (string * Bits.val)) =>
           exists done todo, state = (done ++ todo)%list /\
             rest = map f todo /\ bv = map g done)
        body (map f state)) with (s := @nil (string * bvval))
        as [bv [E (dn & td & Hs & Ht & Hb)]]
  end.
  - (* one variable *)
    intros bv [nm v] rest (dn & td & Hs & Ht & Hb).
    destruct td as [|[x v'] td]; [discriminate|].
    cbn [map] in Ht. injection Ht as -> -> ->. subst bv.
    assert (In (x, v') state) as Hin
      by (rewrite Hs; apply in_or_app; right; left; reflexivity).
    destruct (Hst x v' Hin) as [Hx Hlen].
    assert (~ In (vname x) (map fst (map g dn))) as Hfresh.
    { rewrite map_map. cbn [g fst]. intros Hi. apply in_map_iff in Hi.
      destruct Hi as [[y w] [Ey Hy]]. cbn [fst] in Ey.
      assert (In (y, w) state) as Hy'
        by (rewrite Hs; apply in_or_app; left; exact Hy).
      destruct (Hst y w Hy') as [Hyl _].
      apply vname_inj in Ey; [|assumption|assumption]. subst y.
      rewrite Hs, map_app in Hnd. cbn [map fst] in Hnd.
      apply NoDup_remove_2 in Hnd. apply Hnd, in_or_app. left.
      apply in_map_iff. exists (x, w). split; [reflexivity|exact Hy]. }
    cbv beta iota zeta. cbn [f fst snd].
    rewrite table_get by exact Hx.
    exists (map g (dn ++ [(x, v')])). split.
    + unfold attr_of, enc. rewrite map_app. cbn [map g fst snd].
      unfold enc.
      destruct (var_type ly x) as [|lo hi] eqn:T; cbn [a_type a_bitnames].
      * change (String.eqb "bool" "bool") with true. cbv iota.
        rewrite dict_set_fresh by exact Hfresh.
        destruct v'; unfold g, enc; cbn [fst snd]; rewrite T; reflexivity.
      * change (String.eqb "int" "bool") with false. cbv iota.
        rewrite int_to_bits_is_translated_code.
        rewrite dict_set_fresh by exact Hfresh.
        rewrite map_length, Hlen. cbn [nbits].
        rewrite Z2Nat.id by (pose proof (width_of_pos lo hi); lia).
        destruct v'; unfold g, enc; cbn [fst snd]; rewrite T; reflexivity.
    + exists (dn ++ [(x, v')])%list, td. split; [|split; reflexivity].
      rewrite Hs, <- app_assoc. reflexivity.
  - exists [], state. split; [reflexivity|]. split; reflexivity.
  - rewrite E. destruct td; [|discriminate].
    rewrite app_nil_r in Hs. subst dn bv. reflexivity.
Qed.
End Names.

Print Assumptions int_to_bits_is_translated_code.
Print Assumptions twos_complement_is_translated_code.
Print Assumptions list_bits_is_translated_code.
Print Assumptions assign_bitvectors_is_translated_code.
Print Assumptions emitter_is_translated_code.
Print Assumptions translated_text_evaluates_bdd.
