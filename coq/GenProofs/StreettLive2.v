(* Ranking facts for the liveness argument: position of the first trap that
   contains a state, and its relation to the layers of the onion. *)
From Coq Require Import List Bool Arith Lia.
Import ListNotations.
From Omega Require Import L4.Arena L4.ArenaFacts L4.Kleene L4.GameSpec.
From OmegaGP Require Import StreettNB2 StreettNB3.

Fixpoint first_idx (F : list (bdd * bdd)) (s : V) : nat :=
  match F with
  | [] => 0
  | p :: r => if fst p s then 0 else Datatypes.S (first_idx r s)
  end.

Lemma fi_split l1 x h l2 s :
  x s = true -> (forall p, In p l1 -> fst p s = false) ->
  first_idx (l1 ++ (x, h) :: l2) s = length l1.
Proof.
  intros Hx. induction l1 as [|p l1 IH]; intros Hl; cbn [app first_idx length fst].
  - rewrite Hx. reflexivity.
  - pose proof (Hl p (or_introl eq_refl)) as Hp. unfold bdd in *. rewrite Hp. f_equal. apply IH. intros q Hq. apply Hl. right. exact Hq.
Qed.

Lemma fi_le l1 x h l2 s : x s = true -> first_idx (l1 ++ (x, h) :: l2) s <= length l1.
Proof.
  intros Hx. induction l1 as [|p l1 IH]; cbn [app first_idx length fst].
  - rewrite Hx. lia.
  - unfold bdd in *. destruct (fst p s); lia.
Qed.

Lemma fi_lt_len F1 F2 s :
  (exists p, In p F1 /\ fst p s = true) -> first_idx (F1 ++ F2) s < length F1.
Proof.
  intros [p [Hp Hs]]. induction F1 as [|q F1 IH]; [destruct Hp|].
  cbn [app first_idx length]. unfold bdd in *. destruct (fst q s) eqn:Eq; [lia|].
  destruct Hp as [->|Hp]; [congruence|]. specialize (IH Hp). lia.
Qed.

Lemma fi_ge_len F1 F2 s :
  (forall p, In p F1 -> fst p s = false) -> length F1 <= first_idx (F1 ++ F2) s.
Proof.
  induction F1 as [|q F1 IH]; intros H; cbn [app first_idx length]; [lia|].
  pose proof (H q (or_introl eq_refl)) as Hq. unfold bdd in *. rewrite Hq.
  assert (length F1 <= first_idx (F1 ++ F2) s) by (apply IH; intros p Hp; apply H; right; exact Hp).
  lia.
Qed.

Section Live2.
Variables nc nx ny : nat.
Variables E S : bdd.
Variables moore plus_one : bool.
Variables holds : list bdd.
Variable gl : bdd.
Local Notation onion := (onion nc nx ny E S moore plus_one holds gl).
Local Notation flat := (flat holds).

Lemma combine_exists (xk hs : list bdd) s :
  length xk = length hs ->
  (existsb (fun x => x s) xk = true <-> exists p, In p (combine xk hs) /\ fst p s = true).
Proof.
  revert hs. induction xk as [|x xk IH]; intros hs Hl.
  - cbn. split; [discriminate|intros [p [[] _]]].
  - destruct hs as [|h hs]; [discriminate|]. cbn [existsb combine].
    rewrite orb_true_iff, (IH hs) by (cbn [length] in Hl; lia). split.
    + intros [H|[p [Hp H]]]; [exists (x, h); split; [left; reflexivity|exact H]|].
      exists p. split; [right; exact Hp|exact H].
    + intros [p [[<-|Hp] H]]; [left; exact H|right; exists p; auto].
Qed.

(* the first layers of an onion contain a state (outside the start set) iff
   one of the traps of those rounds does *)
Lemma onion_prefix Yp yj xjk :
  onion Yp yj xjk ->
  forall ys1 ys2, yj = ys1 ++ ys2 ->
  exists xs1 xs2, xjk = xs1 ++ xs2 /\ length xs1 = length ys1 /\
    forall s, Yp s = false ->
      ((exists y, In y ys1 /\ y s = true) <-> (exists p, In p (flat xs1) /\ fst p s = true)).
Proof.
  intros Ho. induction Ho as [Yp|Yp y yr xk xr Hl Hy Hx Ho IH]; intros ys1 ys2 Hsplit.
  - destruct ys1; [|discriminate]. exists [], []. split; [reflexivity|]. split; [reflexivity|].
    intros s _. split; intros [a [[] _]].
  - destruct ys1 as [|y1 ys1'].
    + exists [], (xk :: xr). split; [reflexivity|]. split; [reflexivity|].
      intros s _. split; intros [a [[] _]].
    + cbn [app] in Hsplit. inversion Hsplit. subst y1.
      destruct (IH ys1' ys2 H1) as [xs1 [xs2 [Hx12 [Hlen Hiff]]]].
      exists (xk :: xs1), xs2. split; [rewrite Hx12; reflexivity|].
      split; [cbn [length]; lia|]. intros s HYp.
      rewrite flat_cons.
      assert (Hys : y s = true <-> exists p, In p (combine xk holds) /\ fst p s = true).
      { rewrite Hy, HYp. cbn [orb]. apply combine_exists, Hl. }
      split.
      * intros [a [[<-|Ha] Has]].
        -- apply Hys in Has. destruct Has as [p [Hp Hs]]. exists p.
           split; [apply in_or_app; left; exact Hp|exact Hs].
        -- destruct (y s) eqn:Eys.
           ++ destruct (proj1 Hys eq_refl) as [p [Hp Hs]]. exists p.
              split; [apply in_or_app; left; exact Hp|exact Hs].
           ++ destruct (proj1 (Hiff s Eys) (ex_intro _ a (conj Ha Has))) as [p [Hp Hs]].
              exists p. split; [apply in_or_app; right; exact Hp|exact Hs].
      * intros [p [Hp Hs]]. apply in_app_or in Hp. destruct Hp as [Hp|Hp].
        -- exists y. split; [left; reflexivity|]. apply Hys. exists p. auto.
        -- destruct (y s) eqn:Eys; [exists y; split; [left; reflexivity|exact Eys]|].
           destruct (proj2 (Hiff s Eys) (ex_intro _ p (conj Hp Hs))) as [a [Ha Has]].
           exists a. split; [right; exact Ha|exact Has].
Qed.

Lemma flat_app xs1 xs2 : flat (xs1 ++ xs2) = flat xs1 ++ flat xs2.
Proof. unfold StreettNB3.flat. rewrite map_app, concat_app. reflexivity. Qed.

(* descending strictly decreases the position of the first trap *)
Lemma descend_decreases yj xjk ys1 ys2 s s' :
  onion bfalse yj xjk -> yj = ys1 ++ ys2 ->
  (forall y, In y ys1 -> y s = false) ->
  (exists y, In y ys1 /\ y s' = true) ->
  first_idx (flat xjk) s' < first_idx (flat xjk) s.
Proof.
  intros Ho Hsplit Hs Hs'.
  destruct (onion_prefix bfalse yj xjk Ho ys1 ys2 Hsplit) as [xs1 [xs2 [Hx [Hlen Hiff]]]].
  rewrite Hx, flat_app.
  apply Nat.lt_le_trans with (length (flat xs1)).
  - apply fi_lt_len. apply (Hiff s' eq_refl). exact Hs'.
  - apply fi_ge_len. intros p Hp. destruct (fst p s) eqn:Ep; [|reflexivity].
    destruct (proj2 (Hiff s eq_refl) (ex_intro _ p (conj Hp Ep))) as [y [Hy Hys]].
    rewrite (Hs y Hy) in Hys. discriminate.
Qed.

End Live2.
