(* L4 / RabinStrategy: a strategy for the component from the Rabin(1)
   fixpoint, with its invariant.

   Memory (a, k, j): a level of the outer least fixpoint, the index k of the
   persistence set whose trap Y_{a,k} is being followed, and the index j of
   the recurrence goal being pursued.  At a state s with memory (a, k, j) and
   invariant  s in muX_{a,k,j}  (the inner attractor of goal j inside the
   trap), the component forces the next state into
     Z^a                      if it can (the level then drops);
     Y_{a,k}                  else if goal j holds at s (the goal index advances);
     X^{r}_{a,k,j}            else, r the rank of s (the rank then drops). *)
From Coq Require Import List Bool Arith Lia.
Import ListNotations.
From Omega Require Import L4.Arena L4.ArenaFacts L4.Kleene L4.AlgOrder L4.GameSpec L4.Mu
  L4.GR1Spec L4.Ranks L4.Plays L4.RabinStruct.

Section RabinStrategy.
Variables nc nx ny : nat.
Variables moore plus_one : bool.
Variables E S : bdd.
Variables holds goals : list bdd.
Variable c : nat.
Hypothesis Hc : c < nc.
Hypothesis HnR : 0 < length goals.

Local Notation le := (le nc nx ny).
Local Notation inr := (inr nc nx ny).
Local Notation NV := (NV nc nx ny).
Local Notation B := (Datatypes.S NV).
Local Notation cpre := (cpre nx ny moore plus_one E S).
Local Notation rX_op := (rX_op nc nx ny moore plus_one E S).
Local Notation rZ_op := (rZ_op nc nx ny moore plus_one E S holds goals).
Local Notation rabin_spec := (rabin_spec nc nx ny moore plus_one E S holds goals).
Local Notation Zl := (Zl nc nx ny moore plus_one E S holds goals).
Local Notation Yk := (Yk nc nx ny moore plus_one E S holds goals).
Local Notation ins := (ins nc nx ny moore plus_one E S holds goals).
Local Notation Xr := (Xr nc nx ny moore plus_one E S holds goals).
Local Notation muX := (muX nc nx ny moore plus_one E S holds goals).
Local Notation stv := (stv c).
Local Notation stepv := (stepv c).
Local Notation phi := (phi plus_one E S).

Definition nP : nat := length holds.
Definition nR : nat := length goals.
Definition Pk (k : nat) : bdd := nth k holds bfalse.
Definition Rj (j : nat) : bdd := nth j goals bfalse.

Definition sinr (s : st) : Prop := fst s < nx /\ snd s < ny.

Lemma stv_inr s : sinr s -> inr (stv s).
Proof.
  intros [H1 H2]. unfold Kleene.inr, in_range, Plays.stv. cbn [vc vx vy vxp vyp].
  repeat rewrite andb_true_iff. repeat rewrite Nat.ltb_lt. lia.
Qed.

(* ------------------------------------------------- forcing one step *)
Definition mv (T : bdd) (s : st) (x' : nat) : nat :=
  if moore
  then first_from (fun y' => forallb (fun x'' => phi T (stv s) x'' y') (seq 0 nx)) 0 ny
  else first_from (fun y' => phi T (stv s) x' y') 0 ny.

Lemma mv_spec T s x' :
  cpre T (stv s) = true -> x' < nx ->
  mv T s x' < ny /\ phi T (stv s) x' (mv T s x') = true.
Proof.
  intros H Hx. unfold GR1Spec.cpre, cpre_spec in H. unfold mv. destruct moore.
  - apply existsb_exists in H. destruct H as [y' [Hy' Hall]]. apply in_seq in Hy'.
    pose proof (first_from_spec
      (fun y' => forallb (fun x'' => phi T (stv s) x'' y') (seq 0 nx)) ny 0 y'
      (Nat.le_0_l _) ltac:(lia) Hall) as Hf. cbv zeta in Hf.
    destruct Hf as [_ [Hle [Hp _]]]. split; [lia|].
    rewrite forallb_forall in Hp. apply Hp. apply in_seq. lia.
  - rewrite forallb_forall in H. specialize (H x' ltac:(apply in_seq; lia)).
    apply existsb_exists in H. destruct H as [y' [Hy' Hp]]. apply in_seq in Hy'.
    pose proof (first_from_spec (fun y' => phi T (stv s) x' y') ny 0 y'
      (Nat.le_0_l _) ltac:(lia) Hp) as Hf. cbv zeta in Hf.
    destruct Hf as [_ [Hle [Hp' _]]]. split; [lia|exact Hp'].
Qed.

Lemma mv_moore T s x1 x2 : moore = true -> mv T s x1 = mv T s x2.
Proof. intros H. unfold mv. rewrite H. reflexivity. Qed.

(* what a forced step guarantees *)
Lemma phi_facts T s x' y' :
  phi T (stv s) x' y' = true ->
  (plus_one = true -> S (stepv s (x', y')) = true) /\
  (E (stepv s (x', y')) = true ->
     S (stepv s (x', y')) = true /\ T (stv (x', y')) = true).
Proof.
  unfold GameSpec.phi, Plays.stv, Plays.stepv. cbn [vc vx vy fst snd].
  destruct plus_one.
  - rewrite andb_true_iff, orb_true_iff, negb_true_iff. intros [H1 H2].
    split; [intros _; exact H1|]. intros He. split; [exact H1|].
    destruct H2 as [H2|H2]; [congruence|exact H2].
  - rewrite orb_true_iff, negb_true_iff, andb_true_iff. intros H.
    split; [discriminate|]. intros He. destruct H as [H|H]; [congruence|exact H].
Qed.

(* ------------------------------------------------------ the strategy *)
Definition mem := (nat * nat * nat)%type.

Definition level (s : st) : nat := rank rZ_op B (stv s).
Definition kfirst (a : nat) (s : st) : nat :=
  first_from (fun k => Yk a (Pk k) (stv s)) 0 nP.
Definition reset (s : st) : mem := (level s, kfirst (level s) s, 0).
Definition xrank (m : mem) (s : st) : nat :=
  let '(a, k, j) := m in rank (rX_op (Rj j) (ins a (Pk k))) B (stv s).

Definition target (m : mem) (s : st) : bdd :=
  let '(a, k, j) := m in
  if cpre (Zl a) (stv s) then Zl a
  else if Rj j (stv s) then Yk a (Pk k)
  else Xr a (Pk k) (Rj j) (xrank m s).

Definition upd (m : mem) (sp s : st) : mem :=
  let '(a, k, j) := m in
  if Zl a (stv s) then reset s
  else if negb (cpre (Zl a) (stv sp)) && Rj j (stv sp) then (a, k, (j + 1) mod nR)
  else (a, k, j).

Fixpoint memof (h : list st) : mem :=
  match h with
  | [] => (0, 0, 0)
  | s :: h' => match h' with [] => reset s | sp :: _ => upd (memof h') sp s end
  end.

Definition clampy (v : nat) : nat := if v <? ny then v else 0.

Definition strategy : strat :=
  fun h x' => let s := hd (0, 0) h in clampy (mv (target (memof h) s) s x').

(* ------------------------------------------------------ the invariant *)
Definition Inv (m : mem) (s : st) : Prop :=
  let '(a, k, j) := m in
  a <= NV /\ k < nP /\ j < nR /\ muX a (Pk k) (Rj j) (stv s) = true.

Lemma Rj_in j : j < nR -> In (Rj j) goals.
Proof. intros H. apply nth_In. exact H. Qed.

Lemma reset_inv s a :
  sinr s -> a <= NV -> Zl (Datatypes.S a) (stv s) = true ->
  Inv (reset s) s /\ level s <= a.
Proof.
  intros Hs Ha Hz. unfold reset, Inv.
  destruct (rank_spec rZ_op B (stv s) a ltac:(lia) Hz) as [Hle [Hl _]].
  fold (level s) in Hle, Hl.
  change (it rZ_op (Datatypes.S (level s)) (stv s) = true)
    with (Zl (Datatypes.S (level s)) (stv s) = true) in Hl.
  apply Zl_succ in Hl. destruct Hl as [P [HP HY]].
  destruct (In_nth _ _ bfalse HP) as [k [Hk Hnth]].
  pose proof (first_from_spec (fun k => Yk (level s) (Pk k) (stv s)) nP 0 k
    (Nat.le_0_l _) ltac:(unfold nP; lia)) as Hf.
  cbv beta zeta in Hf. unfold Pk at 1 in Hf. rewrite Hnth in Hf. specialize (Hf HY).
  fold (kfirst (level s) s) in Hf. destruct Hf as [_ [Hle2 [HYk _]]].
  split; [|exact Hle].
  split; [lia|]. split; [unfold nP; lia|]. split; [exact HnR|].
  apply Yk_in_muX; [apply stv_inr, Hs|apply Rj_in, HnR|exact HYk].
Qed.

(* what the invariant says about the state *)
Lemma Inv_facts a k j s :
  Inv (a, k, j) s -> sinr s ->
  let r := xrank (a, k, j) s in
  r <= NV /\
  (cpre (Xr a (Pk k) (Rj j) r) (stv s) = true \/ Rj j (stv s) = true) /\
  cpre (Yk a (Pk k)) (stv s) = true /\
  (cpre (Zl a) (stv s) = true \/ Pk k (stv s) = true).
Proof.
  intros [Ha [Hk [Hj Hmu]]] Hs. cbv zeta.
  destruct (muX_rank nc nx ny moore plus_one E S holds goals a (Pk k) (Rj j) (stv s)
              (stv_inr s Hs) Hmu) as [r0 [Hr0 Hx]].
  unfold RabinStruct.Xr in Hx.
  destruct (rank_spec (rX_op (Rj j) (ins a (Pk k))) B (stv s) r0 ltac:(lia) Hx)
    as [Hle [Hr _]].
  change (rank (rX_op (Rj j) (ins a (Pk k))) B (stv s)) with (xrank (a, k, j) s) in Hle, Hr.
  split; [lia|].
  apply (Xr_succ nc nx ny moore plus_one E S holds goals a (Pk k) (Rj j)
           (xrank (a, k, j) s) (stv s)). exact Hr.
Qed.

Lemma target_cpre m s : Inv m s -> sinr s -> cpre (target m s) (stv s) = true.
Proof.
  destruct m as [[a k] j]. intros HI Hs.
  destruct (Inv_facts a k j s HI Hs) as [_ [H1 [H2 H3]]].
  unfold target. destruct (cpre (Zl a) (stv s)) eqn:Ez; [exact Ez|].
  destruct (Rj j (stv s)) eqn:Er; [exact H2|].
  destruct H1 as [H1|H1]; [exact H1|congruence].
Qed.

(* the strategy's move and what it guarantees *)
Lemma move_spec m s x' :
  Inv m s -> sinr s -> x' < nx ->
  let y' := mv (target m s) s x' in
  y' < ny /\
  (plus_one = true -> S (stepv s (x', y')) = true) /\
  (E (stepv s (x', y')) = true ->
     S (stepv s (x', y')) = true /\ target m s (stv (x', y')) = true).
Proof.
  intros HI Hs Hx. cbv zeta.
  destruct (mv_spec (target m s) s x' (target_cpre m s HI Hs) Hx) as [Hy Hp].
  split; [exact Hy|]. apply phi_facts. exact Hp.
Qed.

(* the invariant is re-established after a step into the target *)
Lemma inv_next a k j s s' :
  Inv (a, k, j) s -> sinr s -> sinr s' ->
  target (a, k, j) s (stv s') = true ->
  let m' := upd (a, k, j) s s' in
  Inv m' s' /\ fst (fst m') <= a /\
  (cpre (Zl a) (stv s) = true -> fst (fst m') < a) /\
  (fst (fst m') = a ->
     snd (fst m') = k /\
     ((Rj j (stv s) = true /\ snd m' = (j + 1) mod nR) \/
      (Rj j (stv s) = false /\ snd m' = j /\ xrank (a, k, j) s' < xrank (a, k, j) s))).
Proof.
  intros HI Hs Hs' Ht. cbv zeta.
  pose proof HI as [Ha [Hk [Hj Hmu]]].
  unfold upd. destruct (Zl a (stv s')) eqn:Ezs'.
  - (* the level drops *)
    destruct a as [|a0]; [discriminate|].
    destruct (reset_inv s' a0 Hs' ltac:(lia) Ezs') as [HI' Hl].
    unfold reset in *. cbn [fst snd]. split; [exact HI'|]. split; [lia|].
    split; [intros _; lia|]. intros Heq. lia.
  - unfold target in Ht. destruct (cpre (Zl a) (stv s)) eqn:Ez.
    + congruence.
    + cbn [negb andb]. destruct (Rj j (stv s)) eqn:Er.
      * cbn [fst snd]. split.
        -- split; [exact Ha|]. split; [exact Hk|].
           assert (Hj' : (j + 1) mod nR < nR) by (apply Nat.mod_upper_bound; unfold nR; lia).
           split; [exact Hj'|].
           apply Yk_in_muX; [apply stv_inr, Hs'|apply Rj_in, Hj'|exact Ht].
        -- split; [lia|]. split; [discriminate|]. intros _. split; [reflexivity|].
           left. split; reflexivity.
      * cbn [fst snd]. split.
        -- split; [exact Ha|]. split; [exact Hk|]. split; [exact Hj|].
           apply (Xr_in_muX nc nx ny moore plus_one E S holds goals a (Pk k) (Rj j)
                    (xrank (a, k, j) s) (stv s') (stv_inr s' Hs') Ht).
        -- split; [lia|]. split; [discriminate|]. intros _. split; [reflexivity|].
           right. split; [reflexivity|]. split; [reflexivity|].
           destruct (Inv_facts a k j s HI Hs) as [Hr _].
           destruct (xrank (a, k, j) s) as [|r'] eqn:Exr; [discriminate|].
           unfold RabinStruct.Xr in Ht.
           pose proof (rank_lt (rX_op (Rj j) (ins a (Pk k))) B (stv s') r' ltac:(lia) Ht) as Hlt.
           change (rank (rX_op (Rj j) (ins a (Pk k))) B (stv s')) with (xrank (a, k, j) s') in Hlt.
           lia.
Qed.

End RabinStrategy.
