"""C13 helpers (2): drive the REAL codegen.dumps_bdds_as_code end to end.

A case is dict(decl={var: 'bool' | (lo, hi)}, out_vars=[var'], rel=('formula',
str) | ('table', int), mode='cudd' | 'nocudd-autoref' | 'nocudd-cudd').
The universe of bits of the model is: bits of the unprimed variables (in
declaration order) followed by the bits of the primed output variables.
Own two's-complement encoder/decoder below (independent of omega's).
"""
import itertools
import logging

from vlib import codegen_synth as cs
from vlib import codegen_emit as ce

logging.disable(logging.CRITICAL)

KINDS = ['bool', 'bool', (0, 1), (0, 3), (1, 6), (2, 5), (-1, 1), (-2, 1),
         (-3, 3), (-4, 3), (-2, -1), (-4, -1), (-3, -2), (0, 6), (1, 1),
         (-1, 0), (0, 0)]


def hint_width(hint):
    """(signed, width, all_negative) by the documented rule."""
    lo, hi = hint
    signed = lo < 0 <= hi
    w = max(abs(lo), abs(hi)).bit_length()
    if w == 0:
        w = 1
    if signed:
        w += 1
    return signed, w, (hi < 0)


def values_of(kind):
    if kind == 'bool':
        return [False, True]
    signed, w, neg = hint_width(kind)
    if signed:
        return list(range(-2 ** (w - 1), 2 ** (w - 1)))
    if neg:
        return list(range(-2 ** w, 0))
    return list(range(0, 2 ** w))


def own_bits(kind, v):
    """little-endian bits of a representable value (own encoder)."""
    if kind == 'bool':
        return [bool(v)]
    signed, w, neg = hint_width(kind)
    u = v % (2 ** w)
    return [bool((u >> i) & 1) for i in range(w)]


def nbits(kind):
    return 1 if kind == 'bool' else hint_width(kind)[1]


def universe(case):
    """[(var, kind, primed, [bit names])] and the flat list of bit names."""
    decl, out_vars = case['decl'], case['out_vars']
    vs = []
    for x, kind in decl.items():
        vs.append((x, kind, False))
    for xp in out_vars:
        vs.append((xp, decl[xp[:-1]], True))
    out, names = [], []
    for x, kind, primed in vs:
        base = x[:-1] if primed else x
        p = "'" if primed else ''
        if kind == 'bool':
            bits = [base + p]
        else:
            bits = [f'{base}_{i}{p}' for i in range(nbits(kind))]
        out.append((x, kind, primed, bits))
        names += bits
    return out, names


def build(case):
    """Automaton, relation BDD u, universe."""
    import omega.symbolic.temporal as trl
    import omega.symbolic.functions as fcn
    import dd.cudd as cudd
    import dd.autoref as autoref
    aut = trl.Automaton()
    mode = case['mode']
    if mode == 'nocudd-autoref':
        aut.bdd = autoref.BDD()
    else:
        aut.bdd = cudd.BDD()
    fcn._bdd = cudd if mode == 'cudd' else None
    aut.declare_variables(**case['decl'])
    uni, names = universe(case)
    kind, spec = case['rel']
    if kind == 'formula':
        u = aut.to_bdd(spec)
    else:
        u = cs.bdd_from_table(aut.bdd, len(names), int(spec), names)
    return aut, u, uni, names


def run_pipeline(case):
    """Run the real code generator and the generated step on all states.

    Returns dict(T, names, uni, order, gtabs, results=[(state, out|exc)],
    dag, roots, nlev)."""
    import omega.symbolic.codegen as cg
    import omega.symbolic.functions as fcn
    import dd.cudd as cudd
    try:
        aut, u, uni, names = build(case)
        n = len(names)
        pos = {b: i for i, b in enumerate(names)}
        bdd = aut.bdd
        supp = bdd.support(u)
        if not set(supp) <= set(names):
            return dict(outside=sorted(set(supp) - set(names)))
        T = cs.table_of_bdd_fast(bdd, n, u, names)
        spy = cs.Spy(bdd)
        aut.bdd = spy
        try:
            code = cg.dumps_bdds_as_code(u, case['out_vars'], aut)
        finally:
            aut.bdd = bdd
        segs = cs.orders_from_log(spy.log)
        order = [(pos[s['yp']], [pos[z] for z in s['zs']]) for s in segs]
        gs = {}
        for ev in spy.log:
            if ev[0] == 'let' and len(ev[1]) == 1:
                (k, v), = ev[1].items()
                if not isinstance(v, bool):
                    gs[k] = v
        gtabs = {pos[k]: cs.table_of_bdd_fast(bdd, n, g, names)
                 for k, g in gs.items()}
        # DAG of the functions, as the emitter saw it
        glist = list(gs.items())
        dag = ce.extract_dag(bdd, [g for _, g in glist], pos)
        roots = [(pos[k], int(g)) for k, g in glist]
        nlev = len(bdd.vars)
        spy.log.clear()
        ns = {}
        exec(compile(code, '<generated step>', 'exec'), ns)
        step = ns['step']
        ins = [(x, kind) for x, kind, primed, _ in uni if not primed]
        results = []
        for vals in itertools.product(*[values_of(k) for _, k in ins]):
            state = {x: v for (x, _), v in zip(ins, vals)}
            try:
                out = step(dict(state))
            except Exception as e:
                out = ('EXC', type(e).__name__ + ': ' + str(e)[:60])
            results.append((state, out))
        c_code = cg.dumps_bdds_as_code(u, case['out_vars'], aut, lang='c')
        res = dict(T=T, names=names, uni=uni, order=order, gtabs=gtabs,
                   results=results, dag=dag, roots=roots, nlev=nlev,
                   missing=sorted(ns['missing_bits']), code=code,
                   c_code=c_code)
        del gs, glist, segs, u, spy
        return res
    finally:
        fcn._bdd = cudd


def idx_of(uni, names, assignment):
    """Index in the universe of an assignment {var: value}."""
    k = 0
    p = 0
    for x, kind, primed, bits in uni:
        bs = own_bits(kind, assignment[x])
        for b in bs:
            if b:
                k |= 1 << p
            p += 1
    return k


def oracle(case, res):
    """C13 on explicit sets: every state of representable values for which
    some output satisfies the relation is mapped to an assignment of exactly
    the requested outputs that satisfies it.  None or (what, state, got)."""
    uni, names, T = res['uni'], res['names'], res['T']
    outs = [(x, kind) for x, kind, primed, _ in uni if primed]
    out_vals = list(itertools.product(*[values_of(k) for _, k in outs]))
    res['n_solvable'] = 0
    for state, out in res['results']:
        sols = []
        for ov in out_vals:
            full = dict(state)
            full.update({x: v for (x, _), v in zip(outs, ov)})
            if (T >> idx_of(uni, names, full)) & 1:
                sols.append(ov)
        if not sols:
            continue
        res['n_solvable'] += 1
        if isinstance(out, tuple):
            return ('generated step raised ' + out[1], state, None)
        if sorted(out) != sorted(x for x, _ in outs):
            return ('returned keys are not the requested outputs', state, out)
        for (x, kind) in outs:
            v = out[x]
            ok = (v is True or v is False) if kind == 'bool' else \
                (isinstance(v, int) and not isinstance(v, bool))
            if not ok or v not in values_of(kind):
                return (f'value of {x} is not of its type', state, out)
        full = dict(state)
        full.update(out)
        if not (T >> idx_of(uni, names, full)) & 1:
            return ('returned assignment does not satisfy the relation',
                    state, out)
    return None


# ---------------------------------------------------------------- generators
def rand_decl(rng, max_bits=11):
    while True:
        nv = rng.choice([1, 2, 2, 3, 3])
        names = ['x', 'y', 'z'][:nv]
        decl = {v: rng.choice(KINDS) for v in names}
        k = rng.randint(1, nv)
        outs = sorted(rng.sample(names, k))
        tot = sum(nbits(decl[v]) for v in names) + \
            sum(nbits(decl[v]) for v in outs)
        if tot <= max_bits:
            return decl, [v + "'" for v in outs]


def rand_term(rng, decl, outs, primed_ok=True):
    ints = [v for v, k in decl.items() if k != 'bool']
    cands = list(ints)
    if primed_ok:
        cands += [o for o in outs if decl[o[:-1]] != 'bool']
    c = rng.random()
    if not cands or c < 0.2:
        return str(rng.randint(-4, 6))
    a = rng.choice(cands)
    if c < 0.6:
        return a
    if c < 0.8:
        return f'({a} {rng.choice("+-")} {rng.randint(1, 3)})'
    b = rng.choice(cands)
    return f'({a} {rng.choice("+-")} {b})'


def rand_atom(rng, decl, outs):
    bools = [v for v, k in decl.items() if k == 'bool']
    bools += [o for o in outs if decl[o[:-1]] == 'bool']
    ints = [v for v, k in decl.items() if k != 'bool']
    if bools and (not ints or rng.random() < 0.35):
        return rng.choice(bools)
    op = rng.choice(['=', '=', '<', '<=', '>', '>=', '!='])
    return f'({rand_term(rng, decl, outs)} {op} {rand_term(rng, decl, outs)})'


def rand_formula(rng, decl, outs, depth):
    if depth == 0 or rng.random() < 0.25:
        return rand_atom(rng, decl, outs)
    op = rng.choice(['/\\', '\\/', '=>', '<=>', '~'])
    a = rand_formula(rng, decl, outs, depth - 1)
    if op == '~':
        return f'(~ {a})'
    b = rand_formula(rng, decl, outs, depth - 1)
    return f'({a} {op} {b})'


def rand_assignment_formula(rng, decl, outs):
    """/\\ of y' = term(unprimed) or b' <=> atom(unprimed): functional."""
    cs_ = []
    for o in outs:
        if decl[o[:-1]] == 'bool':
            cs_.append(f"({o} <=> {rand_formula(rng, decl, [], 1)})")
        else:
            t = rand_term(rng, decl, [], primed_ok=False)
            if rng.random() < 0.3:
                bools = [v for v, k in decl.items() if k == 'bool']
                g = rng.choice(bools) if bools else \
                    rand_formula(rng, decl, [], 0)
                t = f'(IF {g} THEN {t} ELSE {rand_term(rng, decl, [], False)})'
            cs_.append(f'({o} = {t})')
    return ' /\\ '.join(cs_)


def rand_case(rng, mode):
    decl, outs = rand_decl(rng)
    c = rng.random()
    if c < 0.35:
        rel = ('formula', rand_assignment_formula(rng, decl, outs))
    elif c < 0.65:
        rel = ('formula', rand_formula(rng, decl, outs, rng.randint(1, 3)))
    else:
        case0 = dict(decl=decl, out_vars=outs)
        uni, names = universe(case0)
        n = len(names)
        fam, t = cs.rand_relation(
            rng, n, [i for i, b in enumerate(names) if b.endswith("'")])
        rel = ('table', str(t))
    return dict(decl=decl, out_vars=outs, rel=rel, mode=mode)


# ------------------------------------------------------------ Coq literals
def val_lit(kind, v):
    if kind == 'bool':
        return f'VB {"true" if v else "false"}'
    return f'VZ ({v})'


def type_lit(kind):
    if kind == 'bool':
        return 'TBool'
    return f'TInt ({kind[0]}) ({kind[1]})'


def layout_lit(uni, names):
    pos = {b: i for i, b in enumerate(names)}
    return '[' + '; '.join(
        f'({type_lit(kind)}, [' + '; '.join(f'{pos[b]}%nat' for b in bits)
        + '])' for x, kind, primed, bits in uni) + ']'
