(* L4 / AlgOrder: order facts for the algebra operations. *)
From Coq Require Import List Bool Arith Lia.
Import ListNotations.
From Omega Require Import L4.Arena L4.ArenaFacts L4.Kleene.

Section AlgOrder.
Variables nc nx ny : nat.
Local Notation le := (le nc nx ny).
Local Notation eqv := (eqv nc nx ny).
Local Notation band := (band nc nx ny).
Local Notation bor := (bor nc nx ny).
Local Notation bnot := (bnot nc nx ny).

Lemma bor_le a a' b b' : le a a' -> le b b' -> le (bor a b) (bor a' b').
Proof.
  intros Ha Hb v Hv. rewrite !bor_spec, !orb_true_iff.
  intros [H|H]; [left; apply Ha|right; apply Hb]; assumption.
Qed.
Lemma band_le a a' b b' : le a a' -> le b b' -> le (band a b) (band a' b').
Proof.
  intros Ha Hb v Hv. rewrite !band_spec, !andb_true_iff.
  intros [H1 H2]; split; [apply Ha|apply Hb]; assumption.
Qed.
Lemma bor_le_l a b : le a (bor a b).
Proof. intros v _ H. rewrite bor_spec, H. reflexivity. Qed.
Lemma bor_le_r a b : le b (bor a b).
Proof. intros v _ H. rewrite bor_spec, H. apply orb_true_r. Qed.
Lemma bor_lub a b c : le a c -> le b c -> le (bor a b) c.
Proof.
  intros Ha Hb v Hv. rewrite bor_spec, orb_true_iff.
  intros [H|H]; [apply Ha|apply Hb]; assumption.
Qed.
Lemma band_le_l a b : le (band a b) a.
Proof. intros v _. rewrite band_spec, andb_true_iff. tauto. Qed.
Lemma band_le_r a b : le (band a b) b.
Proof. intros v _. rewrite band_spec, andb_true_iff. tauto. Qed.
Lemma band_glb a b c : le c a -> le c b -> le c (band a b).
Proof.
  intros Ha Hb v Hv H. rewrite band_spec, andb_true_iff.
  split; [apply Ha|apply Hb]; assumption.
Qed.
Lemma le_btrue a : le a btrue.
Proof. intros v _ _. reflexivity. Qed.
Lemma bfalse_le a : le bfalse a.
Proof. intros v _ H. discriminate H. Qed.
Lemma le_pointwise a b : (forall v, a v = b v) -> eqv a b.
Proof. intros H v _. apply H. Qed.
Lemma le_of_eq a b c : (forall v, a v = b v) -> le b c -> le a c.
Proof. intros H Hb v Hv Ha. apply Hb; [exact Hv|]. rewrite <- H. exact Ha. Qed.
Lemma le_to_eq a b c : (forall v, b v = c v) -> le a b -> le a c.
Proof. intros H Hb v Hv Ha. rewrite <- H. apply Hb; assumption. Qed.

End AlgOrder.
