"""C15: run the real omega.logic.past.translate, parse what it returns with the
real parser, solve the testers along every sequence of valuations and compare
with the direct anchored past semantics (independent oracle).

Nothing here knows how `translate` works: the initial condition and the
transition relation are treated as arbitrary Boolean formulas over current
and primed variables and are solved by exhaustive search over the auxiliary
variables (pruned conjunct by conjunct).
"""
import itertools


# ------------------------------------------------------------ real code
_PARSER = None


def parser():
    global _PARSER
    if _PARSER is None:
        from omega.logic import lexyacc
        _PARSER = lexyacc.Parser()
    return _PARSER


class Unsupported(Exception):
    pass


_BIN = {'/\\': '/\\', '\\/': '\\/', '=>': '=>', '<=>': '<=>', '^': '^'}
_CMP = ('=', '!=', '#', '/=', '<', '<=', '=<', '>', '>=')
_ARITH = ('+', '-', '*', '/', '%')


def atom_key(t):
    """Canonical text of an arithmetic comparison / term (parse tree)."""
    if hasattr(t, 'operator'):
        op, xs = t.operator, t.operands
        if len(xs) == 2 and op in _CMP + _ARITH:
            return f'({atom_key(xs[0])} {op} {atom_key(xs[1])})'
        raise Unsupported(f'operator {op!r} inside a comparison')
    if t.type in ('var', 'num'):
        return t.value
    raise Unsupported(f'terminal {t.value!r} inside a comparison')



def from_tree(t):
    """omega.logic.ast tree -> action-formula tuple
    ('v', x) ('a', key) ('c', b) ('~', f) ("'", f) (binop, f, g)
    ('ite', c, a, b)
    ('[]', f) ('<>', f) ('U', f, g)."""
    if hasattr(t, 'operator'):
        op, xs = t.operator, t.operands
        if op == 'X' and len(xs) == 1:
            return ("'", from_tree(xs[0]))
        if op == '~' and len(xs) == 1:
            return ('~', from_tree(xs[0]))
        if op in _BIN and len(xs) == 2:
            return (op, from_tree(xs[0]), from_tree(xs[1]))
        if op in _CMP and len(xs) == 2:
            return ('a', atom_key(t))
        if op == 'ite' and len(xs) == 3:
            return ('ite',) + tuple(from_tree(x) for x in xs)
        if op in ('[]', '<>') and len(xs) == 1:
            return (op, from_tree(xs[0]))
        if op == 'U' and len(xs) == 2:
            return ('U', from_tree(xs[0]), from_tree(xs[1]))
        raise Unsupported(f'operator {op!r} in translated formula')
    if t.type == 'bool':
        v = t.value.upper()
        assert v in ('TRUE', 'FALSE'), t.value
        return ('c', v == 'TRUE')
    if t.type == 'var':
        return ('v', t.value)
    raise Unsupported(f'terminal {t.value!r} of type {t.type!r}')


def run_translate(s, until=False):
    """Call the real translate on string s; parse every returned string."""
    from omega.logic import past
    dvars, r, init, trans, win = past.translate(s, until=until)
    p = parser()
    return dict(
        source=s, until=until,
        names=list(dvars),
        types={k: d.get('type') for k, d in dvars.items()},
        strings=dict(formula=r, init=init, trans=trans, win=list(win)),
        formula=from_tree(p.parse(r)),
        init=from_tree(p.parse(init)),
        trans=from_tree(p.parse(trans)),
        win=[from_tree(p.parse(w)) for w in win])


# ----------------------------------------------------- evaluating actions
def conjuncts(t):
    if t[0] == '/\\':
        return conjuncts(t[1]) + conjuncts(t[2])
    return [t]


def support(t, primed=False, acc=None):
    """Set of (name, primed) pairs read by t."""
    if acc is None:
        acc = set()
    k = t[0]
    if k in ('v', 'a'):
        acc.add((t[1], primed))
    elif k == 'c':
        pass
    elif k == "'":
        support(t[1], True, acc)
    else:
        for x in t[1:]:
            support(x, primed, acc)
    return acc


def temporal_free(t):
    if t[0] in ('[]', '<>', 'U'):
        return False
    if t[0] in ('v', 'a', 'c'):
        return True
    return all(temporal_free(x) for x in t[1:])


def compile_action(t, index):
    """Python function (cur, nxt) -> bool; cur/nxt are tuples indexed by
    `index[name]`.  A primed subformula is read in nxt."""
    def go(t, primed):
        k = t[0]
        if k in ('v', 'a'):
            return f'{"n" if primed else "c"}[{index[t[1]]}]'
        if k == 'c':
            return 'True' if t[1] else 'False'
        if k == '~':
            return f'(not {go(t[1], primed)})'
        if k == "'":
            return go(t[1], True)
        if k == '/\\':
            return f'({go(t[1], primed)} and {go(t[2], primed)})'
        if k == '\\/':
            return f'({go(t[1], primed)} or {go(t[2], primed)})'
        if k == '=>':
            return f'((not {go(t[1], primed)}) or {go(t[2], primed)})'
        if k == '<=>':
            return f'({go(t[1], primed)} == {go(t[2], primed)})'
        if k == '^':
            return f'({go(t[1], primed)} != {go(t[2], primed)})'
        if k == 'ite':
            return (f'({go(t[2], primed)} if {go(t[1], primed)} '
                    f'else {go(t[3], primed)})')
        raise Unsupported(f'temporal operator {k!r} in an action')
    return eval('lambda c, n: ' + go(t, False), {})


# ------------------------------------------------------ direct semantics
def sem(f, tr, i, memo=None):
    """Anchored past semantics of f at position i of the sequence tr (list of
    dicts); the declarative clauses (exists/forall over positions)."""
    if memo is not None:
        key = (id(f), i)
        if key in memo:
            return memo[key]
    k = f[0]
    if k in ('v', 'a'):
        r = tr[i][f[1]]
    elif k == 'c':
        r = f[1]
    elif k == '~':
        r = not sem(f[1], tr, i, memo)
    elif k == 'ite':
        r = (sem(f[2], tr, i, memo) if sem(f[1], tr, i, memo)
             else sem(f[3], tr, i, memo))
    elif k == '-X':
        r = True if i == 0 else sem(f[1], tr, i - 1, memo)
    elif k == '--X':
        r = False if i == 0 else sem(f[1], tr, i - 1, memo)
    elif k == '-[]':
        r = all(sem(f[1], tr, j, memo) for j in range(i + 1))
    elif k == '-<>':
        r = any(sem(f[1], tr, j, memo) for j in range(i + 1))
    elif k == 'S':
        r = any(sem(f[2], tr, j, memo) and
                all(sem(f[1], tr, m, memo) for m in range(j + 1, i + 1))
                for j in range(i + 1))
    else:
        a, b = sem(f[1], tr, i, memo), sem(f[2], tr, i, memo)
        if k == '/\\':
            r = a and b
        elif k == '\\/':
            r = a or b
        elif k == '=>':
            r = (not a) or b
        elif k == '<=>':
            r = a == b
        elif k == '^':
            r = a != b
        else:
            raise Unsupported(k)
    if memo is not None:
        memo[key] = r
    return r


# ------------------------------------------------------------- the solver
class Problem:
    """Testers returned by the real code for one formula, prepared for
    solving along sequences of valuations of `uservars`."""

    def __init__(self, out, uservars):
        self.out = out
        self.uservars = list(uservars)
        self.aux = list(out['names'])
        clash = set(self.aux) & set(self.uservars)
        assert not clash, clash
        self.all = self.uservars + self.aux
        self.index = {v: i for i, v in enumerate(self.all)}
        nu = len(self.uservars)
        for part in ('init', 'trans', 'formula'):
            for (v, _) in support(out[part]):
                if v not in self.index:
                    raise Unsupported(f'unknown variable {v!r} in {part}')
        # conjuncts of the initial condition, by the last aux var they read
        self.init_c = self._layer(conjuncts(out['init']), primed=False)
        self.trans_c = self._layer(conjuncts(out['trans']), primed=True)
        self.formula = compile_action(out['formula'], self.index)
        self.nu = nu
        self.step_cache = {}
        self.step_cache_all = {}
        self.init_cache = {}

    def _layer(self, cs, primed):
        """layers[j] = conjuncts that can be evaluated once the first j
        auxiliary unknowns are assigned (unknowns: the aux variables of the
        current state for init, of the next state for trans)."""
        nu = len(self.uservars)
        layers = [[] for _ in range(len(self.aux) + 1)]
        for c in cs:
            last = 0
            for (v, p) in support(c):
                i = self.index[v]
                if i >= nu and p == primed:
                    last = max(last, i - nu + 1)
                if not primed and p:
                    raise Unsupported('primed variable in initial condition')
            layers[last].append(compile_action(c, self.index))
        return layers

    def _search(self, layers, fixed_cur, user_unknown, limit=2):
        # limit=None: all solutions
        """All assignments of the unknown aux vector (list of tuples)."""
        k = len(self.aux)
        sols = []

        def rec(j, partial):
            if limit is not None and len(sols) >= limit:
                return
            # evaluate the conjuncts that became ready
            vec = user_unknown + tuple(partial) + (False,) * (k - j)
            if fixed_cur is None:
                cur, nxt = vec, vec
            else:
                cur, nxt = fixed_cur, vec
            for c in layers[j]:
                if not c(cur, nxt):
                    return
            if j == k:
                sols.append(tuple(partial))
                return
            for b in (False, True):
                rec(j + 1, partial + [b])
        rec(0, [])
        return sols

    def solve_init(self, u0):
        key = u0
        if key not in self.init_cache:
            self.init_cache[key] = self._search(self.init_c, None, u0)
        return self.init_cache[key]

    def solve_step(self, cur, u1):
        key = (cur, u1)
        if key not in self.step_cache:
            self.step_cache[key] = self._search(self.trans_c, cur, u1)
        return self.step_cache[key]


def explore(prob, f, maxlen, on_node=None, memo_sem=True):
    """Depth-first over all sequences of valuations up to length maxlen.

    At every sequence checks that the testers have exactly one solution and
    that the translated formula has the truth value of f at the last
    position.  Returns (failure or None, statistics).  failure is a dict with
    the sequence, what went wrong, expected and observed values."""
    nu = prob.nu
    vals = list(itertools.product((False, True), repeat=nu))
    stats = dict(sequences=0, true=0, false=0, max_aux=len(prob.aux))
    trace, sol = [], []
    memo = {}

    def fail(kind, **kw):
        return dict(kind=kind,
                    trace=[dict(zip(prob.uservars, u)) for u in trace],
                    **kw)

    def rec():
        i = len(trace)
        for u in vals:
            trace.append(u)
            if i == 0:
                nxt = prob.solve_init(u)
            else:
                nxt = prob.solve_step(trace[i - 1] + sol[i - 1], u)
            if len(nxt) != 1:
                f_ = fail('no-solution' if not nxt else 'several-solutions',
                          position=i, candidates=[list(a) for a in nxt],
                          solution_so_far=[list(a) for a in sol])
                trace.pop()
                return f_
            sol.append(nxt[0])
            state = u + nxt[0]
            got = prob.formula(state, state)
            trd = [dict(zip(prob.uservars, w)) for w in trace]
            # drop memo entries of the position being recomputed
            if memo_sem:
                for key in [k for k in memo if k[1] >= i]:
                    del memo[key]
            want = sem(f, trd, i, memo if memo_sem else None)
            stats['sequences'] += 1
            stats['true' if want else 'false'] += 1
            if on_node is not None:
                on_node(list(trace), list(sol), got, want)
            if got != want:
                f_ = fail('wrong-truth-value', position=i, expected=want,
                          got=got, solution=[list(a) for a in sol])
                sol.pop()
                trace.pop()
                return f_
            if i + 1 < maxlen:
                r = rec()
                if r is not None:
                    sol.pop()
                    trace.pop()
                    return r
            sol.pop()
            trace.pop()
        return None
    return rec(), stats


def solve_one(prob, f, trace_dicts):
    """Solution and truth values along one given sequence (list of dicts):
    returns (solution rows, truth values of the translated formula, truth
    values of f) or raises ValueError when the solution is not unique."""
    sol, got, want = [], [], []
    us = [tuple(d[v] for v in prob.uservars) for d in trace_dicts]
    for i, u in enumerate(us):
        nxt = (prob.solve_init(u) if i == 0
               else prob.solve_step(us[i - 1] + sol[i - 1], u))
        if len(nxt) != 1:
            raise ValueError((i, nxt))
        sol.append(nxt[0])
        st = u + nxt[0]
        got.append(prob.formula(st, st))
        want.append(sem(f, trace_dicts, i))
    return sol, got, want


# =========================================================================
# until=True: infinite sequences u v^omega (ultimately periodic)
# =========================================================================
class UP:
    """Ultimately periodic Boolean sequence: pre ++ loop^omega (exact)."""

    def __init__(self, pre, loop):
        assert loop
        self.pre, self.loop = list(pre), list(loop)

    def at(self, t):
        if t < len(self.pre):
            return self.pre[t]
        return self.loop[(t - len(self.pre)) % len(self.loop)]

    def shape(self, npre, nper):
        """Same sequence with prefix length npre >= len(pre) and period nper
        (a multiple of the period)."""
        assert npre >= len(self.pre) and nper % len(self.loop) == 0
        return UP([self.at(t) for t in range(npre)],
                  [self.at(npre + t) for t in range(nper)])


def _lcm(a, b):
    import math
    return a * b // math.gcd(a, b)


def _align(*xs):
    npre = max(len(x.pre) for x in xs)
    nper = 1
    for x in xs:
        nper = _lcm(nper, len(x.loop))
    return [x.shape(npre, nper) for x in xs]


def _pointwise(g, *xs):
    ys = _align(*xs)
    return UP([g(*(y.pre[t] for y in ys)) for t in range(len(ys[0].pre))],
              [g(*(y.loop[t] for y in ys)) for t in range(len(ys[0].loop))])


def _run(step, first, x):
    """s(0) = first(x(0)), s(t+1) = step(x(t+1), s(t)) for a step function
    monotone in s: the values on the second pass through the loop repeat
    for ever (a monotone map on {0,1} is idempotent)."""
    n, m = len(x.pre), len(x.loop)
    vals = []
    for t in range(n + 2 * m):
        vals.append(first(x.at(t)) if t == 0 else step(x.at(t), vals[-1]))
    # exactness check of the claim above: a third pass gives the same values
    third = []
    s = vals[-1]
    for t in range(n + 2 * m, n + 3 * m):
        s = step(x.at(t), s)
        third.append(s)
    assert third == vals[n + m:], 'not stabilised'
    return UP(vals[:n + m], vals[n + m:])


def sem_up(f, word_u, word_v):
    """Exact semantics of a past/future LTL formula on u v^omega, as an
    ultimately periodic Boolean sequence.  word_u, word_v: lists of dicts."""
    k = f[0]
    if k in ('v', 'a'):
        return UP([d[f[1]] for d in word_u], [d[f[1]] for d in word_v])
    if k == 'c':
        return UP([], [f[1]])
    if k == '~':
        return _pointwise(lambda a: not a, sem_up(f[1], word_u, word_v))
    if k == 'ite':
        return _pointwise(lambda c, a, b: a if c else b,
                          *(sem_up(x, word_u, word_v) for x in f[1:]))
    if k in ('-X', '--X'):
        x = sem_up(f[1], word_u, word_v)
        # s'(0) = weak ? true : false, s'(t+1) = s(t)
        return UP([k == '-X'] + x.pre, x.loop)
    if k == '-[]':
        x = sem_up(f[1], word_u, word_v)
        return _run(lambda a, s: a and s, lambda a: a, x)
    if k == '-<>':
        x = sem_up(f[1], word_u, word_v)
        return _run(lambda a, s: a or s, lambda a: a, x)
    if k == 'S':
        a, b = _align(sem_up(f[1], word_u, word_v), sem_up(f[2], word_u, word_v))
        pair = UP(list(zip(a.pre, b.pre)), list(zip(a.loop, b.loop)))
        return _run(lambda ab, s: ab[1] or (ab[0] and s), lambda ab: ab[1], pair)
    if k in ('[]', '<>', 'U'):
        if k == 'U':
            a, b = _align(sem_up(f[1], word_u, word_v),
                          sem_up(f[2], word_u, word_v))
        else:
            b = sem_up(f[1], word_u, word_v)
            a = UP(b.pre, b.loop)
        n, m = len(b.pre), len(b.loop)
        N = n + m
        succ = lambda t: t + 1 if t + 1 < N else n
        A = a.pre + a.loop
        B = b.pre + b.loop
        if k == '[]':
            # greatest fixpoint of  s(t) = B(t) and s(succ t)
            s = [True] * N
            for _ in range(N + 1):
                s = [B[t] and s[succ(t)] for t in range(N)]
        else:
            if k == '<>':
                A = [True] * N
            # least fixpoint of  s(t) = B(t) or (A(t) and s(succ t))
            s = [False] * N
            for _ in range(N + 1):
                s = [B[t] or (A[t] and s[succ(t)]) for t in range(N)]
        return UP(s[:n], s[n:])
    a, b = sem_up(f[1], word_u, word_v), sem_up(f[2], word_u, word_v)
    g = {'/\\': lambda x, y: x and y, '\\/': lambda x, y: x or y,
         '=>': lambda x, y: (not x) or y, '<=>': lambda x, y: x == y,
         '^': lambda x, y: x != y}[k]
    return _pointwise(g, a, b)


def lasso_check(prob, f, word_u, word_v):
    """Fair solutions of the real testers on u v^omega: exactly one?  and is
    the translated formula equivalent to f at every position under it?
    Returns None or a failure dict.  prob.out['win'] are the recurrence
    goals.  Exhaustive search in the product of the lasso with the
    auxiliary valuations."""
    word = list(word_u) + list(word_v)
    N, n0 = len(word), len(word_u)
    us = [tuple(d[v] for v in prob.uservars) for d in word]
    succ = lambda i: i + 1 if i + 1 < N else n0
    wins = [compile_action(w, prob.index) for w in prob.out['win']]
    init = [(0, a) for a in prob._search(prob.init_c, None, us[0], limit=None)]
    edges = {}
    stack = list(init)
    while stack:
        node = stack.pop()
        if node in edges:
            continue
        i, a = node
        j = succ(i)
        key = (us[i] + a, us[j])
        if key not in prob.step_cache_all:
            prob.step_cache_all[key] = prob._search(
                prob.trans_c, us[i] + a, us[j], limit=None)
        edges[node] = [(j, b) for b in prob.step_cache_all[key]]
        stack.extend(edges[node])
    nodes = list(edges)
    # strongly connected components (Tarjan, iterative enough for <= 10^3)
    import sys
    sys.setrecursionlimit(10000)
    index, low, onst, st, comp = {}, {}, set(), [], {}
    counter = [0]

    def strong(v):
        index[v] = low[v] = counter[0]
        counter[0] += 1
        st.append(v)
        onst.add(v)
        for w in edges[v]:
            if w not in index:
                strong(w)
                low[v] = min(low[v], low[w])
            elif w in onst:
                low[v] = min(low[v], index[w])
        if low[v] == index[v]:
            c = []
            while True:
                w = st.pop()
                onst.discard(w)
                comp[w] = v
                c.append(w)
                if w == v:
                    break
    for v in nodes:
        if v not in index:
            strong(v)
    members = {}
    for v, c in comp.items():
        members.setdefault(c, []).append(v)
    fair_scc = set()
    for c, vs in members.items():
        nontrivial = len(vs) > 1 or vs[0] in edges[vs[0]]
        if not nontrivial:
            continue
        states = [us[i] + a for (i, a) in vs]
        if all(any(w(s, s) for s in states) for w in wins):
            fair_scc.add(c)
    # nodes that can reach a fair component
    fair = {v for v in nodes if comp[v] in fair_scc}
    changed = True
    while changed:
        changed = False
        for v in nodes:
            if v not in fair and any(w in fair for w in edges[v]):
                fair.add(v)
                changed = True
    start = [v for v in init if v in fair]
    desc = dict(u=word_u, v=word_v)
    if len(start) != 1:
        return dict(kind='no-fair-solution' if not start
                    else 'several-fair-solutions', position=0,
                    candidates=[list(a) for (_, a) in start], **desc)
    path, seen = [], {}
    v = start[0]
    while v not in seen:
        seen[v] = len(path)
        path.append(v)
        nxt = [w for w in edges[v] if w in fair]
        if len(nxt) != 1:
            return dict(kind='several-fair-solutions', position=len(path),
                        candidates=[list(a) for (_, a) in nxt], **desc)
        v = nxt[0]
    pre = seen[v]
    got = [prob.formula(us[i] + a, us[i] + a) for (i, a) in path]
    got = UP(got[:pre], got[pre:])
    want = sem_up(f, word_u, word_v)
    g, w = _align(got, want)
    for t in range(len(g.pre) + len(g.loop)):
        if g.at(t) != w.at(t):
            return dict(kind='wrong-truth-value', position=t,
                        expected=w.at(t), got=g.at(t),
                        solution=[list(a) for (_, a) in path], **desc)
    return None
