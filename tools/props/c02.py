"""C02 — synthesized Streett(1) implementation in closed loop."""
from vlib import implcheck

ID = 'C02'
LEVEL = 'proof'
THEORIES = implcheck.THEORIES
_c = implcheck.ImplCheck(
    ID, 'streett',
    ['GenProofs/FixpointProofs.v', 'GenProofs/StreettProofs.v',
     'GenProofs/InitProofs.v', 'GenProofs/TransducerModel.v',
     'GenProofs/StreettTProofs.v', 'GenProofs/StreettWins.v',
     'GenProofs/MooreIndepSolver.v', 'Properties/C02.v'],
    'hand-written model GenProofs/TransducerModel.v of '
    'make_streett_transducer (tie H: full truth tables of action[impl] and '
    'init[impl] compared on every run), built on the translated '
    '_controllable_action, _make_init and solver (tie T)')
prove, correspond, search, replay = (_c.prove, _c.correspond, _c.search,
                                     _c.replay)
