(* L5Cover / MinCoverTotal: the model of cover.minimize RETURNS a cover on
   every instance (for every pick function that returns an element of every
   non-empty set): the fuel of the model suffices and no pick is made from an
   empty set.

   - CyclicCoreTotal.cyclic_core_total: the fixpoint ends within its fuel;
   - [cyclic_core_two_covers]: in the cyclic core every element of X lies
     below at least two elements of Y (so the right branch, which removes
     one element of Y, is still a feasible covering problem);
   - [traverse_total], [some_cover_total], [unfloors_total],
     [minimize_total]. *)
From Coq Require Import List ZArith Bool Lia Arith.
Import ListNotations.
From Omega Require Import L5Cover.Boxes L5Cover.BoxesProofs L5Cover.MinCover
  L5Cover.MinCoverProofs L5Cover.BoundsProofs L5Cover.CyclicCoreOpt
  L5Cover.MinCoverFull L5Cover.CyclicCoreTotal.
Open Scope Z_scope.

Section TotalAlg.
Variable rs : ranges.
Variable pick : list box -> option box.
Hypothesis pick_ok : forall s b, pick s = Some b -> In b s.
Hypothesis pick_total : forall s, pick s = None -> s = [].

(* a feasible covering problem inside the lattice *)
Definition feasible (X Y : list box) : Prop :=
  below_top rs X /\ above_bot rs Y /\ below_top rs Y /\ cov Y X.

Lemma it_feasible X Y : feasible X Y -> feasible (it_X rs X Y) (it_Y rs X Y).
Proof.
  intros [HX [HY [HYt Hc]]].
  pose proof (it_below_top rs X Y HX) as HX2.
  split; [exact HX2|]. split; [apply it_above_bot, HX|]. split.
  - intros m Hm. unfold it_Y in Hm. destruct (max_floors_In rs _ _ _ Hm) as [y [Hy ->]].
    apply diff_In in Hy. destruct Hy as [Hy _].
    apply box_le_trans with y; [|apply HYt, Hy].
    apply (floor_le rs (it_X rs X Y) Y y HX2 HY Hy).
  - intros x2 Hx2. pose proof Hx2 as Hx2'. unfold it_X in Hx2'. cbv zeta in Hx2'.
    apply diff_In in Hx2'. destruct Hx2' as [Hx1 Hne].
    pose proof Hx1 as Hx1'. unfold max_ceilings in Hx1'. apply maxima_In in Hx1'.
    destruct Hx1' as [Hin Hmax]. rewrite dedup_In in Hin. apply in_map_iff in Hin.
    destruct Hin as [x [Ex Hx]]. destruct (Hc x Hx) as [y [Hy Hle]].
    assert (Hx2y : box_le x2 y).
    { rewrite <- Ex. apply (ceil_le_over rs X Y x y HX HY Hx Hy Hle). }
    assert (Hy1 : In y (diff Y (it_e rs X Y))).
    { apply diff_In. split; [exact Hy|]. intros He. apply Hne.
      unfold it_e in He. pose proof He as He'. apply inter_In in He'. destruct He' as [Hy1 _].
      assert (y = x2).
      { apply Hmax; [|exact Hx2y]. unfold max_ceilings in Hy1. apply maxima_In in Hy1. apply Hy1. }
      subst y. exact He. }
    assert (Hfl : In (floor rs (it_X rs X Y) y)
                     (dedup (map (floor rs (it_X rs X Y)) (diff Y (it_e rs X Y))))).
    { apply dedup_In, in_map, Hy1. }
    destruct (maxima_above _ _ Hfl) as [m [Hm Hle2]].
    exists m. split; [exact Hm|].
    apply box_le_trans with (floor rs (it_X rs X Y) y); [|exact Hle2].
    apply (floor_above rs (it_X rs X Y) y x2 HX2 Hx2 Hx2y).
Qed.

(* the result of the fixpoint is the image of a last iteration that changed
   nothing as sets *)
Lemma cc_loop_last n : forall X Y E Xc Yc Ec,
  cc_loop rs n X Y E = Some (Xc, Yc, Ec) -> feasible X Y ->
  (length Yc <= length Y)%nat /\
  exists X' Y', feasible X' Y' /\ Xc = it_X rs X' Y' /\ Yc = it_Y rs X' Y' /\
                same_set Xc X' /\ same_set Yc Y'.
Proof.
  induction n as [|n IH]; intros X Y E Xc Yc Ec H HF; [discriminate|].
  rewrite cc_loop_unfold in H.
  destruct (same_setb (it_X rs X Y) X) eqn:E1; [destruct (same_setb (it_Y rs X Y) Y) eqn:E2|].
  - inversion H; subst. split; [apply it_length|].
    exists X, Y. split; [exact HF|]. split; [reflexivity|]. split; [reflexivity|].
    split; apply same_setb_true; assumption.
  - destruct (IH _ _ _ _ _ _ H (it_feasible X Y HF)) as [L R]. split; [|exact R].
    pose proof (proj2 (it_length rs X Y)). lia.
  - destruct (IH _ _ _ _ _ _ H (it_feasible X Y HF)) as [L R]. split; [|exact R].
    pose proof (proj2 (it_length rs X Y)). lia.
Qed.

Lemma meet_all_same d l :
  box_le d (top rs) -> l <> [] -> (forall y, In y l -> y = d) -> meet_all rs l = d.
Proof.
  intros Hd Hne Hall. apply box_le_antisym.
  - destruct l as [|y l']; [contradiction|]. apply meet_all_lb.
    + intros z Hz. rewrite (Hall z Hz). apply box_le_length in Hd. exact Hd.
    + rewrite <- (Hall y (or_introl eq_refl)). left. reflexivity.
  - apply meet_all_glb; [exact Hd|]. intros y Hy. rewrite (Hall y Hy). apply box_le_refl.
Qed.

(* in the cyclic core every x lies below an element of Y other than any
   given d *)
Theorem cyclic_core_two_covers X Y Xc Yc Ec :
  cyclic_core rs X Y = Some (Xc, Yc, Ec) -> feasible X Y ->
  feasible Xc Yc /\ (length Yc <= length Y)%nat /\
  forall x d, In x Xc -> exists y, In y Yc /\ y <> d /\ box_le x y.
Proof.
  intros H HF. unfold cyclic_core in H.
  destruct (cc_loop_last _ _ _ _ _ _ _ H HF) as [HL [X' [Y' [HF' [EX [EY [SX SY]]]]]]].
  assert (HFc : feasible Xc Yc) by (rewrite EX, EY; apply it_feasible, HF').
  split; [exact HFc|]. split; [exact HL|].
  intros x d Hx.
  destruct (filter (fun y => if box_leb x y then negb (box_eqb y d) else false) Yc) as [|y0 l] eqn:Ef.
  - exfalso.
    assert (Hall : forall y, In y Yc -> box_le x y -> y = d).
    { intros y Hy Hle. destruct (box_eq_dec y d) as [->|Hne]; [reflexivity|]. exfalso.
      assert (Hin : In y (filter (fun y => if box_leb x y then negb (box_eqb y d) else false) Yc)).
      { apply filter_In. split; [exact Hy|]. apply box_leb_true in Hle. rewrite Hle.
        apply negb_true_iff. destruct (box_eqb y d) eqn:Eb; [|reflexivity].
        apply box_eqb_true in Eb. contradiction. }
      rewrite Ef in Hin. destruct Hin. }
    destruct HFc as [_ [_ [_ Hcov]]]. destruct (Hcov x Hx) as [y0 [Hy0 Hle0]].
    pose proof (Hall y0 Hy0 Hle0). subst y0.
    destruct HF' as [HX' [HY' [HYt' _]]].
    (* the ceiling of x with respect to Y' is d *)
    assert (Hd' : In d Y') by (apply (proj1 SY), Hy0).
    assert (Hx' : In x X') by (apply (proj1 SX), Hx).
    assert (Hceil : ceil rs Y' x = d).
    { unfold ceil. apply meet_all_same.
      - apply HYt', Hd'.
      - intros En. assert (Hin : In d (those_over Y' x)) by (apply those_over_In; split; assumption).
        rewrite En in Hin. destruct Hin.
      - intros y Hy. apply those_over_In in Hy. destruct Hy as [Hy Hle].
        apply Hall; [apply (proj2 SY), Hy | exact Hle]. }
    (* x is a maximal ceiling, so x = d is essential *)
    pose proof Hx as Hx1. rewrite EX in Hx1. unfold it_X in Hx1. cbv zeta in Hx1.
    apply diff_In in Hx1. destruct Hx1 as [Hx1 Hne].
    assert (Hin : In (ceil rs Y' x) (dedup (map (ceil rs Y') X'))).
    { apply dedup_In, in_map, Hx'. }
    destruct (maxima_above _ _ Hin) as [m [Hm Hdm]]. rewrite Hceil in Hdm.
    assert (m = x).
    { symmetry. pose proof Hx1 as Hx1'. unfold max_ceilings in Hx1'. apply maxima_In in Hx1'.
      destruct Hx1' as [_ Hmax]. symmetry. apply Hmax.
      - apply maxima_In in Hm. apply Hm.
      - apply box_le_trans with d; assumption. }
    subst m. assert (Exd : x = d) by (apply box_le_antisym; assumption).
    apply Hne. apply inter_In. split; [exact Hx1 | rewrite Exd; exact Hd'].
  - assert (Hin : In y0 (filter (fun y => if box_leb x y then negb (box_eqb y d) else false) Yc)).
    { rewrite Ef. left. reflexivity. }
    apply filter_In in Hin. destruct Hin as [Hy0 Hc].
    destruct (box_leb x y0) eqn:El; [|discriminate].
    exists y0. split; [exact Hy0|]. split; [|apply box_leb_true, El].
    intros ->. rewrite box_eqb_refl in Hc. discriminate.
Qed.

(* ------------------------------------------------------------ branch and bound *)
Lemma pick_some s x : In x s -> exists b, pick s = Some b /\ In b s.
Proof.
  intros Hx. destruct (pick s) as [b|] eqn:E.
  - exists b. split; [reflexivity | apply pick_ok, E].
  - apply pick_total in E. subst s. destruct Hx.
Qed.

Theorem traverse_total n : forall X Y pc ub,
  feasible X Y -> (length Y < n)%nat ->
  exists r, traverse rs pick n X Y pc ub = Some r.
Proof.
  induction n as [|n IH]; intros X Y pc ub HF Hn; [lia|].
  cbn [traverse].
  destruct HF as [HX [HY [HYt Hcov]]].
  destruct (cyclic_core_total rs X Y HX HY) as [[[Xc Yc] E] Ecc]. rewrite Ecc.
  destruct (cyclic_core_two_covers X Y Xc Yc E Ecc (conj HX (conj HY (conj HYt Hcov))))
    as [[HXc [HYc [HYct Hcovc]]] [HL Two]].
  destruct Xc as [|x0 Xc'].
  - destruct (ub <=? _)%nat; eexists; reflexivity.
  - remember (x0 :: Xc') as Xc eqn:EXc.
    destruct (ub <=? _)%nat; [eexists; reflexivity|].
    assert (Hx0 : In x0 Xc) by (rewrite EXc; left; reflexivity).
    destruct (Hcovc x0 Hx0) as [y0 [Hy0 _]].
    destruct (pick_some Yc y0 Hy0) as [d [Ed Hd]]. rewrite Ed.
    set (Ynew := diff Yc [d]).
    set (Xm := filter (fun p => negb (box_leb p d)) Xc).
    assert (HYn_incl : incl Ynew Yc) by (intros z Hz; apply diff_In in Hz; apply Hz).
    assert (HLn : (length Ynew < n)%nat).
    { pose proof (diff_length_lt Yc [d] d Hd (or_introl eq_refl)). fold Ynew in H. lia. }
    assert (HFl : feasible Xm Ynew).
    { split; [intros z Hz; apply filter_In in Hz; apply HXc, Hz|].
      split; [intros z Hz; apply HYc, HYn_incl, Hz|].
      split; [intros z Hz; apply HYct, HYn_incl, Hz|].
      intros x Hx. apply filter_In in Hx. destruct Hx as [Hx Hn'].
      destruct (Hcovc x Hx) as [y [Hy Hle]]. exists y. split; [|exact Hle].
      apply diff_In. split; [exact Hy|]. intros [<-|[]].
      apply box_leb_true in Hle. rewrite Hle in Hn'. discriminate. }
    assert (HFr : feasible Xc Ynew).
    { split; [exact HXc|].
      split; [intros z Hz; apply HYc, HYn_incl, Hz|].
      split; [intros z Hz; apply HYct, HYn_incl, Hz|].
      intros x Hx. destruct (Two x d Hx) as [y [Hy [Hne Hle]]]. exists y. split; [|exact Hle].
      apply diff_In. split; [exact Hy|]. intros [E'|[]]. apply Hne. symmetry. exact E'. }
    destruct (IH Xm Ynew (S (pc + length E)) ub HFl HLn) as [[[e0 llb] ub1] EL].
    fold Ynew Xm. rewrite EL.
    destruct (ub1 <=? _)%nat; [eexists; reflexivity|].
    destruct (IH Xc Ynew (pc + length E)%nat ub1 HFr HLn) as [[[e1 rlb] ub2] ER].
    rewrite ER. eexists. reflexivity.
Qed.

Lemma some_cover_total fuel : forall rem Y,
  cov Y rem -> (length rem < fuel)%nat -> exists z, some_cover pick fuel rem Y = Some z.
Proof.
  induction fuel as [|n IH]; intros rem Y Hcov Hn; [lia|].
  destruct rem as [|r0 rem']; [eexists; reflexivity|].
  remember (r0 :: rem') as rem eqn:Er.
  assert (E : some_cover pick (S n) rem Y =
    match pick rem with
    | None => None
    | Some x0 =>
      match pick (those_over Y x0) with
      | None => None
      | Some y0 =>
        match some_cover pick n (filter (fun p => negb (box_leb p y0)) rem) Y with
        | Some z => Some (y0 :: z)
        | None => None
        end
      end
    end).
  { rewrite Er. reflexivity. }
  rewrite E. clear E.
  destruct (pick_some rem r0) as [x0 [Ex Hx0]]; [rewrite Er; left; reflexivity|]. rewrite Ex.
  destruct (Hcov x0 Hx0) as [y [Hy Hle]].
  destruct (pick_some (those_over Y x0) y) as [y0 [Ey Hy0]]; [apply those_over_In; split; assumption|].
  rewrite Ey. apply those_over_In in Hy0. destruct Hy0 as [Hy0 Hle0].
  destruct (IH (filter (fun p => negb (box_leb p y0)) rem) Y) as [z Ez].
  - intros x Hx. apply filter_In in Hx. apply Hcov, Hx.
  - assert (L : (length (filter (fun p => negb (box_leb p y0)) rem) < length rem)%nat).
    { pose proof (filter_length_lt (fun p => negb (box_leb p y0)) (fun _ => true) rem
                    (fun _ _ _ => eq_refl)) as H.
      rewrite (filter_all_true (fun _ => true) rem (fun _ _ => eq_refl)) in H. apply H.
      exists x0. split; [exact Hx0|]. split; [|reflexivity].
      apply negb_false_iff, box_leb_true, Hle0. }
    lia.
  - rewrite Ez. eexists. reflexivity.
Qed.

Lemma unfloors_total C Y : sub C Y -> exists K, unfloors pick C Y = Some K.
Proof.
  induction C as [|z C IH]; intros H; cbn [unfloors]; [eexists; reflexivity|].
  destruct (H z (or_introl eq_refl)) as [y [Hy Hle]].
  destruct (pick_some (those_over Y z) y) as [y0 [Ey _]]; [apply those_over_In; split; assumption|].
  rewrite Ey. destruct IH as [K EK]; [intros c Hc; apply H; right; exact Hc|].
  rewrite EK. eexists. reflexivity.
Qed.

Theorem minimize_xy_total X Y :
  feasible X Y -> antichain Y -> exists K, minimize_xy rs pick X Y = Some K.
Proof.
  intros HF HA. unfold minimize_xy. pose proof HF as [HX [HY [HYt Hcov]]].
  destruct (some_cover_total (S (length X)) X Y Hcov) as [c0 Ec]; [lia|]. rewrite Ec.
  destruct (traverse_total (S (length Y)) X Y 0 (length c0) HF) as [[[r lb] ub'] ET]; [lia|].
  rewrite ET. destruct r as [C|].
  - apply unfloors_total.
    destruct (traverse_inv rs pick pick_ok _ _ _ _ _ _ ET HX HY HA) as [_ [Ib _]].
    apply (Ib C eq_refl).
  - apply unfloors_total, sub_incl. apply (some_cover_sound pick pick_ok _ _ _ _ Ec).
Qed.
End TotalAlg.

Lemma box_in_below_top rs b : box_in rs b -> box_le b (top rs).
Proof.
  unfold box_in, box_le, top. intros H. induction H as [|r i rs b Hi Hb IH]; cbn; constructor;
    [|exact IH].
  unfold ival_in, ival_le in *. cbn. lia.
Qed.

Lemma instance_feasible rs f care : feasible rs (embed rs f) (primes rs f care).
Proof.
  split; [apply embed_below_top|]. split; [apply primes_above_bot|]. split.
  - intros y Hy. apply primes_In in Hy. destruct Hy as [[Hin _] _]. apply box_in_below_top, Hin.
  - apply (prime_cover_cov rs f care), primes_cover.
Qed.

(* cover.minimize returns a cover on every instance *)
Theorem minimize_total rs pick f care :
  (forall s b, pick s = Some b -> In b s) ->
  (forall s, pick s = None -> s = []) ->
  exists K, minimize rs pick f care = Some K.
Proof.
  intros Hok Htot. unfold minimize.
  apply (minimize_xy_total rs pick Hok Htot); [apply instance_feasible | apply primes_antichain].
Qed.

Lemma pick_first_total s : pick_first s = None -> s = [].
Proof. destruct s; [reflexivity | discriminate]. Qed.

Lemma pick_last_total s : pick_last s = None -> s = [].
Proof.
  unfold pick_last. intros H. destruct s as [|a s]; [reflexivity|].
  exfalso. cbn [rev] in H. destruct (rev s ++ [a]) eqn:E; [|discriminate].
  apply app_eq_nil in E. destruct E as [_ E]. discriminate.
Qed.
