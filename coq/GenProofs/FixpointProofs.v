(* C11: controllable predecessor, attractor, trap, image, descendants are
   exact.  Statements about the definitions GENERATED from
   omega/symbolic/fixpoint.py (coq/gen/FixpointGen.v), re-proved on every run. *)
From Coq Require Import List Bool Arith Lia.
Import ListNotations.
From Omega Require Import L4.Arena L4.ArenaFacts L4.Kleene L4.GameSpec L4.AlgOrder.
From OmegaGen Require Import FixpointGen.
From OmegaGP Require Import ReadsFixpoint.

Ltac ext_all := repeat first [apply forallb_ext'; intro | apply existsb_ext'; intro].
Ltac strip := repeat (progress (alg_unfold; cbn [forall_raw exist_raw dom setg vc vx vy vxp vyp]; ext_all)).
Ltac gen_atoms :=
  repeat match goal with
  | |- context [?f (mkV ?a ?b ?c ?d ?e)] =>
     is_var f; let h := fresh "b" in generalize (f (mkV a b c d e)); intro h
  end.
Ltac fin := repeat match goal with b : bool |- _ => destruct b end; reflexivity.

Section C11.
Variables nc nx ny : nat.
Variables moore plus_one : bool.

Local Notation step := (FixpointGen.step nc nx ny moore plus_one).
Local Notation attractor := (FixpointGen.attractor nc nx ny moore plus_one).
Local Notation trap := (FixpointGen.trap nc nx ny moore plus_one).
Local Notation cpre := (cpre_spec nx ny moore plus_one).
Local Notation le := (le nc nx ny).
Local Notation eqv := (eqv nc nx ny).
Local Notation NV := (NV nc nx ny).
Local Notation bor := (Arena.bor nc nx ny).
Local Notation band := (Arena.band nc nx ny).

(* (1) the one-step controllable predecessor, all four modes *)
Lemma step_spec fuel E S T v : step fuel E S T v = cpre E S T v.
Proof.
  unfold FixpointGen.step, cpre_spec, phi. destruct v as [c x y xp yp].
  destruct plus_one, moore; cbv zeta; timeout 60 (strip; gen_atoms; clear; intros; fin).
Qed.

Lemma step_mono fuel E S : mono nc nx ny (step fuel E S).
Proof.
  intros a b H. apply le_of_eq with (b := cpre E S a); [apply step_spec|].
  apply le_to_eq with (b := cpre E S b); [intro; symmetry; apply step_spec|].
  apply cpre_spec_mono, H.
Qed.

Lemma fst_unit {A} (X : A * unit) : (let '(q, tt) := X in q) = fst X.
Proof. destruct X as [q []]. reflexivity. Qed.

(* (2) attractor without `inside`: the least set that contains the target and
   is closed under the controllable predecessor; the loop never runs out of
   fuel >= |valuations|. *)
Definition attr_op fuel E S (inside : option bdd) (q : bdd) : bdd :=
  let q := bor q (step fuel E S q) in
  match inside with Some i => band q i | None => q end.

Lemma attractor_loop fuel E S T inside :
  attractor fuel E S T inside = loop nc nx ny fuel (attr_op fuel E S inside) T.
Proof.
  unfold FixpointGen.attractor. cbv zeta. rewrite fst_unit.
  rewrite <- do_while_loop. unfold attr_op. destruct inside; reflexivity.
Qed.

Lemma attr_op_mono fuel E S inside : mono nc nx ny (attr_op fuel E S inside).
Proof.
  intros a b H. unfold attr_op. cbv zeta.
  assert (H1 : le (bor a (step fuel E S a)) (bor b (step fuel E S b))).
  { apply bor_le; [exact H|apply step_mono, H]. }
  destruct inside; [apply band_le; [exact H1|apply le_refl]|exact H1].
Qed.

Lemma attractor_lfp fuel E S T :
  NV <= fuel ->
  let r := attractor fuel E S T None in
  le T r /\ le (cpre E S r) r /\
  (forall p, le T p -> le (cpre E S p) p -> le r p).
Proof.
  intros Hf r. subst r. rewrite attractor_loop.
  destruct (loop_inc nc nx ny (attr_op fuel E S None) T fuel) as [H1 [H2 H3]].
  - apply attr_op_mono.
  - unfold attr_op. apply bor_le_l.
  - pose proof (count_bound nc nx ny T). lia.
  - set (r := loop nc nx ny fuel (attr_op fuel E S None) T) in *.
    split; [exact H2|]. split.
    + apply le_trans with (attr_op fuel E S None r); [|apply eqv_le, H1].
      unfold attr_op. apply le_of_eq with (b := step fuel E S r);
        [intro; symmetry; apply step_spec|apply bor_le_r].
    + intros p Hp Hc. apply H3; [exact Hp|].
      unfold attr_op. apply bor_lub; [apply le_refl|].
      apply le_of_eq with (b := cpre E S p); [apply step_spec|exact Hc].
Qed.

(* with `inside` (and the target inside it): least set above the target closed
   under "controllable predecessor, staying inside" *)
Lemma attractor_inside_lfp fuel E S T I :
  NV <= fuel -> le T I ->
  let r := attractor fuel E S T (Some I) in
  le T r /\ le r I /\ le (band (cpre E S r) I) r /\
  (forall p, le T p -> le (band (cpre E S p) I) p -> le r p).
Proof.
  intros Hf HTI r. subst r. rewrite attractor_loop.
  destruct (loop_inc nc nx ny (attr_op fuel E S (Some I)) T fuel) as [H1 [H2 H3]].
  - apply attr_op_mono.
  - unfold attr_op. apply band_glb; [apply bor_le_l|exact HTI].
  - pose proof (count_bound nc nx ny T). lia.
  - set (r := loop nc nx ny fuel (attr_op fuel E S (Some I)) T) in *.
    split; [exact H2|]. split; [|split].
    + apply le_trans with (attr_op fuel E S (Some I) r); [apply eqv_le', H1|].
      unfold attr_op. apply band_le_r.
    + apply le_trans with (attr_op fuel E S (Some I) r); [|apply eqv_le, H1].
      unfold attr_op. apply band_le; [|apply le_refl].
      apply le_of_eq with (b := step fuel E S r);
        [intro; symmetry; apply step_spec|apply bor_le_r].
    + intros p Hp Hc. apply H3; [exact Hp|].
      unfold attr_op. intros v Hv. rewrite band_spec, bor_spec, andb_true_iff, orb_true_iff.
      intros [[H|H] Hi]; [exact H|]. apply Hc; [exact Hv|].
      rewrite band_spec, <- (step_spec fuel), H, Hi. reflexivity.
Qed.

(* (3) trap: greatest fixpoint of Q |-> (safe /\ cpre Q) \/ unless, started
   from TRUE *)
Definition trap_op fuel E S safe (unless : option bdd) (q : bdd) : bdd :=
  let q := band safe (step fuel E S q) in
  match unless with Some u => bor q u | None => q end.

Lemma trap_loop fuel E S safe unless :
  trap fuel E S safe unless = loop nc nx ny fuel (trap_op fuel E S safe unless) btrue.
Proof.
  unfold FixpointGen.trap. cbv zeta. rewrite fst_unit.
  rewrite <- do_while_loop. unfold trap_op. destruct unless; reflexivity.
Qed.

Lemma trap_op_mono fuel E S safe unless : mono nc nx ny (trap_op fuel E S safe unless).
Proof.
  intros a b H. unfold trap_op. cbv zeta.
  assert (H1 : le (band safe (step fuel E S a)) (band safe (step fuel E S b))).
  { apply band_le; [apply le_refl|apply step_mono, H]. }
  destruct unless; [apply bor_le; [exact H1|apply le_refl]|exact H1].
Qed.

Definition trap_spec_op E S safe (unless : option bdd) (q : bdd) : bdd :=
  fun v => (safe v && cpre E S q v) || match unless with Some u => u v | None => false end.

Lemma trap_op_spec fuel E S safe unless q v :
  trap_op fuel E S safe unless q v = trap_spec_op E S safe unless q v.
Proof.
  unfold trap_op, trap_spec_op. cbv zeta. destruct unless.
  - rewrite bor_spec, band_spec, step_spec. reflexivity.
  - rewrite band_spec, step_spec, orb_false_r. reflexivity.
Qed.

Lemma trap_gfp fuel E S safe unless :
  NV <= fuel ->
  let r := trap fuel E S safe unless in
  eqv (trap_spec_op E S safe unless r) r /\
  (forall p, le p (trap_spec_op E S safe unless p) -> le p r).
Proof.
  intros Hf r. subst r. rewrite trap_loop.
  destruct (loop_dec nc nx ny (trap_op fuel E S safe unless) btrue fuel) as [H1 [H2 H3]].
  - apply trap_op_mono.
  - apply le_btrue.
  - pose proof (count_bound nc nx ny btrue). lia.
  - set (r := loop nc nx ny fuel (trap_op fuel E S safe unless) btrue) in *.
    split.
    + intros v Hv. rewrite <- (trap_op_spec fuel). apply H1, Hv.
    + intros p Hp. apply H3; [apply le_btrue|].
      apply le_to_eq with (b := trap_spec_op E S safe unless p);
        [intro; symmetry; apply trap_op_spec|exact Hp].
Qed.

End C11.

(* (4) existential image and descendants *)
Section C11b.
Variables nc nx ny : nat.
Variable sys_action : bdd.
Local Notation ee_image := (FixpointGen.ee_image nc nx ny sys_action).
Local Notation descendants := (FixpointGen.descendants nc nx ny sys_action).
Local Notation le := (le nc nx ny).
Local Notation eqv := (eqv nc nx ny).
Local Notation NV := (NV nc nx ny).
Local Notation bor := (Arena.bor nc nx ny).
Local Notation band := (Arena.band nc nx ny).

Lemma ee_image_spec fuel src v :
  ee_image fuel src v = image_spec nx ny sys_action src v.
Proof.
  unfold FixpointGen.ee_image, image_spec. destruct v as [c x y xp yp]. cbv zeta.
  cbn [app]. strip. reflexivity.
Qed.

Lemma image_mono : mono nc nx ny (image_spec nx ny sys_action).
Proof.
  intros a b H v Hv. unfold image_spec.
  apply existsb_mono. intros x Hx. apply existsb_mono. intros y Hy.
  rewrite !andb_true_iff. intros [H1 H2]. split; [exact H1|].
  apply H; [|exact H2]. apply in_seq in Hx, Hy.
  unfold inr, in_range in *. cbn [vc vx vy vxp vyp].
  repeat rewrite andb_true_iff in Hv. repeat rewrite andb_true_iff.
  repeat rewrite Nat.ltb_lt in Hv. repeat rewrite Nat.ltb_lt. lia.
Qed.

Definition desc_op fuel constrain (q : bdd) : bdd :=
  band (bor q (ee_image fuel q)) constrain.

Lemma desc_op_mono fuel constrain : mono nc nx ny (desc_op fuel constrain).
Proof.
  intros a b H. unfold desc_op. apply band_le; [|apply le_refl].
  apply bor_le; [exact H|].
  apply le_of_eq with (b := image_spec nx ny sys_action a); [apply ee_image_spec|].
  apply le_to_eq with (b := image_spec nx ny sys_action b);
    [intro; symmetry; apply ee_image_spec|].
  apply image_mono, H.
Qed.

Lemma descendants_loop fuel src constrain future :
  descendants fuel src constrain future =
  loop nc nx ny fuel (desc_op fuel constrain)
    (if future then ee_image fuel src else src).
Proof.
  unfold FixpointGen.descendants. cbv zeta. rewrite fst_unit.
  rewrite <- do_while_loop. unfold desc_op. destruct future; reflexivity.
Qed.

(* descendants: inside the constraint, closed under constrained successors,
   contain the constrained start, and least such *)
Lemma descendants_spec fuel src constrain (future : bool) :
  NV < fuel ->
  let q0 := if future then ee_image fuel src else src in
  let r := descendants fuel src constrain future in
  le r constrain /\
  le (band (image_spec nx ny sys_action r) constrain) r /\
  le (band q0 constrain) r /\
  (forall p, le (band q0 constrain) p ->
             le (band (image_spec nx ny sys_action p) constrain) p ->
             le (band (image_spec nx ny sys_action q0) constrain) p -> le r p).
Proof.
  intros Hf q0 r. subst r. rewrite descendants_loop. fold q0.
  set (f := desc_op fuel constrain).
  assert (Hch : le (f q0) (f (f q0))).
  { unfold f, desc_op. apply band_glb; [|apply band_le_r].
    apply le_trans with (band (bor q0 (ee_image fuel q0)) constrain);
      [apply le_refl|apply bor_le_l]. }
  destruct (loop_inc_after_first nc nx ny f q0 fuel (desc_op_mono fuel constrain) Hch Hf)
    as [H1 [H2 H3]].
  set (r := loop nc nx ny fuel f q0) in *.
  assert (Hrc : le r constrain).
  { apply le_trans with (f r); [apply eqv_le', H1|]. unfold f, desc_op. apply band_le_r. }
  split; [exact Hrc|]. split; [|split].
  - apply le_trans with (f r); [|apply eqv_le, H1]. unfold f, desc_op.
    apply band_le; [|apply le_refl].
    apply le_of_eq with (b := ee_image fuel r);
      [intro; symmetry; apply ee_image_spec|apply bor_le_r].
  - apply le_trans with (f q0); [|exact H2]. unfold f, desc_op.
    apply band_le; [apply bor_le_l|apply le_refl].
  - intros p Hp Hc Hq. apply H3.
    + unfold f, desc_op. intros v Hv.
      rewrite band_spec, bor_spec, andb_true_iff, orb_true_iff.
      intros [[H|H] Hi].
      * apply Hp; [exact Hv|]. rewrite band_spec, H, Hi. reflexivity.
      * apply Hq; [exact Hv|]. rewrite band_spec, <- (ee_image_spec fuel), H, Hi. reflexivity.
    + unfold f, desc_op. intros v Hv.
      rewrite band_spec, bor_spec, andb_true_iff, orb_true_iff.
      intros [[H|H] Hi]; [exact H|].
      apply Hc; [exact Hv|]. rewrite band_spec, <- (ee_image_spec fuel), H, Hi. reflexivity.
Qed.

End C11b.

(* non-vacuity: a concrete arena in which the hypotheses hold and the
   operators are non-trivial *)
Example c11_nonvacuous :
  let E : bdd := fun v => Nat.eqb (vxp v) (vx v) in
  let S : bdd := fun v => Nat.leb (vyp v) (vy v + 1) in
  let T : bdd := fun v => Nat.eqb (vy v) 2 in
  map (fun y => FixpointGen.attractor 1 2 3 false true 40 E S T None (mkV 0 0 y 0 0)) [0;1;2]
    = [true; true; true] /\
  map (fun y => FixpointGen.trap 1 2 3 false true 40 E S (fun v => Nat.leb (vy v) 1) None (mkV 0 0 y 0 0)) [0;1;2]
    = [true; true; false] /\
  NV 1 2 3 <= 40.
Proof. vm_compute. repeat split; lia. Qed.
