(* L6 Syntax — lexical side conditions under which the STRING printed by
   `flatten` lexes to the token sequence of `Flatten.flatten`.
   Definitions only. *)
From Coq Require Import List String Ascii NArith Bool.
From Omega Require Import L6Syntax.Tokens L6Syntax.Lexer L6Syntax.Parser
  L6Syntax.Flatten L6Syntax.LexSpec L6Syntax.PrecSpec.
Import ListNotations.
Local Open Scope string_scope.

Section SFlat.
Variable rules : list lexrule.
Variable reserved values : list (string * string).
Variable ignore : list N.
Variable optok : string -> token.

Local Notation ltok := (lexeme_tok rules reserved values ignore).
Definition sp : option ascii := Some " "%char.

(* [sflat t c]: every lexeme of the printed form of t, followed by what
   `flatten` prints after it (and the last one by c), is delivered as the
   token `Flatten.flatten` lists for it *)
Fixpoint sflat (t : tree) (c : option ascii) : Prop :=
  match t with
  | Term KVar v => ltok v c = Some (Tok "NAME" v)
  | Term KOpname v => False
  | Term KBool v => ltok v c = Some (optok v)
  | Term KNum v =>
      if is_neg v
      then ltok "-" (hd_char (tail_str v)) = Some (Tok "MINUS" "-")
           /\ ltok (tail_str v) c = Some (Tok "NUMBER" (tail_str v))
      else ltok v c = Some (Tok "NUMBER" v)
  | Term KStr v =>
      v = """" ++ unquote v ++ """"
      /\ ltok """" (hd_char (unquote v ++ """")) = Some DQt
      /\ ltok (unquote v) (Some """"%char) = Some (Tok "NAME" (unquote v))
      /\ ltok """" c = Some DQt
  | Un op x =>
      ltok "(" sp = Some LPt /\ ltok op sp = Some (optok op)
      /\ sflat x sp /\ ltok ")" c = Some RPt
  | Bin _ op l r =>
      ltok "(" sp = Some LPt /\ sflat l sp /\ ltok op sp = Some (optok op)
      /\ sflat r sp /\ ltok ")" c = Some RPt
  | Opr op [a; b; d] =>
      ltok op (Some "("%char) = Some (optok op)
      /\ ltok "(" (hd_char (flatten_str a ++ ",")) = Some LPt
      /\ sflat a (Some ","%char) /\ ltok "," sp = Some CMt
      /\ sflat b (Some ","%char) /\ sflat d (Some ")"%char)
      /\ ltok ")" c = Some RPt
  | Opr _ _ => False
  | Lst _ => False
  end.

End SFlat.
