(* C14 — functional synthesis picks, for every solvable input, an output in
   the relation.  Statements only; proofs in theories/L7Codegen/SynthProofs.v.

   Model: theories/L7Codegen/Synth.v (make_functions / extract_function of
   omega/symbolic/functions.py on BDDs-by-meaning over n declared bits).
   Universally quantified in every theorem: the number of bits n, the
   relation r, the chosen output bits vrs, the iteration order Python picks
   for its sets ([order]: output bits in extraction order, each with the
   order in which input bits were tried by the widening loop), and
   `restrict` (any family of functions meeting the contract of
   dd.cudd.restrict: agrees with its argument on the care set, introduces no
   variable).  The branch `_bdd is None` is the instance [no_restrict].

   Tie T: gen/FunctionsGen.v is regenerated from the current source of
   functions.py on every run (tools/py2coq_fn.py) and
   GenProofs/FunctionsBridge.v proves the generated extract_function /
   make_functions EQUAL to the model (C14_model_is_translated_code below);
   the C14_translated_* theorems restate the main results about the
   generated definitions. *)
From Coq Require Import List Bool Arith Lia.
Import ListNotations.
From Omega Require Import L7Codegen.Pred L7Codegen.PredFacts L7Codegen.Synth
  L7Codegen.SynthProofs.
From OmegaGen Require FunctionsGen.
From OmegaGP Require Import FunctionsBridge.

Section C14.
Variable n : nat.
Variable restrict : var -> pred -> pred -> pred.
Hypothesis restrict_agrees_on_care : restrict_agrees n restrict.
Hypothesis restrict_adds_no_variable : restrict_support n restrict.

(* (1) no extracted function, and no care set, depends on a chosen output
   bit: flipping any bit of vrs in any assignment leaves the value unchanged *)
Theorem C14_functions_independent : forall r vrs order y g care v,
  In (y, (g, care)) (make_functions n restrict r vrs order) ->
  In v vrs ->
  (forall a b, length a = n -> g (upd a v b) = g a) /\
  (forall a b, length a = n -> care (upd a v b) = care a).
Proof.
  exact (functions_independent n restrict restrict_adds_no_variable).
Qed.

(* (2) for every input a for which the relation has some output (an
   assignment b that differs from a only on chosen output bits and satisfies
   r), writing the functions' values into a satisfies r.  Chosen outputs that
   r ignores keep their (arbitrary) value from a. *)
Theorem C14_functions_realize : forall r vrs order a,
  order_ok n r vrs order ->
  length a = n ->
  (exists b, agree_out vrs a b /\ r b = true) ->
  r (apply_functions (make_functions n restrict r vrs order) a) = true.
Proof.
  exact (functions_realize n restrict restrict_agrees_on_care
           restrict_adds_no_variable).
Qed.

(* (3) care sets.  For the relation f given to extract_function (by
   C14_result_shape: r with the earlier functions substituted), with
   u = \E remaining outputs: f, at every input a:
   - care contains a whenever u is solvable for this bit at a, and before the
     widening loop care is exactly that set;
   - on such inputs the function's value is admissible;
   - where the value is forced (only one of u[y:=1], u[y:=0] holds) the
     function returns the forced value;
   - care = p xor n for the final cofactors, and g = p on care. *)
Theorem C14_care_spec : forall f y outs zs a,
  length a = n ->
  let g := fst (extract_function n restrict f y outs zs) in
  let care := snd (extract_function n restrict f y outs zs) in
  let u := exist n outs f in
  (u (upd a y true) || u (upd a y false) = true -> care a = true) /\
  care_of n (cofactors n f y outs) a = u (upd a y true) || u (upd a y false) /\
  (u (upd a y true) || u (upd a y false) = true -> u (upd a y (g a)) = true) /\
  (u (upd a y true) = true -> u (upd a y false) = false -> g a = true) /\
  (u (upd a y true) = false -> u (upd a y false) = true -> g a = false) /\
  care a = xorb (fst (final_cofactors n f y outs zs) a)
                (snd (final_cofactors n f y outs zs) a) /\
  (care a = true -> g a = fst (final_cofactors n f y outs zs) a).
Proof. exact (care_spec n restrict restrict_agrees_on_care). Qed.

(* loop invariants of the cofactor-widening loop: p and n stay disjoint and
   only grow *)
Theorem C14_widening_invariant : forall f y outs zs a,
  length a = n ->
  let pn0 := cofactors n f y outs in
  let pn := final_cofactors n f y outs zs in
  (fst pn0 a = true -> fst pn a = true) /\
  (snd pn0 a = true -> snd pn a = true) /\
  fst pn a && snd pn a = false.
Proof.
  intros f y outs zs a L pn0 pn.
  destruct (final_cofactors_inv n f y outs zs) as (H1 & H2 & H3).
  repeat split; auto.
Qed.

(* the result has one entry per extracted bit, each produced by
   extract_function from the relation with the earlier functions
   substituted *)
Theorem C14_result_shape : forall r y zs rest outputs,
  make_loop n restrict r ((y, zs) :: rest) outputs
  = (y, extract_function n restrict r y (remove_var y outputs) zs)
    :: make_loop n restrict
         (subst n r y (fst (extract_function n restrict r y (remove_var y outputs) zs)))
         rest (remove_var y outputs).
Proof. exact (make_loop_unfold n restrict). Qed.

(* the three assertions executed by make_functions never fail *)
Theorem C14_assertions_hold : forall r vrs order,
  asserts_ok n restrict r vrs order = true.
Proof.
  exact (asserts_hold n restrict restrict_adds_no_variable).
Qed.

(* --- the same, about the code translated from functions.py -------------- *)
Theorem C14_translated_functions_realize : forall r vrs order a,
  order_ok n r vrs order ->
  length a = n ->
  (exists b, agree_out vrs a b /\ r b = true) ->
  r (apply_functions (FunctionsGen.make_functions n restrict r vrs order) a)
  = true.
Proof.
  exact (translated_functions_realize n restrict restrict_agrees_on_care
           restrict_adds_no_variable).
Qed.

Theorem C14_translated_functions_independent : forall r vrs order y g care v,
  In (y, (g, care)) (FunctionsGen.make_functions n restrict r vrs order) ->
  In v vrs ->
  (forall a b, length a = n -> g (upd a v b) = g a) /\
  (forall a b, length a = n -> care (upd a v b) = care a).
Proof.
  exact (translated_functions_independent n restrict
           restrict_adds_no_variable).
Qed.

(* the Boolean flag into which the translator turns the `assert`s of
   make_functions is always true *)
Theorem C14_translated_assertions_hold : forall r vrs order,
  FunctionsGen.make_functions_asserts n restrict r vrs order = true.
Proof.
  exact (translated_assertions_hold n restrict restrict_adds_no_variable).
Qed.

End C14.

(* --- tie T: the model is the translated code ------------------------------
   For every number of bits, every `restrict`, and all arguments (iteration
   orders included): the Gallina translated from the current functions.py is
   Leibniz-equal to the model of Synth.v; the flag collecting the translated
   `assert`s is the model's asserts_ok; the sets the two loops iterate over
   are the model's inputs_of / outputs_of. *)
Theorem C14_model_is_translated_code :
  forall (n : nat) (restrict : var -> pred -> pred -> pred),
  (forall f yp outputs zs,
     FunctionsGen.extract_function n restrict f yp outputs zs
     = Synth.extract_function n restrict f yp outputs zs) /\
  (forall r vrs order,
     FunctionsGen.make_functions n restrict r vrs order
     = Synth.make_functions n restrict r vrs order) /\
  (forall r vrs order,
     FunctionsGen.make_functions_asserts n restrict r vrs order
     = Synth.asserts_ok n restrict r vrs order) /\
  (forall f yp outputs,
     filter (FunctionsGen.extract_function_domain_1 n f yp outputs) (seq 0 n)
     = inputs_of n (cofactors n f yp outputs)) /\
  (forall r vrs,
     FunctionsGen.make_functions_domain_1 n r vrs = outputs_of n r vrs).
Proof. exact model_is_translated_code. Qed.

(* --- the hypotheses are satisfiable -------------------------------------- *)
(* the branch taken when dd.cudd is absent meets the contract *)
Example C14_contract_instance n :
  restrict_agrees n no_restrict /\ restrict_support n no_restrict.
Proof. split; [apply no_restrict_agrees|apply no_restrict_support]. Qed.

(* hence the theorems hold outright for the no-CUDD branch *)
Theorem C14_functions_realize_no_cudd : forall n r vrs order a,
  order_ok n r vrs order -> length a = n ->
  (exists b, agree_out vrs a b /\ r b = true) ->
  r (apply_functions (make_functions n no_restrict r vrs order) a) = true.
Proof.
  intro n. exact (C14_functions_realize n no_restrict (no_restrict_agrees n)
                    (no_restrict_support n)).
Qed.

(* a single function `restrict` (as dd.cudd.restrict is) is the constant
   family *)
Theorem C14_functions_realize_single : forall n (rst : pred -> pred -> pred),
  (forall p c a, length a = n -> c a = true -> rst p c a = p a) ->
  (forall p c v, indep n p v -> indep n c v -> indep n (rst p c) v) ->
  forall r vrs order a,
  order_ok n r vrs order -> length a = n ->
  (exists b, agree_out vrs a b /\ r b = true) ->
  r (apply_functions (make_functions n (fun _ => rst) r vrs order) a) = true.
Proof.
  intros n rst H1 H2.
  apply (C14_functions_realize n (fun _ => rst)).
  - intros y p c a. apply H1.
  - intros y p c v. apply H2.
Qed.

(* a concrete relation over 3 bits: b2 <=> (b0 /\ b1), output bit 2, with a
   valid iteration order and a solvable input *)
Definition ex_r : pred := fun a => eqb (get a 2) (get a 0 && get a 1).
Example C14_order_ok_instance :
  order_ok 3 ex_r [2] [(2, [0; 1])] /\
  (exists b, agree_out [2] [true; true; false] b /\ ex_r b = true) /\
  apply_functions (make_functions 3 no_restrict ex_r [2] [(2, [0; 1])])
    [true; true; false] = [true; true; true].
Proof.
  split; [|split].
  - split; [repeat constructor; intros []|].
    intro y. cbn [map fst In]. split.
    + intros [<-|[]]. split; [left; reflexivity|vm_compute; reflexivity].
    + intros [[<-|[]] _]. left; reflexivity.
  - exists [true; true; true]. split; [|reflexivity].
    split; [reflexivity|]. intros i Hi.
    destruct i as [|[|[|i]]]; try reflexivity. exfalso. apply Hi. left. reflexivity.
  - vm_compute. reflexivity.
Qed.

Print Assumptions C14_functions_independent.
Print Assumptions C14_functions_realize.
Print Assumptions C14_care_spec.
Print Assumptions C14_widening_invariant.
Print Assumptions C14_result_shape.
Print Assumptions C14_assertions_hold.
Print Assumptions C14_functions_realize_no_cudd.
Print Assumptions C14_functions_realize_single.
Print Assumptions C14_model_is_translated_code.
Print Assumptions C14_translated_functions_realize.
Print Assumptions C14_translated_functions_independent.
Print Assumptions C14_translated_assertions_hold.
