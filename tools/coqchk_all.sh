#!/bin/bash
# Independent re-check of the compiled property files with coqchk (one process
# per property file, in parallel), printing the axioms each one (and everything
# it loads) relies on.  Run after a full pass of the checks (they compile
# coq/Properties/*.vo).  coqchk has no bytecode VM: files whose proofs are
# large vm_compute sweeps (the bounded cover tables behind C09/C10) take very
# long; each process is limited to ${COQCHK_TIMEOUT:-5400} s and a time-out
# (rc=124) is reported as such, not as success.  COQCHK_IDS="C05 C06" restricts
# the run to some property files (the summary then still lists every result
# file found under tmp/coqchk).
cd /verif/coq
mkdir -p ../tmp/coqchk
{ if [ -n "$COQCHK_IDS" ]; then printf '%s\n' $COQCHK_IDS; else ls Properties/*.vo | sed 's|Properties/\(.*\)\.vo|\1|'; fi; } | \
  xargs -P ${COQCHK_JOBS:-8} -I{} bash -c \
  'timeout ${COQCHK_TIMEOUT:-5400} coqchk -silent -o -Q theories Omega -Q gen OmegaGen -Q GenProofs OmegaGP -Q Properties OmegaProps OmegaProps.{} > ../tmp/coqchk/{}.txt 2>&1; echo "rc=$?" >> ../tmp/coqchk/{}.txt'
for f in ../tmp/coqchk/*.txt; do
  echo "== $(basename $f .txt): $(tail -1 $f)"
  sed -n '/CONTEXT SUMMARY/,$p' $f | grep -v '^rc='
done
