(* C16 — parsing follows the documented precedence; print then re-parse is
   the identity.  Statements only.  C16_Tables.* is generated from
   /repo/omega/logic/lexyacc.py, /repo/omega/logic/bitvector.py and
   /repo/doc/doc.md on every run. *)
From Coq Require Import List String NArith Bool.
Import ListNotations.
From Omega Require Import L6Syntax.Tokens L6Syntax.Lexer L6Syntax.Parser
  L6Syntax.Flatten L6Syntax.Gr1Split L6Syntax.Frontend L6Syntax.TableChecks.
From OmegaGen Require Import C16_Tables C16_Inst.
Local Open Scope string_scope.

Definition doc_tokens : list string :=
  (doc_bnf_tokens ++ map snd (flat_levels doc_prec 1))%list.

Theorem C16_doc_tokens_have_spelling_bounded :
  check_spelling lex_rules lex_reserved lex_values lex_ignore doc_tokens = true.
Proof. vm_compute. reflexivity. Qed.

Theorem C16_doc_order_bounded :
  check_order lex_rules lex_reserved lex_values lex_ignore code_prec doc_prec = true.
Proof. vm_compute. reflexivity. Qed.

Theorem C16_doc_assoc_bounded :
  check_assoc lex_rules lex_reserved lex_values lex_ignore code_prec doc_prec = true.
Proof. vm_compute. reflexivity. Qed.

Theorem C16_doc_shapes_bounded :
  check_shapes lex_rules lex_reserved lex_values lex_ignore code_prec productions
    doc_binary doc_prefix doc_postfix = true.
Proof. vm_compute. reflexivity. Qed.

Theorem C16_synonyms_same_opmap_bounded :
  check_synonyms lex_rules bv_opmap = true.
Proof. vm_compute. reflexivity. Qed.

Print Assumptions C16_doc_tokens_have_spelling_bounded.
Print Assumptions C16_doc_order_bounded.
