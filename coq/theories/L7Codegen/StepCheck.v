(* L7 / StepCheck: comparison evaluated inside Coq for tie H of C13 (the
   whole pipeline dumps_bdds_as_code + generated step).  No proofs here. *)
From Coq Require Import List Bool Arith ZArith NArith.
Import ListNotations.
From Omega Require Import L7Codegen.Pred L7Codegen.Synth L7Codegen.SynthCheck
  L7Codegen.Bits L7Codegen.Dag L7Codegen.EmitCheck L7Codegen.Step.

(* T: table of the relation; order: iteration orders observed; gtabs: tables
   of the functions the real make_functions produced (they instantiate
   `restrict` on the CUDD path); d, roots: the DAG of those functions as read
   from the manager; cases: (state, values returned by the REAL step) *)
Definition check_step (n : nat) (cudd : bool) (T : N) (ly : layout)
    (out_vars : list nat) (order : list (var * list var))
    (gtabs : list (var * N)) (nlev : nat) (d : dag) (roots : list (nat * Z))
    (cases : list (list (nat * val) * list (nat * val))) : list bool :=
  let r := of_table n T in
  let restrict :=
    if cudd then restrict_of (map (fun e => (fst e, of_table n (snd e))) gtabs)
    else no_restrict in
  let fs := functions n restrict ly out_vars r order in
  let prog := dumps_bdd_as_code nlev d roots in
  [ (* the extraction order enumerates set(out_bits) & support(u) *)
    same_set (map fst order) (outputs_of n r (list_bits ly out_vars));
    (* the functions of the model are the functions the real code emitted *)
    forallb2 (fun e g => Nat.eqb (fst e) (fst g)
                         && agrees_table n (fst (snd e)) (snd g)) fs gtabs;
    (* step(state) of the model = step(state) of the generated code *)
    forallb (fun c => result_eqb (step_with n ly out_vars fs (fst c)) (snd c)) cases;
    (* the same through the model's emitted program on the manager's DAG *)
    wf_dag d nlev && forallb (fun r => root_ok d nlev (snd r)) roots &&
    forallb (fun c =>
      match step_prog_with n ly out_vars prog (fst c) with
      | Some out => result_eqb out (snd c)
      | None => false
      end) cases ].
