(* C06, tie T: the theorems of L1Circuits (circuit = arithmetic, emitted
   formula evaluates to the circuit) restated about the TRANSLATED code of
   omega/logic/bitvector.py (coq/gen/BitvectorGen.v), through the bridge
   GenProofs/BitvectorBridge.v.  [sval] = two's complement value; operands
   are given as formulas x with values vx in memory m (and all extensions);
   start address = number of cells already in memory. *)
From Coq Require Import String ZArith List Bool Lia.
From Omega Require Import L1Circuits.Circuits L1Circuits.CircuitsProofs L1Circuits.Deep
  L1Circuits.DeepProofs L1Circuits.PyBits L1Circuits.PyBitsProofs
  L2Compile.Expr L2Compile.Emit L2Compile.EmitProofs.
From OmegaGen Require Import BitvectorGen.
From OmegaGP Require Import BitvectorBridge.
Import ListNotations.
Open Scope Z_scope.

Lemma stables_nonempty : forall vars m x vx, Forall2 (stable vars m) x vx ->
  (1 <= length x)%nat -> vx <> [].
Proof. intros vars m x vx H L E. subst vx. inversion H. subst. cbn in L. lia. Qed.

Lemma nonempty_length : forall A (l : list A), l <> [] -> (1 <= length l)%nat.
Proof. intros A [|a l] H; [congruence|cbn; lia]. Qed.

Lemma run_length : forall vars cells m, length (run vars m cells) = (length m + length cells)%nat.
Proof.
  induction cells as [|c cells IH]; intros m; cbn [run length]; [lia|].
  rewrite IH, app_length. cbn [length]. lia.
Qed.

(* adder_subtractor as called by flatten_arithmetic (one extension bit) *)
Theorem translated_adder_correct : forall vars x vx y vy (add : bool) e m res mem cf,
  Forall2 (stable vars m) x vx -> Forall2 (stable vars m) y vy -> 1 <= e ->
  g_adder_subtractor x y add (py_len m) e = Some (res, mem, cf) ->
  let m1 := run vars m mem in
  extends m m1 (length mem) /\
  exists vr, Forall2 (stable vars m1) res vr /\
    sval vr = (if add then sval vx + sval vy else sval vx - sval vy) /\
    length vr = (Nat.max (length vx) (length vy) + Z.to_nat e)%nat.
Proof.
  intros vars x vx y vy add e m res mem cf Hx Hy He H.
  apply g_adder_subtractor_ok in H. destruct H as [H G]. unfold nz in H.
  rewrite py_len_to_nat in H.
  pose proof (adder_sound vars x vx y vy add (Z.to_nat e) m Hx Hy) as A. rewrite <- H in A.
  cbv zeta in A |- *. destruct A as (E & R & _). split; [exact E|].
  unfold add_guard in G. apply andb_prop in G. destruct G as [_ G].
  apply eq_guard_lengths in G. destruct G as (Lx & Ly & _).
  assert (Nx : vx <> []) by (eapply stables_nonempty; [exact Hx|lia]).
  assert (Ny : vy <> []) by (eapply stables_nonempty; [exact Hy|lia]).
  eexists. split; [exact R|].
  destruct (adder_spec vx vy add (Z.to_nat e) Nx Ny ltac:(lia)) as [L S]. auto.
Qed.

Theorem translated_multiplier_correct : forall vars fuel x vx y vy m res mem,
  Forall2 (stable vars m) x vx -> Forall2 (stable vars m) y vy -> vx <> [] -> vy <> [] ->
  g_multiplier fuel x y (py_len m) = Some (res, mem) ->
  let m1 := run vars m mem in
  extends m m1 (length mem) /\
  exists vr, Forall2 (stable vars m1) res vr /\ sval vr = sval vx * sval vy /\
    length vr = (length vx + length vy)%nat.
Proof.
  intros vars fuel x vx y vy m res mem Hx Hy Nx Ny H.
  apply g_multiplier_ok in H. unfold nz in H. rewrite py_len_to_nat in H.
  pose proof (multiplier_sound vars x vx y vy m Hx Hy) as A. rewrite <- H in A.
  cbv zeta in A |- *. destruct A as (E & R). split; [exact E|].
  eexists. split; [exact R|]. destruct (multiplier_spec vx vy Nx Ny). auto.
Qed.

Theorem translated_divider_correct : forall vars fuel x vx y vy m quo rem mem,
  Forall2 (stable vars m) x vx -> Forall2 (stable vars m) y vy -> vx <> [] -> vy <> [] ->
  sval vy <> 0 ->
  g_restoring_divider fuel x y (py_len m) = Some (quo, rem, mem) ->
  let m1 := run vars m mem in
  extends m m1 (length mem) /\
  exists vq vr, Forall2 (stable vars m1) quo vq /\ Forall2 (stable vars m1) rem vr /\
    sval vq = Z.quot (sval vx) (sval vy) /\ sval vr = Z.rem (sval vx) (sval vy).
Proof.
  intros vars fuel x vx y vy m quo rem mem Hx Hy Nx Ny N0 H.
  apply g_restoring_divider_ok in H. unfold nz in H. rewrite py_len_to_nat in H.
  pose proof (divider_sound vars x vx y vy m Hx Hy (nonempty_length _ _ Nx)
                (nonempty_length _ _ Ny)) as A. rewrite <- H in A.
  cbv zeta in A |- *. destruct A as (E & Q & R). split; [exact E|].
  pose proof (divider_spec vx vy Nx Ny N0) as S.
  destruct (restoring_divider vx vy) as [vq vr]. cbn [fst snd] in *.
  exists vq, vr. tauto.
Qed.

(* flatten_arithmetic: dispatch on the operator's spelling, cells appended
   to mem, result = integer arithmetic (C99 division) *)
Theorem translated_arithmetic_correct : forall vars fuel op x vx y vy mem0 m res mem1,
  run vars [] mem0 = m ->
  Forall2 (stable vars m) x vx -> Forall2 (stable vars m) y vy -> vx <> [] -> vy <> [] ->
  g_flatten_arithmetic fuel op x y mem0 = Some (res, mem1) ->
  exists o cells, aop_of_string op = Some o /\ mem1 = mem0 ++ cells /\
    let m1 := run vars [] mem1 in
    extends m m1 (length cells) /\
    exists vr, Forall2 (stable vars m1) res vr /\
      match sem_aop o (sval vx) (sval vy) with
      | Ok v => v = VZ (sval vr)
      | DivZero => True
      | Ill => False
      end.
Proof.
  intros vars fuel op x vx y vy mem0 m res mem1 R Hx Hy Nx Ny H.
  apply g_flatten_arithmetic_ok in H. destruct H as (o & Ho & H).
  assert (L : length mem0 = length m) by (subst m; rewrite run_length; cbn; lia).
  rewrite L in H.
  pose proof (flatten_arithmetic_sound vars o x vx y vy m Hx Hy
                (nonempty_length _ _ Nx) (nonempty_length _ _ Ny)) as A.
  destruct (d_flatten_arithmetic o x y (length m)) as [r cells]. cbn [fst snd] in H.
  injection H as -> ->. exists o, cells. split; [exact Ho|]. split; [reflexivity|].
  cbv zeta in A |- *. rewrite run_app, R. destruct A as (E & S). split; [exact E|].
  eexists. split; [exact S|].
  destruct o; cbn [sem_aop arith_value].
  - destruct (adder_spec vx vy true 1 Nx Ny ltac:(lia)) as [_ ->]. reflexivity.
  - destruct (adder_spec vx vy false 1 Nx Ny ltac:(lia)) as [_ ->]. reflexivity.
  - destruct (multiplier_spec vx vy Nx Ny) as [_ ->]. reflexivity.
  - destruct (sval vy =? 0) eqn:Z0; [exact I|]. apply Z.eqb_neq in Z0.
    pose proof (divider_spec vx vy Nx Ny Z0) as S2.
    destruct (restoring_divider vx vy) as [vq vr]. cbn [fst]. destruct S2 as (-> & _). reflexivity.
  - destruct (sval vy =? 0) eqn:Z0; [exact I|]. apply Z.eqb_neq in Z0.
    pose proof (divider_spec vx vy Nx Ny Z0) as S2.
    destruct (restoring_divider vx vy) as [vq vr]. cbn [snd]. destruct S2 as (_ & -> & _). reflexivity.
Qed.

(* flatten_comparator: the returned buffer, evaluated as symbolic/bdd.py
   does, is the integer comparison *)
Theorem translated_comparator_correct : forall vars op x vx y vy mem0 m buf mem1,
  run vars [] mem0 = m ->
  Forall2 (stable vars m) x vx -> Forall2 (stable vars m) y vy -> vx <> [] -> vy <> [] ->
  g_flatten_comparator op x y mem0 = Some (buf, mem1) ->
  exists o, cmp_of_string op = Some o /\
    buf_value vars buf = Some (sem_cmp o (sval vx) (sval vy)).
Proof.
  intros vars op x vx y vy mem0 m buf mem1 R Hx Hy Nx Ny H.
  apply g_flatten_comparator_ok in H. destruct H as (o & Ho & H). injection H as -> ->.
  exists o. split; [exact Ho|].
  assert (L : length m = length mem0) by (subst m; rewrite run_length; cbn; lia).
  rewrite (comparator_buffer_sound vars o x vx y vy mem0 m R L Hx Hy). f_equal.
  rewrite (comparator_spec o vx vy Nx Ny). destruct o; reflexivity.
Qed.

(* the translated code does not always raise: comparators on any operands
   of 2..30 bits, and a concrete division *)
Theorem translated_comparator_succeeds : forall op o x y mem,
  cmp_of_string op = Some o -> cmp_guard x y = true ->
  exists buf mem1, g_flatten_comparator op x y mem = Some (buf, mem1).
Proof.
  intros op o x y mem Ho G. eexists. eexists.
  apply (g_flatten_comparator_some op o x y mem Ho G).
Qed.

(* ------------------------------------------------------------------------
   Memory threading in the translated flatten methods (g_flatten): on every
   arithmetic-scope tree, the bits returned by Arithmetic / Operator(ite) /
   Unary(prime) .flatten, after the cells appended to the caller's list are
   evaluated, have the value of the composed circuits; the buffer returned by
   Comparator.flatten evaluates to the integer comparison. *)
From Omega Require Import L1Circuits.PyStr L2Compile.Thread L2Compile.ThreadProofs
  L2Compile.Leaf L2Compile.LeafProofs.
From OmegaGP Require Import BitvectorLeafBridge BitvectorFlatBridge.

(* the variable names that occur in a term / a formula *)
Fixpoint qnames (e : qexp) : list string :=
  match e with
  | QNum _ => []
  | QVar n => [n]
  | QPrime _ a => qnames a
  | QArith _ _ a b => qnames a ++ qnames b
  end.
Fixpoint bnames (e : bexp) : list string :=
  match e with
  | BConst _ => []
  | BVar n => [n]
  | BCmp _ l r => qnames l ++ qnames r
  | BNot _ a => bnames a
  | BBin _ a b => bnames a ++ bnames b
  end.

Section FlattenCorrect.
Variable defs : Type.
Variable defs_mem : defs -> string -> bool.
Variable var_id : string -> nat.
Variable ext_flatten def_flatten : pnode -> option (list bx) -> kwargs defs
                                   -> option (fres * option (list bx)).
Variable vars : nat -> bool.

Notation flat := (g_flatten defs defs_mem var_id ext_flatten def_flatten).
Notation lok := (leaves_ok defs defs_mem var_id ext_flatten def_flatten).

Theorem translated_flatten_threads_memory : forall e fuel kw mem r st,
  lok e kw -> awf e = true ->
  flat fuel (node_of e) (Some mem) kw = Some (r, st) ->
  exists bits mem', r = RBits bits /\ st = Some mem' /\
    (exists k, extends (run vars [] mem) (run vars [] mem') k) /\
    Forall2 (stable vars (run vars [] mem')) bits (aval vars e).
Proof.
  intros e fuel kw mem r st L W H.
  destruct (flatten_is_threading_model _ _ _ _ _ e fuel kw mem r st L H) as [-> ->].
  pose proof (thread_sound vars e mem W) as T.
  destruct (d_aflat e mem) as [bits mem']. cbv zeta in T. cbn [fst snd].
  exists bits, mem'. tauto.
Qed.

Theorem translated_comparator_flatten_correct : forall op a b fuel kw r st,
  lok a kw -> lok b kw -> awf a = true -> awf b = true ->
  flat fuel (PNode "Comparator" op [node_of a; node_of b]) None kw = Some (r, st) ->
  exists o buf, cmp_of_string op = Some o /\ r = RBuf buf /\ st = None /\
    buf_value vars buf = Some (sem_cmp o (sval (aval vars a)) (sval (aval vars b))).
Proof.
  intros op a b fuel kw r st La Lb Wa Wb H.
  destruct (comparator_flatten_is_model _ _ _ _ _ op a b fuel kw r st La Lb H) as (o & Ho & -> & ->).
  exists o. eexists. split; [exact Ho|]. split; [reflexivity|]. split; [reflexivity|].
  apply (cmp_flat_exact vars o a b Wa Wb).
Qed.

(* ------------------------------------------------------------------------
   End to end for quantifier-free arithmetic comparisons over declared
   integer variables and numerals (Leaf.qexp): no external flatten function
   is left -- [ext_flatten] and [def_flatten] are arbitrary and never
   consulted.  [t] is the symbol table passed as t=..., no definitions are
   in scope, [env] gives the integer value of every (primed) variable and
   the bit assignment [vars] encodes it. *)
Variable t : PyStr.table.
Variable env : string -> bool -> Z.

Definition encodes : Prop :=
  forall name prime bits, d_var_flatten var_id t name prime = Some (RBits bits) ->
    sval (map (evalx vars []) bits) = env name prime.

Lemma token_reg_free : forall s b, py_token var_id s = Some b -> reg_free b = true.
Proof.
  intros s b H. unfold py_token in H.
  destruct (String.eqb s "" || has_blank s)%bool; [discriminate|].
  destruct (String.eqb s "0"); [now injection H as <-|].
  destruct (String.eqb s "1"); now injection H as <-.
Qed.

Lemma tokens_reg_free : forall l bs, py_mapM (py_token var_id) l = Some bs ->
  forallb reg_free bs = true /\ length bs = length l.
Proof.
  induction l as [|a l IH]; intros bs H; cbn [py_mapM] in H.
  - injection H as <-. auto.
  - destruct (py_token var_id a) eqn:E; [|discriminate].
    destruct (py_mapM (py_token var_id) l) eqn:E2; [|discriminate]. injection H as <-.
    destruct (IH _ eq_refl) as [F L]. cbn [forallb length].
    rewrite (token_reg_free _ _ E), F, L. auto.
Qed.

Lemma mapM_length : forall A B (f : A -> option B) l r, py_mapM f l = Some r -> length r = length l.
Proof.
  induction l as [|a l IH]; intros r H; cbn [py_mapM] in H.
  - now injection H as <-.
  - destruct (f a); [|discriminate]. destruct (py_mapM f l) eqn:E; [|discriminate].
    injection H as <-. cbn [length]. now rewrite (IH _ eq_refl).
Qed.

Lemma var_names_width : forall h ns, var_names h = Some ns -> (2 <= length ns)%nat.
Proof.
  intros h ns H. unfold var_names, check_width in H.
  destruct (String.eqb (h_type h) "bool"); [discriminate|].
  destruct (h_bitnames h) as [bits|]; [|discriminate].
  destruct (h_signed h) as [[|]|]; [| |discriminate].
  - destruct (Nat.leb_spec 2 (length bits)); [|discriminate]. now injection H as <-.
  - destruct (h_dom h) as [[lo hi]|]; [|discriminate].
    destruct (lo * hi >=? 0); [|discriminate].
    destruct (lo >=? 0); [|destruct (hi <? 0); [|discriminate]];
      match type of H with (if (2 <=? ?n)%nat then _ else _) = _ =>
        destruct (Nat.leb_spec 2 n); [|discriminate] end; now injection H as <-.
Qed.

(* the bits of a variable leaf: formulas without registers, at least 2 *)
Lemma var_bits_wf : forall name prime bits,
  d_var_flatten var_id t name prime = Some (RBits bits) ->
  forallb reg_free bits = true /\ (2 <= length bits)%nat.
Proof.
  intros name prime bits H. unfold d_var_flatten in H.
  destruct (is_bool_var t name) as [[|]|]; [| |discriminate].
  - destruct (py_token var_id _); discriminate.
  - destruct (dict_get t name) as [h|]; [|discriminate].
    destruct (var_names h) as [ns|] eqn:N; [|discriminate].
    destruct (py_mapM (prime_name prime) ns) as [ps|] eqn:P; [|discriminate].
    destruct (py_mapM (py_token var_id) ps) as [bs|] eqn:T; [|discriminate].
    injection H as <-. destruct (tokens_reg_free _ _ T) as [F L]. split; [exact F|].
    rewrite L, (mapM_length _ _ _ _ _ P). eapply var_names_width; eassumption.
Qed.

Lemma q_anode_node : forall e prime a, q_anode var_id t prime e = Some a -> node_of a = qnode e.
Proof.
  induction e as [v|n|op e IH|o op e1 IH1 e2 IH2]; intros prime a H; cbn [q_anode] in H.
  - destruct (py_int v); [|discriminate]. now injection H as <-.
  - destruct (d_var_flatten var_id t n prime) as [[b|bits|f|p]|]; try discriminate.
    now injection H as <-.
  - destruct (String.eqb op "X" || String.eqb op "'")%bool; [|discriminate].
    destruct (q_anode var_id t true e) as [a'|] eqn:E; [|discriminate]. injection H as <-.
    cbn [node_of qnode]. now rewrite (IH _ _ E).
  - destruct (aop_of_string op); [|discriminate].
    destruct (q_anode var_id t prime e1) as [a1|] eqn:E1; [|discriminate].
    destruct (q_anode var_id t prime e2) as [a2|] eqn:E2; [|discriminate].
    match type of H with (if ?c then _ else _) = _ => destruct c; [|discriminate] end.
    injection H as <-. cbn [node_of qnode]. now rewrite (IH1 _ _ E1), (IH2 _ _ E2).
Qed.

Lemma num_bits_wf : forall z, forallb reg_free (num_bits z) = true /\ (2 <= length (num_bits z))%nat.
Proof.
  intros z. unfold num_bits. split.
  - induction (int_to_twos_complement z); [reflexivity|]. cbn. exact IHl.
  - rewrite map_length. apply int_to_twos_complement_spec.
Qed.

Lemma q_anode_wf : forall e prime a, q_anode var_id t prime e = Some a -> awf a = true.
Proof.
  induction e as [v|n|op e IH|o op e1 IH1 e2 IH2]; intros prime a H; cbn [q_anode] in H.
  - destruct (py_int v) as [z|]; [|discriminate]. injection H as <-. cbn [awf].
    destruct (num_bits_wf z) as [F L]. rewrite F.
    destruct (length (num_bits z)); [lia|reflexivity].
  - destruct (d_var_flatten var_id t n prime) as [[b|bits|f|p]|] eqn:E; try discriminate.
    injection H as <-. cbn [awf]. destruct (var_bits_wf _ _ _ E) as [F L]. rewrite F.
    destruct (length bits); [lia|reflexivity].
  - destruct (String.eqb op "X" || String.eqb op "'")%bool; [|discriminate].
    destruct (q_anode var_id t true e) as [a'|] eqn:E; [|discriminate]. injection H as <-.
    cbn [awf]. eapply IH; eassumption.
  - destruct (aop_of_string op); [|discriminate].
    destruct (q_anode var_id t prime e1) as [a1|] eqn:E1; [|discriminate].
    destruct (q_anode var_id t prime e2) as [a2|] eqn:E2; [|discriminate].
    match type of H with (if ?c then _ else _) = _ => destruct c; [|discriminate] end.
    injection H as <-. cbn [awf]. now rewrite (IH1 _ _ E1), (IH2 _ _ E2).
Qed.

(* the leaf hypothesis of the threading theorem holds by the translated
   Num / Var .flatten, whatever ext_flatten and def_flatten are *)
Definition no_defs (kw : kwargs defs) : Prop :=
  forall n, nodef defs defs_mem kw n = true.

(* the names in l have no definition in the dictionary passed as defs=...
   (the dictionary may define other operators: Var.flatten only tests the
   name it flattens) *)
Definition nodef_on (kw : kwargs defs) (l : list string) : Prop :=
  forall n, In n l -> nodef defs defs_mem kw n = true.

Lemma no_defs_on : forall kw l, no_defs kw -> nodef_on kw l.
Proof. intros kw l H n _. apply H. Qed.

Lemma nodef_on_prime : forall kw l, nodef_on kw l -> nodef_on (kw_set_prime kw) l.
Proof. intros kw l H n I. exact (H n I). Qed.

Lemma nodef_on_app : forall kw a b, nodef_on kw (a ++ b) -> nodef_on kw a /\ nodef_on kw b.
Proof. intros kw a b H. split; intros n I; apply H, in_or_app; auto. Qed.

Lemma no_defs_none : forall kw, k_defs kw = None -> no_defs kw.
Proof. intros kw H n. unfold nodef. now rewrite H. Qed.

Lemma no_defs_prime : forall kw, no_defs kw -> no_defs (kw_set_prime kw).
Proof. intros kw H n. exact (H n). Qed.

Lemma q_anode_leaves : forall e kw a, k_t kw = Some t -> nodef_on kw (qnames e) ->
  q_anode var_id t (py_truth (k_prime kw)) e = Some a -> lok a kw.
Proof.
  induction e as [v|n|op e IH|o op e1 IH1 e2 IH2]; intros kw a Ht Hd H; cbn [q_anode] in H.
  - destruct (py_int v) as [z|] eqn:Z; [|discriminate]. injection H as <-.
    now apply leaf_num.
  - destruct (d_var_flatten var_id t n (py_truth (k_prime kw))) as [[b|bits|f|p]|] eqn:E;
      try discriminate. injection H as <-.
    apply (leaf_var _ _ _ _ _ n t bits kw Ht); [apply Hd; cbn [qnames]; now left|exact E].
  - destruct (String.eqb op "X" || String.eqb op "'")%bool eqn:O; [|discriminate].
    destruct (q_anode var_id t true e) as [a'|] eqn:E; [|discriminate]. injection H as <-.
    cbn [leaves_ok]. split.
    + apply orb_prop in O. destruct O as [O|O]; apply String.eqb_eq in O; auto.
    + apply IH; [exact Ht|now apply nodef_on_prime|exact E].
  - destruct (aop_of_string op) as [o'|] eqn:O; [|discriminate].
    destruct (q_anode var_id t (py_truth (k_prime kw)) e1) as [a1|] eqn:E1; [|discriminate].
    destruct (q_anode var_id t (py_truth (k_prime kw)) e2) as [a2|] eqn:E2; [|discriminate].
    assert (o' = o) by (destruct o, o'; try discriminate; reflexivity). subst o'.
    match type of H with (if ?c then _ else _) = _ => destruct c; [|discriminate] end.
    injection H as <-. cbn [leaves_ok]. cbn [qnames] in Hd.
    destruct (nodef_on_app _ _ _ Hd) as [H1 H2]. repeat split; auto.
Qed.

Lemma nonempty_of_len : forall A (l : list A), (1 <= length l)%nat -> l <> [].
Proof. intros A [|a l] H; [cbn in H; lia|discriminate]. Qed.

(* the value of the bits is the integer value of the expression *)
Lemma q_anode_value : encodes -> forall e prime a v,
  q_anode var_id t prime e = Some a -> qval env prime e = Some v ->
  sval (aval vars a) = v.
Proof.
  intros Enc. induction e as [s|n|op e IH|o op e1 IH1 e2 IH2]; intros prime a v H V;
    cbn [q_anode qval] in H, V.
  - rewrite V in H. injection H as <-. cbn [aval]. unfold num_bits. rewrite map_map.
    cbn [evalx]. rewrite map_id. apply int_to_twos_complement_spec.
  - destruct (d_var_flatten var_id t n prime) as [[b|bits|f|p]|] eqn:E; try discriminate.
    injection H as <-. injection V as <-. cbn [aval]. now apply Enc.
  - destruct (String.eqb op "X" || String.eqb op "'")%bool; [|discriminate].
    destruct (q_anode var_id t true e) as [a'|] eqn:E; [|discriminate]. injection H as <-.
    cbn [aval]. eapply IH; eassumption.
  - destruct (aop_of_string op); [|discriminate].
    destruct (q_anode var_id t prime e1) as [a1|] eqn:E1; [|discriminate].
    destruct (q_anode var_id t prime e2) as [a2|] eqn:E2; [|discriminate].
    match type of H with (if ?c then _ else _) = _ => destruct c; [|discriminate] end.
    injection H as <-.
    destruct (qval env prime e1) as [x|] eqn:V1; [|discriminate].
    destruct (qval env prime e2) as [y|] eqn:V2; [|discriminate].
    pose proof (IH1 _ _ _ E1 V1) as S1. pose proof (IH2 _ _ _ E2 V2) as S2.
    pose proof (nonempty_of_len _ _ (aval_nonempty vars a1 (q_anode_wf _ _ _ E1))) as N1.
    pose proof (nonempty_of_len _ _ (aval_nonempty vars a2 (q_anode_wf _ _ _ E2))) as N2.
    destruct o; cbn [sem_aop] in V; cbn [aval].
    + injection V as <-. destruct (adder_spec _ _ true 1 N1 N2 ltac:(lia)) as [_ ->]. lia.
    + injection V as <-. destruct (adder_spec _ _ false 1 N1 N2 ltac:(lia)) as [_ ->]. lia.
    + injection V as <-. destruct (multiplier_spec _ _ N1 N2) as [_ ->]. lia.
    + destruct (y =? 0) eqn:Z0; [discriminate|]. injection V as <-. apply Z.eqb_neq in Z0.
      pose proof (divider_spec _ _ N1 N2 ltac:(lia)) as D.
      destruct (restoring_divider (aval vars a1) (aval vars a2)). cbn [fst].
      destruct D as (-> & _). now rewrite S1, S2.
    + destruct (y =? 0) eqn:Z0; [discriminate|]. injection V as <-. apply Z.eqb_neq in Z0.
      pose proof (divider_spec _ _ N1 N2 ltac:(lia)) as D.
      destruct (restoring_divider (aval vars a1) (aval vars a2)). cbn [snd].
      destruct D as (_ & -> & _). now rewrite S1, S2.
Qed.

Theorem translated_flatten_end_to_end : forall op l r la ra fuel kw res st vl vr,
  k_t kw = Some t -> nodef_on kw (qnames l ++ qnames r) -> encodes ->
  q_anode var_id t (py_truth (k_prime kw)) l = Some la ->
  q_anode var_id t (py_truth (k_prime kw)) r = Some ra ->
  qval env (py_truth (k_prime kw)) l = Some vl ->
  qval env (py_truth (k_prime kw)) r = Some vr ->
  flat fuel (PNode "Comparator" op [qnode l; qnode r]) None kw = Some (res, st) ->
  exists o buf, cmp_of_string op = Some o /\ res = RBuf buf /\ st = None /\
    buf_value vars buf = Some (sem_cmp o vl vr).
Proof.
  intros op l r la ra fuel kw res st vl vr Ht Hd Enc Al Ar Vl Vr H.
  rewrite <- (q_anode_node _ _ _ Al), <- (q_anode_node _ _ _ Ar) in H.
  destruct (translated_comparator_flatten_correct op la ra fuel kw res st
              (q_anode_leaves _ _ _ Ht (proj1 (nodef_on_app _ _ _ Hd)) Al)
              (q_anode_leaves _ _ _ Ht (proj2 (nodef_on_app _ _ _ Hd)) Ar)
              (q_anode_wf _ _ _ Al) (q_anode_wf _ _ _ Ar) H) as (o & buf & Ho & -> & -> & B).
  exists o, buf. repeat split; auto.
  now rewrite (q_anode_value Enc _ _ _ _ Al Vl), (q_anode_value Enc _ _ _ _ Ar Vr) in B.
Qed.
End FlattenCorrect.
