(* C15 -- Past-to-future translation: testers track the past operators on every
   trace.  Statements only; proofs in theories/L6Past/PastProofs.v (and
   PastUntilProofs.v).  The model (theories/L6Past/PastModel.v, function
   `translate fx until`) follows omega/logic/past.py; `fx = true` is the code
   after fixes/F5_F10.patch, `fx = false` the code before it.  The model is
   tied to the real code (a) by translation: omega/logic/past.py (the flatten
   methods, _flatten_previous/_since/_until, _make_tester_for_previous,
   translate) is translated into Gallina on every run (tools/py2coq_past.py ->
   gen/PastGen.v) and GenProofs/PastBridge.v proves the generated `translate`
   equal to the model (C15_model_is_translated_code below), and (b) by the
   correspondence check of tools/props/c15.py (parser, strings as trees,
   syntax.conj, comparisons).

   Vocabulary
     sigma : nat -> env           the sequence of values of the user variables
     alpha : nat -> env           a sequence of values of the auxiliary ones
     comb names sigma alpha       the combined sequence (names read from alpha)
     is_solution X sigma alpha n  the initial condition x_init X holds at
                                  position 0 and the transition relation
                                  x_trans X between positions i, i+1 < n
     holds f sigma i              anchored past-LTL semantics (PastSpec.v)
     no_clash f names             no variable of f is one of the generated names
*)
From Coq Require Import String List Bool NArith Lia.
Import ListNotations.
From Omega Require Import L6Past.PastSyntax L6Past.PastModel L6Past.PastSpec
  L6Past.PastProofs L6Past.PastUntil L6Past.PastUntilProofs
  L6Past.PastUntilClassical
  L6Past.PastCheck L6Past.PastFast L6Past.PastFastProofs.
From OmegaGen Require PastGen.
From OmegaGP Require Import PastBridge.
Open Scope string_scope.

(* ---------------------------------------------------------------- main *)
(* For every Boolean formula f over ~ /\ \/ => <=> ^ ite -X --X -[] -<> S
   (either value of `until`), every sequence sigma and every length n: the
   testers have exactly one solution along the first n positions and under
   it the translated formula has, at every position, the truth value of f. *)
Theorem C15_past_exact : forall (unt : bool) (f : form),
  past_only f = true ->
  let X := translate true unt f in
  no_clash f (x_names X) ->
  forall (sigma : nat -> env) (n : nat),
  exists alpha : nat -> env,
    is_solution X sigma alpha n /\
    (forall alpha', is_solution X sigma alpha' n ->
       forall i v, i < n -> In v (x_names X) -> alpha' i v = alpha i v) /\
    (forall alpha', is_solution X sigma alpha' n ->
       forall i, i < n ->
         (eval (comb (x_names X) sigma alpha' i) (x_formula X) = true
          <-> holds f sigma i)).
Proof. exact translate_exact. Qed.

(* the hypothesis in the form "user variables are not named like generated
   ones": no variable of f is `u_prev1` for some u or `_aux<i>` *)
Theorem C15_user_names_suffice : forall (unt : bool) (f : form),
  past_only f = true ->
  (forall v, In v (vars f) -> ~ generated v) ->
  no_clash f (x_names (translate true unt f)).
Proof. exact user_names_no_clash. Qed.

(* the solution is explicit: every auxiliary variable carries the truth value
   of the past formula it was created for (ghost field t_tracks), and a
   sequence rho over all variables satisfies the testers iff it does so *)
Theorem C15_testers_track : forall (unt : bool) (f : form),
  past_only f = true ->
  let X := translate true unt f in
  wf (x_testers X) /\
  x_names X = map t_name (x_testers X) /\
  state_formula (x_formula X) = true /\
  (forall t, In t (x_testers X) -> incl (vars (t_tracks t)) (vars f)) /\
  forall rho n,
    (solves X rho n <-> tracksP rho n (x_testers X)) /\
    (tracksP rho n (x_testers X) ->
     forall i, i < n -> eval (rho i) (x_formula X) = sem f rho i).
Proof. exact translate_tracks. Qed.

(* the executable semantics used in the model and in the correspondence is
   the declarative one *)
Theorem C15_sem_declarative : forall f rho,
  past_only f = true -> forall i, sem f rho i = true <-> holds f rho i.
Proof. exact sem_holds. Qed.

(* generated names never collide with each other *)
Theorem C15_generated_names_distinct :
  (forall u v, prev_name u = prev_name v -> u = v) /\
  (forall i j, aux_name i = aux_name j -> i = j) /\
  (forall i v, aux_name i <> prev_name v).
Proof. exact (Logic.conj prev_name_inj (Logic.conj aux_name_inj aux_not_prev)). Qed.

(* on the past fragment the flag `until` changes nothing *)
Theorem C15_until_flag_irrelevant : forall fx f,
  past_only f = true -> translate fx true f = translate fx false f.
Proof. exact translate_until_irrelevant. Qed.

(* ------------------------------------------------------- non-vacuity *)
Definition ex_p := FVar "p".
Definition ex_q := FVar "q".
(* uses the shared history variable, the collision path, a constant operand,
   nesting, since and historically *)
Definition ex_f : form :=
  FBin OAnd (FBin OOr (FPrevW ex_p) (FPrevS ex_p))
       (FSince (FHist (FPrevS (FConst true)))
               (FPrevW (FBin OImp ex_q (FOnce (FPrevW (FAtom "( x < 2 )")))))).

Ltac no_clash_tac :=
  let v := fresh "v" in let Hv := fresh "Hv" in let Hin := fresh "Hin" in
  intros v Hv Hin; vm_compute in Hv, Hin;
  repeat (destruct Hv as [Hv|Hv]; [subst v|]); try contradiction;
  repeat (destruct Hin as [Hin|Hin]; [discriminate Hin|]); contradiction.

Example C15_hypotheses_satisfiable :
  past_only ex_f = true /\
  no_clash ex_f (x_names (translate true false ex_f)) /\
  (forall v, In v (vars ex_f) -> ~ generated v) /\
  x_names (translate true false ex_f)
    = ["p_prev1"; "_aux1"; "_aux2"; "_aux3"; "_aux4"; "_aux5"; "_aux6";
       "_aux7"].
Proof.
  split; [reflexivity|]. split; [|split; [|reflexivity]].
  - no_clash_tac.
  - intros v Hv [[u Hu]|[i Hi]]; vm_compute in Hv;
      repeat (destruct Hv as [<-|Hv]; [|]); try contradiction.
    all: try (apply (f_equal String.length) in Hu; unfold prev_name in Hu;
              rewrite length_append in Hu; simpl in Hu; lia).
    all: try (apply (f_equal has_p) in Hu; rewrite has_p_prev in Hu;
              discriminate Hu).
    all: unfold aux_name in Hi; simpl in Hi; discriminate.
Qed.

Definition sig0 : nat -> env := fun _ _ => false.

(* the hypothesis no_clash is needed: with a user variable called p_prev1 the
   history variable of p and the user variable are confused *)
Example C15_hypothesis_needed :
  let f := FBin OAnd (FVar "p_prev1") (FPrevW ex_p) in
  let X := translate true false f in
  let alpha : nat -> env := fun _ _ => true in
  past_only f = true /\ ~ no_clash f (x_names X) /\
  is_solution X sig0 alpha 1 /\
  eval (comb (x_names X) sig0 alpha 0) (x_formula X) = true /\
  sem f sig0 0 = false.
Proof.
  cbv zeta. split; [reflexivity|]. split.
  - intros H. apply (H "p_prev1"); vm_compute; auto.
  - split; [|split; reflexivity].
    split; [reflexivity|]. intros i Hi. inversion Hi as [|? H]. inversion H.
Qed.

(* ------------------------------------------ the code before the fixes *)

(* F5: the weak and the strong previous of p share `p_prev1`, the later
   initial condition overwrites the earlier one.  (--X p) /\ (-X p) is false
   in the first state; the old translation has the solution p_prev1 = true
   there, under which the translated formula is true. *)
Example C15_refuted_F5 :
  let f := FBin OAnd (FPrevS ex_p) (FPrevW ex_p) in
  let X := translate false false f in
  let alpha : nat -> env := fun _ _ => true in
  past_only f = true /\ no_clash f (x_names X) /\
  x_names X = ["p_prev1"] /\
  is_solution X sig0 alpha 1 /\
  eval (comb (x_names X) sig0 alpha 0) (x_formula X) = true /\
  sem f sig0 0 = false.
Proof.
  cbv zeta. split; [reflexivity|]. split.
  - no_clash_tac.
  - split; [reflexivity|]. split; [|split; reflexivity].
    split; [reflexivity|]. intros i Hi. inversion Hi as [|? H]. inversion H.
Qed.

(* F10: a constant operand loses its previous operator: --X TRUE |-> TRUE *)
Example C15_refuted_F10 :
  let f := FPrevS (FConst true) in
  let X := translate false false f in
  x_names X = [] /\ x_formula X = TConst true /\
  (forall sigma alpha, is_solution X sigma alpha 1 /\
     eval (comb (x_names X) sigma alpha 0) (x_formula X) = true) /\
  (forall sigma, sem f sigma 0 = false).
Proof.
  cbv zeta. split; [reflexivity|]. split; [reflexivity|]. split; [|reflexivity].
  intros sigma alpha. split; [|reflexivity].
  split; [reflexivity|]. intros i Hi. inversion Hi as [|? H]. inversion H.
Qed.

(* the same two formulas after the fixes *)
Example C15_fixed_F5_F10 :
  x_names (translate true false (FBin OAnd (FPrevS ex_p) (FPrevW ex_p)))
    = ["p_prev1"; "_aux1"] /\
  x_formula (translate true false (FPrevS (FConst true))) = TVar "_aux0".
Proof. split; reflexivity. Qed.


(* ------------------------------------------------- until = True (prophecy) *)
(* The full statement for translate(..., until=True) over the whole language
   (past operators, [] <> U): over an infinite sequence, with the recurrence
   goals `win` holding infinitely often, exactly one solution, and under it
   the translated formula is equivalent to the original at every position. *)
Theorem C15_until_full :
  forall f : form,
  let X := translate true true f in
  no_clash f (x_names X) ->
  forall sigma : nat -> env,
  exists alpha : nat -> env,
    is_solution_inf X sigma alpha /\
    (forall alpha', is_solution_inf X sigma alpha' ->
       forall i v, In v (x_names X) -> alpha' i v = alpha i v) /\
    (forall alpha', is_solution_inf X sigma alpha' ->
       forall i, eval (comb (x_names X) sigma alpha' i) (x_formula X) = true
                 <-> holds f sigma i).
Proof. exact translate_until_full. Qed.
(* C15_until_full depends on the standard-library axioms Classical_Prop.classic
   and Description.constructive_definite_description (truth of [] <> U on an
   arbitrary infinite sequence as a Boolean); see Print Assumptions below. *)

(* Axiom-free part: uniqueness and correctness of every fair solution, and that
   the values of the tracked formulas form a fair solution; existence on every
   sequence whose semantics is decidable. *)
Theorem C15_until_partial : forall f : form,
  let X := translate true true f in
  no_clash f (x_names X) ->
  forall sigma : nat -> env,
    (forall alpha, reflects (x_testers X) sigma alpha ->
                   is_solution_inf X sigma alpha) /\
    (forall alpha, is_solution_inf X sigma alpha ->
       reflects (x_testers X) sigma alpha /\
       forall i, eval (comb (x_names X) sigma alpha i) (x_formula X) = true
                 <-> holds f sigma i) /\
    (forall alpha1 alpha2,
       is_solution_inf X sigma alpha1 -> is_solution_inf X sigma alpha2 ->
       forall i v, In v (x_names X) -> alpha1 i v = alpha2 i v).
Proof. exact translate_until_partial. Qed.

(* the full statement holds on every sequence whose semantics is decidable *)
Theorem C15_until_partial_exists : forall f : form,
  let X := translate true true f in
  no_clash f (x_names X) ->
  forall sigma : nat -> env,
    (forall g i, {holds g sigma i} + {~ holds g sigma i}) ->
    exists alpha, is_solution_inf X sigma alpha.
Proof. exact translate_until_exists. Qed.

(* non-vacuity: (-X p) U q on the all-false sequence; the prophecy variable
   is false forever, the history variable true in the first state only *)
Example C15_until_hypotheses_satisfiable :
  let f := FUntil (FPrevW ex_p) ex_q in
  let X := translate true true f in
  x_names X = ["p_prev1"; "_aux1"] /\
  no_clash f (x_names X) /\
  exists alpha, reflects (x_testers X) sig0 alpha /\
                is_solution_inf X sig0 alpha.
Proof.
  cbv zeta. split; [reflexivity|]. split; [no_clash_tac|].
  set (alpha := fun (i : nat) (v : string) =>
                  if String.eqb v "p_prev1" then Nat.eqb i 0 else false).
  assert (R : reflects
                (x_testers (translate true true (FUntil (FPrevW ex_p) ex_q)))
                sig0 alpha).
  { intros t Ht i. vm_compute in Ht. destruct Ht as [<-|[<-|[]]].
    - simpl t_name. simpl t_tracks. unfold alpha. simpl String.eqb.
      destruct i; simpl; split; intros H; try discriminate; auto.
      specialize (H i eq_refl). discriminate.
    - simpl t_name. simpl t_tracks. unfold alpha. simpl String.eqb.
      split; [discriminate|]. intros [j [_ [H _]]]. discriminate. }
  exists alpha. split; [exact R|].
  apply (proj1 (translate_until_partial (FUntil (FPrevW ex_p) ex_q)
                  ltac:(no_clash_tac) sig0)). exact R.
Qed.

(* ------------------------------------------- tie T: the translated code *)
(* gen/PastGen.v is the Gallina translation of the CURRENT omega/logic/past.py
   (and of the flatten methods of omega/logic/ast.py and astutils it inherits),
   regenerated on every run.  `node_of f` is the parser tree of the formula f
   (PastBridge.v: FNot x |-> Nodes.Unary('~', x), FPrevW x |-> Nodes.Unary('-X',
   x), FSince x y |-> Nodes.Binary('S', x, y), ...), `fuel` bounds the depth of
   nested flatten calls (Python's recursion limit; `need f` <= 2 * depth + 1
   suffices), `erase_translation` forgets the model's ghost field t_tracks and
   packs the result as the tuple (dvars, translated, init, trans, win) that the
   code returns.  For both values of `until` (debug=False): *)
Theorem C15_model_is_translated_code :
  forall (unt : bool) (f : form) (fuel : nat),
  need f <= fuel ->
  PastGen.translate fuel (node_of f) false unt
  = Some (erase_translation (translate true unt f)).
Proof. exact translate_generated_is_model. Qed.

(* the same for tree.flatten(testers=T, context='bool', until=unt) started on
   an arbitrary dictionary T (result string and final dictionary) *)
Theorem C15_flatten_is_translated_code :
  forall (unt : bool) (f : form) (fuel : nat) (T : list tester),
  need f <= fuel ->
  PastGen.flatten fuel (node_of f) (K unt) (erase T)
  = Some (fst (tr true unt f T), erase (snd (tr true unt f T))).
Proof. exact flatten_ok. Qed.

(* the main theorems restated for what the translated code returns *)
Theorem C15_translated_past_exact : forall (unt : bool) (f : form) (fuel : nat),
  past_only f = true -> need f <= fuel ->
  exists o, PastGen.translate fuel (node_of f) false unt = Some o /\
  let X := of_output o in
  no_clash f (x_names X) ->
  forall (sigma : nat -> env) (n : nat),
  exists alpha : nat -> env,
    is_solution X sigma alpha n /\
    (forall alpha', is_solution X sigma alpha' n ->
       forall i v, i < n -> In v (x_names X) -> alpha' i v = alpha i v) /\
    (forall alpha', is_solution X sigma alpha' n ->
       forall i, i < n ->
         (eval (comb (x_names X) sigma alpha' i) (x_formula X) = true
          <-> holds f sigma i)).
Proof. exact translated_past_exact. Qed.

Theorem C15_translated_until_full : forall (f : form) (fuel : nat),
  need f <= fuel ->
  exists o, PastGen.translate fuel (node_of f) false true = Some o /\
  let X := of_output o in
  no_clash f (x_names X) ->
  forall sigma : nat -> env,
  exists alpha : nat -> env,
    is_solution_inf X sigma alpha /\
    (forall alpha', is_solution_inf X sigma alpha' ->
       forall i v, In v (x_names X) -> alpha' i v = alpha i v) /\
    (forall alpha', is_solution_inf X sigma alpha' ->
       forall i, eval (comb (x_names X) sigma alpha' i) (x_formula X) = true
                 <-> holds f sigma i).
Proof. exact translated_until_full. Qed.

(* non-vacuity: the translated code run (inside Coq) on the tree of ex_f
   returns the model's result; with too little fuel it returns None *)
Example C15_translated_code_runs :
  need ex_f = 7 /\
  option_map (fun o => x_names (of_output o))
    (PastGen.translate 7 (node_of ex_f) false false)
  = Some ["p_prev1"; "_aux1"; "_aux2"; "_aux3"; "_aux4"; "_aux5"; "_aux6";
          "_aux7"] /\
  PastGen.translate 3 (node_of ex_f) false false = None.
Proof. vm_compute. repeat split; reflexivity. Qed.

(* ------------------------------------------------------ correspondence *)
(* what the correspondence cases evaluate (PastFast: names resolved to
   positions, one pass per sequence) is the comparison written with the plain
   definitions above: on every sequence of length n of valuations of vs, the
   model's solution satisfies the implementation's initial condition and
   transition relation, and the implementation's translated formula, the
   model's and `sem f` agree at every position *)
Theorem C15_check_fast_is_plain : forall fx unt f I vs n,
  check_all_fast fx unt f I vs n = check_all fx unt f I vs n.
Proof. exact check_all_fast_correct. Qed.

(* and that comparison ranges over EVERY sequence of n valuations of vs *)
Theorem C15_check_is_exhaustive : forall fx unt f I vs n,
  check_all fx unt f I vs n = true <->
  forall trace, length trace = n ->
    (forall bits, In bits trace -> length bits = length vs) ->
    check_trace f (translate fx unt f) I vs n trace = true.
Proof. exact check_all_exhaustive. Qed.

Print Assumptions C15_past_exact.
Print Assumptions C15_user_names_suffice.
Print Assumptions C15_testers_track.
Print Assumptions C15_sem_declarative.
Print Assumptions C15_generated_names_distinct.
Print Assumptions C15_until_flag_irrelevant.
Print Assumptions C15_until_full.
Print Assumptions C15_until_partial.
Print Assumptions C15_until_partial_exists.
Print Assumptions C15_model_is_translated_code.
Print Assumptions C15_flatten_is_translated_code.
Print Assumptions C15_translated_past_exact.
Print Assumptions C15_translated_until_full.
Print Assumptions C15_check_fast_is_plain.
Print Assumptions C15_check_is_exhaustive.
