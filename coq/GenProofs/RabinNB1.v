(* Model level (arbitrary iterate lists): the Rabin transducer model written
   with named pieces (the terms rho_1 .. rho_4 accumulate per round), and
   membership lemmas - which steps the accumulated disjunctions certainly
   contain.  Converse direction of RabinClosure1.rabin_step_kinds. *)
From Coq Require Import List Bool Arith Lia.
Import ListNotations.
From Omega Require Import L4.Arena L4.ArenaFacts L4.Kleene L4.GameSpec.
From OmegaGen Require Import FixpointGen Gr1Gen.
From OmegaGP Require Import TransducerModel CaSpec StreettTProofs StreettNB1 StreettNB2
  StreettClosure1 StreettLive1 RabinClosure1.

Section ThreadMember.
Variables nc nx ny : nat.
Local Notation bor := (Arena.bor nc nx ny).

Lemma thread_keeps {A} (term : bdd -> A -> bdd) (nb : A -> bdd) l : forall r b v,
  r v = true ->
  fst (fold_left (fun p a => (bor (fst p) (term (snd p) a), nb a)) l (r, b)) v = true.
Proof.
  induction l as [|a l IH]; intros r b v Hr; cbn [fold_left fst snd]; [exact Hr|].
  apply IH. rewrite bor_spec, Hr. reflexivity.
Qed.

Lemma thread_member {A} (term : bdd -> A -> bdd) (nb : A -> bdd) l1 a l2 : forall r b v,
  term (last (map nb l1) b) a v = true ->
  fst (fold_left (fun p a => (bor (fst p) (term (snd p) a), nb a)) (l1 ++ a :: l2) (r, b)) v = true.
Proof.
  induction l1 as [|a0 l1 IH]; intros r b v Ht; cbn [app fold_left fst snd].
  - apply thread_keeps. cbn [map last] in Ht. rewrite bor_spec, Ht. apply orb_true_r.
  - apply IH. cbn [map] in Ht. rewrite last_cons_def in Ht. exact Ht.
Qed.

Lemma outer_keeps' {A} (term : nat -> A -> bdd) l : forall k acc v,
  acc v = true ->
  fold_left (fun acc '(i, a) => bor acc (term i a)) (enumerate k l) acc v = true.
Proof.
  induction l as [|a l IH]; intros k acc v Ha; cbn [enumerate fold_left]; [exact Ha|].
  apply IH. rewrite bor_spec, Ha. reflexivity.
Qed.

Lemma outer_member' {A} (term : nat -> A -> bdd) l : forall k acc j a v,
  nth_error l j = Some a -> term (k + j) a v = true ->
  fold_left (fun acc '(i, a) => bor acc (term i a)) (enumerate k l) acc v = true.
Proof.
  induction l as [|a0 l IH]; intros k acc j a v Hj Ht; [destruct j; discriminate|].
  cbn [enumerate fold_left]. destruct j as [|j]; cbn [nth_error] in Hj.
  - inversion Hj. subst. apply outer_keeps'. rewrite bor_spec, Nat.add_0_r in *.
    rewrite Ht. apply orb_true_r.
  - apply (IH (Nat.succ k) _ j a v Hj).
    rewrite Nat.add_succ_r in Ht. exact Ht.
Qed.

Lemma nested_keeps {A B} (sub : A -> list B) (term : nat -> nat -> B -> bdd) l :
  forall k acc v, acc v = true ->
  fold_left (fun acc '(i, a) =>
      fold_left (fun acc '(j, b) => bor acc (term i j b)) (enumerate 0 (sub a)) acc)
    (enumerate k l) acc v = true.
Proof.
  induction l as [|a l IH]; intros k acc v Ha; cbn [enumerate fold_left]; [exact Ha|].
  apply IH. apply (outer_keeps' (fun j b => term k j b)). exact Ha.
Qed.

Lemma nested_member {A B} (sub : A -> list B) (term : nat -> nat -> B -> bdd) l :
  forall k acc i a j b v,
  nth_error l i = Some a -> nth_error (sub a) j = Some b -> term (k + i) j b v = true ->
  fold_left (fun acc '(i, a) =>
      fold_left (fun acc '(j, b) => bor acc (term i j b)) (enumerate 0 (sub a)) acc)
    (enumerate k l) acc v = true.
Proof.
  induction l as [|a0 l IH]; intros k acc i a j b v Hi Hj Ht; [destruct i; discriminate|].
  cbn [enumerate fold_left]. destruct i as [|i]; cbn [nth_error] in Hi.
  - inversion Hi. subst. apply nested_keeps.
    apply (outer_member' (fun j b => term k j b) (sub a) 0 acc j b v Hj).
    cbn [Nat.add]. rewrite Nat.add_0_r in Ht. exact Ht.
  - apply (IH (Nat.succ k) _ i a j b v Hi Hj). rewrite Nat.add_succ_r in Ht. exact Ht.
Qed.
End ThreadMember.

Section Pieces.
Variables nc nx ny H G : nat.
Variables E S : bdd.
Variables holds goals : list bdd.
Variables moore plus_one : bool.

Local Notation M := (H * G).
Local Notation nyE := (ny * M).
Local Notation band := (Arena.band nc nx nyE).
Local Notation bor := (Arena.bor nc nx nyE).
Local Notation bnot := (Arena.bnot nc nx nyE).
Local Notation forall_ := (Arena.forall_ nc nx nyE).
Local Notation ca := (Gr1Gen.controllable_action nc nx nyE E S moore plus_one 0).
Local Notation step := (FixpointGen.step nc nx nyE moore plus_one 0).
Local Notation rg := (rg H G).
Local Notation rh := (rh H G).
Local Notation rgp := (rgp H G).
Local Notation rhp := (rhp H G).
Local Notation mp := (mp nc nx ny H G).
Local Notation none := (length holds).
Local Notation round := (bdd * list bdd * list (list (list bdd)))%type.

Definition t1 (basin z : bdd) : bdd :=
  band (band (band z (bnot basin)) (ca basin None))
       (mp (fun v => Nat.eqb (rgp v) (rg v) && Nat.eqb (rhp v) none)).

Definition rim (basin z : bdd) : bdd :=
  band (band z (bnot basin)) (bnot (step E S basin)).

Definition vsel (K : nat -> V -> bool) (yi : list bdd) : bdd :=
  fold_left (fun acc '(i, y) => bor acc (band (mp (K i)) (ca y None)))
    (enumerate 0 yi) bfalse.

Definition t2 (basin : bdd) (t : round) : bdd :=
  band (band (rim basin (tz t))
             (mp (fun v => Nat.eqb (rgp v) (rg v) && Nat.eqb (rh v) none)))
       (vsel (fun i v => Nat.eqb (rhp v) i) (snd (fst t))).

Definition px (xr : list bdd) : bdd :=
  fst (fold_left (fun p x =>
         (bor (fst p) (band (band (ca (snd p) None) (bnot (snd p))) x), x))
       (tl xr) (bfalse, hd bfalse xr)).

Definition t3term (i j : nat) (xg : list bdd * bdd) : bdd :=
  band (band (px (fst xg)) (mp (fun v => Nat.eqb (rg v) j && Nat.eqb (rh v) i)))
       (bnot (snd xg)).

Definition t3 (basin : bdd) (t : round) : bdd :=
  band (band (rim basin (tz t))
             (mp (fun v => Nat.eqb (rgp v) (rg v) && negb (Nat.eqb (rh v) none)
                           && Nat.eqb (rhp v) (rh v))))
       (fold_left (fun acc '(i, xjr) =>
            fold_left (fun acc '(j, xg) => bor acc (t3term i j xg))
              (enumerate 0 (combine xjr goals)) acc)
          (enumerate 0 (snd t)) bfalse).

Definition adv : bdd :=
  fold_left (fun acc '(j, goal) =>
       bor acc (band (mp (fun v => Nat.eqb (rg v) j
                        && Nat.eqb (rgp v) ((j + 1) mod length goals))) goal))
    (enumerate 0 goals) bfalse.

Definition t4 (basin : bdd) (t : round) : bdd :=
  band (ca btrue (Some
          (band (band adv (mp (fun v => negb (Nat.eqb (rh v) none) && Nat.eqb (rhp v) (rh v))))
                (rim basin (tz t)))))
       (vsel (fun i v => Nat.eqb (rh v) i) (snd (fst t))).

(* rho_1 of the repaired code (finding F3): from the EMPTY basin over all of zk *)
Definition R1 (zk : list bdd) : bdd :=
  fst (fold_left (fun p z => (bor (fst p) (t1 (snd p) z), z)) zk (bfalse, bfalse)).

Definition Rn (tn : bdd -> round -> bdd) (rounds : list round) : bdd :=
  fst (fold_left (fun p t => (bor (fst p) (tn (snd p) t), tz t)) rounds (bfalse, bfalse)).

Definition in_range_mem : bdd :=
  mp (fun v => Nat.leb (rh v) none && Nat.leb (rg v) (length goals - 1)).

Definition body (zk : list bdd) (rounds : list round) : bdd :=
  band (bor (bor (bor (R1 zk) (Rn t2 rounds)) (Rn t3 rounds)) (Rn t4 rounds)) in_range_mem.

Definition wrap (u : bdd) : bdd :=
  if negb plus_one then
    let u := bor u (bnot E) in
    if moore then forall_ [Envp] u else u
  else u.

Theorem rabin_action_alt zk yki xkijr :
  rabin_action nc nx ny H G E S holds goals moore plus_one zk yki xkijr =
  wrap (body zk (combine (combine zk yki) xkijr)).
Proof.
  set (rounds := combine (combine zk yki) xkijr).
  unfold rabin_action, rabin_action_k. cbv beta zeta. fold rounds.
  match goal with |- context [fold_left ?f rounds ?a] =>
    set (F2 := f); set (a2 := a) end.
  match goal with |- context [fold_left ?f zk ?a] =>
    set (F1 := f); set (a1 := a) end.
  assert (E1 : fold_left F1 zk a1 =
               fold_left (fun p z => (bor (fst p) (t1 (snd p) z), z)) zk a1).
  { apply fold_left_ext. intros [r b] z. reflexivity. }
  set (G2 := fun (p : bdd * bdd * bdd * bdd) (t : round) =>
    (bor (fst (fst (fst p))) (t2 (snd p) t), bor (snd (fst (fst p))) (t3 (snd p) t),
     bor (snd (fst p)) (t4 (snd p) t), tz t)).
  assert (E2 : fold_left F2 rounds a2 = fold_left G2 rounds a2).
  { apply fold_left_ext. intros [[[r2 r3] r4] b] [[z yi] xijr].
    unfold F2, G2, t2, t3, t4, vsel, adv, t3term, rim, tz. cbn [fst snd]. f_equal. f_equal. f_equal.
    f_equal. f_equal.
    apply fold_left_ext. intros acc [i xjr]. apply fold_left_ext. intros acc2 [j [xr goal]].
    unfold px. cbn [fst snd].
    match goal with |- context [fold_left ?f (tl xr) ?a] =>
      assert (Ep : fold_left f (tl xr) a =
                   fold_left (fun p x =>
                     (bor (fst p) (band (band (ca (snd p) None) (bnot (snd p))) x), x))
                     (tl xr) a)
        by (apply fold_left_ext; intros [p xb] x; reflexivity);
      rewrite Ep; clear Ep end.
    destruct (fold_left _ (tl xr) _) as [p xb]. reflexivity. }
  assert (P2 : forall l a, (fst (fst (fst (fold_left G2 l a))), snd (fold_left G2 l a)) =
               fold_left (fun p t => (bor (fst p) (t2 (snd p) t), tz t)) l
                 (fst (fst (fst a)), snd a)).
  { apply (fold_left_pr (fun p : bdd * bdd * bdd * bdd => (fst (fst (fst p)), snd p))).
    intros [[[r2 r3] r4] b] t. reflexivity. }
  assert (P3 : forall l a, (snd (fst (fst (fold_left G2 l a))), snd (fold_left G2 l a)) =
               fold_left (fun p t => (bor (fst p) (t3 (snd p) t), tz t)) l
                 (snd (fst (fst a)), snd a)).
  { apply (fold_left_pr (fun p : bdd * bdd * bdd * bdd => (snd (fst (fst p)), snd p))).
    intros [[[r2 r3] r4] b] t. reflexivity. }
  assert (P4 : forall l a, (snd (fst (fold_left G2 l a)), snd (fold_left G2 l a)) =
               fold_left (fun p t => (bor (fst p) (t4 (snd p) t), tz t)) l
                 (snd (fst a), snd a)).
  { apply (fold_left_pr (fun p : bdd * bdd * bdd * bdd => (snd (fst p), snd p))).
    intros [[[r2 r3] r4] b] t. reflexivity. }
  rewrite E1, E2. clearbody F1 F2. clear E1 E2 F1 F2.
  unfold body, R1, Rn.
  specialize (P2 rounds a2). specialize (P3 rounds a2). specialize (P4 rounds a2).
  unfold a2 in P2, P3, P4. cbn [fst snd] in P2, P3, P4. fold a2 in P2, P3, P4.
  rewrite <- P2, <- P3, <- P4. fold a1.
  destruct (fold_left _ zk a1) as [rho_1 b1].
  destruct (fold_left G2 rounds a2) as [[[rho_2 rho_3] rho_4] b2].
  cbn [fst snd]. reflexivity.
Qed.

(* ---- membership ----------------------------------------------------------- *)
(* every level, level 0 included (l1 = [], previous basin = the empty set) *)
Lemma R1_member zk l1 z l2 v :
  zk = l1 ++ z :: l2 -> t1 (last l1 bfalse) z v = true -> R1 zk v = true.
Proof.
  intros Hz Ht. unfold R1. rewrite Hz.
  apply (thread_member nc nx nyE t1 (fun z => z)).
  rewrite map_id. exact Ht.
Qed.

Lemma Rn_member tn (rounds : list round) T1 t T2 v :
  rounds = T1 ++ t :: T2 -> tn (last (map tz T1) bfalse) t v = true -> Rn tn rounds v = true.
Proof.
  intros Hr Ht. unfold Rn. rewrite Hr.
  apply (thread_member nc nx nyE tn tz). exact Ht.
Qed.

Lemma vsel_member K yi i y v :
  nth_error yi i = Some y -> K i v = true -> ca y None v = true -> vsel K yi v = true.
Proof.
  intros Hi Hk Hc. unfold vsel.
  apply (outer_member' nc nx nyE (fun i y => band (mp (K i)) (ca y None)) yi 0 bfalse i y v Hi).
  cbn [Nat.add]. rewrite band_spec, Hc, andb_true_r.
  unfold TransducerModel.mp. rewrite memo_id. exact Hk.
Qed.

Lemma px_member xr x0 l1 x l2 v :
  xr = (x0 :: l1) ++ x :: l2 ->
  ca (last (x0 :: l1) bfalse) None v = true -> last (x0 :: l1) bfalse v = false ->
  x v = true -> px xr v = true.
Proof.
  intros Hx Hc Hb Hxv. unfold px. rewrite Hx. cbn [app tl hd].
  apply (thread_member nc nx nyE (fun xb x => band (band (ca xb None) (bnot xb)) x) (fun x => x)).
  rewrite map_id. rewrite last_cons_def in Hc, Hb.
  rewrite !band_spec, bnot_spec, Hc, Hb, Hxv. reflexivity.
Qed.

Lemma t3_sel_member (xijr : list (list (list bdd))) i xjr j xr goal v :
  nth_error xijr i = Some xjr -> nth_error (combine xjr goals) j = Some (xr, goal) ->
  t3term i j (xr, goal) v = true ->
  fold_left (fun acc '(i, xjr) =>
      fold_left (fun acc '(j, xg) => bor acc (t3term i j xg))
        (enumerate 0 (combine xjr goals)) acc)
    (enumerate 0 xijr) bfalse v = true.
Proof.
  intros Hi Hj Ht.
  apply (nested_member nc nx nyE (fun xjr : list (list bdd) => combine xjr goals) t3term
           xijr 0 bfalse i xjr j (xr, goal) v Hi Hj).
  cbn [Nat.add]. exact Ht.
Qed.

Lemma adv_member j goal v :
  nth_error goals j = Some goal -> rg v = j -> rgp v = (j + 1) mod length goals ->
  goal v = true -> adv v = true.
Proof.
  intros Hj H1 H2 Hg. unfold adv.
  apply (outer_member' nc nx nyE
           (fun j goal => band (mp (fun v => Nat.eqb (rg v) j
                               && Nat.eqb (rgp v) ((j + 1) mod length goals))) goal)
           goals 0 bfalse j goal v Hj).
  cbn [Nat.add]. rewrite band_spec, Hg, andb_true_r.
  unfold TransducerModel.mp. rewrite memo_id, H1, H2, !Nat.eqb_refl. reflexivity.
Qed.

End Pieces.
