#!/bin/bash
# Build the hand-written theories (coq/theories/**) with coq_makefile.
# Called with cwd = /verif/coq, under a lock held by the caller.
set -e
{ cat _CoqProject.in; find theories -name '*.v' | sort; } > _CoqProject.new
if ! cmp -s _CoqProject.new _CoqProject 2>/dev/null || [ ! -f Makefile ]; then
  mv _CoqProject.new _CoqProject
  coq_makefile -f _CoqProject -o Makefile > /dev/null 2>&1
else
  rm -f _CoqProject.new
fi
timeout 2700 make -j"${VERIF_JOBS:-16}" > build.log 2>&1 || { tail -40 build.log; exit 1; }
