(* L6Graph / GraphTables: what the correspondence check of C20 evaluates
   inside Coq: the fixed label alphabet (the meaning of each formula string
   that tools/vlib/graph_gen.py puts on nodes and edges), enumeration of all
   bit-range valuations, and truth tables of the model's four formulas.

   MODEL/HARNESS ONLY (no proofs). *)
From Coq Require Import List Bool ZArith NArith Arith.
Import ListNotations.
From Omega Require Import L6Graph.Formula L6Graph.Logicizer.

(* variable identifiers used by the generator *)
Definition ND : var := 0%nat.   (* the node variable 'nd' *)
Definition VX : var := 1%nat.   (* 'x' : bool *)
Definition VY : var := 2%nat.   (* 'y' : integer *)
Definition VZ : var := 3%nat.   (* 'z' : bool, declared in some cases *)
Definition VW : var := 4%nat.   (* 'w' : never declared (skipped key) *)

Local Open Scope Z_scope.

Definition tt_ (v : Z) : bool := Z.eqb v 1.

(* meaning of the edge formulas EDGE_FORMULAS[i] of graph_gen.py *)
Definition esem_alpha (l : N) (s s' : val) : bool :=
  match l with
  | 0%N => tt_ (s VX) && Z.eqb (s' VY) (s VY)      (* x /\ (y' = y) *)
  | 1%N => Z.ltb (s' VY) 2                          (* y' < 2 *)
  | 2%N => Z.eqb (s VY) 1                           (* y = 1 *)
  | 3%N => tt_ (s' VX) || negb (tt_ (s VX))         (* x' \/ ~ x *)
  | 4%N => Z.eqb (s' VY) (s VY + 1)                 (* y' = y + 1 *)
  | 5%N => Bool.eqb (tt_ (s VX)) (tt_ (s' VX))      (* x <=> x' *)
  | 6%N => implb (Z.ltb (s VY) (s' VY)) (tt_ (s' VX))  (* (y' > y) => x' *)
  | 7%N => true                                     (* True *)
  | 8%N => false                                    (* False *)
  | 9%N => Z.leb (s ND) (s' ND)                     (* nd' >= nd *)
  | _ => false
  end.

(* meaning of the node formulas NODE_FORMULAS[i] of graph_gen.py *)
Definition nsem_alpha (l : N) (s : val) : bool :=
  match l with
  | 0%N => Z.ltb 0 (s VY)                           (* y > 0 *)
  | 1%N => tt_ (s VX)                               (* x *)
  | 2%N => negb (tt_ (s VX)) || Z.eqb (s VY) 0      (* ~ x \/ (y = 0) *)
  | 3%N => Z.ltb (s VY) 2                           (* y < 2 *)
  | 4%N => false                                    (* False *)
  | 5%N => true                                     (* True *)
  | 6%N => negb (Z.eqb (s VY) 1)                    (* y != 1 *)
  | _ => false
  end.

Definition tsysA := tsys N N.
Definition evalA := @eval N N esem_alpha nsem_alpha.

(* valuations: a list of values indexed by variable identifier *)
Definition val_of (l : list Z) : val := fun k => nth k l 0.

Fixpoint all_vals (doms : list (list Z)) : list (list Z) :=
  match doms with
  | [] => [[]]
  | d :: r =>
    let rest := all_vals r in
    flat_map (fun v => map (cons v) rest) d
  end.

(* first element is the most significant bit *)
Definition bits_to_N (l : list bool) : N :=
  fold_left (fun a (b : bool) => if b then N.succ_double a else N.double a)
            l 0%N.

(* one number per current valuation; bit j (from the top) = next valuation j *)
Definition table2 (doms : list (list Z)) (f : form N N) : list N :=
  let vs := map val_of (all_vals doms) in
  map (fun s => bits_to_N (map (fun s' => evalA f s s') vs)) vs.

(* state predicate: the next valuation is irrelevant; use s itself *)
Definition table1 (doms : list (list Z)) (f : form N N) : N :=
  let vs := map val_of (all_vals doms) in
  bits_to_N (map (fun s => evalA f s s) vs).

Fixpoint eqNs (a b : list N) : bool :=
  match a, b with
  | [], [] => true
  | x :: a', y :: b' => N.eqb x y && eqNs a' b'
  | _, _ => false
  end.

(* the implementation's action tables arrive run-length encoded:
   (number of consecutive equal rows, row) *)
Definition expand (rle : list (N * N)) : list N :=
  flat_map (fun cv => repeat (snd cv) (N.to_nat (fst cv))) rle.

(* equal as sets of variables *)
Definition same_vars (a b : list var) : bool :=
  forallb (fun k => mem k b) a && forallb (fun k => mem k a) b
  && Nat.eqb (length a) (length b).

(* the declaration side of `graph_to_logic`: range of the node variable and
   the two variable lists *)
Definition agree_decl (g : tsysA) (lo hi : Z) (env sys : list var) : bool :=
  let '(l, h) := nodevar_dom g in
  let '(e, s) := varlists ND g in
  Z.eqb l lo && Z.eqb h hi && same_vars e env && same_vars s sys.

(* the four comparisons of one case *)
Definition agree (doms : list (list Z)) (a : automaton N N)
    (ei si : N) (ea sa : list (N * N)) : list bool :=
  [ N.eqb (table1 doms (env_init a)) ei;
    N.eqb (table1 doms (sys_init a)) si;
    eqNs (table2 doms (env_action a)) (expand ea);
    eqNs (table2 doms (sys_action a)) (expand sa) ].
