(* L6 Syntax — induction principle for the nested inductive `tree`. *)
From Coq Require Import List String.
From Omega Require Import L6Syntax.Tokens.
Import ListNotations.

Section TreeInd.
Variable P : tree -> Prop.
Hypothesis HT : forall k v, P (Term k v).
Hypothesis HU : forall op x, P x -> P (Un op x).
Hypothesis HB : forall c op l r, P l -> P r -> P (Bin c op l r).
Hypothesis HO : forall op args, Forall P args -> P (Opr op args).
Hypothesis HL : forall xs, Forall P xs -> P (Lst xs).

Fixpoint tree_ind' (t : tree) : P t :=
  match t with
  | Term k v => HT k v
  | Un op x => HU op x (tree_ind' x)
  | Bin c op l r => HB c op l r (tree_ind' l) (tree_ind' r)
  | Opr op args =>
      HO op args
        ((fix go (l : list tree) : Forall P l :=
            match l with
            | [] => Forall_nil P
            | x :: r => Forall_cons x (tree_ind' x) (go r)
            end) args)
  | Lst xs =>
      HL xs
        ((fix go (l : list tree) : Forall P l :=
            match l with
            | [] => Forall_nil P
            | x :: r => Forall_cons x (tree_ind' x) (go r)
            end) xs)
  end.
End TreeInd.

(* Two levels deep under an operator node: the parser builds quantifiers as
   Opr op [Opr "params" vs; body] and LET as Opr op [Lst defs; body] with
   defs = [Bin _ "==" name e; ...]; an induction over such trees needs the
   hypothesis for the binders vs and the definition bodies e too. *)
Definition def_body_P (P : tree -> Prop) (d : tree) : Prop :=
  match d with Bin _ _ _ e => P e | _ => True end.
Definition arg_sub (P : tree -> Prop) (a : tree) : Prop :=
  match a with
  | Opr _ vs => Forall P vs
  | Lst ds => Forall (def_body_P P) ds
  | _ => True
  end.

Section TreeInd2.
Variable P : tree -> Prop.
Hypothesis HT : forall k v, P (Term k v).
Hypothesis HU : forall op x, P x -> P (Un op x).
Hypothesis HB : forall c op l r, P l -> P r -> P (Bin c op l r).
Hypothesis HO : forall op args,
  Forall P args -> Forall (arg_sub P) args -> P (Opr op args).
Hypothesis HL : forall xs, Forall P xs -> P (Lst xs).

Lemma tree_ind2 : forall t, P t.
Proof.
  assert (H : forall t, P t /\ arg_sub P t /\ def_body_P P t).
  { induction t using tree_ind'.
    - simpl. auto.
    - simpl. intuition.
    - simpl. intuition.
    - assert (F1 : Forall P args) by (eapply Forall_impl; [|exact H]; simpl; tauto).
      assert (F2 : Forall (arg_sub P) args) by (eapply Forall_impl; [|exact H]; simpl; tauto).
      simpl. auto.
    - assert (F1 : Forall P xs) by (eapply Forall_impl; [|exact H]; simpl; tauto).
      assert (F2 : Forall (def_body_P P) xs) by (eapply Forall_impl; [|exact H]; simpl; tauto).
      simpl. auto. }
  intro t. apply H.
Qed.
End TreeInd2.
