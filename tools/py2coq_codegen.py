"""Fail-closed translator for omega/symbolic/codegen.py (tie T for C13).

Reads the CURRENT source text with `ast` (never imports omega) and turns

  _latch_name, _latch_ref, _register_nodes, _append_sep, _comment_level,
  _dumps_node, _dumps_layer, _collect_layers, dumps_bdd_as_code,
  int_to_bits, assign_bitvectors, _list_bits
and omega/logic/bitvector.py twos_complement_to_int

into Gallina (coq/gen/CodegenGen.v; the fixed prelude is HEADER below).
coq/GenProofs/CodegenBridge.v proves the generated terms equal to the
hand-written model coq/theories/L7Codegen/{Dag,Render,Bits,Step}.v on every
run.

Data abstraction (shared with the model)
  a BDD reference u      its integer key int(u) (Z); bdd._add_int(k) is k.
                         What the code reads of it are Section variables:
                         ref_is_terminal (u.var is None), ref_negated
                         (u.negated), ref_low / ref_high (node.low/.high),
                         ref_var (node.var, a string), bdd_succ (bdd.succ(u)
                         = (level, low, high))
  TEXT (a str that is    the list of its TOKENS (list string) as
  emitted code)          L7Codegen/Render.v cuts a text: blanks separate, a
                         line break is the token NL, each parenthesis is a
                         token, maximal runs of word characters and maximal
                         runs of other characters are tokens.  The literal
                         text of an f-string is cut by the translator with
                         the same rules; a hole holding text contributes its
                         tokens; a hole holding a table entry / name (kind
                         str) must be delimited by blanks, parentheses or
                         line breaks and contributes [s] ([] if s = '');
                         holes of kind word (decimal numbers, identifiers)
                         may be glued to literal word characters
                         (`latch_{id}`, `out_bits["{name}"]`)
  syntax                 languages[lang]: association list string -> string
                         (the table extracted into gen/C13_tables.v);
                         syntax[K] is a lookup that may fail
  layers                 defaultdict(list): Dag.layers; a read inserts the
                         missing key (dd_touch)
  roots / renaming       dict: association lists in insertion order
  sets                   lists (membership only)
  int                    Z; levels, widths of nodes: nat

Every function body is a term of type option: None is ANY exception (failed
assert, raise, KeyError, IndexError, ValueError of int(), negative exponent,
out of fuel).  A function that changes an argument in place returns the new
value of that argument next to its result.  Recursion (`_register_nodes`)
is a Fixpoint on an extra first argument `fuel`; every caller passes its own
fuel on.  Statements are compiled in continuation style; an `if` whose
branches fall through and agree on kinds is joined through a tuple, otherwise
the rest of the block is duplicated.  Nothing is dropped silently: every
skipped statement is a note in the generated file.
"""
import ast
import os
import sys

sys.path.insert(0, os.path.dirname(os.path.abspath(__file__)))
from py2coq import Refuse, _src, _dotted  # noqa: E402

SRC = 'omega/symbolic/codegen.py'
BV_SRC = 'omega/logic/bitvector.py'
SOURCES = dict(cg=SRC, bv=BV_SRC)


def L(k):
    return ('list', k)


def S(k):
    return ('set', k)


def D(k, v):
    return ('dict', k, v)


def T(*ks):
    return ('tuple',) + ks


LINES = L('toks')
REN = D('str', 'str')
HINTS = D('str', 'attr')
# function -> dict(params=[(name, kind, default source)], ret=kind,
#                  mut=[parameters changed in place], rec=recursive)
SIGS = {
    '_latch_name': dict(params=[('node', 'ref', None), ('syntax', 'syn', None)],
                        ret='toks'),
    '_latch_ref': dict(params=[('node', 'ref', None), ('syntax', 'syn', None)],
                       ret='toks'),
    '_register_nodes': dict(params=[('u', 'ref', None),
                                    ('layers', 'ddict', None),
                                    ('bdd', 'bdd', None)],
                            ret='unit', mut=['layers'], rec=True),
    '_append_sep': dict(params=[('line', 'toks', None),
                                ('syntax', 'syn', None)], ret='toks'),
    '_comment_level': dict(params=[('level', 'nat', None),
                                   ('lines', LINES, None),
                                   ('syntax', 'syn', None)],
                           ret='unit', mut=['lines']),
    '_dumps_node': dict(params=[('node_id', 'ref', None),
                                ('lines', LINES, None),
                                ('latches', S('toks'), None),
                                ('syntax', 'syn', None), ('bdd', 'bdd', None),
                                ('renaming', REN, None)],
                        ret='unit', mut=['lines', 'latches']),
    '_dumps_layer': dict(params=[('layer', L('ref'), None),
                                 ('lines', LINES, None),
                                 ('latches', S('toks'), None),
                                 ('syntax', 'syn', None),
                                 ('bdd', 'bdd', None),
                                 ('renaming', REN, None)],
                         ret='unit', mut=['lines', 'latches']),
    '_collect_layers': dict(params=[('roots', D('word', 'ref'), None),
                                    ('syntax', 'syn', None),
                                    ('bdd', 'bdd', None)],
                            ret=T('ddict', LINES)),
    'dumps_bdd_as_code': dict(params=[('roots', D('word', 'ref'), None),
                                      ('bdd', 'bdd', None),
                                      ('lang', 'str', "'python'"),
                                      ('renaming', ('opt', REN), 'None')],
                              ret='toks'),
    'int_to_bits': dict(params=[('x', 'Z', None), ('width', 'Z', None)],
                        ret=L('bool')),
    'twos_complement_to_int': dict(mod='bv',
                                   params=[('bits', L('bool'), None)],
                                   ret='Z'),
    'assign_bitvectors': dict(params=[('state', D('str', 'val'), None),
                                      ('vrs', HINTS, None)],
                              ret=D('str', 'bvval')),
    '_list_bits': dict(params=[('vrs', L('str'), None),
                               ('table', HINTS, None)], ret=L('str')),
    'map_bits_to_bitvectors': dict(params=[('vrs', HINTS, None)],
                                   ret=REN),
}
ORDER = ['_latch_name', '_latch_ref', '_register_nodes', '_append_sep',
         '_comment_level', '_dumps_node', '_dumps_layer', '_collect_layers',
         'dumps_bdd_as_code', 'int_to_bits', 'twos_complement_to_int',
         'assign_bitvectors', '_list_bits']
SKIP_CALLS = ('log.debug', 'log.info', 'log.warning', 'logger.debug',
              'logger.info', 'logger.warning')
STATIC = ('bdd', 'none')
MUTABLE = ('list', 'set', 'dict')


def comment(s):
    return (s.replace('"', "'").replace('(*', '( *').replace('*)', '* )')
            .replace('\n', ' '))


def coq_str(s):
    out = ''
    for ch in s:
        if ch == '"':
            out += '""'
        elif ch == '\n' or ord(ch) < 32 or ord(ch) > 126:
            raise Refuse(f'character {ch!r} in a string constant')
        else:
            out += ch
    return '"' + out + '"'


def is_static(k):
    return k in STATIC or (isinstance(k, tuple) and k[0] in ('fmt', 'int'))


def coq_type(k):
    simple = {'Z': 'Z', 'nat': 'nat', 'bool': 'bool', 'str': 'string',
              'word': 'string', 'toks': 'list string', 'ref': 'Z',
              'syn': 'list (string * string)', 'ddict': 'layers',
              'unit': 'unit', 'char': 'ascii', 'attr': 'attr',
              'val': 'val', 'bvval': 'bvval',
              'langs': 'list (string * list (string * string))'}
    if k in simple:
        return simple[k]
    if isinstance(k, tuple):
        if k[0] in ('list', 'set'):
            if k[1] is None:
                raise Refuse('a list whose element kind is unknown')
            return f'list ({coq_type(k[1])})'
        if k[0] == 'dict':
            return f'list (({coq_type(k[1])}) * ({coq_type(k[2])}))'
        if k[0] == 'opt':
            return f'option ({coq_type(k[1])})'
        if k[0] == 'tuple':
            return '(' + ' * '.join(f'({coq_type(x)})' for x in k[1:]) + ')'
        if k[0] == 'int':
            return 'Z'
    raise Refuse(f'no Gallina type for kind {k}')


def join(a, b):
    if a is None:
        return b
    if b is None or a == b:
        return a
    if {a, b} == {'str', 'word'}:
        return 'str'
    if {a, b} == {'Z', 'ref'}:
        return 'ref'
    if a in ('bool', L('bool'), 'bvval') and b in ('bool', L('bool'),
                                                   'bvval'):
        return 'bvval'
    if {a, b} == {'nat', 'Z'}:
        return 'Z'
    if {a, b} <= {'str', 'word', 'toks'}:
        return 'toks'
    for x, y in ((a, b), (b, a)):
        if isinstance(x, tuple) and x[0] == 'int' and y in ('nat', 'Z'):
            return y
    if isinstance(a, tuple) and isinstance(b, tuple) and a[0] == b[0] \
            and a[0] in ('list', 'set', 'tuple', 'dict') and len(a) == len(b):
        return (a[0],) + tuple(join(x, y) for x, y in zip(a[1:], b[1:]))
    raise Refuse(f'kinds {a} and {b} do not agree')


class V:
    def __init__(self, kind, term=None, tag=None):
        self.kind = kind
        self.term = term
        self.tag = tag
        self.frozen = False

    def __repr__(self):
        return f'V({self.kind}, {self.term})'


def is_fmt(v):
    return isinstance(v.kind, tuple) and v.kind[0] == 'fmt'


def coerce(v, want, what='value'):
    k = v.kind
    if k == want:
        return v.term
    if isinstance(k, tuple) and k[0] == 'int':
        if want == 'nat' and k[1] >= 0:
            return f'{k[1]}%nat'
        if want == 'Z':
            return f'({k[1]})%Z'
    if want == 'str' and k == 'word':
        return v.term
    if {k, want} == {'Z', 'ref'}:
        return v.term
    if want == 'Z' and k == 'nat':
        return f'(Z.of_nat {v.term})'
    if want == 'Z' and k == 'val':
        return f'(val_int {v.term})'
    if want == 'bvval' and k == 'bool':
        return f'(BVbool {v.term})'
    if want == 'bvval' and k == L('bool'):
        return f'(BVlist {v.term})'
    if want == 'toks':
        if k == 'str':
            return f'(tok {v.term})'
        if k == 'word':
            return f'[{v.term}]'
    if isinstance(k, tuple) and isinstance(want, tuple) and k[0] == want[0] \
            and len(k) == len(want):
        if k[0] in ('list', 'set', 'dict') and (None in k[1:]):
            return v.term
        if k[0] == 'dict' and k[1] in ('str', 'word') and \
                want[1] in ('str', 'word') and \
                (k[2] == want[2] or (k[2] == 'word' and want[2] == 'str')):
            return v.term
        if k[0] in ('list', 'set') and k[1] == 'word' and want[1] == 'str':
            return v.term
        if k[0] == 'tuple' and isinstance(v.tag, list):
            return '(' + ', '.join(coerce(x, w, what)
                                   for x, w in zip(v.tag, want[1:])) + ')'
    if isinstance(want, tuple) and want[0] == 'opt':
        if k == 'none':
            return 'None'
        return f'(Some {coerce(v, want[1], what)})'
    raise Refuse(f'{what}: a value of kind {k} where {want} is expected')


# ---- cutting literal text into tokens (Render.classify) --------------------
def cclass(ch):
    n = ord(ch)
    if n == 10:
        return 'nl'
    if n in (32, 9, 13):
        return 'blank'
    if n in (40, 41):
        return 'paren'
    if 48 <= n <= 57 or 65 <= n <= 90 or 97 <= n <= 122 or \
            n in (95, 91, 93, 34, 39, 46):
        return 'word'
    return 'sym'


class Func:
    def __init__(self, name, node):
        self.name = name
        self.node = node
        self.sig = SIGS[name]
        self.mut = self.sig.get('mut', [])
        self.rec = self.sig.get('rec', False)
        self.needs_fuel = self.rec
        self.mod = self.sig.get('mod', 'cg')
        self.coq = self.mod + '_' + name.lstrip('_')
        self.text = None


class Ctx:
    def __init__(self, fi, loop_end=None):
        self.fi = fi
        self.loop_end = loop_end


def has_exit(stmts):
    for s in stmts:
        for n in ast.walk(s):
            if isinstance(n, (ast.Return, ast.Raise, ast.Continue,
                              ast.Break)):
                return True
    return False


def assigned_names(stmts, env):
    """Names (re)bound or changed in place by the statements, in order."""
    out = []

    def add(n):
        if n not in out:
            out.append(n)
    for s in stmts:
        for n in ast.walk(s):
            if isinstance(n, ast.Name) and isinstance(n.ctx, ast.Store):
                add(n.id)
            elif isinstance(n, ast.Call):
                f = n.func
                if isinstance(f, ast.Attribute) and \
                        f.attr in ('append', 'extend', 'add', 'update'):
                    b = f.value
                    if isinstance(b, ast.Subscript):
                        b = b.value
                    if isinstance(b, ast.Name):
                        add(b.id)
                d = _dotted(f)
                if d in SIGS:
                    names = [p for p, _, _ in SIGS[d]['params']]
                    for m in SIGS[d].get('mut', []):
                        i = names.index(m)
                        if i < len(n.args) and isinstance(n.args[i], ast.Name):
                            add(n.args[i].id)
            elif isinstance(n, ast.Subscript) and \
                    isinstance(n.value, ast.Name) and \
                    (isinstance(n.ctx, ast.Store) or
                     (n.value.id in env
                      and env[n.value.id].kind == 'ddict')):
                # d[k] = v; a read of a defaultdict inserts the key
                add(n.value.id)
    return out


# ---- the translator --------------------------------------------------------
class Tr:
    def __init__(self, repo):
        self.found = {}
        for mod, rel in SOURCES.items():
            with open(os.path.join(repo, rel)) as f:
                tree = ast.parse(f.read())
            self.found[mod] = {n.name: n for n in tree.body
                               if isinstance(n, ast.FunctionDef)}
        self.funcs = {}
        self.notes = []
        self.templates = []
        self.n = 0
        self.cur = None

    def note(self, s):
        s = f'{self.cur.name}: {s}' if self.cur else s
        if s not in self.notes:
            self.notes.append(s)

    def template(self, text, term):
        e = (text.replace('\n', '\\n'), term)
        if e not in self.templates:
            self.templates.append(e)

    def tmp(self):
        self.n += 1
        return f't{self.n}_'

    @staticmethod
    def wrap(pre, text):
        for p in reversed(pre):
            if len(p) == 3:
                text = f'let {p[0]} := {p[1]} in\n{text}'
            else:
                text = (f'match {p[1]} with\n| Some {p[0]} =>\n{text}\n'
                        '| None => None\nend')
        return text

    # -- functions
    def translate_function(self, name):
        sig = SIGS[name]
        mod = sig.get('mod', 'cg')
        node = self.found[mod].get(name)
        if node is None:
            raise Refuse(f'{SOURCES[mod]}: function {name} not found')
        a = node.args
        if a.vararg or a.kwarg or a.kwonlyargs or a.posonlyargs:
            raise Refuse(f'{name}: unsupported parameter list')
        names = [x.arg for x in a.args]
        if names != [p for p, _, _ in sig['params']]:
            raise Refuse(f'{name}: parameters {names}, expected '
                         f'{[p for p, _, _ in sig["params"]]}')
        defaults = [None] * (len(names) - len(a.defaults)) + \
            [_src(d) for d in a.defaults]
        if defaults != [d for _, _, d in sig['params']]:
            raise Refuse(f'{name}: default values {defaults} changed')
        fi = Func(name, node)
        self.cur = fi
        self.funcs[name] = fi
        env, gparams = {}, []
        for p, k, _ in sig['params']:
            v = V(k, None, tag=p)
            if not is_static(k):
                v.term = 'v_' + p
                gparams.append(f'({v.term} : {coq_type(k)})')
            v.frozen = p not in fi.mut
            env[p] = v
        body = list(node.body)
        if body and isinstance(body[0], ast.Expr) and \
                isinstance(body[0].value, ast.Constant) and \
                isinstance(body[0].value.value, str):
            body = body[1:]
        ctx = Ctx(fi)

        def end(e):
            if sig['ret'] != 'unit':
                raise Refuse(f'{name}: control reaches the end of the '
                             'function without `return`')
            return 'Some ' + self.pack(fi, None, e)
        text = self.block(body, env, ctx, end)
        rt = self.result_type(fi)
        if fi.rec:
            fi.text = (f'(* {SOURCES[mod]} : {name}, line {node.lineno} *)\n'
                       f'Fixpoint {fi.coq} (fuel : nat) {" ".join(gparams)} '
                       '{struct fuel}\n'
                       f'    : option ({rt}) :=\nmatch fuel with\n'
                       f'| O => None\n| S fuel =>\n{text}\nend.\n')
        else:
            fuel = '(fuel : nat) ' if fi.needs_fuel else ''
            fi.text = (f'(* {SOURCES[mod]} : {name}, line {node.lineno} *)\n'
                       f'Definition {fi.coq} {fuel}{" ".join(gparams)}\n'
                       f'    : option ({rt}) :=\n{text}.\n')
        self.cur = None
        return fi

    def result_kinds(self, fi):
        ks = [] if fi.sig['ret'] == 'unit' else [fi.sig['ret']]
        pk = {p: k for p, k, _ in fi.sig['params']}
        return ks + [pk[m] for m in fi.mut]

    def result_type(self, fi):
        ks = self.result_kinds(fi)
        if not ks:
            return 'unit'
        return ' * '.join(f'({coq_type(k)})' for k in ks)

    def pack(self, fi, value, env):
        """Result tuple: the returned value, then the changed arguments."""
        ts = [] if value is None else [value]
        pk = {p: k for p, k, _ in fi.sig['params']}
        for m in fi.mut:
            ts.append(coerce(env[m], pk[m], f'{fi.name}: argument {m}'))
        if not ts:
            return 'tt'
        return ts[0] if len(ts) == 1 else '(' + ', '.join(ts) + ')'

    # -- statements
    def block(self, stmts, env, ctx, k):
        if not stmts:
            return k(env)
        s, rest = stmts[0], stmts[1:]

        def kk(e):
            return self.block(rest, e, ctx, k)
        fi = ctx.fi
        if isinstance(s, ast.Return):
            pre = []
            if s.value is None:
                if fi.sig['ret'] != 'unit':
                    raise Refuse('bare return')
                return 'Some ' + self.pack(fi, None, env)
            v = self.use_str(self.expr(s.value, env, pre), pre)
            t = coerce(v, fi.sig['ret'], 'return')
            return self.wrap(pre, 'Some ' + self.pack(fi, t, env))
        if isinstance(s, ast.Raise):
            return 'None'
        if isinstance(s, ast.Continue):
            if ctx.loop_end is None:
                raise Refuse('continue outside a loop')
            return ctx.loop_end(env)
        if isinstance(s, ast.Pass):
            return kk(env)
        if isinstance(s, ast.Assert):
            pre = []
            c = self.cond(s.test, env, pre)
            return self.wrap(pre, f'if {c} then\n{kk(env)}\nelse None')
        if isinstance(s, ast.Expr):
            return self.expr_stmt(s, env, kk)
        if isinstance(s, ast.Assign):
            return self.assign(s, env, kk)
        if isinstance(s, ast.If):
            return self.if_stmt(s, env, ctx, kk)
        if isinstance(s, ast.For):
            return self.for_stmt(s, env, ctx, kk)
        raise Refuse(f'line {s.lineno}: unsupported statement '
                     f'{type(s).__name__}')

    def only_skips(self, stmts):
        for s in stmts:
            if not (isinstance(s, ast.Expr) and isinstance(s.value, ast.Call)
                    and _dotted(s.value.func) in SKIP_CALLS):
                return False
        return True

    @staticmethod
    def bind(env, name, v):
        env = dict(env)
        env[name] = v
        return env

    def let(self, env, name, v, kk):
        if is_static(v.kind) or v.kind in ('iter',):
            return kk(self.bind(env, name, v))
        nv = V(v.kind, 'v_' + name)
        nv.frozen = getattr(v, 'alias', False)
        if getattr(v, 'raw', None) is not None:
            nv.raw = v.raw
        return (f'let v_{name} := {v.term} in\n'
                + kk(self.bind(env, name, nv)))

    def lookup(self, env, name):
        if name == 'languages' and name not in env:
            return V('langs', 'languages')
        if name not in env:
            raise Refuse(f'name `{name}` is not bound here')
        return env[name]

    def mutable_name(self, env, node, what):
        if not isinstance(node, ast.Name):
            raise Refuse(f'{what}: in-place change of something that is '
                         'not a plain name')
        v = self.lookup(env, node.id)
        if not (isinstance(v.kind, tuple) and v.kind[0] in MUTABLE) \
                and v.kind != 'ddict':
            raise Refuse(f'{what}: in-place change of a {v.kind}')
        if v.frozen:
            raise Refuse(f'{what}: in-place change of `{node.id}`, which is '
                         'a parameter not declared as changed, or has an '
                         'alias')
        return v

    def expr_stmt(self, s, env, kk):
        e = s.value
        if isinstance(e, ast.Constant):
            return kk(env)
        if not isinstance(e, ast.Call):
            raise Refuse(f'line {s.lineno}: expression statement')
        d = _dotted(e.func)
        if d in SKIP_CALLS:
            self.note('logging skipped')
            return kk(env)
        f = e.func
        what = f'line {s.lineno}'
        if isinstance(f, ast.Attribute) and \
                f.attr in ('append', 'extend', 'add', 'update'):
            if len(e.args) != 1 or e.keywords:
                raise Refuse(f'{what}: arguments of {f.attr}')
            pre = []
            # layers[level].append(x)
            if isinstance(f.value, ast.Subscript) and f.attr == 'append':
                lv = self.mutable_name(env, f.value.value, what)
                if lv.kind != 'ddict':
                    raise Refuse(f'{what}: append to an entry of a '
                                 f'{lv.kind}')
                key = self.expr(f.value.slice, env, pre)
                x = self.expr(e.args[0], env, pre)
                nv = V('ddict', f'(add_to_layer {coerce(key, "nat")} '
                                f'{coerce(x, "ref")} {lv.term})')
                return self.wrap(pre, self.let(env, f.value.value.id, nv, kk))
            lv = self.mutable_name(env, f.value, what)
            name = f.value.id
            x = self.use_str(self.expr(e.args[0], env, pre), pre)
            if isinstance(e.args[0], ast.Name) and \
                    isinstance(x.kind, tuple) and x.kind[0] in MUTABLE:
                x.frozen = True
                env = self.bind(env, e.args[0].id, x)
            if f.attr == 'append' and lv.kind[0] == 'list':
                k = ('list', join(lv.kind[1], x.kind))
                t = f'({lv.term} ++ [{coerce(x, k[1])}])%list'
            elif f.attr == 'extend' and lv.kind[0] == 'list':
                k = join(lv.kind, x.kind)
                t = f'({lv.term} ++ {x.term})%list'
            elif f.attr == 'add' and lv.kind[0] == 'set':
                k = ('set', join(lv.kind[1], x.kind))
                t = f'({coerce(x, k[1])} :: {lv.term})'
            elif f.attr == 'update' and lv.kind[0] == 'dict' and \
                    isinstance(x.kind, tuple) and x.kind[0] == 'dict':
                k = join(lv.kind, x.kind)
                t = f'(dict_update {lv.term} {x.term})'
            else:
                raise Refuse(f'{what}: {f.attr} on a {lv.kind}')
            return self.wrap(pre, self.let(env, name, V(k, t), kk))
        # a call of a translated procedure
        pre, out = [], {}
        v = self.call(e, env, pre, out)
        if v.kind != 'unit':
            raise Refuse(f'{what}: the value of the call is dropped')
        env = dict(env)
        env.update(out)
        return self.wrap(pre, kk(env))

    def assign(self, s, env, kk):
        if len(s.targets) != 1:
            raise Refuse(f'line {s.lineno}: chained assignment')
        t = s.targets[0]
        pre, out = [], {}
        if isinstance(t, ast.Subscript):
            # d[k] = v
            lv = self.mutable_name(env, t.value, f'line {s.lineno}')
            if lv.kind[0] != 'dict':
                raise Refuse(f'line {s.lineno}: store into a {lv.kind}')
            key = self.use_str(self.expr(t.slice, env, pre), pre)
            v = self.use_str(self.expr(s.value, env, pre), pre)
            k = ('dict', join(lv.kind[1], key.kind), join(lv.kind[2], v.kind))
            nv = V(k, f'(dict_set {lv.term} {coerce(key, k[1])} '
                      f'{coerce(v, k[2])})')
            return self.wrap(pre, self.let(env, t.value.id, nv, kk))
        if isinstance(s.value, ast.Call):
            v = self.call(s.value, env, pre, out)
        else:
            v = self.expr(s.value, env, pre)
        env = dict(env)
        env.update(out)
        if isinstance(t, ast.Name):
            if isinstance(s.value, ast.Name) and isinstance(v.kind, tuple) \
                    and v.kind[0] in MUTABLE:
                v.frozen = True
                env = self.bind(env, s.value.id, v)
                v = V(v.kind, v.term)
                v.alias = True
            return self.wrap(pre, self.let(env, t.id, v, kk))
        if isinstance(t, ast.Tuple) and all(isinstance(x, ast.Name)
                                            for x in t.elts):
            parts = self.untuple(v, len(t.elts))
            names = [x.id for x in t.elts]
            pat = ', '.join('v_' + n for n in names)
            for n, p in zip(names, parts):
                env = self.bind(env, n, V(p.kind, 'v_' + n))
            val = v.term if v.term is not None else \
                '(' + ', '.join(p.term for p in parts) + ')'
            return self.wrap(pre, f"let '({pat}) := {val} in\n" + kk(env))
        raise Refuse(f'line {s.lineno}: assignment target')

    def untuple(self, v, n=None):
        if not (isinstance(v.kind, tuple) and v.kind[0] == 'tuple'):
            raise Refuse(f'a tuple expected, got {v.kind}')
        if n is not None and len(v.kind) - 1 != n:
            raise Refuse('tuple length')
        if isinstance(v.tag, list):
            return list(v.tag)
        if len(v.kind) == 3:
            return [V(v.kind[1], f'(fst {v.term})'),
                    V(v.kind[2], f'(snd {v.term})')]
        if len(v.kind) == 4:
            return [V(v.kind[1], f'(fst (fst {v.term}))'),
                    V(v.kind[2], f'(snd (fst {v.term}))'),
                    V(v.kind[3], f'(snd {v.term})')]
        raise Refuse('tuple of unknown components')

    def if_stmt(self, s, env, ctx, kk):
        if self.only_skips(s.body) and self.only_skips(s.orelse):
            self.note(f'`if {comment(_src(s.test))}` only logs: skipped')
            return kk(env)
        # if x is None: x = <value>      (x an optional argument)
        t = s.test
        if isinstance(t, ast.Compare) and len(t.ops) == 1 and \
                isinstance(t.ops[0], ast.Is) and \
                isinstance(t.left, ast.Name) and \
                isinstance(t.comparators[0], ast.Constant) and \
                t.comparators[0].value is None and not s.orelse and \
                len(s.body) == 1 and isinstance(s.body[0], ast.Assign) and \
                len(s.body[0].targets) == 1 and \
                isinstance(s.body[0].targets[0], ast.Name) and \
                s.body[0].targets[0].id == t.left.id:
            x = self.lookup(env, t.left.id)
            if isinstance(x.kind, tuple) and x.kind[0] == 'opt':
                pre = []
                d = self.expr(s.body[0].value, env, pre)
                if pre:
                    raise Refuse('default value that may raise')
                k = join(x.kind[1], d.kind)
                nv = V(k, f'(match {x.term} with Some o_ => o_ | None => '
                          f'{coerce(d, k)} end)')
                return self.let(env, t.left.id, nv, kk)
        pre = []
        c = self.cond(s.test, env, pre)
        body = [] if self.only_skips(s.body) else s.body
        orelse = [] if self.only_skips(s.orelse) else s.orelse
        if (s.body and not body) or (s.orelse and not orelse):
            self.note('logging skipped')
        if not has_exit(body) and not has_exit(orelse):
            r = self.if_join(c, body, orelse, env, ctx, kk)
            if r is not None:
                return self.wrap(pre, r)
        tb = self.block(body, env, ctx, kk)
        to = self.block(orelse, env, ctx, kk)
        return self.wrap(pre, f'if {c} then\n{tb}\nelse\n{to}')

    def if_join(self, c, body, orelse, env, ctx, kk):
        cap = []

        def probe(e):
            cap.append(e)
            return 'PROBE'
        self.block(body, env, ctx, probe)
        self.block(orelse, env, ctx, probe)
        if len(cap) != 2:
            return None
        eb, eo = cap
        names, kinds, out = [], [], dict(env)
        for n in assigned_names(body + orelse, env):
            if n not in eb or n not in eo:
                out.pop(n, None)
                continue
            a, b = eb[n], eo[n]
            if a.kind == b.kind and a.term == b.term and \
                    (is_static(a.kind) or a is b):
                out[n] = a
                continue
            try:
                k = join(a.kind, b.kind)
                if is_static(k) or a.term is None or b.term is None:
                    return None
                coq_type(k)
            except Refuse:
                return None
            names.append(n)
            kinds.append(k)
        if not names:
            return None

        def leaf(e):
            ts = [coerce(e[n], k) for n, k in zip(names, kinds)]
            return 'Some ' + (ts[0] if len(ts) == 1
                              else '(' + ', '.join(ts) + ')')
        tb = self.block(body, env, ctx, leaf)
        to = self.block(orelse, env, ctx, leaf)
        for n, k in zip(names, kinds):
            nv = V(k, 'v_' + n)
            nv.frozen = env[n].frozen if n in env else False
            out[n] = nv
        pat = 'v_' + names[0] if len(names) == 1 else \
            '(' + ', '.join('v_' + n for n in names) + ')'
        return (f'match (if {c} then\n{tb}\nelse\n{to}) with\n'
                f'| Some {pat} =>\n{kk(out)}\n| None => None\nend')

    def for_stmt(self, s, env, ctx, kk):
        if s.orelse:
            raise Refuse(f'line {s.lineno}: for/else')
        pre = []
        it = self.iterable(s.iter, env, pre)
        tg = s.target
        if isinstance(tg, ast.Name):
            targets, tkinds = [tg.id], [it.kind[1]]
            xpat = 'v_' + tg.id
        elif isinstance(tg, ast.Tuple) and \
                all(isinstance(x, ast.Name) for x in tg.elts) and \
                isinstance(it.kind[1], tuple) and it.kind[1][0] == 'tuple' \
                and len(it.kind[1]) - 1 == len(tg.elts):
            targets = [x.id for x in tg.elts]
            tkinds = list(it.kind[1][1:])
            xpat = "'(" + ', '.join('v_' + n for n in targets) + ')'
        else:
            raise Refuse(f'line {s.lineno}: loop target')
        state = [n for n in assigned_names(s.body, env)
                 if n in env and n not in targets]
        for n in state:
            if is_static(env[n].kind):
                raise Refuse(f'line {s.lineno}: `{n}` ({env[n].kind}) is '
                             'changed in a loop')
        for st in s.body:
            for n in ast.walk(st):
                if isinstance(n, (ast.Return, ast.Break)):
                    raise Refuse(f'line {s.lineno}: return/break inside a '
                                 'loop')
        kinds = [env[n].kind for n in state]
        body = None
        for _ in range(4):
            cap = []
            inner = dict(env)
            for n, k in zip(targets, tkinds):
                inner[n] = V(k, 'v_' + n)
            for n, k in zip(state, kinds):
                nv = V(k, 'v_' + n)
                nv.frozen = env[n].frozen
                inner[n] = nv

            def end(e):
                cap.append([e[n].kind for n in state])
                ts = [coerce(e[n], k) for n, k in zip(state, kinds)]
                return 'Some ' + ('tt' if not ts else ts[0] if len(ts) == 1
                                  else '(' + ', '.join(ts) + ')')
            try:
                body = self.block(s.body, inner, Ctx(ctx.fi, end), end)
            except Refuse:
                if not cap:
                    raise
                body = None
            new = list(kinds)
            for ks in cap:
                new = [join(a, b) for a, b in zip(new, ks)]
            if body is not None and new == kinds:
                break
            kinds = new
        else:
            raise Refuse(f'line {s.lineno}: kinds of the loop state do not '
                         'stabilise')
        if not state:
            spat, init, opat = '_', 'tt', '_'
        elif len(state) == 1:
            spat = opat = 'v_' + state[0]
            init = coerce(env[state[0]], kinds[0])
        else:
            tup = ', '.join('v_' + n for n in state)
            spat, opat = f"'({tup})", f'({tup})'
            init = '(' + ', '.join(coerce(env[n], k)
                                   for n, k in zip(state, kinds)) + ')'
        out = dict(env)
        for n, k in zip(state, kinds):
            nv = V(k, 'v_' + n)
            nv.frozen = env[n].frozen
            out[n] = nv
        text = (f'match for_ {it.term} (fun {spat} {xpat} =>\n{body})\n'
                f'  {init} with\n| Some {opat} =>\n{kk(out)}\n'
                '| None => None\nend')
        return self.wrap(pre, text)

    def iterable(self, e, env, pre):
        """The list a `for` / comprehension runs over."""
        # d.items()
        if isinstance(e, ast.Call) and isinstance(e.func, ast.Attribute) \
                and e.func.attr == 'items' and not e.args:
            d = self.expr(e.func.value, env, pre)
            if not (isinstance(d.kind, tuple) and d.kind[0] == 'dict'):
                raise Refuse('.items() of a ' + str(d.kind))
            return V(('list', T(d.kind[1], d.kind[2])), d.term)
        if isinstance(e, ast.Call) and _dotted(e.func) == 'enumerate' and \
                len(e.args) == 1 and not e.keywords:
            l = self.iterable(e.args[0], env, pre)
            return V(('list', T('nat', l.kind[1])), f'(enumerate {l.term})')
        it = self.expr(e, env, pre)
        if isinstance(it.kind, tuple) and it.kind[0] in ('list', 'set') \
                and it.kind[1] is not None:
            if it.kind[0] == 'set':
                raise Refuse('iteration over a set (order unspecified)')
            return it
        raise Refuse('iteration over a ' + str(it.kind))

    # -- expressions
    def cond(self, e, env, pre):
        return self.truth(self.expr(e, env, pre))

    def truth(self, v):
        if v.kind == 'bool':
            return v.term
        if isinstance(v.kind, tuple) and v.kind[0] in ('list', 'set', 'dict'):
            return f'(negb (is_nil {v.term}))'
        raise Refuse(f'truth value of a {v.kind}')

    def num_kind(self, v):
        if v.kind in ('Z', 'nat'):
            return v.kind
        if isinstance(v.kind, tuple) and v.kind[0] == 'int':
            return 'int'
        return None

    def use_str(self, v, pre):
        """A string constant consumed as a value (a key, a name)."""
        if is_fmt(v):
            return V('str', coq_str(v.kind[1]))
        return v

    # text: literal pieces and holes -> tokens
    def finish(self, pieces, pre):
        items = []      # ('tok', string term) | ('list', list term)
        cur, shown = [], ''

        def flush():
            if cur:
                items.append(('tok', cur[0] if len(cur) == 1
                              else '(' + ' ++ '.join(cur) + ')%string'))
                cur.clear()
        state = dict(cls=None, lit='')

        def flush_lit():
            if state['lit']:
                cur.append(coq_str(state['lit']))
                state['lit'] = ''

        def end_token():
            flush_lit()
            flush()
            state['cls'] = None
        n = len(pieces)
        for i, (kind, x) in enumerate(pieces):
            if kind == 'lit':
                shown += x
                for ch in x:
                    c = cclass(ch)
                    if c == 'blank':
                        end_token()
                    elif c == 'nl':
                        end_token()
                        items.append(('tok', 'NL'))
                    elif c == 'paren':
                        end_token()
                        items.append(('tok', coq_str(ch)))
                    else:
                        if state['cls'] not in (None, c):
                            end_token()
                        state['cls'] = c
                        state['lit'] += ch
                continue
            shown += '{%s}' % (x.kind if isinstance(x.kind, str) else 'int')
            nxt = pieces[i + 1] if i + 1 < n else None
            next_word = bool(nxt and nxt[0] == 'lit' and nxt[1]
                             and cclass(nxt[1][0]) == 'word')
            next_delim = nxt is None or (nxt[0] == 'lit' and nxt[1] and
                                         cclass(nxt[1][0]) in
                                         ('blank', 'nl', 'paren'))
            glued_before = state['cls'] is not None
            if x.kind == 'toks':
                if glued_before or not next_delim:
                    self.note(f'in {shown!r}: the text pasted for the hole '
                              'is assumed to begin and end at token '
                              'boundaries')
                end_token()
                items.append(('list', x.term))
            elif x.kind in ('nat', 'Z', 'numstr', 'word') or \
                    self.num_kind(x):
                # decimal numbers, glued words: word characters
                t = {'nat': f'(dec_nat {x.term})',
                     'Z': f'(py_str_Z {x.term})'}.get(
                         x.kind, x.term if x.term else
                         coq_str(str(x.kind[1])))
                if state['cls'] == 'sym':
                    end_token()
                flush_lit()
                cur.append(t)
                state['cls'] = 'word'
            elif x.kind == 'str':
                if state['cls'] == 'word' or (state['cls'] is None
                                              and next_word):
                    self.note(f'in {shown!r}: the name pasted next to '
                              'literal word characters is assumed to '
                              'consist of word characters')
                    flush_lit()
                    cur.append(x.term)
                    state['cls'] = 'word'
                else:
                    if glued_before or not next_delim:
                        self.note(f'in {shown!r}: the entry pasted for the '
                                  'hole is assumed to be a token of its own')
                    end_token()
                    items.append(('list', f'(tok {x.term})'))
            else:
                raise Refuse(f'in {shown!r}: a hole of kind {x.kind}')
        end_token()
        if len(items) == 1 and items[0][0] == 'tok' and items[0][1] != 'NL':
            self.template(shown, items[0][1])
            r = V('word', items[0][1])
            r.raw = list(pieces)
            return r
        parts, run = [], []
        for k, t in items:
            if k == 'tok':
                run.append(t)
            else:
                if run:
                    parts.append('[' + '; '.join(run) + ']')
                    run = []
                parts.append(t)
        if run:
            parts.append('[' + '; '.join(run) + ']')
        term = '(' + ' ++ '.join(parts) + ')%list' if parts else '[]'
        self.template(shown, term)
        r = V('toks', term)
        r.raw = list(pieces)
        return r

    def pieces(self, e, env, pre):
        if isinstance(e, ast.Constant) and isinstance(e.value, str):
            return [('lit', e.value)]
        if isinstance(e, ast.JoinedStr):
            out = []
            for x in e.values:
                if isinstance(x, ast.Constant):
                    out.append(('lit', x.value))
                elif isinstance(x, ast.FormattedValue) and \
                        x.conversion == -1 and x.format_spec is None:
                    out.append(('hole', self.expr(x.value, env, pre)))
                else:
                    raise Refuse('f-string with conversion / format spec')
            return out
        if isinstance(e, ast.BinOp) and isinstance(e.op, ast.Add):
            a = self.pieces(e.left, env, pre)
            if a is None:
                return None
            b = self.pieces(e.right, env, pre)
            if b is None:
                raise Refuse('`+` of a string and something else')
            return a + b
        if isinstance(e, (ast.Name, ast.Call, ast.Attribute)):
            if isinstance(e, ast.Name) and e.id not in env:
                return None
            if isinstance(e, ast.Name):
                v = env[e.id]
            else:
                d = _dotted(e.func) if isinstance(e, ast.Call) else None
                if not (isinstance(e, ast.Call)
                        and isinstance(e.func, ast.Attribute)
                        and e.func.attr in ('replace',)) and d != 'str':
                    return None
                v = self.expr(e, env, pre)
            if is_fmt(v):
                return [('lit', v.kind[1])]
            raw = getattr(v, 'raw', None)
            if raw is not None and all(
                    k == 'lit' or any(b is x for b in env.values())
                    for k, x in raw):
                # the holes still denote what they denoted
                return list(raw)
            if v.kind in ('toks', 'str', 'word', 'numstr'):
                return [('hole', v)]
            return None
        return None

    def expr(self, e, env, pre):
        if isinstance(e, ast.Constant):
            c = e.value
            if c is None:
                return V('none', 'None')
            if isinstance(c, bool):
                return V('bool', 'true' if c else 'false')
            if isinstance(c, int):
                return V(('int', c))
            if isinstance(c, str):
                return V(('fmt', c))
            raise Refuse(f'constant {c!r}')
        if isinstance(e, ast.Name):
            return self.lookup(env, e.id)
        if isinstance(e, ast.JoinedStr):
            return self.finish(self.pieces(e, env, pre), pre)
        if isinstance(e, ast.Tuple):
            vs = [self.use_str(self.expr(x, env, pre), pre) for x in e.elts]
            term = None
            if all(v.term is not None for v in vs):
                term = '(' + ', '.join(v.term for v in vs) + ')'
            return V(('tuple',) + tuple(v.kind for v in vs), term, tag=vs)
        if isinstance(e, ast.List) and not e.elts:
            return V(('list', None), '[]')
        if isinstance(e, ast.Attribute):
            return self.attribute(e, env, pre)
        if isinstance(e, ast.Subscript):
            return self.subscript(e, env, pre)
        if isinstance(e, ast.Call):
            return self.call(e, env, pre, None)
        if isinstance(e, ast.Compare):
            return self.compare(e, env, pre)
        if isinstance(e, ast.BoolOp):
            vs = []
            for i, x in enumerate(e.values):
                p = [] if i else pre
                vs.append(self.truth(self.expr(x, env, p)))
                if i and p:
                    raise Refuse('an operand of and/or that may raise')
            f = 'andb' if isinstance(e.op, ast.And) else 'orb'
            t = vs[-1]
            for x in reversed(vs[:-1]):
                t = f'({f} {x} {t})'
            return V('bool', t)
        if isinstance(e, ast.UnaryOp):
            v = self.expr(e.operand, env, pre)
            if isinstance(e.op, ast.Not):
                return V('bool', f'(negb {self.truth(v)})')
            if isinstance(e.op, ast.USub):
                if self.num_kind(v) == 'int':
                    return V(('int', -v.kind[1]))
                if v.kind == 'Z':
                    return V('Z', f'(- {v.term})%Z')
            raise Refuse(f'unary operator on a {v.kind}')
        if isinstance(e, ast.BinOp):
            return self.binop(e, env, pre)
        if isinstance(e, (ast.ListComp, ast.GeneratorExp, ast.DictComp)):
            return self.comprehension(e, env, pre)
        raise Refuse(f'unsupported expression {type(e).__name__}: '
                     + _src(e)[:60])

    def attribute(self, e, env, pre):
        b = self.expr(e.value, env, pre)
        if b.kind == 'ref':
            f = {'negated': ('bool', 'ref_negated'),
                 'low': ('ref', 'ref_low'), 'high': ('ref', 'ref_high'),
                 'var': ('ovar', 'ref_var')}.get(e.attr)
            if f:
                return V(f[0], f'({f[1]} {b.term})', tag=b.term)
        raise Refuse('attribute ' + _src(e))

    def var_value(self, v):
        """node.var used as a value (a name; it is not None here)."""
        if v.kind == 'ovar':
            return V('str', v.term)
        return v

    def subscript(self, e, env, pre):
        b = self.expr(e.value, env, pre)
        sl = e.slice
        if b.kind == 'syn' and isinstance(sl, ast.Constant) and \
                isinstance(sl.value, str):
            n = self.tmp()
            pre.append((n, f'(assoc_s {coq_str(sl.value)} {b.term})'))
            return V('str', n)
        if b.kind == 'langs':
            k = self.use_str(self.expr(sl, env, pre), pre)
            n = self.tmp()
            pre.append((n, f'(assoc_langs {coerce(k, "str")} {b.term})'))
            return V('syn', n)
        if b.kind == 'ddict':
            if not isinstance(e.value, ast.Name):
                raise Refuse('subscript of a defaultdict that is not a name')
            k = self.expr(sl, env, pre)
            kt = coerce(k, 'nat')
            pre.append((b.term, f'(dd_touch {kt} {b.term})', 'let'))
            return V(L('ref'), f'(layer_at {kt} {b.term})')
        if b.kind == 'attr' and isinstance(sl, ast.Constant):
            if sl.value == 'type':
                return V('str', f'(a_type {b.term})')
            if sl.value == 'bitnames':
                n = self.tmp()
                pre.append((n, f'(a_bitnames {b.term})'))
                return V(L('str'), n)
            raise Refuse(f'entry {sl.value!r} of a variable\'s attributes')
        if isinstance(b.kind, tuple) and b.kind[0] == 'dict':
            k = self.var_value(self.use_str(self.expr(sl, env, pre), pre))
            n = self.tmp()
            pre.append((n, f'(dict_get {b.term} {coerce(k, b.kind[1])})'))
            return V(b.kind[2], n)
        if isinstance(b.kind, tuple) and b.kind[0] == 'list' and \
                b.kind[1] is not None:
            # l[-1], l[:-1]
            if isinstance(sl, ast.UnaryOp) and isinstance(sl.op, ast.USub) \
                    and isinstance(sl.operand, ast.Constant) and \
                    sl.operand.value == 1:
                n = self.tmp()
                pre.append((n, f'(last_error {b.term})'))
                return V(b.kind[1], n)
            if isinstance(sl, ast.Slice) and sl.lower is None and \
                    sl.step is None and isinstance(sl.upper, ast.UnaryOp) \
                    and isinstance(sl.upper.op, ast.USub) and \
                    isinstance(sl.upper.operand, ast.Constant) and \
                    sl.upper.operand.value == 1:
                return V(b.kind, f'(removelast {b.term})')
        raise Refuse('subscript ' + _src(e))

    def compare(self, e, env, pre):
        if len(e.ops) != 1:
            raise Refuse('chained comparison')
        op = e.ops[0]
        a = self.expr(e.left, env, pre)
        b = self.expr(e.comparators[0], env, pre)
        if isinstance(op, (ast.Is, ast.IsNot)):
            if b.kind != 'none':
                raise Refuse('`is` with something other than None')
            if a.kind == 'ovar':
                t = f'(ref_is_terminal {a.tag})'
            elif isinstance(a.kind, tuple) and a.kind[0] == 'opt':
                t = f'(is_none {a.term})'
            else:
                raise Refuse(f'`is None` on a {a.kind}')
            return V('bool', f'(negb {t})' if isinstance(op, ast.IsNot)
                     else t)
        if isinstance(op, (ast.In, ast.NotIn)):
            a = self.var_value(self.use_str(a, pre))
            if isinstance(b.kind, tuple) and b.kind[0] in ('list', 'set'):
                ek = b.kind[1]
                if ek in ('ref', 'Z') and a.kind in ('ref', 'Z'):
                    t = f'(mem_z {a.term} {b.term})'
                elif ek in ('toks', None) and a.kind in ('toks', 'word',
                                                         'str'):
                    t = f'(toks_mem {coerce(a, "toks")} {b.term})'
                elif ek == 'str' and a.kind in ('str', 'word'):
                    t = f'(mem_s {a.term} {b.term})'
                else:
                    raise Refuse(f'membership of a {a.kind} in a {b.kind}')
            elif b.kind == 'toks' and a.kind == 'str':
                t = f'(toks_contains {b.term} {a.term})'
            elif isinstance(b.kind, tuple) and b.kind[0] == 'dict' and \
                    a.kind in ('str', 'word'):
                t = f'(dict_mem {b.term} {a.term})'
            else:
                raise Refuse(f'membership of a {a.kind} in a {b.kind}')
            return V('bool', f'(negb {t})' if isinstance(op, ast.NotIn)
                     else t)
        a = self.var_value(self.use_str(a, pre))
        b = self.var_value(self.use_str(b, pre))
        neg = isinstance(op, ast.NotEq)
        if a.kind in ('str', 'word') and b.kind in ('str', 'word') and \
                isinstance(op, (ast.Eq, ast.NotEq)):
            t = f'(String.eqb {a.term} {b.term})'
            return V('bool', f'(negb {t})' if neg else t)
        ka, kb = self.num_kind(a), self.num_kind(b)
        if ka is None or kb is None:
            raise Refuse(f'comparison of {a.kind} and {b.kind}')
        if 'Z' in (ka, kb) or (ka == 'int' and kb == 'int'):
            x, y = coerce(a, 'Z'), coerce(b, 'Z')
            eq, lt, le = 'Z.eqb', 'Z.ltb', 'Z.leb'
        else:
            x, y = coerce(a, 'nat'), coerce(b, 'nat')
            eq, lt, le = 'Nat.eqb', 'Nat.ltb', 'Nat.leb'
        t = {ast.Eq: f'({eq} {x} {y})', ast.NotEq: f'(negb ({eq} {x} {y}))',
             ast.Lt: f'({lt} {x} {y})', ast.LtE: f'({le} {x} {y})',
             ast.Gt: f'({lt} {y} {x})', ast.GtE: f'({le} {y} {x})'
             }.get(type(op))
        if t is None:
            raise Refuse('comparison operator')
        return V('bool', t)

    def binop(self, e, env, pre):
        if isinstance(e.op, ast.Add):
            ps = self.pieces(e, env, pre)
            if ps is not None:
                return self.finish(ps, pre)
        a = self.expr(e.left, env, pre)
        b = self.expr(e.right, env, pre)
        ka, kb = self.num_kind(a), self.num_kind(b)
        if ka is None or kb is None:
            raise Refuse(f'arithmetic on {a.kind} and {b.kind}')
        if isinstance(e.op, ast.Pow):
            n = self.tmp()
            pre.append((n, f'(py_pow {coerce(a, "Z")} {coerce(b, "Z")})'))
            return V('Z', n)
        if ka == 'int' and kb == 'int':
            x, y = a.kind[1], b.kind[1]
            r = {ast.Add: x + y, ast.Sub: x - y, ast.Mult: x * y
                 }.get(type(e.op))
            if r is None:
                raise Refuse('arithmetic on constants')
            return V(('int', r))
        if 'Z' in (ka, kb):
            x, y = coerce(a, 'Z'), coerce(b, 'Z')
            o = {ast.Add: '+', ast.Sub: '-', ast.Mult: '*'}.get(type(e.op))
            if o is None:
                raise Refuse('operator on integers')
            return V('Z', f'({x} {o} {y})%Z')
        x, y = coerce(a, 'nat'), coerce(b, 'nat')
        if isinstance(e.op, ast.Add):
            return V('nat', f'({x} + {y})%nat')
        if isinstance(e.op, ast.Mult):
            return V('nat', f'({x} * {y})%nat')
        if isinstance(e.op, ast.Sub):
            n = self.tmp()
            pre.append((n, f'(sub_nat {x} {y})'))
            return V('nat', n)
        raise Refuse('operator on natural numbers')

    def comprehension(self, e, env, pre):
        if len(e.generators) != 1 or e.generators[0].ifs or \
                e.generators[0].is_async:
            raise Refuse('comprehension with several clauses / a filter')
        g = e.generators[0]
        it = self.iterable(g.iter, env, pre)
        inner = dict(env)
        if isinstance(g.target, ast.Name):
            inner[g.target.id] = V(it.kind[1], 'v_' + g.target.id)
            xpat = 'v_' + g.target.id
        elif isinstance(g.target, ast.Tuple) and \
                all(isinstance(x, ast.Name) for x in g.target.elts) and \
                isinstance(it.kind[1], tuple) and it.kind[1][0] == 'tuple' \
                and len(it.kind[1]) - 1 == len(g.target.elts):
            for x, k in zip(g.target.elts, it.kind[1][1:]):
                inner[x.id] = V(k, 'v_' + x.id)
            xpat = "'(" + ', '.join('v_' + x.id for x in g.target.elts) + ')'
        else:
            raise Refuse('comprehension target')
        p = []
        if isinstance(e, ast.DictComp):
            k = self.use_str(self.expr(e.key, inner, p), p)
            v = self.use_str(self.expr(e.value, inner, p), p)
            body = self.wrap(p, f'Some ({k.term}, {v.term})')
            n = self.tmp()
            pre.append((n, f'(mapM (fun {xpat} =>\n{body}) {it.term})'))
            return V(D(k.kind, v.kind), f'(dict_of_list {n})')
        v = self.use_str(self.expr(e.elt, inner, p), p)
        body = self.wrap(p, f'Some {v.term}')
        n = self.tmp()
        pre.append((n, f'(mapM (fun {xpat} =>\n{body}) {it.term})'))
        if isinstance(e, ast.GeneratorExp):
            self.note('a generator expression is read as the list of its '
                      'values (it is consumed once, at once)')
        return V(('list', v.kind), n)

    # -- calls
    def call(self, e, env, pre, out):
        f = e.func
        if isinstance(f, ast.Attribute):
            r = self.method(e, env, pre)
            if r is not None:
                return r
        d = _dotted(f)
        args = e.args
        if d in ('list', 'set', 'dict') and not args and not e.keywords:
            return V((d, None) if d != 'dict' else ('dict', None, None), '[]')
        if d == 'defaultdict' and len(args) == 1 and \
                _dotted(args[0]) == 'list':
            return V('ddict', '[]')
        if d == 'int' and len(args) == 1:
            a = self.expr(args[0], env, pre)
            if a.kind == 'ref':
                return V('Z', a.term)
            if a.kind == 'char':
                n = self.tmp()
                pre.append((n, f'(digit_of_char {a.term})'))
                return V('Z', n)
            if a.kind == 'bool':
                return V('Z', f'(b2z {a.term})')
            raise Refuse('int() of a ' + str(a.kind))
        if d == 'str' and len(args) == 1:
            a = self.expr(args[0], env, pre)
            if a.kind == 'Z':
                return V('numstr', f'(py_str_Z {a.term})')
            raise Refuse('str() of a ' + str(a.kind))
        if d == 'bool' and len(args) == 1:
            a = self.expr(args[0], env, pre)
            if a.kind == 'Z':
                return V('bool', f'(negb (Z.eqb {a.term} 0))')
            if a.kind == 'val':
                return V('bool', f'(val_truth {a.term})')
            raise Refuse('bool() of a ' + str(a.kind))
        if d == 'len' and len(args) == 1:
            a = self.expr(args[0], env, pre)
            if isinstance(a.kind, tuple) and a.kind[0] in ('list', 'set',
                                                           'dict'):
                return V('nat', f'(List.length {a.term})')
            raise Refuse('len of a ' + str(a.kind))
        if d in ('max', 'min') and len(args) >= 2 and not e.keywords:
            vs = [coerce(self.expr(x, env, pre), 'Z') for x in args]
            t = vs[0]
            for x in vs[1:]:
                t = f'(Z.{d} {t} {x})'
            return V('Z', t)
        if d == 'sum' and len(args) == 1 and not e.keywords:
            a = self.expr(args[0], env, pre)
            if a.kind == L('Z'):
                return V('Z', f'(zsum {a.term})')
            raise Refuse('sum of a ' + str(a.kind))
        if d == 'bin' and len(args) == 1:
            a = self.expr(args[0], env, pre)
            return V('pystr', f'(py_bin {coerce(a, "Z")})')
        if d == 'reversed' and len(args) == 1:
            a = self.expr(args[0], env, pre)
            if a.kind == 'pystr':
                return V('iter', tag=V(L('char'),
                                       f'(rev (list_ascii_of_string '
                                       f'{a.term}))'))
            raise Refuse('reversed of a ' + str(a.kind))
        if d == 'list' and len(args) == 1:
            a = self.expr(args[0], env, pre)
            if a.kind == 'iter':
                return a.tag
            raise Refuse('list() of a ' + str(a.kind))
        if d == 'sorted' and len(args) == 1 and len(e.keywords) == 1 and \
                e.keywords[0].arg == 'reverse' and \
                isinstance(e.keywords[0].value, ast.Constant) and \
                e.keywords[0].value.value is True:
            a = self.expr(args[0], env, pre)
            if a.kind == 'ddict':
                return V(L('nat'), f'(sort_desc (map fst {a.term}))')
            raise Refuse('sorted of a ' + str(a.kind))
        if d not in SIGS:
            raise Refuse('call ' + _src(e)[:80])
        if d not in self.funcs:
            raise Refuse(f'{d} is called before it is translated')
        callee = self.funcs[d]
        if callee.text is None and callee is not self.cur:
            raise Refuse(f'{d}: mutual recursion')
        params = callee.sig['params']
        given = {}
        if len(args) > len(params):
            raise Refuse('too many arguments for ' + d)
        nodes = {}
        for (p, _, _), x in zip(params, args):
            if isinstance(x, ast.Starred):
                raise Refuse('starred argument')
            nodes[p] = x
        for kw in e.keywords:
            if kw.arg is None or kw.arg in nodes or \
                    kw.arg not in [p for p, _, _ in params]:
                raise Refuse(f'keyword argument of {d}')
            nodes[kw.arg] = kw.value
        ts, pats, updates = [], [], {}
        for p, k, dflt in params:
            if p in nodes:
                x = nodes[p]
                if p in callee.mut:
                    v = self.mutable_name(env, x, f'{d}({p}=...)')
                else:
                    v = self.expr(x, env, pre)
            elif dflt is not None:
                v = self.expr(ast.parse(dflt, mode='eval').body, {}, pre)
            else:
                raise Refuse(f'{d}: argument {p} missing')
            v = self.var_value(self.use_str(v, pre))
            if is_static(k):
                if v.kind != k:
                    raise Refuse(f'{d}: argument {p} of kind {v.kind}')
                continue
            ts.append(coerce(v, k, f'{d}({p}=...)'))
            if p in callee.mut:
                if out is None:
                    raise Refuse(f'{d} changes its argument {p}: only as a '
                                 'statement or the right side of an '
                                 'assignment')
                nv = V(k, v.term)
                updates[nodes[p].id] = nv
        ret = callee.sig['ret']
        n = self.tmp()
        pats = ([n] if ret != 'unit' else []) + \
            [updates_name for updates_name in
             ['v_' + nodes[m].id for m in callee.mut]]
        pat = '_' if not pats else pats[0] if len(pats) == 1 else \
            '(' + ', '.join(pats) + ')'
        fuel = ''
        if callee.needs_fuel:
            fuel = 'fuel '
            self.cur.needs_fuel = True
        pre.append((pat, f'({callee.coq} {fuel}{" ".join(ts)})'))
        if out is not None:
            for name, nv in updates.items():
                nv.term = 'v_' + name
                out[name] = nv
        return V(ret, n if ret != 'unit' else 'tt')

    def method(self, e, env, pre):
        f = e.func
        a = e.args
        if f.attr == 'join' and len(a) == 1 and \
                isinstance(f.value, ast.Constant) and f.value.value == '\n':
            l = self.expr(a[0], env, pre)
            if l.kind != LINES:
                raise Refuse('join of a ' + str(l.kind))
            self.template("'\\n'.join(lines)",
                          'the lines, a token NL between two of them')
            return V('toks', f'(join_nl {l.term})')
        if f.attr == 'items':
            raise Refuse('.items() outside a loop')
        b = self.expr(f.value, env, pre)
        if b.kind == 'bdd':
            if f.attr == 'succ' and len(a) == 1:
                u = self.expr(a[0], env, pre)
                return V(T('nat', 'ref', 'ref'),
                         f'(bdd_succ {coerce(u, "ref")})')
            if f.attr == '_add_int' and len(a) == 1:
                u = self.expr(a[0], env, pre)
                self.note('bdd._add_int(k): a reference is identified with '
                          'its integer key')
                return V('ref', coerce(u, 'ref'))
            raise Refuse('method of the BDD manager: ' + f.attr)
        if f.attr == 'bit_length' and not a and b.kind == 'Z':
            return V('Z', f'(bit_length {b.term})')
        if f.attr == 'startswith' and len(a) == 1 and b.kind == 'toks':
            x = self.use_str(self.expr(a[0], env, pre), pre)
            return V('bool', f'(toks_startswith {b.term} '
                             f'{coerce(x, "str")})')
        if f.attr == 'replace' and len(a) == 2 and b.kind == 'numstr' and \
                all(isinstance(x, ast.Constant) and isinstance(x.value, str)
                    and len(x.value) == 1 for x in a):
            return V('word', f'(str_replace1 {coq_str(a[0].value)}%char '
                             f'{coq_str(a[1].value)}%char {b.term})')
        if f.attr == 'lstrip' and len(a) == 1 and b.kind == 'pystr' and \
                isinstance(a[0], ast.Constant) and \
                isinstance(a[0].value, str):
            return V('pystr', f'(py_lstrip {coq_str(a[0].value)} {b.term})')
        if f.attr == 'zfill' and len(a) == 1 and b.kind == 'pystr':
            m = self.expr(a[0], env, pre)
            return V('pystr', f'(py_zfill {coerce(m, "Z")} {b.term})')
        if f.attr == 'get' and len(a) == 2 and isinstance(b.kind, tuple) \
                and b.kind[0] == 'dict':
            k = self.var_value(self.use_str(self.expr(a[0], env, pre), pre))
            dv = self.var_value(self.use_str(self.expr(a[1], env, pre), pre))
            rk = join(b.kind[2], dv.kind)
            return V(rk, f'(dict_get_default {b.term} '
                         f'{coerce(k, b.kind[1])} {coerce(dv, rk)})')
        return None


# ---- the generated file ----------------------------------------------------
HEADER = r'''(* GENERATED by tools/py2coq_codegen.py from
     %(src)s : %(fns)s
     %(bvsrc)s : %(bvfns)s
   in the working tree of the omega repository.
   Do not edit; regenerated on every check run.

   Python locals are prefixed with v_, functions with cg_.  A text is the
   list of its tokens (Render.v); the f-strings met are listed at the end
   with the token list each was read as.  Every function returns an option:
   None is any exception.  A function that changes arguments in place
   returns their new values next to its result.  See tools/py2coq_codegen.py
   for the subset and the notes at the end for everything that was skipped. *)
From Coq Require Import List Bool ZArith Arith String Ascii.
Import ListNotations.
From Omega Require Import L7Codegen.Pred L7Codegen.Bits L7Codegen.Dag
  L7Codegen.Render.
From OmegaGen Require Import C13_tables.
Local Open Scope string_scope.

(* ---- fixed prelude: the meaning of the Python constructs used ---------- *)
Definition is_nil {A} (l : list A) : bool :=
  match l with [] => true | _ => false end.
Definition is_none {A} (o : option A) : bool :=
  match o with None => true | Some _ => false end.
Definition sub_nat (a b : nat) : option nat :=
  if Nat.leb b a then Some (a - b)%%nat else None.
(* `for x in l: body` in the exception monad *)
Fixpoint for_ {A S} (l : list A) (body : S -> A -> option S) (s : S)
  : option S :=
  match l with
  | [] => Some s
  | x :: r => match body s x with Some s' => for_ r body s' | None => None end
  end.
(* a comprehension whose element expression may raise *)
Fixpoint mapM {A B} (f : A -> option B) (l : list A) : option (list B) :=
  match l with
  | [] => Some []
  | x :: r => match f x with
              | Some y => match mapM f r with
                          | Some ys => Some (y :: ys)
                          | None => None
                          end
              | None => None
              end
  end.
Fixpoint enumerate_from {A} (i : nat) (l : list A) : list (nat * A) :=
  match l with [] => [] | x :: r => (i, x) :: enumerate_from (S i) r end.
Definition enumerate {A} (l : list A) : list (nat * A) := enumerate_from 0 l.

(* a table entry or name pasted into a text between delimiters: one token,
   none if it is the empty string *)
Definition tok (s : string) : list string :=
  if String.eqb s "" then [] else [s].
(* '\n'.join(lines) *)
Fixpoint join_nl (lines : list (list string)) : list string :=
  match lines with
  | [] => []
  | [l] => l
  | l :: r => (l ++ NL :: join_nl r)%%list
  end.
(* text.startswith(s): the first token starts with s ('' starts any text) *)
Definition toks_startswith (t : list string) (s : string) : bool :=
  match t with
  | w :: _ => String.prefix s w
  | [] => String.eqb s ""
  end.
(* s in text: s occurs inside a token *)
Fixpoint substring_at (s w : string) : bool :=
  String.prefix s w ||
  match w with EmptyString => false | String _ r => substring_at s r end.
Definition toks_contains (t : list string) (s : string) : bool :=
  String.eqb s "" || existsb (substring_at s) t.
(* membership of a text in a set of texts *)
Definition toks_mem (t : list string) (l : list (list string)) : bool :=
  existsb (list_eqb_s t) l.
(* str(k) for an integer k *)
Definition py_str_Z (k : Z) : string :=
  (if Z.ltb k 0 then "-" else "") ++ dec_N (Z.abs_N k).
(* s.replace(a, b) for one-character a, b *)
Fixpoint str_replace1 (a b : ascii) (s : string) : string :=
  match s with
  | EmptyString => EmptyString
  | String c r => String (if Ascii.eqb c a then b else c) (str_replace1 a b r)
  end.
(* b ** e: a negative exponent leaves the integers *)
Definition py_pow (b e : Z) : option Z :=
  if Z.ltb e 0 then None else Some (b ^ e)%%Z.
(* bin(y) *)
Fixpoint pos_digits (p : positive) (acc : string) : string :=
  match p with
  | xH => String "1" acc
  | xO q => pos_digits q (String "0" acc)
  | xI q => pos_digits q (String "1" acc)
  end.
Definition py_bin (y : Z) : string :=
  match y with
  | Z0 => "0b0"
  | Zpos p => "0b" ++ pos_digits p ""
  | Zneg p => "-0b" ++ pos_digits p ""
  end.
Fixpoint mem_ascii (c : ascii) (s : string) : bool :=
  match s with
  | EmptyString => false
  | String d r => Ascii.eqb c d || mem_ascii c r
  end.
(* s.lstrip(chars) *)
Fixpoint py_lstrip (chars s : string) : string :=
  match s with
  | EmptyString => EmptyString
  | String c r => if mem_ascii c chars then py_lstrip chars r else s
  end.
Fixpoint zeros (n : nat) : string :=
  match n with O => EmptyString | S k => String "0" (zeros k) end.
(* s.zfill(m): zeros after a leading sign *)
Definition py_zfill (m : Z) (s : string) : string :=
  let pad := zeros (Z.to_nat (m - Z.of_nat (String.length s))) in
  match s with
  | String c r => if Ascii.eqb c "+" || Ascii.eqb c "-"
                  then String c (pad ++ r) else pad ++ s
  | EmptyString => pad
  end.
(* int(c) for a one-character string *)
Definition digit_of_char (c : ascii) : option Z :=
  let n := nat_of_ascii c in
  if Nat.leb 48 n && Nat.leb n 57 then Some (Z.of_nat (n - 48)) else None.

(* dictionaries: association lists in insertion order *)
Fixpoint assoc_langs (k : string) (t : list (string * list (string * string)))
  : option (list (string * string)) :=
  match t with
  | [] => None
  | (k', v) :: r => if String.eqb k k' then Some v else assoc_langs k r
  end.
Fixpoint dict_get {B} (d : list (string * B)) (k : string) : option B :=
  match d with
  | [] => None
  | (k', v) :: r => if String.eqb k k' then Some v else dict_get r k
  end.
Definition dict_get_default {B} (d : list (string * B)) (k : string) (x : B)
  : B := match dict_get d k with Some v => v | None => x end.
Definition dict_mem {B} (d : list (string * B)) (k : string) : bool :=
  match dict_get d k with Some _ => true | None => false end.
Fixpoint dict_set {B} (d : list (string * B)) (k : string) (v : B)
  : list (string * B) :=
  match d with
  | [] => [(k, v)]
  | (k', v') :: r => if String.eqb k k' then (k', v) :: r
                     else (k', v') :: dict_set r k v
  end.
Definition dict_update {B} (d e : list (string * B)) : list (string * B) :=
  fold_left (fun d kv => dict_set d (fst kv) (snd kv)) e d.
Definition dict_of_list {B} (l : list (string * B)) : list (string * B) :=
  dict_update [] l.
(* defaultdict(list): reading a missing key inserts it *)
Fixpoint dd_touch (l : nat) (L : layers) : layers :=
  match L with
  | [] => [(l, [])]
  | (l', us) :: r => if Nat.eqb l' l then L else (l', us) :: dd_touch l r
  end.
(* a state value (int or bool) where an int / a truth value is expected *)
Definition val_int (v : val) : Z :=
  match v with VB b => b2z b | VZ z => z end.
Definition val_truth (v : val) : bool :=
  match v with VB b => b | VZ z => negb (Z.eqb z 0) end.
(* an entry of `bitvectors`: a bool, or a list of bool *)
Inductive bvval : Type := BVbool (b : bool) | BVlist (l : list bool).
(* sum(...) *)
Definition zsum (l : list Z) : Z := fold_left Z.add l 0%%Z.
(* l[-1] *)
Fixpoint last_error {A} (l : list A) : option A :=
  match l with
  | [] => None
  | [x] => Some x
  | _ :: r => last_error r
  end.
(* the attributes of a variable that codegen.py reads *)
Record attr : Type := { a_type : string; a_bitnames : option (list string) }.

Section Gen.
(* what the code reads of a BDD reference (its key k = int(u)) *)
Variable ref_is_terminal : Z -> bool.      (* u.var is None *)
Variable ref_negated : Z -> bool.          (* u.negated *)
Variable ref_low ref_high : Z -> Z.        (* int(node.low), int(node.high) *)
Variable ref_var : Z -> string.            (* node.var *)
Variable bdd_succ : Z -> nat * Z * Z.      (* bdd.succ(u) *)

'''

FOOTER = '''
End Gen.
'''


def generate(repo):
    """(text of gen/CodegenGen.v, notes, templates)."""
    tr = Tr(repo)
    for name in ORDER:
        tr.translate_function(name)
    body = HEADER % dict(
        src=SRC, bvsrc=BV_SRC,
        fns=', '.join(n for n in ORDER if SIGS[n].get('mod', 'cg') == 'cg'),
        bvfns=', '.join(n for n in ORDER if SIGS[n].get('mod') == 'bv'))
    body += '\n'.join(tr.funcs[n].text for n in ORDER)
    body += FOOTER
    body += '\n(* ---- texts met (text: tokens) ----\n'
    for text, term in tr.templates:
        body += f'   {comment(text)}   :   {comment(term)}\n'
    body += '*)\n'
    body += ''.join(f'(* note: {comment(n)} *)\n' for n in tr.notes)
    return body, tr.notes, tr.templates


if __name__ == '__main__':
    print(generate(os.environ.get('OMEGA_REPO', '/repo'))[0])
