(* L4 / ArenaFacts: tabulation is the identity; extensionality helpers;
   tactics that strip [memo] and decide pointwise Boolean goals. *)
From Coq Require Import List Bool Arith Lia.
Import ListNotations.
From Omega Require Import L4.Arena.

Lemma nth_tab1 {A} n (f : nat -> A) i d : i < n -> nth i (tab1 n f) d = f i.
Proof.
  intros H. unfold tab1.
  rewrite nth_indep with (d' := f 0) by (rewrite map_length, seq_length; exact H).
  rewrite map_nth. rewrite seq_nth by exact H. reflexivity.
Qed.

Section Facts.
Variables nc nx ny : nat.

Lemma memo_id (f : V -> bool) v : memo nc nx ny f v = f v.
Proof.
  unfold memo. destruct (in_range nc nx ny v) eqn:E; [|reflexivity].
  unfold in_range in E. repeat rewrite andb_true_iff in E.
  destruct E as [[[[Hc Hx] Hy] Hxp] Hyp].
  apply Nat.ltb_lt in Hc, Hx, Hy, Hxp, Hyp.
  unfold lookup, table.
  rewrite (nth_tab1 nc) by exact Hc.
  rewrite (nth_tab1 nx) by exact Hx.
  rewrite (nth_tab1 ny) by exact Hy.
  rewrite (nth_tab1 nx) by exact Hxp.
  rewrite (nth_tab1 ny) by exact Hyp.
  destruct v; reflexivity.
Qed.

Lemma band_spec a b v : band nc nx ny a b v = a v && b v.
Proof. unfold band. rewrite memo_id. reflexivity. Qed.
Lemma bor_spec a b v : bor nc nx ny a b v = a v || b v.
Proof. unfold bor. rewrite memo_id. reflexivity. Qed.
Lemma bnot_spec a v : bnot nc nx ny a v = negb (a v).
Proof. unfold bnot. rewrite memo_id. reflexivity. Qed.
Lemma prime_spec u v :
  prime nc nx ny u v = u (mkV (vc v) (vxp v) (vyp v) (vxp v) (vyp v)).
Proof. unfold prime. rewrite memo_id. reflexivity. Qed.
Lemma unprime_spec u v :
  unprime nc nx ny u v = u (mkV (vc v) (vx v) (vy v) (vx v) (vy v)).
Proof. unfold unprime. rewrite memo_id. reflexivity. Qed.
Lemma forall_spec gs u v : forall_ nc nx ny gs u v = forall_raw nx ny gs u v.
Proof. unfold forall_. rewrite memo_id. reflexivity. Qed.
Lemma exist_spec gs u v : exist_ nc nx ny gs u v = exist_raw nx ny gs u v.
Proof. unfold exist_. rewrite memo_id. reflexivity. Qed.

Lemma forallb_ext' {A} (f g : A -> bool) l :
  (forall a, f a = g a) -> forallb f l = forallb g l.
Proof. intros H; induction l; simpl; congruence. Qed.
Lemma existsb_ext' {A} (f g : A -> bool) l :
  (forall a, f a = g a) -> existsb f l = existsb g l.
Proof. intros H; induction l; simpl; congruence. Qed.

Lemma forall_raw_ext gs u u' :
  (forall v, u v = u' v) -> forall v, forall_raw nx ny gs u v = forall_raw nx ny gs u' v.
Proof.
  intros H. induction gs as [|g gs IH]; intros v; cbn [forall_raw]; [apply H|].
  apply forallb_ext'. intros a. apply IH.
Qed.
Lemma exist_raw_ext gs u u' :
  (forall v, u v = u' v) -> forall v, exist_raw nx ny gs u v = exist_raw nx ny gs u' v.
Proof.
  intros H. induction gs as [|g gs IH]; intros v; cbn [exist_raw]; [apply H|].
  apply existsb_ext'. intros a. apply IH.
Qed.

(* all_V enumerates exactly the in-range valuations *)
Lemma in_all_V v : In v (all_V nc nx ny) <-> in_range nc nx ny v = true.
Proof.
  unfold all_V, in_range. repeat setoid_rewrite in_flat_map.
  setoid_rewrite in_map_iff. setoid_rewrite in_seq.
  repeat rewrite andb_true_iff. repeat rewrite Nat.ltb_lt.
  split.
  - intros (c & Hc & x & Hx & y & Hy & xp & Hxp & yp & E & Hyp).
    subst v. cbn. lia.
  - intros H. destruct v as [c x y xp yp]. cbn in H.
    exists c. split; [lia|]. exists x. split; [lia|]. exists y. split; [lia|].
    exists xp. split; [lia|]. exists yp. split; [reflexivity|lia].
Qed.

Lemma beq_true_iff a b :
  beq nc nx ny a b = true <-> (forall v, in_range nc nx ny v = true -> a v = b v).
Proof.
  unfold beq. rewrite forallb_forall. split.
  - intros H v Hv. apply eqb_prop. apply H. apply in_all_V. exact Hv.
  - intros H v Hv. apply in_all_V in Hv. rewrite (H v Hv). apply eqb_reflx.
Qed.

End Facts.

(* Strip the algebra down to pointwise Boolean expressions. *)
Ltac alg_unfold :=
  repeat first
    [ rewrite band_spec | rewrite bor_spec | rewrite bnot_spec
    | rewrite prime_spec | rewrite unprime_spec
    | rewrite forall_spec | rewrite exist_spec ].
