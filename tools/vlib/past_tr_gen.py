"""Regenerate coq/gen/PastGen.v from omega/logic/past.py, omega/logic/ast.py
(and astutils.Operator.flatten of the installed astutils) -- tie T for C15;
translator tools/py2coq_past.py.

Translated on every run: Nodes.{Operator,Unary,Binary,Var}.flatten,
_flatten_previous, _make_tester_for_previous, _flatten_since, _flatten_until,
translate of past.py; Nodes.{Operator,Binary}.flatten of ast.py;
astutils.Operator.flatten.  The theorems of coq/GenProofs/PastBridge.v
(generated translate = hand-written model PastModel.translate) are about
these generated definitions and are re-proved on every run.
"""
import os
import sys

sys.path.insert(0, os.path.join(os.path.dirname(__file__), '..'))
import py2coq  # noqa: E402
import py2coq_past  # noqa: E402
from vlib.core import Broken, REPO  # noqa: E402

SOURCES = [py2coq_past.PAST_SRC, py2coq_past.AST_SRC, 'astutils/ast.py']
FUNCTIONS = ['past.Nodes.Operator.flatten', 'past.Nodes.Unary.flatten',
             'past.Nodes.Binary.flatten', 'past.Nodes.Var.flatten',
             'past._flatten_previous', 'past._make_tester_for_previous',
             'past._flatten_since', 'past._flatten_until', 'past.translate',
             'ast.Nodes.Operator.flatten', 'ast.Nodes.Binary.flatten',
             'astutils.Operator.flatten']


def past_text():
    """(text of gen/PastGen.v, translator notes, templates read)."""
    return py2coq_past.render(REPO)


def ensure_past(ctx):
    try:
        text, notes, templates = past_text()
    except py2coq.Refuse as e:
        raise Broken('translator', f'{py2coq_past.PAST_SRC}: {e}')
    except (SyntaxError, OSError) as e:
        raise Broken('translator', f'{", ".join(SOURCES)}: {e}')
    ctx.write_gen('gen/PastGen.v', text)
    return notes, templates


if __name__ == '__main__':
    print(past_text()[0])
