(* L5Cover / CoverEnumStep: one reduction step of
   cover_enum._cyclic_core_fixpoint_recursive relates the minimum covers of
   the problems

     (X, Y)  ->  (xt, Yfl)  ->  (xt, yt)  ->  (x, y)

   where xt = maximal ceilings of X, Yfl = floors of Y with respect to xt,
   yt = maximal floors, e = xt /\ yt the essential elements, x = xt \ e,
   y = yt \ e:
   - [step_down]: a minimum cover C of (X, Y) maps to the minimum cover
     Cf = floors of C of (xt, Yfl), this lies element-wise below a minimum
     cover Cm of (xt, yt), which contains e, and Cm \ e is a minimum cover of
     (x, y);
   - [step_up_cover]: a cover of (x, y) plus e lifts to a cover of (X, Y) of
     no greater size. *)
From Coq Require Import List ZArith Bool Lia Arith Permutation.
Import ListNotations.
From Omega Require Import L5Cover.Boxes L5Cover.BoxesProofs L5Cover.MinCover
  L5Cover.MinCoverProofs L5Cover.BoundsProofs L5Cover.CyclicCoreOpt
  L5Cover.MinCoverFull L5Cover.CoverEnum L5Cover.CoverEnumProofs
  L5Cover.CoverEnumLemmas.
Open Scope Z_scope.

(* C is a minimum-cardinality cover of X by elements of Y *)
Definition mincover (X Y C : list box) : Prop :=
  incl C Y /\ cov C X /\
  forall C', incl C' Y -> cov C' X -> (length C <= length C')%nat.

Lemma mincover_NoDup X Y C : mincover X Y C -> NoDup C.
Proof.
  intros [HI [HC HM]]. destruct (nodupb C) eqn:E; [apply nodupb_true, E|].
  assert (H : ~ NoDup C) by (intros Hn; apply nodupb_true in Hn; congruence).
  exfalso. apply nodup_length_lt in H.
  assert (L : (length C <= length (nodup box_eq_dec C))%nat).
  { apply HM.
    - intros b Hb. apply HI. apply nodup_In in Hb. exact Hb.
    - intros x Hx. destruct (HC x Hx) as [c [Hc Hle]]. exists c.
      split; [apply nodup_In, Hc | exact Hle]. }
  lia.
Qed.

Lemma Forall2_len {A B} (R : A -> B -> Prop) l l' :
  Forall2 R l l' -> length l = length l'.
Proof. intros H. induction H; cbn; congruence. Qed.

Lemma remove_NoDup_length (l : list box) d :
  NoDup l -> (length l <= S (length (remove box_eq_dec d l)))%nat.
Proof.
  induction l as [|a l IH]; intros H; cbn [remove length]; [lia|].
  inversion H as [|? ? Hn Hnd]; subst. destruct (box_eq_dec d a) as [->|Hne].
  - rewrite notin_remove; [lia | exact Hn].
  - cbn [length]. specialize (IH Hnd). lia.
Qed.

Lemma sound_facts F X Y :
  F = [] \/ (are_covers X F = true /\ covers_from F Y = true /\ uniform F = true) ->
  (forall c, In c F -> incl c Y /\ cov c X) /\
  (forall c c', In c F -> In c' F -> length c = length c').
Proof.
  intros [->|[A [B C]]]; [split; [intros c []|intros c c' []]|]. split.
  - intros K HK. split.
    + unfold covers_from in B. rewrite allb_forallb, forallb_forall in B.
      apply inclb_true, B, HK.
    + unfold are_covers in A. rewrite allb_forallb, forallb_forall in A.
      apply cover_refines_cov, A, HK.
  - intros K K' HK HK'. unfold uniform in C. destruct F as [|c F']; [destruct HK|].
    rewrite allb_forallb, forallb_forall in C.
    pose proof (C K HK) as E1. pose proof (C K' HK') as E2.
    apply Nat.eqb_eq in E1. apply Nat.eqb_eq in E2. congruence.
Qed.

Section Step.
Variable rs : ranges.
Variable X Y : list box.
Hypothesis HX : below_top rs X.
Hypothesis HY : above_bot rs Y.
Hypothesis HA : antichain Y.

Let xt := max_ceilings rs X Y.
Let yt := max_floors rs xt Y.
Let yfl := dedup (map (floor rs xt) Y).
Let e := inter xt yt.
Let x := diff xt e.
Let y := diff yt e.

Lemma step_xt_below_top : below_top rs xt.
Proof. apply max_ceilings_below_top, HX. Qed.

Lemma step_yt_yfl : incl yt yfl.
Proof. intros m Hm. unfold yt, max_floors in Hm. apply maxima_In in Hm. apply Hm. Qed.

Lemma step_yfl_sub : sub yfl Y.
Proof.
  intros z Hz. unfold yfl in Hz. rewrite dedup_In in Hz. apply in_map_iff in Hz.
  destruct Hz as [c [<- Hc]]. exists c. split; [exact Hc|].
  apply (floor_le rs xt Y c step_xt_below_top HY Hc).
Qed.

Lemma step_yt_sub : sub yt Y.
Proof. apply sub_trans with yfl; [apply sub_incl, step_yt_yfl | apply step_yfl_sub]. Qed.

Lemma step_yt_above_bot : above_bot rs yt.
Proof. apply max_floors_above_bot, step_xt_below_top. Qed.

Lemma step_yt_antichain : antichain yt.
Proof. apply maxima_antichain. Qed.

Lemma step_x_below_top : below_top rs x.
Proof. intros z Hz. apply diff_In in Hz. apply step_xt_below_top, Hz. Qed.

Lemma step_y_above_bot : above_bot rs y.
Proof. intros z Hz. apply diff_In in Hz. apply step_yt_above_bot, Hz. Qed.

Lemma step_y_antichain : antichain y.
Proof.
  apply (antichain_incl yt); [|apply step_yt_antichain].
  intros z Hz. apply diff_In in Hz. apply Hz.
Qed.

Lemma step_e_NoDup : NoDup e.
Proof.
  unfold e, inter. apply NoDup_filter. unfold xt, max_ceilings.
  apply maxima_NoDup, dedup_NoDup.
Qed.

Lemma step_xt_maximal a b : In a xt -> In b xt -> box_le a b -> b = a.
Proof.
  intros Ha Hb Hle. unfold xt, max_ceilings in Ha. apply maxima_In in Ha.
  destruct Ha as [_ Hmax]. apply Hmax; [|exact Hle].
  unfold xt, max_ceilings in Hb. apply maxima_In in Hb. apply Hb.
Qed.

(* covers of the reduced problem lift to covers of the original problem *)
Lemma step_lift_xt D :
  sub D Y -> cov D xt ->
  exists D', incl D' Y /\ cov D' X /\ length D' = length D.
Proof.
  intros HS HC. destruct (lift_cover D xt Y HS HC) as [D' [A [B C]]].
  exists D'. split; [exact A|]. split; [|exact C].
  apply (max_ceilings_cov rs X Y D' HX B).
Qed.

Lemma step_up_cover C0 :
  incl C0 y -> cov C0 x ->
  exists C', incl C' Y /\ cov C' X /\ (length C' <= length C0 + length e)%nat.
Proof.
  intros HI HC.
  assert (HS : sub (C0 ++ e) Y).
  { apply sub_trans with yt; [|apply step_yt_sub]. apply sub_incl.
    intros z Hz. apply in_app_iff in Hz. destruct Hz as [Hz|Hz].
    - apply HI in Hz. apply diff_In in Hz. apply Hz.
    - apply inter_In in Hz. apply Hz. }
  assert (HCov : cov (C0 ++ e) xt).
  { intros z Hz. destruct (in_dec box_eq_dec z e) as [He|He].
    - exists z. split; [apply in_app_iff; right; exact He | apply box_le_refl].
    - destruct (HC z) as [c [Hc Hle]]; [apply diff_In; split; assumption|].
      exists c. split; [apply in_app_iff; left; exact Hc | exact Hle]. }
  destruct (step_lift_xt _ HS HCov) as [C' [A [B D]]].
  exists C'. split; [exact A|]. split; [exact B|]. rewrite D, app_length. lia.
Qed.

(* a minimum cover of (X, Y) goes down to a minimum cover of (x, y) *)
Lemma step_down C :
  mincover X Y C ->
  let Cf := map (floor rs xt) C in
  mincover xt yfl Cf /\
  exists Cm,
    Forall2 (fun z m => box_le z m) Cf Cm /\
    mincover xt yt Cm /\ incl e Cm /\
    mincover x y (diff Cm e) /\
    (length (diff Cm e) + length e <= length C)%nat.
Proof.
  intros [HI [HC HM]] Cf.
  assert (HCxt : cov C xt) by (apply max_ceilings_cov_fwd; assumption).
  assert (HCf_in : incl Cf yfl).
  { intros z Hz. unfold Cf in Hz. apply in_map_iff in Hz. destruct Hz as [c [<- Hc]].
    unfold yfl. rewrite dedup_In. apply in_map, HI, Hc. }
  assert (HCf_cov : cov Cf xt).
  { intros z Hz. destruct (HCxt z Hz) as [c [Hc Hle]].
    exists (floor rs xt c). split; [apply in_map, Hc|].
    apply (floor_above rs xt c z step_xt_below_top Hz Hle). }
  assert (HCf_len : length Cf = length C) by apply map_length.
  assert (HCf_min : forall D, incl D yfl -> cov D xt -> (length Cf <= length D)%nat).
  { intros D HD HDc.
    assert (HS : sub D Y) by (apply sub_trans with yfl; [apply sub_incl, HD | apply step_yfl_sub]).
    destruct (step_lift_xt D HS HDc) as [D' [A [B L]]].
    specialize (HM D' A B). lia. }
  split; [split; [exact HCf_in | split; [exact HCf_cov | exact HCf_min]]|].
  (* maximal floors above the floors *)
  destruct (Forall2_exists (fun z m => In m yt /\ box_le z m) Cf) as [Cm HF].
  { intros z Hz. apply HCf_in in Hz. destruct (maxima_above _ _ Hz) as [m [Hm Hle]].
    exists m. split; [exact Hm | exact Hle]. }
  assert (HCm_in : incl Cm yt).
  { intros m Hm. destruct (Forall2_In_r _ _ _ _ HF Hm) as [z [_ [H _]]]. exact H. }
  assert (HCm_cov : cov Cm xt).
  { intros z Hz. destruct (HCf_cov z Hz) as [c [Hc Hle]].
    destruct (Forall2_In_l _ _ _ _ HF Hc) as [m [Hm [_ Hcm]]].
    exists m. split; [exact Hm | apply box_le_trans with c; assumption]. }
  assert (HCm_len : length Cm = length Cf) by (symmetry; apply (Forall2_len _ _ _ HF)).
  assert (HCm_min : forall D, incl D yt -> cov D xt -> (length Cm <= length D)%nat).
  { intros D HD HDc. rewrite HCm_len. apply HCf_min; [|exact HDc].
    intros z Hz. apply step_yt_yfl, HD, Hz. }
  assert (He : incl e Cm).
  { intros z Hz. apply inter_In in Hz. destruct Hz as [Hz1 Hz2].
    destruct (HCm_cov z Hz1) as [c [Hc Hle]].
    rewrite (step_yt_antichain z c Hz2 (HCm_in c Hc) Hle). exact Hc. }
  assert (Hd_in : incl (diff Cm e) y).
  { intros c Hc. apply diff_In in Hc. apply diff_In. split; [apply HCm_in, Hc | apply Hc]. }
  assert (Hd_cov : cov (diff Cm e) x).
  { intros z Hz. apply diff_In in Hz. destruct Hz as [Hz1 Hze].
    destruct (HCm_cov z Hz1) as [c [Hc Hle]]. exists c. split; [|exact Hle].
    apply diff_In. split; [exact Hc|]. intros Hce. apply Hze.
    assert (c = z).
    { apply inter_In in Hce. destruct Hce as [Hc1 _].
      apply (step_xt_maximal z c Hz1 Hc1 Hle). }
    subst c. exact Hce. }
  assert (Hd_len : (length e + length (diff Cm e) <= length Cm)%nat).
  { apply diff_length_le; [apply step_e_NoDup | exact He]. }
  exists Cm. split.
  { clear -HF. induction HF; constructor; [apply H | assumption]. }
  split; [split; [exact HCm_in | split; [exact HCm_cov | exact HCm_min]]|].
  split; [exact He|]. split; [|lia].
  split; [exact Hd_in|]. split; [exact Hd_cov|].
  intros D HD HDc.
  assert (HDe : (length Cm <= length (D ++ e))%nat).
  { apply HCm_min.
    - intros z Hz. apply in_app_iff in Hz. destruct Hz as [Hz|Hz].
      + apply HD in Hz. apply diff_In in Hz. apply Hz.
      + apply inter_In in Hz. apply Hz.
    - intros z Hz. destruct (in_dec box_eq_dec z e) as [Hze|Hze].
      + exists z. split; [apply in_app_iff; right; exact Hze | apply box_le_refl].
      + destruct (HDc z) as [c [Hc Hle]]; [apply diff_In; split; assumption|].
        exists c. split; [apply in_app_iff; left; exact Hc | exact Hle]. }
  rewrite app_length in HDe. lia.
Qed.

(* floors are injective on a minimum cover, and lie below *)
Lemma step_floor_le c : In c Y -> box_le (floor rs xt c) c.
Proof. intros Hc. apply (floor_le rs xt Y c step_xt_below_top HY Hc). Qed.
End Step.
