"""Fail-closed translator (tie T) for omega/symbolic/cover_enum.py below and
around the skeleton that cover_bbgen.py translates (_traverse_exhaustive,
_branch_exhaustive):

    minimize, _cyclic_core_fixpoint_recursive,
    _mincovers_from_floor, _mincovers_from_unfloor,
    _enumerate_mincovers_below, _enumerate_mincovers_unfloor,
    _below_and_suff, _y_unfloor, _lm_tail

are read from the source text of the working tree with `ast` and emitted as
Gallina (coq/gen/CoverEnumCCGen.v) in the error monad `res` of the hand model
L5Cover/CoverEnum.v (an `assert` is a `check`, the assertions that the model
numbers are E419 / E425), over its primitives: inter, diff, union, filter,
anyb, allb, box_leb, inclb, same_setb, cover_refines, are_covers,
covers_from, uniform, add_cover, union_fam, max_ceilings, max_floors, floor,
dedup, some_cover, embed, primes and the translated traverse_exh_gen of
gen/CoverBBGen.v.  coq/GenProofs/CoverEnumCCBridge.v proves the generated
functions equal to the hand model on every run.

Representation: a BDD over the parameters is a `list box`; a BDD known to be
a singleton (an element of `_pick_iter_as_bdd(..., prm.p_vars)`, `lm[i]`) is
its element; a Python `set` of BDDs is a `family` (`add` = add_cover, `update`
= union_fam, iteration and `pop` in list order); the Python list used as a
stack is a `family` whose head is the top; `list(_pick_iter_as_bdd(S, ..))`
is the list S.  `while` loops are Fixpoints on a fuel argument (EFuel when it
runs out), `for` loops Fixpoints on the list; `continue` is the recursive
call; `lm[i]` is `nth_error` (EAssert = IndexError); `k - 1` on naturals is
only accepted when `k >= 1` is known from an assignment `k = i + 1` or a
translated assertion.  `bab.upper_bound` is threaded as in cover_bbgen.

The two enumerations are worklist loops in the code and level-by-level folds
in the hand model, so the functions above them are emitted ABSTRACTED over
them (Section variables enum_below / enum_unfloor): the bridge proves each
function equal to the model's when its callees are the model's, and relates
the two worklist loops to the model's one-level functions.

Everything not recognised raises Refuse.  The translator never imports omega.
"""
import ast
import copy
import os
import re

try:
    from vlib.cover_ccgen import Refuse, _src, _indent, _function
except ImportError:                      # run as a script
    from cover_ccgen import Refuse, _src, _indent, _function


def _canon_stmt(s):
    return _src(ast.parse(s).body[0])


def _canon_expr(s):
    return _src(ast.parse(s, mode='eval').body)


# --------------------------------------------------------------------- tables
PARAMS = {
    '_lm_tail': 'k, lm',
    '_below_and_suff': 'ymax, cover, x, y, prm, fol',
    '_y_unfloor': 'yfloor, y, prm, fol',
    '_enumerate_mincovers_below': 'cover_from_max, x, y, prm, fol',
    '_enumerate_mincovers_unfloor': 'cover_from_floors, y, prm, fol',
    '_mincovers_from_floor': 'mincovers_core, xt, y_floors, bab, fol',
    '_mincovers_from_unfloor': 'mincovers_floor, yold, bab, fol',
    '_cyclic_core_fixpoint_recursive': 'x, y, path_cost, bab, fol',
    'minimize': 'f, care, fol',
}
SP, SQ, SU = ('set', 'p'), ('set', 'q'), ('set', '?')
PARAM_TYPES = {
    '_lm_tail': dict(k='nat', lm='lm'),
    '_below_and_suff': dict(ymax=('single', 'p'), cover=SP, x=SP, y=SP,
                            prm='ctx', fol='ctx'),
    '_y_unfloor': dict(yfloor=('single', 'p'), y=SP, prm='ctx', fol='ctx'),
    '_enumerate_mincovers_below': dict(cover_from_max=SP, x=SP, y=SP,
                                       prm='ctx', fol='ctx'),
    '_enumerate_mincovers_unfloor': dict(cover_from_floors=SP, y=SP,
                                         prm='ctx', fol='ctx'),
    '_mincovers_from_floor': dict(mincovers_core='fam', xt=SP, y_floors=SP,
                                  bab='ctx', fol='ctx'),
    '_mincovers_from_unfloor': dict(mincovers_floor='fam', yold=SP,
                                    bab='ctx', fol='ctx'),
    '_cyclic_core_fixpoint_recursive': dict(x=SP, y=SP, path_cost='nat',
                                            bab='ctx', fol='ctx'),
    'minimize': dict(f='fn', care='fn', fol='ctx'),
}
RET = {
    '_lm_tail': SP, '_below_and_suff': SP, '_y_unfloor': SP,
    '_enumerate_mincovers_below': 'fam', '_enumerate_mincovers_unfloor': 'fam',
    '_mincovers_from_floor': 'fam', '_mincovers_from_unfloor': 'fam',
    '_cyclic_core_fixpoint_recursive': 'fam', 'minimize': 'fam',
}
GEN_NAME = {
    '_lm_tail': 'lm_tail', '_below_and_suff': 'below_and_suff',
    '_y_unfloor': 'y_unfloor',
    '_enumerate_mincovers_below': 'enumerate_mincovers_below',
    '_enumerate_mincovers_unfloor': 'enumerate_mincovers_unfloor',
    '_mincovers_from_floor': 'mincovers_from_floor',
    '_mincovers_from_unfloor': 'mincovers_from_unfloor',
    '_cyclic_core_fixpoint_recursive': 'cyclic_core_fixpoint_recursive',
    'minimize': 'enum_minimize',
}
STATEFUL = {'_cyclic_core_fixpoint_recursive', 'minimize'}   # thread bab.upper_bound
HAS_WHILE = {'_enumerate_mincovers_below', '_enumerate_mincovers_unfloor'}
RECURSIVE = {'_cyclic_core_fixpoint_recursive'}
NEEDS_FUEL = HAS_WHILE | RECURSIVE | {'minimize'}
# callees emitted as calls: name -> (arg types, gen term prefix, needs fuel)
LEAF_CALLS = {
    '_lm_tail': (['nat', 'lm'], 'lm_tail_gen', SP),
    '_below_and_suff': ([('single', 'p'), SP, SP, SP, 'ctx', 'ctx'],
                        'below_and_suff_gen', SP),
    '_y_unfloor': ([('single', 'p'), SP, 'ctx', 'ctx'], 'y_unfloor_gen', SP),
    '_enumerate_mincovers_below': ([SP, SP, SP, 'ctx', 'ctx'], 'enum_below', 'fam'),
    '_enumerate_mincovers_unfloor': ([SP, SP, 'ctx', 'ctx'], 'enum_unfloor', 'fam'),
    '_mincovers_from_floor': (['fam', SP, SP, 'ctx', 'ctx'],
                              'mincovers_from_floor_gen', 'fam'),
    '_mincovers_from_unfloor': (['fam', SP, 'ctx', 'ctx'],
                                'mincovers_from_unfloor_gen', 'fam'),
}

LOG = 'logging only'
SUPP = 'support check: a type fact of the BDD (sets of the model are lists of boxes)'
TYPE = 'type fact of dd (the value is a node of this manager)'
ELEM = 'dd.pick returned a total assignment: elements of the model are whole boxes'
DECL = 'declares the parameter variables / order relations: the lattice of the model'
WARN = 'warning about the inputs only (no effect on the result)'
SKIP = {
    '_lm_tail': {}, '_below_and_suff': {}, '_y_unfloor': {},
    '_enumerate_mincovers_below': {}, '_enumerate_mincovers_unfloor': {},
    '_mincovers_from_floor': {}, '_mincovers_from_unfloor': {},
    '_cyclic_core_fixpoint_recursive': {
        "log.info('\\n\\n---- cyclic core ----')": LOG,
        "log.info('==== cyclic core ====\\n')": LOG,
    },
    'minimize': {
        "if not cov._care_implies_type_hints(f, care, fol):\n"
        "    log.warning('care set should imply type hints')": WARN,
        "if not cov._f_implies_care(f, care, fol):\n"
        "    log.warning('f should imply care set')": WARN,
        "if (f | ~ care) == fol.true:\n"
        "    log.warning('f covers care set, so trivial cover')": WARN,
        "log.info('---- branch and bound search ----')": LOG,
        "log.info('==== branch and bound search ==== ')": LOG,
        'prm = lat.setup_aux_vars(f, care, fol)': DECL,
        'lat.setup_lattice(prm, fol)': DECL,
        'bab = cov._BranchAndBound(prm, fol)':
            'record of the lattice relations and renamings (table of `bab.*`)',
        "for cover in mincovers:\n"
        "    cov.assert_is_a_cover_from_y(cover, y, f, prm, fol)\n"
        "    low = care & ~ f\n"
        "    assert cov._none_covered(cover, low, prm, fol)":
            're-checks every result (a cover of f by elements of y that '
            'avoids care & ~f): proved of the model, C10_enum_sound',
    },
}
# assertions NOT modelled as `check` by the hand model: skipped by exact text
ASSERT_SKIP = {
    '_lm_tail': {},
    '_below_and_suff': {
        'support_issubset(ymax, prm.p_vars, fol)': SUPP,
        'support_issubset(cover, prm.p_vars, fol)': SUPP,
        'support_issubset(x, prm.p_vars, fol)': SUPP,
        'support_issubset(y, prm.p_vars, fol)': SUPP,
        'support_issubset(yk_set, prm.p_vars, fol)': SUPP,
        'ymax != fol.false': 'ymax is a singleton (an element of lm)',
        '(cover | ~ ymax) == fol.true':
            're-check: the caller built cover = partial | lm[k-1..] and ymax = lm[k-1]',
        '(y | ~ ymax) == fol.true':
            're-check: the caller asserted `y | ~ ymax == fol.true` just before the call',
    },
    '_y_unfloor': {
        'support_issubset(yfloor, prm.p_vars, fol)': SUPP,
        'support_issubset(y_over, prm.p_vars, fol)': SUPP,
        'set(d) == prm.p_vars': ELEM,
    },
    '_enumerate_mincovers_below': {}, '_enumerate_mincovers_unfloor': {},
    '_mincovers_from_floor': {}, '_mincovers_from_unfloor': {},
    '_cyclic_core_fixpoint_recursive': {
        'x in fol.bdd': TYPE, 'y in fol.bdd': TYPE,
        'support_issubset(x, bab.p_vars, fol)': SUPP,
        'support_issubset(y, bab.p_vars, fol)': SUPP,
        'mincovers_core': 're-check of the test `if not mincovers_core: return` just above',
    },
    'minimize': {},
}
# assertions that the model gives a numbered error
ASSERT_ERR = {
    ('_enumerate_mincovers_below',
     'fol.count(cover, care_vars=prm.p_vars) == n'): 'E419',
    ('_enumerate_mincovers_below',
     'fol.count(new_cover, care_vars=prm.p_vars) == k'): 'E425',
}
# calls of assertion helpers (pinned text) = checks of the model
CHECK_CALLS = {
    '_assert_are_covers': ([SP, 'fam', 'ctx', 'ctx'], 'are_covers {0} {1}'),
    '_assert_covers_from': (['fam', SP, 'ctx'], 'covers_from {0} {1}'),
    '_assert_uniform_cardinality': (['fam', 'ctx', 'vars_p'], 'uniform {0}'),
}
PINNED = {
    '_assert_are_covers': (
        'are_covers',
        'def _assert_are_covers(x, covers, prm, fol):\n'
        '    assert support_issubset(x, prm.p_vars, fol)\n'
        '    for cover in covers:\n'
        '        assert support_issubset(cover, prm.p_vars, fol)\n'
        '        yq = fol.let(prm.p_to_q, cover)\n'
        '        assert support_issubset(yq, prm.q_vars, fol)\n'
        '        assert cov._cover_refines(\n'
        '            x, yq, prm.p_leq_q, prm.p_vars, prm.q_vars, fol)\n'),
    '_assert_covers_from': (
        'covers_from',
        'def _assert_covers_from(covers, y, fol):\n'
        '    for cover in covers:\n'
        '        assert y | ~ cover == fol.true\n'),
    '_assert_uniform_cardinality': (
        'uniform',
        'def _assert_uniform_cardinality(bdds, fol, care_vars=None):\n'
        '    if not bdds:\n'
        '        return\n'
        '    n = fol.count(next(iter(bdds)), care_vars=care_vars)\n'
        '    assert n >= 0, n\n'
        '    for u in bdds:\n'
        '        n_ = fol.count(u, care_vars=care_vars)\n'
        '        assert n == n_, (n, n_)\n'),
    '_pick_iter_as_bdd': (
        'the elements of u, each as a singleton (complete assignments to care_vars)',
        'def _pick_iter_as_bdd(u, fol, care_vars=None):\n'
        '    for d in fol.pick_iter(u, care_vars=care_vars):\n'
        '        yield fol.assign_from(d)\n'),
}
SKIP = {f: {_canon_stmt(k): v for k, v in d.items()} for f, d in SKIP.items()}
ASSERT_SKIP = {f: {_canon_expr(k): v for k, v in d.items()}
               for f, d in ASSERT_SKIP.items()}
ASSERT_ERR = {(f, _canon_expr(k)): v for (f, k), v in ASSERT_ERR.items()}

RESERVED = {
    'pick', 'rs', 'fuel', 'fuel_', 'items_', 'rec', 'ub', 'union', 'diff',
    'inter', 'filter', 'length', 'box_leb', 'anyb', 'allb', 'map', 'embed',
    'primes', 'negb', 'is_nil', 'same_setb', 'inclb', 'check', 'bind', 'ok',
    'fail', 'res', 'family', 'add_cover', 'union_fam', 'cover_refines',
    'are_covers', 'covers_from', 'uniform', 'floor', 'ceil', 'dedup',
    'some_cover', 'seq', 'nth_error', 'enum_below', 'enum_unfloor', 'true',
    'false', 'None', 'Some', 'box', 'list', 'nat', 'bool', 'option', 'fst',
    'snd', 'S', 'O', 'p_', 'q_', 'b_', 'if', 'then', 'else', 'let', 'in',
    'match', 'with', 'end', 'fun', 'fix', 'at', 'as', 'do', 'chk',
    'traverse_exh_gen', 'E419', 'E425', 'EAssert', 'EFuel',
} | {g + s for g in GEN_NAME.values() for s in ('_gen', '_loop', '_loop2')}


def is_t(t, tag):
    return isinstance(t, tuple) and t[0] == tag


def coq_type(t):
    if is_t(t, 'set'):
        return 'list box'
    if is_t(t, 'single') or is_t(t, 'elem'):
        return 'box'
    if t in ('fam', 'stack'):
        return 'family'
    if t == 'lm':
        return 'list box'
    if t in ('nat', 'bool'):
        return t
    if t == 'fn':
        return 'point -> bool'
    raise Refuse(f'no Gallina type for {t}')


def valued(t):
    try:
        coq_type(t)
        return True
    except Refuse:
        return False


def unify(a, b, where):
    if is_t(a, 'set') and is_t(b, 'set'):
        if a[1] == '?':
            return b
        if b[1] == '?' or a[1] == b[1]:
            return a
    if a == b:
        return a
    raise Refuse(f'{where}: types {a} / {b}')


class Fn:
    def __init__(self, name, node):
        self.name = name
        self.node = node
        self.env = {}
        self.order = []
        self.used = set()
        self.acc = []                 # stack of sets of accessed coq names
        self.loops = []
        self.nloops = 0
        self.lb = {}                  # coq name -> known lower bound (nat)
        self.nonempty = set()         # coq names of sets checked non-empty
        self.pending = []             # hoisted partial subexpressions
        self.ub = 'ub'
        self.nub = 0
        self.stateful = name in STATEFUL
        self.in_loop_kind = []        # 'while' / 'for' of enclosing loops

    # ---------------------------------------------------------------- names
    def fresh(self, base):
        base = re.sub(r'\W', '_', base)
        nm, k = base, 0
        while nm in self.used or nm in RESERVED:
            k += 1
            nm = f'{base}{k}'
        self.used.add(nm)
        return nm

    def setenv(self, py, term, ty):
        if py not in self.env:
            self.order.append(py)
        self.env[py] = (term, ty)

    def bind(self, py, ty):
        nm = self.fresh(py)
        self.setenv(py, nm, ty)
        return nm

    def touch(self, nm):
        for a in self.acc:
            a.add(nm)

    def var(self, name):
        if name not in self.env:
            raise Refuse(f'{self.name}: unknown (or skipped) variable {name}')
        term, ty = self.env[name]
        if term is not None:
            self.touch(term)
        if isinstance(ty, tuple) and ty[0] in ('relset', 'prel', 'prel2',
                                               'prel1', 'impl'):
            for x in ty[1:]:
                self.touch(x)
        return term, ty

    def fresh_ub(self):
        self.nub += 1
        self.ub = self.fresh(f'ub{self.nub}')
        return self.ub

    # ---------------------------------------------------------------- monad
    def ret(self, v):
        if self.stateful and self.name != 'minimize':
            self.touch(self.ub)
            return f'ok ({v}, {self.ub})'
        return f'ok {v}'

    @staticmethod
    def bind_m(term, pat, body):
        return f'bind ({term}) (fun {pat} =>\n{_indent(body)})'

    @staticmethod
    def check(cond, body, err=None):
        if err:
            return f'if {cond}\nthen\n{_indent(body)}\nelse fail {err}'
        return f'check {cond}\n({body})'

    # ---------------------------------------------------------------- exprs
    def as_set(self, t, ty, w):
        """Term of a BDD-valued expression as a list of boxes."""
        if is_t(ty, 'set'):
            return t, ty
        if is_t(ty, 'single'):
            return f'[{t}]', ('set', ty[1])
        raise Refuse(f'{w}: {ty} is not a set')

    def attr(self, s):
        m = re.fullmatch(r'(bab|prm)\.(\w+)', s)
        if not m:
            return None
        if m.group(1) not in self.env or self.env[m.group(1)][1] != 'ctx':
            return None
        return {'p_leq_q': 'rel', 'p_to_q': 'ren_pq', 'q_to_p': 'ren_qp',
                'p_vars': 'vars_p', 'q_vars': 'vars_q',
                'prm': 'ctx'}.get(m.group(2))

    def expr(self, e):
        s = _src(e)
        w = f'{self.name}: `{s}`'
        if isinstance(e, ast.Constant):
            v = e.value
            if isinstance(v, bool) or v is None:
                raise Refuse(f'{w}: constant')
            if isinstance(v, int) and 0 <= v < 100:
                return f'{v}%nat', 'nat'
            if isinstance(v, float) and v == 0.0 and self.name == 'minimize':
                return '0%nat', 'nat'      # path cost 0.0: costs are counts
            raise Refuse(f'{w}: constant')
        if isinstance(e, ast.Name):
            return self.var(e.id)
        if isinstance(e, ast.Attribute):
            t = self.attr(s)
            if t:
                return None, t
            if s == 'fol.false':
                return '[]', SU
            if s == 'bab.upper_bound' and self.stateful:
                self.touch(self.ub)
                return self.ub, 'nat'
            raise Refuse(f'{w}: attribute')
        if isinstance(e, ast.Set) and len(e.elts) == 1 and \
                _src(e.elts[0]) == 'fol.false':
            return '[[]]', 'fam'
        if isinstance(e, ast.List) and len(e.elts) == 1 and \
                _src(e.elts[0]) == 'fol.false':
            return '[[]]', 'stack'
        if isinstance(e, ast.Subscript):
            a, ta = self.expr(e.value)
            i, ti = self.expr(e.slice)
            if ta == 'lm' and ti == 'nat':
                nm = self.fresh('elt')
                self.pending.append((nm, f'nth_error {a} {i}'))
                return nm, ('single', 'p')
            raise Refuse(f'{w}: subscript of {ta} by {ti}')
        if isinstance(e, ast.UnaryOp) and isinstance(e.op, ast.Not):
            return f'(negb {self.test(e.operand)})', 'bool'
        if isinstance(e, ast.BoolOp) and len(e.values) == 2:
            a, b = self.test(e.values[0]), self.test(e.values[1])
            if isinstance(e.op, ast.Or):
                return f'(if {a} then true else {b})', 'bool'
            return f'(if {a} then {b} else false)', 'bool'
        if isinstance(e, ast.Compare):
            return self.test(e), 'bool'
        if isinstance(e, ast.BinOp):
            return self.binop(e, w)
        if isinstance(e, ast.Call):
            return self.call(e, w)
        raise Refuse(f'{w}: expression not in the table')

    def binop(self, e, w):
        if isinstance(e.op, (ast.Add, ast.Sub)):
            a, ta = self.expr(e.left)
            b, tb = self.expr(e.right)
            if ta == tb == 'nat':
                if isinstance(e.op, ast.Add):
                    return f'({a} + {b})%nat', 'nat'
                c = e.right.value if isinstance(e.right, ast.Constant) else None
                if isinstance(c, int) and self.lb.get(a, 0) >= c:
                    return f'({a} - {b})%nat', 'nat'
                raise Refuse(f'{w}: subtraction on naturals without a known '
                             f'bound {a} >= {_src(e.right)}')
            raise Refuse(f'{w}: arithmetic on {ta}, {tb}')
        if isinstance(e.op, ast.BitAnd):
            neg = (isinstance(e.right, ast.UnaryOp)
                   and isinstance(e.right.op, ast.Invert))
            a, ta = self.expr(e.left)
            b, tb = self.expr(e.right.operand if neg else e.right)
            if not neg:
                if is_t(ta, 'set') and tb == 'rel':
                    if ta[1] == 'q':     # { (p, q) : q in A /\ p <= q }
                        return None, ('relset', self.named(e.left, a))
                    unify(ta, SP, w)     # { (p, q) : p in A /\ p <= q }
                    return None, ('prel', self.named(e.left, a))
                if ta == 'rel' and is_t(tb, 'set'):
                    unify(tb, SQ, w)
                    return None, ('relset', self.named(e.right, b))
                if is_t(ta, 'prel') and is_t(tb, 'set'):
                    unify(tb, SQ, w)
                    return None, ('prel2', ta[1], self.named(e.right, b))
                if is_t(ta, 'prel') and tb == ('single', 'q'):
                    return None, ('prel1', ta[1], b)
            if (is_t(ta, 'set') or is_t(ta, 'single')) and \
                    (is_t(tb, 'set') or is_t(tb, 'single')):
                a, ta = self.as_set(a, ta, w)
                b, tb = self.as_set(b, tb, w)
                t = unify(ta, tb, w)
                return (f'(diff {a} {b})' if neg else f'(inter {a} {b})'), t
            raise Refuse(f'{w}: & on {ta}, {tb}')
        if isinstance(e.op, ast.BitOr):
            if isinstance(e.right, ast.UnaryOp) and \
                    isinstance(e.right.op, ast.Invert):
                a, ta = self.expr(e.left)
                b, tb = self.expr(e.right.operand)
                if is_t(ta, 'relset') and is_t(tb, 'set'):
                    unify(tb, SP, w)     # (p <= q /\ q in Y) \/ p not in X
                    return None, ('impl', ta[1], self.named(e.right.operand, b))
                raise Refuse(f'{w}: | ~ on {ta}, {tb}')
            a, ta = self.expr(e.left)
            b, tb = self.expr(e.right)
            a, ta = self.as_set(a, ta, w)
            b, tb = self.as_set(b, tb, w)
            return f'(union {a} {b})', unify(ta, tb, w)
        raise Refuse(f'{w}: operator')

    def named(self, node, term):
        if not isinstance(node, ast.Name):
            raise Refuse(f'{self.name}: `{_src(node)}`: operand of a relational '
                         'product must be a variable')
        return term

    def call(self, e, w):
        f = _src(e.func)
        args = e.args
        kws = {k.arg: k.value for k in e.keywords}
        if None in kws or any(isinstance(a, ast.Starred) for a in args):
            raise Refuse(f'{w}: starred arguments')
        if f == 'fol.count' and len(args) == 1 and list(kws) == ['care_vars']:
            if self.expr(kws['care_vars'])[1] != 'vars_p':
                raise Refuse(f'{w}: care_vars')
            a, ta = self.expr(args[0])
            a, ta = self.as_set(a, ta, w)
            unify(ta, SP, w)
            return f'(length {a})', 'nat'
        if f == 'len' and len(args) == 1 and not kws:
            a, ta = self.expr(args[0])
            if ta in ('fam', 'stack', 'lm'):
                return f'(length {a})', 'nat'
            raise Refuse(f'{w}: len of {ta}')
        if f == 'set' and not kws:
            if not args:
                return '[]', 'fam'
            if len(args) == 1:
                a, ta = self.expr(args[0])
                if ta == 'fam':
                    return a, 'fam'
            raise Refuse(f'{w}: set(...)')
        if f == 'list' and len(args) == 1 and not kws:
            a, ta = self.expr(args[0])
            if is_t(ta, 'elems'):
                return a, 'lm'
            raise Refuse(f'{w}: list of {ta}')
        if f == '_pick_iter_as_bdd' and len(args) == 3 and not kws:
            a, ta = self.expr(args[0])
            if is_t(ta, 'set') and _src(args[1]) == 'fol' and \
                    self.expr(args[2])[1] == 'vars_p':
                unify(ta, SP, w)
                return a, ('elems', 'p')
            raise Refuse(f'{w}: arguments (care_vars must be the parameters)')
        if f == 'fol.let' and len(args) == 2 and not kws:
            d, td = self.expr(args[0])
            v, tv = self.expr(args[1])
            if td == 'ren_pq' and (is_t(tv, 'set') or is_t(tv, 'single')):
                unify(('set', tv[1]), SP, w)
                return v, (tv[0], 'q')
            if td == 'ren_qp' and is_t(tv, 'set'):
                unify(tv, SQ, w)
                return v, SP
            if td == ('elem', 'p') and is_t(tv, 'relset'):
                return f'(filter (fun q_ => box_leb {d} q_) {tv[1]})', SQ
            raise Refuse(f'{w}: let on {td}, {tv}')
        if f == 'fol.exist' and len(args) == 2 and not kws:
            q, tq = self.expr(args[0])
            r, tr = self.expr(args[1])
            if tq == 'vars_q' and is_t(tr, 'prel2'):
                return (f'(filter (fun p_ => anyb (fun q_ => box_leb p_ q_) '
                        f'{tr[2]}) {tr[1]})', SP)
            if tq == 'vars_q' and is_t(tr, 'prel1'):
                return f'(filter (fun p_ => box_leb p_ {tr[2]}) {tr[1]})', SP
            raise Refuse(f'{w}: exist on {tq}, {tr}')
        if f == 'fol.forall' and len(args) == 2 and not kws:
            p, tp = self.expr(args[0])
            r, tr = self.expr(args[1])
            if tp == 'vars_p' and is_t(tr, 'impl'):
                if tr[2] not in self.nonempty:
                    raise Refuse(f'{w}: the set {tr[2]} must have been '
                                 'asserted non-empty before')
                return (f'(filter (fun q_ => allb (fun p_ => box_leb p_ q_) '
                        f'{tr[2]}) {tr[1]})', SQ)
            raise Refuse(f'{w}: forall on {tp}, {tr}')
        if f == 'fol.pick' and len(args) == 1 and not kws:
            a, ta = self.expr(args[0])
            if is_t(ta, 'single'):      # the element of a singleton
                return a, ('elem', ta[1])
            raise Refuse(f'{w}: pick of {ta}')
        if f == 'cov._cover_refines' and len(args) == 6 and not kws:
            a, ta = self.expr(args[0])
            b, tb = self.expr(args[1])
            ts = [self.expr(x)[1] for x in args[2:5]]
            if is_t(ta, 'set') and tb == SQ and _src(args[5]) == 'fol' and \
                    ts == ['rel', 'vars_p', 'vars_q']:
                return f'(cover_refines {a} {b})', 'bool'
        if f == 'cov._max_transpose' and len(args) == 4 and \
                [_src(x) for x in args[2:]] == ['bab', 'fol']:
            a, ta = self.expr(args[0])
            b, tb = self.expr(args[1])
            unify(ta, SP, w), unify(tb, SP, w)
            sg = self.flag(kws, 'signatures', w)
            return (f'(max_ceilings rs {a} {b})' if sg
                    else f'(max_floors rs {a} {b})'), SP
        if f == 'cov._floor' and len(args) == 4 and \
                [_src(x) for x in args[2:]] == ['bab', 'fol']:
            a, ta = self.expr(args[0])
            b, tb = self.expr(args[1])
            unify(ta, SP, w), unify(tb, SP, w)
            sg = self.flag(kws, 'signatures', w)
            return (f'(dedup (map (ceil rs {b}) {a}))' if sg
                    else f'(dedup (map (floor rs {a}) {b}))'), SP
        if f == 'cov._cost' and len(args) == 3 and not kws and \
                _src(args[1]) == 'bab.prm' and _src(args[2]) == 'fol':
            a, ta = self.expr(args[0])
            if is_t(ta, 'set'):
                return f'(length {a})', 'nat'
        if self.name == 'minimize' and not kws:
            if f == 'lat.embed_as_implicants' and \
                    [_src(a) for a in args] == ['f', 'prm', 'fol']:
                self.var('f')
                return '(embed rs f)', SP
            if f == 'lat.prime_implicants' and len(args) == 3 and \
                    [_src(a) for a in args[1:]] == ['prm', 'fol'] and \
                    self.expr(args[0])[1] == 'fcare':
                return '(primes rs f care)', SP
        raise Refuse(f'{w}: call not in the table')

    def flag(self, kws, name, w):
        if not kws:
            return False
        if list(kws) == [name] and isinstance(kws[name], ast.Constant) and \
                isinstance(kws[name].value, bool):
            return kws[name].value
        raise Refuse(f'{w}: keyword arguments')

    def test(self, e):
        s = _src(e)
        w = f'{self.name}: `{s}`'
        if isinstance(e, ast.Compare) and len(e.ops) == 1:
            op = e.ops[0]
            l, r = e.left, e.comparators[0]
            # A | ~ B == fol.true : B is a subset of A
            if isinstance(op, ast.Eq) and _src(r) == 'fol.true' and \
                    isinstance(l, ast.BinOp) and isinstance(l.op, ast.BitOr) \
                    and isinstance(l.right, ast.UnaryOp) \
                    and isinstance(l.right.op, ast.Invert):
                a, ta = self.expr(l.left)
                b, tb = self.expr(l.right.operand)
                a, ta = self.as_set(a, ta, w)
                b, tb = self.as_set(b, tb, w)
                unify(ta, tb, w)
                return f'(inclb {b} {a})'
            # fol.count(S) > 0 : S is not empty (any counting domain)
            if isinstance(op, ast.Gt) and _src(r) == '0' and \
                    isinstance(l, ast.Call) and _src(l.func) == 'fol.count' \
                    and len(l.args) == 1 and not l.keywords:
                a, ta = self.expr(l.args[0])
                a, ta = self.as_set(a, ta, w)
                return f'(negb (is_nil {a}))'
            a, ta = self.expr(l)
            b, tb = self.expr(r)
            if ta == tb == 'nat':
                if isinstance(op, ast.LtE):
                    return f'({a} <=? {b})%nat'
                if isinstance(op, ast.Lt):
                    return f'({a} <? {b})%nat'
                if isinstance(op, ast.GtE):
                    return f'({b} <=? {a})%nat'
                if isinstance(op, ast.Gt):
                    return f'({b} <? {a})%nat'
                if isinstance(op, ast.Eq):
                    return f'(Nat.eqb {a} {b})'
                raise Refuse(f'{w}: comparison operator')
            if isinstance(op, (ast.Eq, ast.NotEq)) and \
                    (is_t(ta, 'set') or is_t(ta, 'single')):
                pre = isinstance(op, ast.NotEq)
                a, ta = self.as_set(a, ta, w)
                if b == '[]' and tb == SU:
                    t = f'is_nil {a}'
                elif is_t(tb, 'set'):
                    unify(ta, tb, w)
                    t = f'same_setb {a} {b}'
                else:
                    raise Refuse(f'{w}: comparison of {ta}, {tb}')
                return f'(negb ({t}))' if pre else f'({t})'
            raise Refuse(f'{w}: comparison of {ta}, {tb}')
        if isinstance(e, ast.UnaryOp) and isinstance(e.op, ast.Not):
            if isinstance(e.operand, ast.Name) and \
                    self.var(e.operand.id)[1] in ('fam', 'stack'):
                return f'(is_nil {self.var(e.operand.id)[0]})'
            return f'(negb {self.test(e.operand)})'
        a, ta = self.expr(e)
        if ta == 'bool':
            return a
        if ta in ('fam', 'stack'):       # truth value of a container
            return f'(negb (is_nil {a}))'
        raise Refuse(f'{w}: condition of type {ta}')

    # -------------------------------------------------------------- analysis
    def skipped(self, st):
        if isinstance(st, ast.Expr) and isinstance(st.value, ast.Constant) \
                and isinstance(st.value.value, str):
            return True
        if _src(st) in SKIP.get(self.name, {}):
            return True
        if isinstance(st, ast.Assert) and \
                _src(st.test) in ASSERT_SKIP.get(self.name, {}):
            return True
        return False

    @staticmethod
    def targets(t):
        if isinstance(t, ast.Name):
            return [t.id]
        if isinstance(t, ast.Tuple):
            return [n for x in t.elts for n in Fn.targets(x)]
        raise Refuse(f'assignment target {_src(t)}')

    @staticmethod
    def mutated(node):
        """Containers changed in place by method calls inside `node`."""
        out = []
        for n in ast.walk(node):
            if isinstance(n, ast.Call) and isinstance(n.func, ast.Attribute) \
                    and isinstance(n.func.value, ast.Name) \
                    and n.func.attr in ('add', 'update', 'append', 'pop'):
                out.append(n.func.value.id)
        return out

    def assigned(self, body):
        out = []
        for st in body:
            if self.skipped(st):
                continue
            out += self.mutated(st)
            if isinstance(st, ast.Assign):
                for t in st.targets:
                    out += self.targets(t)
            elif isinstance(st, ast.AugAssign):
                out += self.targets(st.target)
            elif isinstance(st, ast.If):
                out += self.assigned(st.body) + self.assigned(st.orelse)
            elif isinstance(st, ast.For):
                out += self.targets(st.target) + self.assigned(st.body)
            elif isinstance(st, ast.While):
                out += self.assigned(st.body)
        return out

    @staticmethod
    def reads(node):
        return {n.id for n in ast.walk(node)
                if isinstance(n, ast.Name) and isinstance(n.ctx, ast.Load)}

    def live_before_assigned(self, body, done):
        live = set()
        for st in body:
            if self.skipped(st):
                continue
            if isinstance(st, ast.Assign):
                live |= self.reads(st.value) - done
                for t in st.targets:
                    done |= set(self.targets(t))
            elif isinstance(st, ast.AugAssign):
                live |= (self.reads(st.value) | set(self.targets(st.target))) - done
            elif isinstance(st, ast.If):
                live |= self.reads(st.test) - done
                d1, d2 = set(done), set(done)
                live |= self.live_before_assigned(st.body, d1)
                live |= self.live_before_assigned(st.orelse, d2)
                done |= d1 & d2
            elif isinstance(st, ast.For):
                live |= self.reads(st.iter) - done
                d1 = set(done) | set(self.targets(st.target))
                live |= self.live_before_assigned(st.body, d1)
            else:
                live |= self.reads(st) - done
        return live

    # ---------------------------------------------------------------- stmts
    def flush(self, body):
        """Wrap the hoisted partial subexpressions around a term."""
        for nm, term in reversed(self.pending):
            body = (f'match {term} with\n| None => fail EAssert\n'
                    f'| Some {nm} =>\n{_indent(body)}\nend')
        self.pending = []
        return body

    def stmts(self, body, tail):
        if not body:
            if tail is None:
                raise Refuse(f'{self.name}: control reaches the end without return')
            return tail()
        st, rest = body[0], body[1:]
        src = _src(st)
        if self.skipped(st):
            return self.stmts(rest, tail)
        if isinstance(st, ast.Assert):
            key = _src(st.test)
            cond = self.test(st.test)
            if self.pending:
                raise Refuse(f'{self.name}: partial expression in an assertion')
            self.learn(st.test)
            return self.check(cond, self.stmts(rest, tail),
                              ASSERT_ERR.get((self.name, key)))
        if isinstance(st, ast.Return):
            if rest:
                raise Refuse(f'{self.name}: code after return')
            if st.value is None:
                raise Refuse(f'{self.name}: bare return')
            v, tv = self.expr(st.value)
            want = RET[self.name]
            if is_t(want, 'set'):
                v, tv = self.as_set(v, tv, f'{self.name}: return')
                unify(tv, want, f'{self.name}: return')
            elif tv != want:
                raise Refuse(f'{self.name}: return {_src(st.value)} : {tv}')
            return self.with_pending(lambda: self.ret(v))
        if isinstance(st, ast.Continue):
            if rest or not self.in_loop_kind or self.in_loop_kind[-1] != 'while':
                raise Refuse(f'{self.name}: continue')
            return self.loop_tail[-1]()
        if isinstance(st, (ast.While, ast.For)):
            return self.do_loop(st, rest, tail)
        if isinstance(st, ast.If):
            return self.do_if(st, rest, tail)
        if isinstance(st, ast.Expr) and isinstance(st.value, ast.Call):
            return self.do_call_stmt(st.value, rest, tail)
        if isinstance(st, ast.AugAssign) and isinstance(st.target, ast.Name):
            val = ast.BinOp(left=ast.Name(id=st.target.id, ctx=ast.Load()),
                            op=st.op, right=st.value)
            return self.do_assign(st.target, val, rest, tail)
        if isinstance(st, ast.Assign) and len(st.targets) == 1:
            return self.do_assign(st.targets[0], st.value, rest, tail)
        raise Refuse(f'{self.name}: statement `{src.splitlines()[0]}` is not '
                     'supported and not in the SKIP table')

    def learn(self, test):
        """Facts established by a translated assertion."""
        s = _src(test)
        m = re.fullmatch(r'(\w+) >= (\d+)', s)
        if m and m.group(1) in self.env and self.env[m.group(1)][1] == 'nat':
            nm = self.env[m.group(1)][0]
            self.lb[nm] = max(self.lb.get(nm, 0), int(m.group(2)))
        m = re.fullmatch(r'(\w+) != fol\.false', s)
        if m and m.group(1) in self.env and is_t(self.env[m.group(1)][1], 'set'):
            self.nonempty.add(self.env[m.group(1)][0])

    def do_call_stmt(self, call, rest, tail):
        f = _src(call.func)
        w = f'{self.name}: `{_src(call)}`'
        if f in CHECK_CALLS and not call.keywords:
            want, tmpl = CHECK_CALLS[f]
            if len(call.args) != len(want):
                raise Refuse(f'{w}: arguments')
            terms = []
            for a, t in zip(call.args, want):
                if t == 'ctx':
                    if _src(a) not in ('bab', 'prm', 'fol'):
                        raise Refuse(f'{w}: argument {_src(a)}')
                    continue
                v, tv = self.expr(a)
                if is_t(t, 'set'):
                    unify(tv, t, w)
                elif tv != t:
                    raise Refuse(f'{w}: argument {_src(a)} : {tv}')
                terms.append(v)
            return self.check(f'({tmpl.format(*terms)})', self.stmts(rest, tail))
        if isinstance(call.func, ast.Attribute) and \
                isinstance(call.func.value, ast.Name) and not call.keywords \
                and len(call.args) == 1:
            X = call.func.value.id
            x, tx = self.var(X)
            v, tv = self.expr(call.args[0])
            m = call.func.attr
            if m == 'add' and tx == 'fam' and is_t(tv, 'set'):
                new = f'(add_cover {v} {x})'
            elif m == 'update' and tx == 'fam' and tv == 'fam':
                new = f'(union_fam {x} {v})'
            elif m == 'append' and tx == 'stack' and is_t(tv, 'set'):
                new = f'({v} :: {x})'
            else:
                raise Refuse(f'{w}: method on {tx} with {tv}')
            nm = self.bind(X, tx)
            return self.with_pending(
                lambda: f'let {nm} := {new} in\n' + self.stmts(rest, tail))
        raise Refuse(f'{w}: call statement not in the table')

    def mcall(self, value):
        """(term, result type, stateful) of a call in the monad, or None."""
        if not isinstance(value, ast.Call):
            return None
        f = _src(value.func)
        w = f'{self.name}: `{_src(value)}`'
        args = value.args
        if f in LEAF_CALLS:
            want, gen, rty = LEAF_CALLS[f]
            if value.keywords or len(args) != len(want):
                raise Refuse(f'{w}: arguments')
            terms = []
            for a, t in zip(args, want):
                if t == 'ctx':
                    if _src(a) not in ('bab', 'prm', 'fol'):
                        raise Refuse(f'{w}: argument {_src(a)}')
                    continue
                v, tv = self.expr(a)
                if is_t(t, 'set'):
                    unify(tv, t, w)
                elif tv != t:
                    raise Refuse(f'{w}: argument {_src(a)} : {tv}, expected {t}')
                terms.append(v)
            return f'{gen} ' + ' '.join(terms), rty, False
        if f in ('_cyclic_core_fixpoint_recursive', '_traverse_exhaustive') \
                and self.stateful and len(args) == 5 and not value.keywords \
                and [_src(a) for a in args[3:]] == ['bab', 'fol']:
            x, tx = self.expr(args[0])
            y, ty = self.expr(args[1])
            pc, tpc = self.expr(args[2])
            unify(tx, SP, w), unify(ty, SP, w)
            if tpc != 'nat':
                raise Refuse(f'{w}: path cost : {tpc}')
            self.touch(self.ub)
            if self.name == 'minimize':
                if f != '_cyclic_core_fixpoint_recursive':
                    raise Refuse(f'{w}: call')
                head = 'cyclic_core_fixpoint_recursive_gen fuel'
            else:
                self.touch('rec')
                head = 'rec' if f == '_cyclic_core_fixpoint_recursive' \
                    else 'traverse_exh_gen pick rec'
            return f'{head} {x} {y} {pc} {self.ub}', 'fam', True
        return None

    def bind_call(self, target, mc, rest, tail):
        term, rty, st = mc
        if not isinstance(target, ast.Name):
            raise Refuse(f'{self.name}: target {_src(target)}')
        if self.pending:
            raise Refuse(f'{self.name}: partial expression in a call')
        nm = self.bind(target.id, rty)
        pat = nm
        if st:
            pat = f"'({nm}, {self.fresh_ub()})"
        return self.bind_m(term, pat, self.stmts(rest, tail))

    def with_pending(self, make):
        """Build the rest of the block, then wrap the partial subexpressions
        hoisted out of the current statement around it."""
        held, self.pending = self.pending, []
        body = make()
        self.pending = held
        return self.flush(body)

    def do_assign(self, target, value, rest, tail):
        src = _src(value)
        # bab.upper_bound = cov._upper_bound(x, y, prm.p_leq_q, prm.p_to_q, fol)
        if _src(target) == 'bab.upper_bound' and self.name == 'minimize' and \
                isinstance(value, ast.Call) and _src(value.func) == 'cov._upper_bound' \
                and len(value.args) == 5 and not value.keywords and \
                [_src(a) for a in value.args[2:]] == ['prm.p_leq_q', 'prm.p_to_q', 'fol']:
            x, tx = self.expr(value.args[0])
            y, ty = self.expr(value.args[1])
            c0 = self.fresh('c0')
            ub = self.fresh_ub()
            body = f'let {ub} := length {c0} in\n' + self.stmts(rest, tail)
            return (f'match some_cover pick (S (length {x})) {x} {y} with\n'
                    f'| None => fail EAssert\n| Some {c0} =>\n{_indent(body)}\nend')
        if not isinstance(target, (ast.Name, ast.Tuple)):
            raise Refuse(f'{self.name}: target {_src(target)}')
        mc = self.mcall(value)
        if mc is not None:
            return self.bind_call(target, mc, rest, tail)
        # X.pop()
        if isinstance(value, ast.Call) and isinstance(value.func, ast.Attribute) \
                and value.func.attr == 'pop' and not value.args and \
                not value.keywords and isinstance(value.func.value, ast.Name) \
                and isinstance(target, ast.Name):
            X = value.func.value.id
            x, tx = self.var(X)
            if tx not in ('fam', 'stack'):
                raise Refuse(f'{self.name}: pop of {tx}')
            top = self.bind(target.id, SP)
            restnm = self.bind(X, tx)
            return (f'match {x} with\n| [] => fail EAssert\n'
                    f'| {top} :: {restnm} =>\n'
                    f'{_indent(self.stmts(rest, tail))}\nend')
        if self.name == 'minimize' and src == _canon_expr('f | ~ care'):
            self.var('f'), self.var('care')
            self.setenv(target.id, None, 'fcare')
            return self.stmts(rest, tail)
        # simultaneous assignment
        if isinstance(target, ast.Tuple) and isinstance(value, ast.Tuple) \
                and len(target.elts) == len(value.elts) \
                and all(isinstance(t, ast.Name) for t in target.elts):
            vals = [self.expr(v) for v in value.elts]
            lets = ''
            for t, (v, tv), ve in zip(target.elts, vals, value.elts):
                lets += self.let(t.id, v, tv, ve)
            return self.with_pending(lambda: lets + self.stmts(rest, tail))
        if not isinstance(target, ast.Name):
            raise Refuse(f'{self.name}: target {_src(target)}')
        v, tv = self.expr(value)
        lets = self.let(target.id, v, tv, value)
        return self.with_pending(lambda: lets + self.stmts(rest, tail))

    def let(self, py, v, tv, value):
        if isinstance(value, ast.Name) and tv in ('fam', 'stack'):
            raise Refuse(f'{self.name}: alias of the container {value.id}')
        if v is None:
            self.setenv(py, None, tv)
            return ''
        if not valued(tv):
            raise Refuse(f'{self.name}: `{_src(value)}` : {tv}')
        # a name bound to a plain variable or a nth_error result needs no let
        nm = self.bind(py, tv)
        if tv == 'nat':
            self.lb[nm] = self.lower_bound(value)
        if v == '[]':
            return f'let {nm} : {coq_type(tv)} := [] in\n'
        return f'let {nm} := {v} in\n'

    def lower_bound(self, value):
        if isinstance(value, ast.Constant) and isinstance(value.value, int):
            return value.value
        if isinstance(value, ast.Name) and value.id in self.env:
            return self.lb.get(self.env[value.id][0], 0)
        if isinstance(value, ast.BinOp) and isinstance(value.op, ast.Add):
            return self.lower_bound(value.left) + self.lower_bound(value.right)
        return 0

    # ---- if
    def ends(self, body):
        return bool(body) and isinstance(body[-1], (ast.Return, ast.Continue))

    def snapshot(self):
        return (dict(self.env), list(self.order), self.ub, dict(self.lb),
                set(self.nonempty))

    def restore(self, s):
        self.env, self.order, self.ub = dict(s[0]), list(s[1]), s[2]
        self.lb, self.nonempty = dict(s[3]), set(s[4])

    def do_if(self, st, rest, tail):
        w = f'{self.name}: `if {_src(st.test)}`'
        # if C: v = CALL1  else: v = CALL2   (calls in the monad)
        if len(st.body) == 1 and len(st.orelse) == 1 and \
                all(isinstance(b, ast.Assign) and len(b.targets) == 1
                    and isinstance(b.targets[0], ast.Name)
                    for b in (st.body[0], st.orelse[0])) and \
                st.body[0].targets[0].id == st.orelse[0].targets[0].id:
            cond = self.test(st.test)
            m1 = self.mcall(st.body[0].value)
            m2 = self.mcall(st.orelse[0].value)
            if m1 and m2 and m1[1:] == m2[1:] and not self.pending:
                term = f'if {cond}\nthen {m1[0]}\nelse {m2[0]}'
                return self.bind_call(st.body[0].targets[0],
                                      (term, m1[1], m1[2]), rest, tail)
            raise Refuse(f'{w}: branches')
        cond = self.test(st.test)
        if self.pending:
            raise Refuse(f'{w}: partial expression in a test')
        if self.ends(st.body) and not st.orelse:
            snap = self.snapshot()
            then = self.stmts(st.body, None)
            self.restore(snap)
            els = self.stmts(rest, tail)
            return f'if {cond}\nthen {then}\nelse\n{_indent(els)}'
        raise Refuse(f'{w}: shape')

    # ---- loops
    def do_loop(self, st, rest, tail):
        if st.orelse:
            raise Refuse(f'{self.name}: loop with else')
        is_for = isinstance(st, ast.For)
        w = f'{self.name}: loop `{_src(st).splitlines()[0]}`'
        if is_for:
            if not isinstance(st.target, ast.Name):
                raise Refuse(f'{w}: target')
            it = st.iter
            if isinstance(it, ast.Call) and _src(it.func) == 'range' and \
                    len(it.args) == 2 and not it.keywords:
                a, ta = self.expr(it.args[0])
                b, tb = self.expr(it.args[1])
                if ta != 'nat' or tb != 'nat':
                    raise Refuse(f'{w}: range of {ta}, {tb}')
                items, ity, ety = f'(seq {a} ({b} - {a}))', 'list nat', 'nat'
            else:
                items, ti = self.expr(it)
                if ti == 'fam':
                    ity, ety = 'family', SP
                elif is_t(ti, 'elems'):
                    ity, ety = 'list box', ('single', ti[1])
                else:
                    raise Refuse(f'{w}: iteration over {ti}')
            if self.pending:
                raise Refuse(f'{w}: partial expression')
        assigned = set(self.assigned(st.body))
        done = {st.target.id} if is_for else set()
        live = self.live_before_assigned(st.body, done)
        if not is_for:
            live |= self.reads(st.test)
        for s in rest:
            live |= self.reads(s)
        if self.loop_live:
            live |= self.loop_live[-1]
        state = [v for v in self.order if v in assigned and v in live
                 and not (is_for and v == st.target.id)]
        for v in state:
            if self.env[v][0] is None:
                raise Refuse(f'{w}: loop variable {v} : {self.env[v][1]}')
        if not state:
            raise Refuse(f'{w}: no carried variables')
        dead = [v for v in assigned if v not in state]
        self.nloops += 1
        lname = GEN_NAME[self.name] + '_loop' + ('' if self.nloops == 1
                                                 else str(self.nloops))
        outer = self.snapshot()
        outer_used = set(self.used)
        entry = {v: self.env[v][1] for v in state}
        self.acc.append(set())
        self.in_loop_kind.append('for' if is_for else 'while')
        # what an enclosing loop needs after this one: its own state
        self.loop_live.append(set(live) | set(state))
        for _ in range(4):
            self.restore(outer)
            self.used = set(outer_used)
            self.acc[-1] = set()
            nloops0, nl = self.nloops, len(self.loops)
            for v in state:
                self.env[v] = (self.env[v][0], entry[v])
            if is_for:
                elem = self.bind(st.target.id, ety)
                tl = self.fresh('items_tl')
            else:
                cond = self.test(st.test)
            params_state = [self.env[v][0] for v in state]
            exit_types = {}

            def again():
                args = []
                for v in state:
                    t, ty = self.var(v)
                    if is_t(entry[v], 'set') and is_t(ty, 'single'):
                        t, ty = self.as_set(t, ty, w)
                    if is_t(entry[v], 'single') and is_t(ty, 'set'):
                        exit_types[v] = ty      # widen and try again
                    else:
                        exit_types[v] = unify(ty, entry[v],
                                              f'{w}: variable {v}')
                    args.append(t)
                if self.ub != outer[2]:
                    raise Refuse(f'{w}: bab.upper_bound changes in a loop')
                return '@CALL@ ' + ' '.join(args)
            self.loop_tail.append(again)
            body = self.stmts(st.body, again)
            self.loop_tail.pop()
            if exit_types == entry:
                break
            entry = exit_types
            # forget the inner loops emitted by this attempt
            self.nloops = nloops0
            del self.loops[nl:]
        else:
            raise Refuse(f'{w}: loop variable types do not settle')
        accessed = self.acc.pop()
        self.in_loop_kind.pop()
        self.loop_live.pop()
        for a in self.acc:
            a |= {n for n in accessed if n in outer_used}
        inv = []
        ctype = {}
        for v in outer[1]:
            t, ty = outer[0][v]
            if t is not None:
                ctype[t] = ty
        for nm in ctype:
            if nm in accessed and nm not in params_state and nm in outer_used:
                inv.append(nm)
        if 'rec' in accessed or any(n.startswith('ub') and n not in ctype
                                    for n in accessed if n in outer_used):
            raise Refuse(f'{w}: loop uses the recursion or the upper bound')
        sig = ''.join(f' ({nm} : {coq_type(ctype[nm])})' for nm in inv)
        sig += ''.join(f' ({nm} : {coq_type(entry[v])})'
                       for nm, v in zip(params_state, state))
        rty = ' * '.join(coq_type(entry[v]) for v in state)
        tup = params_state[0] if len(state) == 1 \
            else '(' + ', '.join(params_state) + ')'
        if is_for:
            call = f'{lname} {tl}' + ''.join(f' {n}' for n in inv)
            body = body.replace('@CALL@', call)
            text = (f'Fixpoint {lname} (items_ : {ity}){sig} {{struct items_}}\n'
                    f'  : res ({rty}) :=\n'
                    f'  match items_ with\n  | [] => ok {tup}\n'
                    f'  | {elem} :: {tl} =>\n{_indent(body, 6)}\n  end.')
            start = f'{lname} {items}'
        else:
            call = f'{lname} fuel_' + ''.join(f' {n}' for n in inv)
            body = body.replace('@CALL@', call)
            text = (f'Fixpoint {lname} (fuel : nat){sig} {{struct fuel}}\n'
                    f'  : res ({rty}) :=\n'
                    f'  match fuel with\n  | O => fail EFuel\n  | S fuel_ =>\n'
                    f'      if {cond}\n      then\n{_indent(body, 8)}\n'
                    f'      else ok {tup}\n  end.')
            start = f'{lname} fuel'
            if self.in_loop_kind:
                raise Refuse(f'{w}: while loop inside a loop')
        self.loops.append(text)
        self.restore(outer)
        self.used = set(outer_used)
        start += ''.join(f' {n}' for n in inv)
        for v in state:
            t, ty = self.var(v)
            if is_t(entry[v], 'set') and is_t(ty, 'single'):
                t, ty = self.as_set(t, ty, w)
            start += f' {t}'
        for n in inv:
            self.touch(n)
        for v in dead:
            if v in self.env:
                del self.env[v]
                self.order.remove(v)
        new = [self.bind(v, entry[v]) for v in state]
        pat = new[0] if len(new) == 1 else "'(" + ', '.join(new) + ')'
        return self.bind_m(start, pat, self.stmts(rest, tail))

    loop_tail = None
    loop_live = None


# ------------------------------------------------------------------- driver
def _normalised(node):
    class Strip(ast.NodeTransformer):
        def visit_Expr(self, n):
            if isinstance(n.value, ast.Constant) and isinstance(n.value.value, str):
                return None
            return n
    return Strip().visit(copy.deepcopy(node))


def _check_pinned(tree):
    for name, (meaning, text) in PINNED.items():
        got = ast.dump(_normalised(_function(tree, name)))
        if got != ast.dump(ast.parse(text).body[0]):
            raise Refuse(f'{name}: the source differs from the text pinned in '
                         'tools/vlib/cover_enumgen.py (PINNED); its meaning '
                         f'({meaning}) is tied to that exact text')


LEAVES = ['_lm_tail', '_below_and_suff', '_y_unfloor',
          '_enumerate_mincovers_below', '_enumerate_mincovers_unfloor']
UPPER = ['_mincovers_from_floor', '_mincovers_from_unfloor',
         '_cyclic_core_fixpoint_recursive', 'minimize']


def translate_one(tree, name):
    node = _function(tree, name)
    if _src(node.args) != PARAMS[name]:
        raise Refuse(f'{name}: parameters `{_src(node.args)}`')
    fn = Fn(name, node)
    fn.loop_tail, fn.loop_live = [], []
    sig = ''
    if name in NEEDS_FUEL:
        fn.used.add('fuel')
        sig += ' (fuel : nat)'
    for a in node.args.args:
        ty = PARAM_TYPES[name][a.arg]
        if valued(ty):
            fn.used.add(a.arg)
            fn.setenv(a.arg, a.arg, ty)
            sig += f' ({a.arg} : {coq_type(ty)})'
        else:
            fn.setenv(a.arg, None, ty)
    if name == '_cyclic_core_fixpoint_recursive':
        fn.used |= {'ub', 'rec'}
        sig += ' (ub : nat)'
    rty = coq_type(RET[name])
    if name == '_cyclic_core_fixpoint_recursive':
        rty = f'({rty} * nat)'
    body = fn.stmts(node.body, None)
    g = GEN_NAME[name] + '_gen'
    if name in RECURSIVE:
        text = (f'Fixpoint {g}{sig} {{struct fuel}}\n  : res {rty} :=\n'
                f'  match fuel with\n  | O => fail EFuel\n  | S fuel_ =>\n'
                f'      let rec := {g} fuel_ in\n{_indent(body, 6)}\n  end.')
    else:
        text = f'Definition {g}{sig}\n  : res ({rty}) :=\n{_indent(body)}.'
    return fn.loops + [text]


def translate(path):
    with open(path) as fh:
        tree = ast.parse(fh.read())
    _check_pinned(tree)
    out = []
    for name in LEAVES:
        out += translate_one(tree, name)
    out.append(
        '(* the functions above the two enumerations, abstracted over them *)\n'
        'Section Upper.\n'
        'Variable enum_below : list box -> list box -> list box -> res family.\n'
        'Variable enum_unfloor : list box -> list box -> res family.')
    for name in UPPER:
        out += translate_one(tree, name)
    out.append(
        'End Upper.\n\n'
        '(* the code: the functions above applied to the translated '
        'enumerations *)\n'
        'Definition enum_minimize_code (fuel fuel_enum : nat) '
        '(f care : point -> bool)\n  : res family :=\n'
        '  enum_minimize_gen (enumerate_mincovers_below_gen fuel_enum)\n'
        '    (enumerate_mincovers_unfloor_gen fuel_enum) fuel f care.')
    return '\n\n'.join(out)


HEADER = '''(* GENERATED by tools/vlib/cover_enumgen.py from omega/symbolic/cover_enum.py
   in the working tree of /repo.  Do not edit; regenerated on every check
   run. *)
From Coq Require Import List ZArith Bool Arith.
Import ListNotations.
From Omega Require Import L5Cover.Boxes L5Cover.MinCover L5Cover.CoverEnum.
From OmegaGen Require Import CoverBBGen.

Section Gen.
Variable rs : ranges.
Variable pick : list box -> option box.

'''
FOOTER = '\n\nEnd Gen.\n'


def enum_text(repo):
    path = os.path.join(repo, 'omega/symbolic/cover_enum.py')
    return HEADER + translate(path) + FOOTER


def ensure(ctx):
    """Tie T for cover_enum.py around the branch-and-bound skeleton (C10
    plug-in; after cover_bbgen.ensure, whose output it imports)."""
    from vlib.core import Broken, REPO
    try:
        text = enum_text(REPO)
    except Refuse as e:
        raise Broken('translator', f'omega/symbolic/cover_enum.py: {e}')
    except SyntaxError as e:
        raise Broken('translator', f'omega/symbolic/cover_enum.py: {e}')
    ctx.write_gen('gen/CoverEnumCCGen.v', text)
    ctx.prove('GenProofs/CoverEnumCCBridge.v', timeout=600)


TRUSTED = (
    'tie T (cover_enum.py around the skeleton): minimize, '
    '_cyclic_core_fixpoint_recursive, _mincovers_from_floor, '
    '_mincovers_from_unfloor, _enumerate_mincovers_below, '
    '_enumerate_mincovers_unfloor, _below_and_suff, _y_unfloor and _lm_tail '
    'are translated on every run by tools/vlib/cover_enumgen.py into '
    'gen/CoverEnumCCGen.v in the error monad of the hand model (assert = '
    'check) and GenProofs/CoverEnumCCBridge.v proves them equal to '
    'CoverEnum.enum_minimize / ccfr / from_floor / from_unfloor / '
    'below_and_suff / those_over and, for the two worklist loops, to a '
    'worklist over the model\'s one-level functions below_expand / '
    'unfloor step, which returns the same covers (as sets) whenever the '
    'model\'s level-by-level enumeration returns.  Trusted as stated: the fixed table of dd operations '
    'and Python containers (set = family, list used as stack); '
    '_assert_are_covers, _assert_covers_from, _assert_uniform_cardinality '
    'and _pick_iter_as_bdd are tied to are_covers / covers_from / uniform / '
    'list of elements by their pinned source text; statements that log, '
    'declare the lattice or re-check what the model proves are skipped by '
    'exact text with a recorded justification')


if __name__ == '__main__':
    import sys
    print(enum_text(sys.argv[1] if len(sys.argv) > 1 else '/repo'))
