(* L5Cover / ListExprTotal: when the model of the printer returns.

   list_expr / dumps_cover return None exactly when _check_type_hint or
   _clip_subrange raise.  They return for every list of non-empty boxes of the
   right length and, when the boxes are clipped to the type hints (use_dom),
   non-empty hints that every box meets. *)
From Coq Require Import List ZArith Bool Lia Arith Permutation.
Import ListNotations.
From Omega Require Import L5Cover.Boxes L5Cover.ListExpr L5Cover.ListExprProofs.
Open Scope Z_scope.

(* the interval is not empty *)
Definition proper (i : ival) : Prop := fst i <= snd i.
(* the two intervals have a common point *)
Definition meets (i d : ival) : Prop := fst i <= snd d /\ fst d <= snd i.

(* what a box must satisfy for its conjunction to be printed *)
Definition printable (use_dom : bool) (doms : list ival) (b : box) : Prop :=
  length b = length doms /\ Forall proper b /\
  (use_dom = true -> Forall proper doms /\ Forall2 meets b doms).

Lemma box_atoms_total use_dom : forall b i doms,
  printable use_dom doms b -> exists c, box_atoms use_dom i doms b = Some c.
Proof.
  induction b as [|ab b IH]; intros i doms (Hl & Hp & Hd).
  - eexists. reflexivity.
  - destruct doms as [|d doms]; [discriminate|]. cbn [box_atoms].
    inversion Hp as [|? ? Hab Hp']; subst. unfold proper in Hab.
    destruct (Z.ltb_spec (snd ab) (fst ab)); [lia|].
    destruct (IH (S i) doms) as [c Hc].
    { split; [cbn in Hl; lia|]. split; [exact Hp'|]. intros U.
      destruct (Hd U) as [Hdp Hm]. inversion Hdp; inversion Hm; subst. auto. }
    rewrite Hc. destruct use_dom; [|eexists; reflexivity].
    destruct (Hd eq_refl) as [Hdp Hm]. inversion Hdp as [|? ? Hdd _]; subst.
    inversion Hm as [|? ? ? ? [M1 M2] _]; subst. unfold proper in Hdd.
    destruct ab as [a b0], d as [u v]. cbn [fst snd] in *.
    destruct (clip_subrange_total a b0 u v) as [[r|] ->]; try lia;
      eexists; reflexivity.
Qed.

Theorem list_expr_total (use_dom : bool) (doms : list ival) : forall K : list box,
  Forall (printable use_dom doms) K ->
  exists ds, list_expr use_dom doms K = Some ds.
Proof.
  induction K as [|b K IH]; intros H; [eexists; reflexivity|].
  inversion H as [|? ? Hb HK]; subst. cbn [list_expr].
  destruct (box_atoms_total use_dom b 0%nat doms Hb) as [c Hc]. rewrite Hc.
  destruct (IH HK) as [ds Hds]. rewrite Hds. eexists. reflexivity.
Qed.

Theorem dumps_cover_total limits doms care care_is_true (show_dom : bool) show_limits K :
  Forall (printable (if show_dom then care_implies_hints limits doms care
                     else false) doms) K ->
  exists e, dumps_cover limits doms care care_is_true show_dom show_limits K
            = Some e.
Proof.
  intros H. unfold dumps_cover.
  destruct (list_expr_total _ doms K H) as [ds Hds]. rewrite Hds. eexists. reflexivity.
Qed.

(* printability does not depend on the order of the boxes *)
Lemma printable_perm use_dom doms K K' :
  Permutation K K' ->
  Forall (printable use_dom doms) K -> Forall (printable use_dom doms) K'.
Proof.
  intros P H. apply Forall_forall. intros b Hb. rewrite Forall_forall in H.
  apply H. apply (Permutation_in _ (Permutation_sym P) Hb).
Qed.
