(* L6Past / PastProofs: the testers produced by the (repaired) translation
   have exactly one solution along every sequence and under it the translated
   formula has the truth value of the original at every position. *)
From Coq Require Import String Ascii List Bool NArith Arith Lia.
From Coq Require Import DecimalString DecimalN.
Import ListNotations.
From Omega Require Import L6Past.PastSyntax L6Past.PastModel.
Open Scope string_scope.

(* ======================================================== generated names *)
Lemma length_append : forall a b, String.length (a ++ b) = String.length a + String.length b.
Proof. induction a; simpl; intros; auto. Qed.

Lemma append_inj_r : forall a b s, a ++ s = b ++ s -> a = b.
Proof.
  induction a as [|c a IH]; destruct b as [|d b]; simpl; intros s H; auto.
  - apply (f_equal String.length) in H. simpl in H. rewrite length_append in H. lia.
  - apply (f_equal String.length) in H. simpl in H. rewrite length_append in H. lia.
  - injection H as -> H. f_equal. eauto.
Qed.

Lemma prev_name_inj : forall u v, prev_name u = prev_name v -> u = v.
Proof. unfold prev_name. intros. eapply append_inj_r; eauto. Qed.

Lemma aux_name_inj : forall i j, aux_name i = aux_name j -> i = j.
Proof.
  unfold aux_name. simpl. intros i j H. injection H as H.
  apply (f_equal NilEmpty.uint_of_string) in H.
  rewrite !NilEmpty.usu in H. injection H as H.
  apply (f_equal N.of_uint) in H. now rewrite !Unsigned.of_to in H.
Qed.

Fixpoint has_p (s : string) : bool :=
  match s with
  | EmptyString => false
  | String c s' => Ascii.eqb c "p" || has_p s'
  end.

Lemma has_p_prev : forall v, has_p (prev_name v) = true.
Proof.
  unfold prev_name. induction v; simpl.
  - reflexivity.
  - rewrite IHv. apply orb_true_r.
Qed.

Lemma has_p_uint : forall d, has_p (NilEmpty.string_of_uint d) = false.
Proof. induction d; simpl; auto. Qed.

Lemma has_p_aux : forall i, has_p (aux_name i) = false.
Proof. intros. unfold aux_name. simpl. apply has_p_uint. Qed.

Lemma aux_not_prev : forall i v, aux_name i <> prev_name v.
Proof.
  intros i v H. apply (f_equal has_p) in H.
  rewrite has_p_aux, has_p_prev in H. discriminate.
Qed.

(* ====================================================== tform_eqb is sound *)
Lemma binop_eqb_eq : forall a b, binop_eqb a b = true -> a = b.
Proof. destruct a, b; simpl; congruence. Qed.

Lemma tform_eqb_eq : forall a b, tform_eqb a b = true -> a = b.
Proof.
  induction a; intros [] H; simpl in H; try discriminate;
    repeat (apply andb_prop in H; destruct H as [H ?]);
    f_equal; auto using binop_eqb_eq.
  - now apply String.eqb_eq.
  - now apply String.eqb_eq.
  - now apply eqb_prop.
Qed.

(* ============================================================ find / upd *)
Lemma find_some : forall k T t, find k T = Some t -> In t T /\ t_name t = k.
Proof.
  induction T as [|u T IH]; simpl; intros t H; [discriminate|].
  destruct (String.eqb (t_name u) k) eqn:E.
  - injection H as <-. apply String.eqb_eq in E. auto.
  - destruct (IH _ H). auto.
Qed.

Lemma find_none : forall k T, find k T = None -> ~ In k (map t_name T).
Proof.
  induction T as [|u T IH]; simpl; intros H; [tauto|].
  destruct (String.eqb (t_name u) k) eqn:E; [discriminate|].
  apply String.eqb_neq in E. intros [?|?]; [congruence|]. now apply IH.
Qed.

Lemma find_none_iff : forall k T, ~ In k (map t_name T) -> find k T = None.
Proof.
  induction T as [|u T IH]; simpl; intros H; auto.
  destruct (String.eqb (t_name u) k) eqn:E.
  - apply String.eqb_eq in E. tauto.
  - apply IH. tauto.
Qed.

Lemma find_in_nodup : forall T t,
  NoDup (map t_name T) -> In t T -> find (t_name t) T = Some t.
Proof.
  induction T as [|u T IH]; simpl; intros t ND H; [tauto|].
  inversion ND as [|? ? Hn ND']; subst.
  destruct H as [->|H].
  - now rewrite String.eqb_refl.
  - destruct (String.eqb (t_name u) (t_name t)) eqn:E.
    + apply String.eqb_eq in E. exfalso. apply Hn. rewrite E. now apply in_map.
    + auto.
Qed.

Lemma upd_same : forall t T, find (t_name t) T = Some t -> upd t T = T.
Proof.
  induction T as [|u T IH]; simpl; intros H; [discriminate|].
  destruct (String.eqb (t_name u) (t_name t)) eqn:E.
  - now injection H as ->.
  - f_equal. auto.
Qed.

Lemma upd_fresh : forall t T, find (t_name t) T = None -> upd t T = (T ++ [t])%list.
Proof.
  induction T as [|u T IH]; simpl; intros H; auto.
  destruct (String.eqb (t_name u) (t_name t)) eqn:E; [discriminate|].
  f_equal. auto.
Qed.

Lemma len_snoc : forall T (t : tester), len (T ++ [t])%list = (len T + 1)%N.
Proof. intros. unfold len. rewrite app_length. simpl. lia. Qed.

(* =========================================================== well-formedness
   Every entry is either the history variable of a user variable, with the
   content determined by (variable, strength), or an `_aux` entry whose index
   is below the current length of the dict. *)
Definition var_tester (s : bool) (v : string) : tester :=
  prev_tester s (prev_name v) (TVar v) (Fprev s (FVar v)).

Definition prev_entry (t : tester) : Prop := exists v s, t = var_tester s v.
Definition aux_entry (n : N) (t : tester) : Prop :=
  exists i, t_name t = aux_name i /\ (i < n)%N.

Definition wf (T : list tester) : Prop :=
  NoDup (map t_name T) /\
  forall t, In t T -> prev_entry t \/ aux_entry (len T) t.

Lemma wf_nil : wf [].
Proof. split; [constructor|]. simpl. tauto. Qed.

Lemma aux_fresh : forall T, wf T -> find (aux_name (len T)) T = None.
Proof.
  intros T [_ H]. apply find_none_iff. intros Hin.
  apply in_map_iff in Hin. destruct Hin as [t [Hn Ht]].
  destruct (H _ Ht) as [[v [s ->]]|[i [Hi Hlt]]].
  - simpl in Hn. symmetry in Hn. now apply aux_not_prev in Hn.
  - rewrite Hi in Hn. apply aux_name_inj in Hn. lia.
Qed.

Lemma NoDup_app_snoc : forall (A : Type) (l : list A) (x : A),
  NoDup l -> ~ In x l -> NoDup (l ++ [x])%list.
Proof.
  induction l as [|a l IH]; simpl; intros x ND Hx.
  - constructor; [tauto|constructor].
  - inversion ND; subst. constructor.
    + intros Hin. apply in_app_or in Hin. destruct Hin as [?|[?|[]]]; [tauto|subst; tauto].
    + apply IH; tauto.
Qed.

Lemma wf_snoc : forall T t,
  wf T -> ~ In (t_name t) (map t_name T) ->
  prev_entry t \/ t_name t = aux_name (len T) ->
  wf (T ++ [t])%list.
Proof.
  intros T t [ND H] Hfresh Ht. split.
  - rewrite map_app. simpl. apply NoDup_app_snoc; auto.
  - intros u Hu. rewrite len_snoc. apply in_app_or in Hu. destruct Hu as [Hu|[<-|[]]].
    + destruct (H _ Hu) as [?|[i [? ?]]]; auto. right. exists i. split; auto. lia.
    + destruct Ht as [?|Ht]; auto. right. exists (len T). split; auto. lia.
Qed.

Lemma share_same : forall T s v t0,
  wf T -> find (prev_name v) T = Some t0 ->
  tform_eqb (t_init t0) (prev_init s (prev_name v)) = true ->
  t0 = var_tester s v.
Proof.
  intros T s v t0 [_ H] Hf He. apply find_some in Hf. destruct Hf as [Hin Hn].
  apply tform_eqb_eq in He.
  destruct (H _ Hin) as [[v' [s' ->]]|[i [Hi _]]].
  - simpl in Hn. apply prev_name_inj in Hn. subst v'.
    simpl in He. destruct s, s'; simpl in He; try discriminate; reflexivity.
  - rewrite Hi in Hn. now apply aux_not_prev in Hn.
Qed.

(* =============================================================== semantics *)
Lemma state_evalA : forall f cur nxt,
  state_formula f = true -> evalA cur nxt f = evalA cur cur f.
Proof.
  induction f; simpl; intros cur nxt H; try discriminate; auto.
  - now rewrite IHf.
  - apply andb_prop in H. destruct H. now rewrite IHf1, IHf2.
  - apply andb_prop in H. destruct H as [H ?]. apply andb_prop in H. destruct H.
    now rewrite IHf1, IHf2, IHf3.
Qed.

Lemma sem_since_0 : forall f g rho, sem (FSince f g) rho 0 = sem g rho 0.
Proof. reflexivity. Qed.
Lemma sem_since_S : forall f g rho i,
  sem (FSince f g) rho (S i) =
  sem g rho (S i) || (sem f rho (S i) && sem (FSince f g) rho i).
Proof. reflexivity. Qed.

Lemma sem_hist_S : forall f rho i,
  sem (FHist f) rho (S i) = sem f rho (S i) && sem (FHist f) rho i.
Proof. reflexivity. Qed.
Lemma sem_once_S : forall f rho i,
  sem (FOnce f) rho (S i) = sem f rho (S i) || sem (FOnce f) rho i.
Proof. reflexivity. Qed.

Lemma sem_hist_since : forall f rho i,
  sem (FHist f) rho i = negb (sem (FSince (FConst true) (FNot f)) rho i).
Proof.
  intros f rho. induction i.
  - simpl. now rewrite negb_involutive.
  - rewrite sem_since_S. simpl sem at 2 3. rewrite <- (negb_involutive (sem (FSince _ _) rho i)).
    rewrite <- IHi. simpl. destruct (sem f rho (S i)); simpl; auto.
    now rewrite negb_involutive.
Qed.

Lemma sem_once_since : forall f rho i,
  sem (FOnce f) rho i = sem (FSince (FConst true) f) rho i.
Proof.
  intros f rho. induction i.
  - reflexivity.
  - rewrite sem_since_S. rewrite <- IHi. reflexivity.
Qed.

(* the value of a formula depends only on its variables, up to position i *)
Lemma sem_ext : forall f r1 r2,
  (forall j v, In v (vars f) -> r1 j v = r2 j v) ->
  forall i, sem f r1 i = sem f r2 i.
Proof.
  induction f; simpl vars; intros r1 r2 H; try (intros; reflexivity).
  - intros. simpl. apply H. simpl. auto.
  - intros. simpl. apply H. simpl. auto.
  - intros. simpl. now rewrite (IHf r1 r2 H).
  - intros. simpl. rewrite (IHf1 r1 r2), (IHf2 r1 r2); auto;
      intros; apply H; apply in_or_app; auto.
  - intros. simpl. rewrite (IHf1 r1 r2), (IHf2 r1 r2), (IHf3 r1 r2); auto;
      intros; apply H; apply in_or_app; auto; right; apply in_or_app; auto.
  - intros [|i]; simpl; auto.
  - intros [|i]; simpl; auto.
  - induction i; [simpl; now apply IHf|].
    rewrite !sem_hist_S. now rewrite (IHf r1 r2 H), IHi.
  - induction i; [simpl; now apply IHf|].
    rewrite !sem_once_S. now rewrite (IHf r1 r2 H), IHi.
  - assert (H1 : forall i, sem f1 r1 i = sem f1 r2 i)
      by (apply IHf1; intros; apply H; apply in_or_app; auto).
    assert (H2 : forall i, sem f2 r1 i = sem f2 r2 i)
      by (apply IHf2; intros; apply H; apply in_or_app; auto).
    induction i.
    + simpl. apply H2.
    + rewrite !sem_since_S. now rewrite H1, H2, IHi.
Qed.

(* ------------------------------------------------ sequences and solutions *)
Definition tracksP (rho : nat -> env) (n : nat) (T : list tester) : Prop :=
  forall t, In t T -> forall i, i < n ->
    rho i (t_name t) = sem (t_tracks t) rho i.

Definition sat1 (rho : nat -> env) (n : nat) (t : tester) : Prop :=
  (0 < n -> eval (rho 0) (t_init t) = true) /\
  (forall i, S i < n -> evalA (rho i) (rho (S i)) (t_trans t) = true).

Definition satP (rho : nat -> env) (n : nat) (T : list tester) : Prop :=
  forall t, In t T -> sat1 rho n t.

Lemma tracksP_app : forall rho n T E,
  tracksP rho n (T ++ E)%list <-> tracksP rho n T /\ tracksP rho n E.
Proof.
  unfold tracksP. intros. split.
  - intros H. split; intros; apply H; auto; apply in_or_app; auto.
  - intros [H1 H2] t Ht. apply in_app_or in Ht. destruct Ht; auto.
Qed.

Lemma satP_app : forall rho n T E,
  satP rho n (T ++ E)%list <-> satP rho n T /\ satP rho n E.
Proof.
  unfold satP. intros. split.
  - intros H. split; intros; apply H; auto; apply in_or_app; auto.
  - intros [H1 H2] t Ht. apply in_app_or in Ht. destruct Ht; auto.
Qed.

(* ---- one tester for "previous" ---- *)
Lemma prev_sound : forall rho n s name e x,
  state_formula e = true ->
  (forall i, i < n -> eval (rho i) e = sem x rho i) ->
  (forall i, i < n -> rho i name = sem (Fprev s x) rho i) ->
  sat1 rho n (prev_tester s name e (Fprev s x)).
Proof.
  intros rho n s name e x Hs He Hn. split; simpl.
  - intros H0. unfold eval. destruct s; simpl; rewrite (Hn 0 H0); reflexivity.
  - intros i Hi. rewrite (state_evalA e), (Hn (S i) Hi); auto.
    fold (eval (rho i) e). rewrite He by lia.
    destruct s; simpl; apply eqb_reflx.
Qed.

Lemma prev_unique : forall rho n s name e x,
  state_formula e = true ->
  (forall i, i < n -> eval (rho i) e = sem x rho i) ->
  sat1 rho n (prev_tester s name e (Fprev s x)) ->
  forall i, i < n -> rho i name = sem (Fprev s x) rho i.
Proof.
  intros rho n s name e x Hs He [H0 Ht] [|i] Hi.
  - specialize (H0 Hi). unfold eval in H0. destruct s; simpl in *.
    + now apply negb_true_iff in H0.
    + exact H0.
  - specialize (Ht i Hi). simpl in Ht. rewrite (state_evalA e) in Ht; auto.
    fold (eval (rho i) e) in Ht. rewrite He in Ht by lia.
    apply eqb_prop in Ht. destruct s; simpl; exact Ht.
Qed.

(* ---- one tester for "since" ---- *)
Lemma since_sound : forall rho n name p q f g,
  (forall i, i < n -> eval (rho i) p = sem f rho i) ->
  (forall i, i < n -> eval (rho i) q = sem g rho i) ->
  (forall i, i < n -> rho i name = sem (FSince f g) rho i) ->
  sat1 rho n (since_tester name p q (FSince f g)).
Proof.
  intros rho n name p q f g Hp Hq Hn. split; simpl.
  - intros H0. unfold eval. simpl. fold (eval (rho 0) q).
    rewrite (Hn 0 H0), (Hq 0 H0), sem_since_0. apply eqb_reflx.
  - intros i Hi. fold (eval (rho (S i)) q). fold (eval (rho (S i)) p).
    rewrite (Hn (S i) Hi), (Hq (S i) Hi), (Hp (S i) Hi), (Hn i) by lia.
    rewrite sem_since_S. apply eqb_reflx.
Qed.

Lemma since_unique : forall rho n name p q f g,
  (forall i, i < n -> eval (rho i) p = sem f rho i) ->
  (forall i, i < n -> eval (rho i) q = sem g rho i) ->
  sat1 rho n (since_tester name p q (FSince f g)) ->
  forall i, i < n -> rho i name = sem (FSince f g) rho i.
Proof.
  intros rho n name p q f g Hp Hq [H0 Ht]. induction i; intros Hi.
  - specialize (H0 Hi). unfold eval in H0. simpl in H0. fold (eval (rho 0) q) in H0.
    rewrite (Hq 0 Hi) in H0. apply eqb_prop in H0. now rewrite sem_since_0.
  - specialize (Ht i Hi). simpl in Ht.
    fold (eval (rho (S i)) q) in Ht. fold (eval (rho (S i)) p) in Ht.
    rewrite (Hq (S i) Hi), (Hp (S i) Hi), IHi in Ht by lia.
    apply eqb_prop in Ht. now rewrite sem_since_S.
Qed.

(* =========================================================== specification
   sspec: what a run of the flattener does to the dict; fspec: what the
   returned formula means. *)
Definition sspec (V : list string) (T T' : list tester) : Prop :=
  wf T' /\
  (exists E, T' = (T ++ E)%list /\
             forall t, In t E -> incl (vars (t_tracks t)) V) /\
  (forall rho n, tracksP rho n T' -> satP rho n T -> satP rho n T') /\
  (forall rho n, satP rho n T' -> tracksP rho n T -> tracksP rho n T').

Definition fspec (f : form) (r : tform) (T' : list tester) : Prop :=
  state_formula r = true /\
  forall rho n, tracksP rho n T' ->
    forall i, i < n -> eval (rho i) r = sem f rho i.

Lemma sspec_refl : forall V T, wf T -> sspec V T T.
Proof.
  intros V T H. split; [auto|]. split; [|split; auto].
  exists []. rewrite app_nil_r. split; auto. simpl. tauto.
Qed.

Lemma sspec_trans : forall V T T1 T2,
  sspec V T T1 -> sspec V T1 T2 -> sspec V T T2.
Proof.
  intros V T T1 T2 (W1 & (E1 & -> & V1) & S1 & U1) (W2 & (E2 & -> & V2) & S2 & U2).
  split; [auto|]. split; [|split].
  - exists (E1 ++ E2)%list. rewrite app_assoc. split; auto.
    intros t Ht. apply in_app_or in Ht. destruct Ht; auto.
  - intros rho n Htr Hs. apply S2; auto. apply S1; auto.
    apply tracksP_app in Htr. tauto.
  - intros rho n Hs Htr. apply U2; auto. apply U1; auto.
    apply satP_app in Hs. tauto.
Qed.

Lemma sspec_mono : forall V V' T T', incl V V' -> sspec V T T' -> sspec V' T T'.
Proof.
  intros V V' T T' Hi (W & (E & -> & HV) & S & U).
  split; [auto|]. split; [|split; auto].
  exists E. split; auto. intros t Ht. eapply incl_tran; eauto.
Qed.

Lemma sspec_snoc : forall V T t,
  wf T -> wf (T ++ [t])%list -> incl (vars (t_tracks t)) V ->
  (forall rho n, tracksP rho n (T ++ [t])%list -> sat1 rho n t) ->
  (forall rho n, sat1 rho n t -> tracksP rho n T ->
     forall i, i < n -> rho i (t_name t) = sem (t_tracks t) rho i) ->
  sspec V T (T ++ [t])%list.
Proof.
  intros V T t W W' HV Hs Hu. split; [auto|]. split; [|split].
  - exists [t]. split; auto. intros u [<-|[]]. auto.
  - intros rho n Htr Hsat. apply satP_app. split; auto.
    intros u [<-|[]]. auto.
  - intros rho n Hsat Htr. apply tracksP_app. split; auto.
    intros u [<-|[]]. apply Hu; auto. apply Hsat. apply in_or_app. simpl. auto.
Qed.

Lemma fspec_mono : forall f r T E, fspec f r T -> fspec f r (T ++ E)%list.
Proof.
  intros f r T E [Hs H]. split; auto. intros rho n Htr. apply H.
  apply tracksP_app in Htr. tauto.
Qed.

Lemma fspec_sspec : forall f r V T T',
  fspec f r T -> sspec V T T' -> fspec f r T'.
Proof. intros f r V T T' H (_ & (E & -> & _) & _). now apply fspec_mono. Qed.

(* a tester entry already present in the dict *)
Lemma fspec_entry : forall t T,
  In t T -> fspec (t_tracks t) (TVar (t_name t)) T.
Proof.
  intros t T Hin. split; auto. intros rho n Htr i Hi.
  unfold eval. simpl. apply Htr; auto.
Qed.

(* ---- creation of an `_aux` tester for "previous" ---- *)
Lemma prev_aux_spec : forall s x e T1,
  wf T1 -> fspec x e T1 ->
  let name := aux_name (len T1) in
  let t := prev_tester s name e (Fprev s x) in
  upd t T1 = (T1 ++ [t])%list /\
  sspec (vars x) T1 (T1 ++ [t])%list /\
  fspec (Fprev s x) (TVar name) (T1 ++ [t])%list.
Proof.
  intros s x e T1 W [Hst He] name t.
  assert (Hf : find (t_name t) T1 = None) by (apply aux_fresh; auto).
  split; [now apply upd_fresh|].
  assert (W' : wf (T1 ++ [t])%list).
  { apply wf_snoc; auto. now apply find_none. }
  split.
  - apply sspec_snoc; auto.
    + destruct s; simpl; apply incl_refl.
    + intros rho n Htr. apply tracksP_app in Htr. destruct Htr as [H1 H2].
      apply prev_sound;
        [exact Hst | intros i Hi; apply (He rho n); auto
         | intros i Hi; apply (H2 t); simpl; auto].
    + intros rho n Hsat Htr. apply (prev_unique rho n s name e x); auto.
      intros i Hi. apply (He rho n); auto.
  - apply (fspec_entry t). apply in_or_app. simpl. auto.
Qed.

(* ---- creation of an `_aux` tester for "since" ---- *)
Lemma since_case_spec : forall p q f g T r T',
  wf T -> fspec f p T -> fspec g q T ->
  since_case p q (FSince f g) T = (r, T') ->
  sspec (vars f ++ vars g) T T' /\ fspec (FSince f g) r T'.
Proof.
  intros p q f g T r T' W [Hsp Hp] [Hsq Hq] H. unfold since_case in H.
  set (name := aux_name (len T)) in *.
  set (t := since_tester name p q (FSince f g)) in *.
  assert (Hf : find (t_name t) T = None) by (apply aux_fresh; auto).
  rewrite (upd_fresh t T Hf) in H. injection H as <- <-.
  assert (W' : wf (T ++ [t])%list).
  { apply wf_snoc; auto. now apply find_none. }
  split.
  - apply sspec_snoc; auto.
    + simpl. apply incl_refl.
    + intros rho n Htr. apply tracksP_app in Htr. destruct Htr as [H1 H2].
      apply since_sound;
        [intros i Hi; apply (Hp rho n); auto | intros i Hi; apply (Hq rho n); auto
         | intros i Hi; apply (H2 t); simpl; auto].
    + intros rho n Hsat Htr. apply (since_unique rho n name p q f g); auto.
      * intros i Hi. apply (Hp rho n); auto.
      * intros i Hi. apply (Hq rho n); auto.
  - apply (fspec_entry t). apply in_or_app. simpl. auto.
Qed.

(* ---- _flatten_previous ---- *)
Lemma prev_case_spec : forall s x e T T1 r T',
  wf T -> sspec (vars x) T T1 -> fspec x e T1 ->
  (forall v, x = FVar v -> e = TVar v /\ T1 = T) ->
  prev_case true s x (Fprev s x) (e, T1) T = (r, T') ->
  sspec (vars x) T T' /\ fspec (Fprev s x) r T'.
Proof.
  intros s x e T T1 r T' W SS FS Hvar H.
  assert (W1 : wf T1) by apply SS.
  assert (AUX : (let (e0, T0) := (e, T1) in
                 (TVar (aux_name (len T0)),
                  upd (prev_tester s (aux_name (len T0)) e0 (Fprev s x)) T0)) = (r, T') ->
                sspec (vars x) T T' /\ fspec (Fprev s x) r T').
  { intros H'. destruct (prev_aux_spec s x e T1 W1 FS) as (Hu & S1 & F1).
    rewrite Hu in H'. injection H' as <- <-. split; auto.
    eapply sspec_trans; eauto. }
  destruct x; simpl in H; auto.
  (* x = FVar v *)
  destruct (Hvar v eq_refl) as [-> ->].
  destruct (can_share s v T) eqn:Hc; auto.
  injection H as <- <-. unfold can_share in Hc.
  fold (var_tester s v).
  destruct (find (prev_name v) T) as [t0|] eqn:Hf.
  - pose proof (share_same T s v t0 W Hf Hc) as ->.
    rewrite upd_same by exact Hf.
    split; [now apply sspec_refl|].
    apply (fspec_entry (var_tester s v)). apply find_some in Hf. tauto.
  - rewrite (upd_fresh (var_tester s v) T Hf).
    assert (W' : wf (T ++ [var_tester s v])%list).
    { apply wf_snoc; auto. now apply find_none. left. now exists v, s. }
    split.
    + apply sspec_snoc; auto.
      * destruct s; simpl; apply incl_refl.
      * intros rho n Htr. apply tracksP_app in Htr. destruct Htr as [H1 H2].
        apply (prev_sound rho n s (prev_name v) (TVar v) (FVar v));
          [reflexivity | reflexivity
           | intros i Hi; apply (H2 (var_tester s v)); simpl; auto].
      * intros rho n Hsat Htr.
        apply (prev_unique rho n s (prev_name v) (TVar v) (FVar v)); auto.
    + apply (fspec_entry (var_tester s v)). apply in_or_app. simpl. auto.
Qed.

(* ================================================= the flattener, by induction *)
Lemma incl_app_l : forall (A : Type) (a b : list A), incl a (a ++ b)%list.
Proof. intros. apply incl_appl. apply incl_refl. Qed.
Lemma incl_app_r : forall (A : Type) (a b : list A), incl b (a ++ b)%list.
Proof. intros. apply incl_appr. apply incl_refl. Qed.

Theorem tr_spec : forall unt f,
  past_only f = true ->
  forall T r T', wf T -> tr true unt f T = (r, T') ->
  sspec (vars f) T T' /\ fspec f r T'.
Proof.
  intros unt. induction f; simpl past_only; intros PO T r T' W H;
    try discriminate.
  - (* FVar *) simpl in H. injection H as <- <-. split; [now apply sspec_refl|].
    split; auto.
  - (* FAtom *) simpl in H. injection H as <- <-. split; [now apply sspec_refl|].
    split; auto.
  - (* FConst *) simpl in H. injection H as <- <-. split; [now apply sspec_refl|].
    split; auto.
  - (* FNot *) simpl in H. destruct (tr true unt f T) as [a T1] eqn:E1.
    injection H as <- <-. destruct (IHf PO _ _ _ W E1) as [S1 [Hs F1]].
    split; auto. split; auto. intros rho n Htr i Hi. unfold eval in *. simpl.
    now rewrite (F1 rho n Htr i Hi).
  - (* FBin *) simpl in H. apply andb_prop in PO. destruct PO as [PO1 PO2].
    destruct (tr true unt f1 T) as [a T1] eqn:E1.
    destruct (tr true unt f2 T1) as [b T2] eqn:E2. injection H as <- <-.
    destruct (IHf1 PO1 _ _ _ W E1) as [S1 F1].
    destruct (IHf2 PO2 _ _ _ (proj1 S1) E2) as [S2 F2].
    pose proof (fspec_sspec _ _ _ _ _ F1 S2) as [Hs1 F1'].
    destruct F2 as [Hs2 F2]. simpl vars. split.
    + eapply sspec_trans;
        [eapply sspec_mono; [|exact S1]; apply incl_app_l
        |eapply sspec_mono; [|exact S2]; apply incl_app_r].
    + split; [simpl; now rewrite Hs1, Hs2|].
      intros rho n Htr i Hi. unfold eval in *. simpl.
      now rewrite (F1' rho n Htr i Hi), (F2 rho n Htr i Hi).
  - (* FIte *) simpl in H. apply andb_prop in PO. destruct PO as [PO PO3].
    apply andb_prop in PO. destruct PO as [PO1 PO2].
    destruct (tr true unt f1 T) as [a T1] eqn:E1.
    destruct (tr true unt f2 T1) as [b T2] eqn:E2.
    destruct (tr true unt f3 T2) as [d T3] eqn:E3. injection H as <- <-.
    destruct (IHf1 PO1 _ _ _ W E1) as [S1 F1].
    destruct (IHf2 PO2 _ _ _ (proj1 S1) E2) as [S2 F2].
    destruct (IHf3 PO3 _ _ _ (proj1 S2) E3) as [S3 F3].
    pose proof (fspec_sspec _ _ _ _ _ (fspec_sspec _ _ _ _ _ F1 S2) S3) as [Hs1 F1'].
    pose proof (fspec_sspec _ _ _ _ _ F2 S3) as [Hs2 F2'].
    destruct F3 as [Hs3 F3]. simpl vars. split.
    + eapply sspec_trans; [eapply sspec_mono; [|exact S1]|
        eapply sspec_trans; [eapply sspec_mono; [|exact S2]|
                             eapply sspec_mono; [|exact S3]]].
      * apply incl_app_l.
      * eapply incl_tran; [apply incl_app_l|apply incl_app_r].
      * eapply incl_tran; [apply incl_app_r|apply incl_app_r].
    + split; [simpl; now rewrite Hs1, Hs2, Hs3|].
      intros rho n Htr i Hi. unfold eval in *. simpl.
      now rewrite (F1' rho n Htr i Hi), (F2' rho n Htr i Hi), (F3 rho n Htr i Hi).
  - (* FPrevW *) cbn [tr] in H. destruct (tr true unt f T) as [e T1] eqn:E1.
    destruct (IHf PO _ _ _ W E1) as [S1 F1].
    apply (prev_case_spec false f e T T1 r T' W S1 F1); auto.
    intros v ->. simpl in E1. injection E1 as <- <-. auto.
  - (* FPrevS *) cbn [tr] in H. destruct (tr true unt f T) as [e T1] eqn:E1.
    destruct (IHf PO _ _ _ W E1) as [S1 F1].
    apply (prev_case_spec true f e T T1 r T' W S1 F1); auto.
    intros v ->. simpl in E1. injection E1 as <- <-. auto.
  - (* FHist *) cbn [tr] in H. destruct (tr true unt f T) as [a T1] eqn:E1.
    destruct (since_case (TConst true) (TNot a)
                (FSince (FConst true) (FNot f)) T1) as [r2 T2] eqn:E2.
    injection H as <- <-. destruct (IHf PO _ _ _ W E1) as [S1 [Hsa F1]].
    assert (FT : fspec (FConst true) (TConst true) T1) by (split; auto).
    assert (FN : fspec (FNot f) (TNot a) T1).
    { split; auto. intros rho n Htr i Hi. unfold eval in *. simpl.
      now rewrite (F1 rho n Htr i Hi). }
    destruct (since_case_spec _ _ _ _ _ _ _ (proj1 S1) FT FN E2) as [S2 [Hs2 F2]].
    simpl vars in S2. simpl app in S2. split; [exact (sspec_trans _ _ _ _ S1 S2)|].
    split; [simpl; exact Hs2|]. intros rho n Htr i Hi. unfold eval in *. simpl.
    rewrite (F2 rho n Htr i Hi). symmetry. apply sem_hist_since.
  - (* FOnce *) cbn [tr] in H. destruct (tr true unt f T) as [a T1] eqn:E1.
    destruct (IHf PO _ _ _ W E1) as [S1 F1].
    assert (FT : fspec (FConst true) (TConst true) T1) by (split; auto).
    destruct (since_case_spec _ _ _ _ _ _ _ (proj1 S1) FT F1 H) as [S2 [Hs2 F2]].
    simpl vars in S2. simpl app in S2. split; [exact (sspec_trans _ _ _ _ S1 S2)|].
    split; [exact Hs2|]. intros rho n Htr i Hi.
    rewrite (F2 rho n Htr i Hi). symmetry. apply sem_once_since.
  - (* FSince *) cbn [tr] in H. apply andb_prop in PO. destruct PO as [PO1 PO2].
    destruct (tr true unt f1 T) as [p T1] eqn:E1.
    destruct (tr true unt f2 T1) as [q T2] eqn:E2.
    destruct (IHf1 PO1 _ _ _ W E1) as [S1 F1].
    destruct (IHf2 PO2 _ _ _ (proj1 S1) E2) as [S2 F2].
    pose proof (fspec_sspec _ _ _ _ _ F1 S2) as F1'.
    destruct (since_case_spec _ _ _ _ _ _ _ (proj1 S2) F1' F2 H) as [S3 F3].
    split; auto. simpl vars.
    eapply sspec_trans; [eapply sspec_mono; [|exact S1]|
      eapply sspec_trans; [eapply sspec_mono; [|exact S2]|exact S3]];
      auto using incl_app_l, incl_app_r.
Qed.

(* ============================================================== translate *)
Lemma conj_eval : forall l c n, evalA c n (conj l) = forallb (evalA c n) l.
Proof.
  induction l as [|x l IH]; intros c n; [reflexivity|].
  destruct l as [|y l].
  - simpl. now rewrite andb_true_r.
  - change (conj (x :: y :: l)) with (TBin OAnd x (conj (y :: l))).
    simpl evalA. rewrite IH. reflexivity.
Qed.

(* rho satisfies the initial condition at position 0 and the transition
   relation between consecutive positions below n *)
Definition solves (X : translation) (rho : nat -> env) (n : nat) : Prop :=
  (0 < n -> eval (rho 0) (x_init X) = true) /\
  (forall i, S i < n -> evalA (rho i) (rho (S i)) (x_trans X) = true).

Lemma solves_satP : forall fx unt f rho n,
  solves (translate fx unt f) rho n <->
  satP rho n (x_testers (translate fx unt f)).
Proof.
  intros fx unt f rho n. unfold translate.
  destruct (tr fx unt f []) as [r T]. unfold solves, satP, sat1, eval. simpl.
  setoid_rewrite conj_eval. setoid_rewrite forallb_forall. split.
  - intros [H0 Ht] t Hin. split.
    + intros Hn. apply H0; auto. now apply in_map.
    + intros i Hi. apply Ht; auto. now apply in_map.
  - intros H. split.
    + intros Hn x Hx. apply in_map_iff in Hx. destruct Hx as [t [<- Hin]].
      now apply H.
    + intros i Hi x Hx. apply in_map_iff in Hx. destruct Hx as [t [<- Hin]].
      now apply H.
Qed.

Lemma tracksP_nil : forall rho n, tracksP rho n [].
Proof. intros rho n t []. Qed.
Lemma satP_nil : forall rho n, satP rho n [].
Proof. intros rho n t []. Qed.

(* Over a single sequence rho that carries user and auxiliary variables:
   rho satisfies the testers iff every auxiliary variable has, at every
   position, the truth value of the formula it tracks; and then the
   translated formula has the truth value of the original. *)
Theorem translate_tracks : forall unt f,
  past_only f = true ->
  let X := translate true unt f in
  wf (x_testers X) /\
  x_names X = map t_name (x_testers X) /\
  state_formula (x_formula X) = true /\
  (forall t, In t (x_testers X) -> incl (vars (t_tracks t)) (vars f)) /\
  forall rho n,
    (solves X rho n <-> tracksP rho n (x_testers X)) /\
    (tracksP rho n (x_testers X) ->
     forall i, i < n -> eval (rho i) (x_formula X) = sem f rho i).
Proof.
  intros unt f PO X.
  pose proof (solves_satP true unt f) as HS. fold X in HS.
  unfold X, translate in *. destruct (tr true unt f []) as [r T] eqn:E.
  simpl in *.
  destruct (tr_spec unt f PO [] r T wf_nil E)
    as [(W & (E0 & HE & HV) & S & U) [Hst F]].
  simpl in HE. subst E0.
  split; [exact W|]. split; [reflexivity|]. split; [exact Hst|].
  split; [exact HV|]. intros rho n. split; [split|].
  - intros H. apply U; [now apply HS|apply tracksP_nil].
  - intros H. apply HS. apply S; auto. apply satP_nil.
  - apply F.
Qed.

(* ------------------------------ user sequence sigma + auxiliary sequence *)
Lemma mem_In : forall v l, mem v l = true <-> In v l.
Proof.
  intros v l. unfold mem. rewrite existsb_exists. split.
  - intros [x [Hx He]]. apply String.eqb_eq in He. now subst.
  - intros H. exists v. split; auto. apply String.eqb_refl.
Qed.

Lemma comb_user : forall names sigma alpha i v,
  ~ In v names -> comb names sigma alpha i v = sigma i v.
Proof.
  intros. unfold comb. destruct (mem v names) eqn:E; auto.
  apply mem_In in E. tauto.
Qed.

Lemma comb_aux : forall names sigma alpha i v,
  In v names -> comb names sigma alpha i v = alpha i v.
Proof.
  intros. unfold comb. apply mem_In in H. now rewrite H.
Qed.

(* user variables do not carry a generated name *)
Definition no_clash (f : form) (names : list string) : Prop :=
  forall v, In v (vars f) -> ~ In v names.

Definition is_solution (X : translation) (sigma alpha : nat -> env) (n : nat)
    : Prop :=
  solves X (comb (x_names X) sigma alpha) n.

Theorem translate_correct : forall unt f,
  past_only f = true ->
  let X := translate true unt f in
  no_clash f (x_names X) ->
  forall sigma n,
    (* existence: the values of the tracked formulas are a solution *)
    is_solution X sigma (canon (x_testers X) sigma) n /\
    (* uniqueness and correctness *)
    (forall alpha, is_solution X sigma alpha n ->
       forall i, i < n ->
         (forall v, In v (x_names X) ->
            alpha i v = canon (x_testers X) sigma i v) /\
         eval (comb (x_names X) sigma alpha i) (x_formula X) = sem f sigma i).
Proof.
  intros unt f PO X NC sigma n.
  destruct (translate_tracks unt f PO) as (W & HN & Hst & HV & H). fold X in W, HN, Hst, HV, H.
  set (T := x_testers X) in *. unfold is_solution.
  (* semantics over a combined sequence only reads sigma *)
  assert (SE : forall alpha g, incl (vars g) (vars f) ->
            forall i, sem g (comb (x_names X) sigma alpha) i = sem g sigma i).
  { intros alpha g Hg. apply sem_ext. intros j v Hv. apply comb_user.
    apply NC. now apply Hg. }
  assert (CAN : forall t, In t T -> forall i,
            canon T sigma i (t_name t) = sem (t_tracks t) sigma i).
  { intros t Ht i. unfold canon. now rewrite (find_in_nodup T t (proj1 W) Ht). }
  split.
  - apply (proj1 (H _ n)). intros t Ht i Hi.
    rewrite comb_aux by (rewrite HN; now apply in_map).
    rewrite SE by (now apply HV). now apply CAN.
  - intros alpha Hsol i Hi.
    apply (proj1 (H _ n)) in Hsol. split.
    + intros v Hv. rewrite HN in Hv. apply in_map_iff in Hv.
      destruct Hv as [t [<- Ht]]. rewrite CAN by auto.
      rewrite <- (SE alpha) by (now apply HV).
      rewrite <- (Hsol t Ht i Hi). symmetry. apply comb_aux.
      rewrite HN. now apply in_map.
    + rewrite (proj2 (H _ n) Hsol i Hi). apply SE. apply incl_refl.
Qed.

(* ===================================================== declarative semantics *)
From Omega Require Import L6Past.PastSpec.

Lemma bop_bopP : forall o a b,
  bop o a b = true <-> bopP o (a = true) (b = true).
Proof. destruct o, a, b; simpl; intuition congruence. Qed.

Lemma bopP_iff : forall o a a' b b',
  (a <-> a') -> (b <-> b') -> (bopP o a b <-> bopP o a' b').
Proof. destruct o; simpl; tauto. Qed.

Theorem sem_holds : forall f rho,
  past_only f = true -> forall i, sem f rho i = true <-> holds f rho i.
Proof.
  induction f; simpl past_only; intros rho PO; try discriminate.
  - intros i. simpl. tauto.
  - intros i. simpl. tauto.
  - intros i. simpl. tauto.
  - intros i. simpl. rewrite <- (IHf rho PO i).
    destruct (sem f rho i); simpl; intuition congruence.
  - apply andb_prop in PO. destruct PO as [P1 P2]. intros i. simpl.
    rewrite bop_bopP. apply bopP_iff; auto.
  - apply andb_prop in PO. destruct PO as [PO P3].
    apply andb_prop in PO. destruct PO as [P1 P2]. intros i. simpl.
    rewrite <- (IHf1 rho P1 i), <- (IHf2 rho P2 i), <- (IHf3 rho P3 i).
    destruct (sem f1 rho i); intuition congruence.
  - intros [|i]; simpl.
    + split; auto. intros _ j Hj. discriminate.
    + rewrite (IHf rho PO i). split.
      * intros H j Hj. injection Hj as <-. auto.
      * intros H. now apply H.
  - intros [|i]; simpl.
    + split; [discriminate|]. intros [j [Hj _]]. discriminate.
    + rewrite (IHf rho PO i). split.
      * intros H. eauto.
      * intros [j [Hj H]]. injection Hj as <-. auto.
  - induction i.
    + simpl. rewrite (IHf rho PO 0). split.
      * intros H j Hj. replace j with 0 by lia. auto.
      * intros H. apply H. lia.
    + rewrite sem_hist_S, andb_true_iff, IHi, (IHf rho PO (S i)). simpl. split.
      * intros [H1 H2] j Hj. destruct (Nat.eq_dec j (S i)) as [->|]; auto.
        apply H2. lia.
      * intros H. split; [apply H; lia|]. intros j Hj. apply H. lia.
  - induction i.
    + simpl. rewrite (IHf rho PO 0). split.
      * intros H. exists 0. auto.
      * intros [j [Hj H]]. replace j with 0 in H by lia. auto.
    + rewrite sem_once_S, orb_true_iff, IHi, (IHf rho PO (S i)). simpl. split.
      * intros [H|[j [Hj H]]]; [exists (S i); auto|exists j; auto].
      * intros [j [Hj H]]. destruct (Nat.eq_dec j (S i)) as [->|]; auto.
        right. exists j. split; auto. lia.
  - apply andb_prop in PO. destruct PO as [P1 P2]. induction i.
    + rewrite sem_since_0, (IHf2 rho P2 0). simpl. split.
      * intros H. exists 0. repeat split; auto. intros; lia.
      * intros [j [Hj [H _]]]. replace j with 0 in H by lia. auto.
    + rewrite sem_since_S, orb_true_iff, andb_true_iff, IHi,
        (IHf1 rho P1 (S i)), (IHf2 rho P2 (S i)). simpl. split.
      * intros [H|[H1 [j [Hj [Hg Hf]]]]].
        -- exists (S i). repeat split; auto. intros; lia.
        -- exists j. repeat split; auto. intros k Hk1 Hk2.
           destruct (Nat.eq_dec k (S i)) as [->|]; auto. apply Hf; lia.
      * intros [j [Hj [Hg Hf]]]. destruct (Nat.eq_dec j (S i)) as [->|]; auto.
        right. split; [apply Hf; lia|]. exists j. split; [lia|]. split; [exact Hg|].
        intros k Hk1 Hk2. apply Hf; lia.
Qed.

(* ================================================= shape of generated names *)
Definition generated (v : string) : Prop :=
  (exists u, v = prev_name u) \/ (exists i, v = aux_name i).

Lemma wf_generated : forall T, wf T -> forall v, In v (map t_name T) -> generated v.
Proof.
  intros T [_ H] v Hv. apply in_map_iff in Hv. destruct Hv as [t [<- Ht]].
  destruct (H _ Ht) as [[u [s ->]]|[i [Hi _]]].
  - left. now exists u.
  - right. now exists i.
Qed.

Lemma user_names_no_clash : forall unt f,
  past_only f = true ->
  (forall v, In v (vars f) -> ~ generated v) ->
  no_clash f (x_names (translate true unt f)).
Proof.
  intros unt f PO H v Hv Hin.
  destruct (translate_tracks unt f PO) as (W & HN & _).
  rewrite HN in Hin. apply (H v Hv). eapply wf_generated; eauto.
Qed.

(* ===================================== the statement of the property (C15) *)
Theorem translate_exact : forall (unt : bool) (f : form),
  past_only f = true ->
  let X := translate true unt f in
  no_clash f (x_names X) ->
  forall (sigma : nat -> env) (n : nat),
  exists alpha : nat -> env,
    is_solution X sigma alpha n /\
    (forall alpha', is_solution X sigma alpha' n ->
       forall i v, i < n -> In v (x_names X) -> alpha' i v = alpha i v) /\
    (forall alpha', is_solution X sigma alpha' n ->
       forall i, i < n ->
         (eval (comb (x_names X) sigma alpha' i) (x_formula X) = true
          <-> holds f sigma i)).
Proof.
  intros unt f PO X NC sigma n.
  destruct (translate_correct unt f PO NC sigma n) as [Hex Hun]. fold X in Hex, Hun.
  exists (canon (x_testers X) sigma). split; [exact Hex|]. split.
  - intros alpha' Hs i v Hi Hv. now apply (Hun alpha' Hs i Hi).
  - intros alpha' Hs i Hi. rewrite (proj2 (Hun alpha' Hs i Hi)).
    now apply sem_holds.
Qed.

(* the flag `until` is irrelevant on the past fragment *)
Lemma tr_until_irrelevant : forall fx f,
  past_only f = true -> forall T, tr fx true f T = tr fx false f T.
Proof.
  induction f; simpl past_only; intros PO T; try discriminate; cbn [tr];
    repeat match goal with
    | H : _ && _ = true |- _ => apply andb_prop in H; destruct H
    end;
    try reflexivity.
  - now rewrite IHf.
  - rewrite IHf1 by auto. destruct (tr fx false f1 T). now rewrite IHf2.
  - rewrite IHf1 by auto. destruct (tr fx false f1 T).
    rewrite IHf2 by auto. destruct (tr fx false f2 l). now rewrite IHf3.
  - now rewrite IHf.
  - now rewrite IHf.
  - now rewrite IHf.
  - now rewrite IHf.
  - rewrite IHf1 by auto. destruct (tr fx false f1 T). now rewrite IHf2.
Qed.

Theorem translate_until_irrelevant : forall fx f,
  past_only f = true -> translate fx true f = translate fx false f.
Proof. intros. unfold translate. now rewrite tr_until_irrelevant. Qed.
