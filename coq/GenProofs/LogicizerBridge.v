(* GenProofs / LogicizerBridge: the Gallina translation of
   omega/symbolic/logicizer.py and of syntax.conj / disj / _associative_op /
   _recurse_op (coq/gen/LogicizerGen.v, regenerated from the working tree of
   omega by tools/py2coq_logicizer.py on every run) against the hand-written
   model L6Graph/{Formula,Logicizer}.v.  Re-proved on every run.

   - stx_recurse_op (indices a, b into the list, as in the code) = the
     model's recurse_op on the sublist h[a:b] (Leibniz), for every list,
     operator and pair of constants;  stx_conj = conj,  stx_disj = disj.
   - every function of logicizer.py = its model (Leibniz), where the code
     does not raise and no edge label assigns the primed node variable
     (then `t[nodevar'] = v` appends the entry, as the model does);
     `_env_trans_from_sys_ts` collects its disjuncts in a Python set: equal
     to the model for the identity order, and of the same MEANING for every
     order / removal of duplicates.
   - graph_to_logic: the four formulas, the range declared for the node
     variable and the two variable lists. *)
From Coq Require Import List Bool ZArith Arith Lia.
Import ListNotations.
From Omega Require Import L6Graph.Formula L6Graph.FormulaProofs
  L6Graph.Logicizer L6Graph.GraphSpec L6Graph.LogicizerProofs.
From OmegaGen Require Import LogicizerGen.

(* ------------------------------------------------------------ lists *)
Lemma fold_left_snoc {A B} (F : B -> list A) (body : list A -> B -> list A)
    l :
  (forall acc x, In x l -> body acc x = acc ++ F x) ->
  forall acc, fold_left body l acc = acc ++ flat_map F l.
Proof.
  induction l as [|x l IH]; intros H acc; cbn.
  - now rewrite app_nil_r.
  - rewrite H by (left; reflexivity).
    rewrite IH by (intros; apply H; right; assumption).
    now rewrite app_assoc.
Qed.

(* a loop that carries a pair *)
Lemma fold_left_snoc2 {A1 A2 B} (F1 : B -> list A1) (F2 : B -> list A2)
    (body : list A1 * list A2 -> B -> list A1 * list A2) l :
  (forall a1 a2 x, In x l -> body (a1, a2) x = (a1 ++ F1 x, a2 ++ F2 x)) ->
  forall a1 a2, fold_left body l (a1, a2)
                = (a1 ++ flat_map F1 l, a2 ++ flat_map F2 l).
Proof.
  induction l as [|x l IH]; intros H a1 a2; cbn.
  - now rewrite !app_nil_r.
  - rewrite H by (left; reflexivity).
    rewrite IH by (intros; apply H; right; assumption).
    now rewrite !app_assoc.
Qed.

(* a loop that carries a value that never changes and a list *)
Lemma fold_left_const_snoc {A C B} (F : B -> list A)
    (body : C * list A -> B -> C * list A) (c : C) l :
  (forall a x, In x l -> body (c, a) x = (c, a ++ F x)) ->
  forall a, fold_left body l (c, a) = (c, a ++ flat_map F l).
Proof.
  induction l as [|x l IH]; intros H a; cbn.
  - now rewrite app_nil_r.
  - rewrite H by (left; reflexivity).
    rewrite IH by (intros; apply H; right; assumption).
    now rewrite app_assoc.
Qed.

Lemma flat_map_single {A B} (f : A -> B) l :
  flat_map (fun x => [f x]) l = map f l.
Proof. induction l; cbn; congruence. Qed.

Lemma flat_map_ext_in {A B} (f g : A -> list B) l :
  (forall x, In x l -> f x = g x) -> flat_map f l = flat_map g l.
Proof.
  induction l as [|x l IH]; intros H; cbn; [reflexivity|].
  rewrite H by (left; reflexivity).
  now rewrite IH by (intros; apply H; right; assumption).
Qed.

Lemma flat_map_filter_map {A B} (p : A -> bool) (f : A -> B) l :
  flat_map (fun x => if p x then [f x] else []) l = map f (filter p l).
Proof.
  induction l as [|x l IH]; cbn; [reflexivity|].
  destruct (p x); cbn; now rewrite IH.
Qed.

Lemma skipn_nth {A} (d : A) : forall a (h : list A),
  a < length h -> skipn a h = nth a h d :: skipn (S a) h.
Proof.
  induction a as [|a IH]; intros [|x h] H; cbn in *; try lia; [reflexivity|].
  apply IH. lia.
Qed.

Lemma skipn_add {A} : forall y x (l : list A),
  skipn x (skipn y l) = skipn (y + x) l.
Proof.
  induction y as [|y IH]; intros x [|a l]; cbn; try reflexivity.
  - now destruct x.
  - apply IH.
Qed.

Lemma existsb_same_elements {A} (f : A -> bool) l1 l2 :
  (forall x, In x l1 <-> In x l2) -> existsb f l1 = existsb f l2.
Proof.
  intros H. apply eq_true_iff_eq. rewrite !existsb_exists.
  split; intros (x & Hx & Hf); exists x; split; auto; now apply H.
Qed.

(* -------------------------------------------------- syntax._recurse_op *)
Lemma bit_length_split n :
  2 <= n -> 2 ^ (bit_length (n - 1) - 1) = split_point n.
Proof.
  intros H. unfold split_point, bit_length.
  destruct (n - 1) as [|k] eqn:E; [lia|].
  f_equal. lia.
Qed.

Section Syntax.
Variables EL NL : Type.
Local Notation form := (form EL NL).

Lemma recurse_op_unfold is_ctrl is_idn (ctrl idn : form) mk fuel h :
  2 <= length h ->
  recurse_op (S fuel) is_ctrl is_idn ctrl idn mk h =
  let c := split_point (length h) in
  let x := recurse_op fuel is_ctrl is_idn ctrl idn mk (firstn c h) in
  let y := recurse_op fuel is_ctrl is_idn ctrl idn mk (skipn c h) in
  if is_ctrl x || is_ctrl y then ctrl
  else if is_idn x then y else if is_idn y then x else mk x y.
Proof.
  destruct h as [|x1 [|x2 t]]; cbn [length]; intros H; try lia.
  reflexivity.
Qed.

(* the code's recursion on the indices (a, b) of the list h is the model's
   recursion on the sublist h[a:b]; any fuel above b - a *)
Theorem stx_recurse_op_eq fuel : forall a b (h : list form) t f gl,
  a <= b -> b <= length h -> b - a < fuel ->
  stx_recurse_op EL NL fuel a b h t f gl
  = recurse_op (b - a) (fun x => str_is EL NL x t) (fun x => str_is EL NL x f)
               t f (gop_mk EL NL gl) (firstn (b - a) (skipn a h)).
Proof.
  induction fuel as [|fuel IH]; intros a b h t f gl Hab Hb Hf; [lia|].
  cbn [stx_recurse_op]. cbv zeta.
  destruct (Nat.eqb_spec (b - a) 0) as [E0|E0]; cbn [negb].
  { rewrite E0. reflexivity. }
  destruct (Nat.eqb_spec (b - a) 1) as [E1|E1].
  { rewrite E1. rewrite (skipn_nth FTrue) by lia. reflexivity. }
  assert (Hn : 2 <= b - a) by lia.
  replace (1 <? b - a) with true by (symmetry; apply Nat.ltb_lt; lia).
  rewrite (bit_length_split _ Hn).
  pose proof (split_point_bounds _ Hn) as (Hc1 & Hc2 & _).
  set (c := split_point (b - a)) in *.
  rewrite (IH a (a + c)) by lia.
  rewrite (IH (a + c) b) by lia.
  set (sub := firstn (b - a) (skipn a h)).
  assert (Hlen : length sub = b - a).
  { unfold sub. rewrite firstn_length, skipn_length. lia. }
  destruct (b - a) as [|n'] eqn:En; [lia|].
  rewrite recurse_op_unfold by lia.
  rewrite Hlen. cbv zeta. fold c.
  replace (a + c - a) with c by lia.
  assert (H1 : firstn c sub = firstn c (skipn a h)).
  { unfold sub. rewrite firstn_firstn. f_equal. lia. }
  assert (H2 : skipn c sub = firstn (b - (a + c)) (skipn (a + c) h)).
  { unfold sub. rewrite skipn_firstn_comm, skipn_add.
    f_equal; lia. }
  rewrite H1, H2.
  rewrite (recurse_op_fuel EL NL _ _ _ _ _ c n' (firstn c (skipn a h)))
    by (rewrite firstn_length, skipn_length; lia).
  rewrite (recurse_op_fuel EL NL _ _ _ _ _ (b - (a + c)) n'
             (firstn (b - (a + c)) (skipn (a + c) h)))
    by (rewrite firstn_length, skipn_length; lia).
  reflexivity.
Qed.

Lemma nonempty_flat_map (items : list (option form)) :
  flat_map (fun x => match x with Some y => [y] | None => [] end) items
  = nonempty items.
Proof.
  induction items as [|[x|] r IH]; cbn; [reflexivity| |]; now rewrite IH.
Qed.

Theorem stx_conj_eq items : stx_conj EL NL items OpConj = conj items.
Proof.
  unfold stx_conj, stx_associative_op, conj. cbn -[stx_recurse_op].
  rewrite nonempty_flat_map.
  rewrite stx_recurse_op_eq by lia.
  rewrite Nat.sub_0_r, firstn_all. reflexivity.
Qed.

Theorem stx_disj_eq items : stx_disj EL NL items OpDisj = disj items.
Proof.
  unfold stx_disj, stx_associative_op, disj. cbn -[stx_recurse_op].
  rewrite nonempty_flat_map.
  rewrite stx_recurse_op_eq by lia.
  rewrite Nat.sub_0_r, firstn_all. reflexivity.
Qed.

End Syntax.

(* ------------------------------------------------------------- keys *)
Lemma key_eqb_eq a b : key_eqb a b = true <-> a = b.
Proof.
  destruct a as [p k], b as [q j]. unfold key_eqb. cbn.
  rewrite andb_true_iff, Bool.eqb_true_iff, Nat.eqb_eq.
  split; [intros [-> ->]; reflexivity|intros H; inversion H; auto].
Qed.

Lemma key_mem_In k l : key_mem k l = true <-> In k l.
Proof.
  unfold key_mem. rewrite existsb_exists. split.
  - intros (x & Hx & E). apply key_eqb_eq in E. now subst.
  - intros H. exists k. split; [assumption|now apply key_eqb_eq].
Qed.

Lemma In_kdict_set k d k' : In k (kdict_set d k') <-> In k d \/ k = k'.
Proof.
  unfold kdict_set. destruct (key_mem k' d) eqn:E.
  - apply key_mem_In in E. split; [auto|intros [H| ->]; auto].
  - rewrite in_app_iff. cbn. intuition.
Qed.

Lemma In_kdict_update k p : forall d,
  In k (kdict_update d p) <-> In k d \/ In k p.
Proof.
  unfold kdict_update.
  induction p as [|x p IH]; intros d; cbn; [intuition|].
  rewrite IH, In_kdict_set. intuition.
Qed.

Lemma mem_In' k l : mem k l = true <-> In k l.
Proof.
  unfold mem. rewrite existsb_exists. split.
  - intros (x & Hx & E). apply Nat.eqb_eq in E. now subst.
  - intros H. exists k. split; [assumption|apply Nat.eqb_refl].
Qed.

Lemma items_set_fresh (l : list (key * Z)) k v :
  ~ In k (map fst l) -> items_set l k v = l ++ [(k, v)].
Proof.
  induction l as [|[k' v'] l IH]; cbn; intros H; [reflexivity|].
  destruct (key_eqb k' k) eqn:E.
  - apply key_eqb_eq in E. tauto.
  - rewrite IH by tauto. reflexivity.
Qed.

Section Logicizer.
Variables EL NL : Type.
Local Notation form := (form EL NL).
Local Notation tsys := (tsys EL NL).
Local Notation label := (label EL NL).

Lemma lz_assign_eq k v dv : lz_assign EL NL k v dv = assign (fst k, snd k, v).
Proof. reflexivity. Qed.

(* `_to_action` *)
Lemma lz_to_action_eq (d : label) dv :
  lz_to_action EL NL d dv
  = to_action (fun a => key_mem (fst a) dv) (l_formula EL NL d)
              (l_items EL NL d).
Proof.
  unfold lz_to_action, to_action. cbv zeta.
  rewrite stx_conj_eq. f_equal.
  rewrite (fold_left_snoc
    (fun kv => if key_mem (fst kv) dv then [Some (assign kv)] else [])).
  2:{ intros acc [[p k] v] _. cbn [fst]. destruct (key_mem (p, k) dv); cbn;
      [reflexivity|now rewrite app_nil_r]. }
  rewrite (flat_map_filter_map (fun a => key_mem (fst a) dv)
                               (fun a => Some (assign a))).
  destruct (l_formula EL NL d); reflexivity.
Qed.

Lemma to_action_ext (dv1 dv2 : asg -> bool) f asgs :
  (forall a, In a asgs -> dv1 a = dv2 a) ->
  @to_action EL NL dv1 f asgs = to_action dv2 f asgs.
Proof.
  intros H. unfold to_action. do 3 f_equal.
  induction asgs as [|a r IH]; cbn; [reflexivity|].
  rewrite H by (left; reflexivity).
  rewrite IH by (intros; apply H; right; assumption). reflexivity.
Qed.

(* the dictionary `dvars` of _graph_to_formulas, as the code builds it *)
Definition gen_dvars (g : tsys) (nd : var) : list key :=
  let d := kdict_set (vars_keys (ts_vars g)) (false, nd) in
  kdict_update d (fst (lz_prime_dict d)).

Lemma In_vars_keys p k l : In (p, k) (vars_keys l) <-> p = false /\ In k l.
Proof.
  unfold vars_keys. rewrite in_map_iff. split.
  - intros (x & E & H). inversion E. subst. auto.
  - intros [-> H]. exists k. auto.
Qed.

Lemma gen_dvars_spec (g : tsys) nd a :
  key_mem (fst a) (gen_dvars g nd) = in_dvars nd g a.
Proof.
  destruct a as [[p k] v]. cbn [fst]. unfold in_dvars.
  apply eq_true_iff_eq. rewrite key_mem_In, orb_true_iff, Nat.eqb_eq, mem_In'.
  unfold gen_dvars. cbv zeta. rewrite In_kdict_update. cbn [lz_prime_dict fst].
  rewrite in_map_iff.
  assert (Hd : forall q, In (q, k) (kdict_set (vars_keys (ts_vars g))
                                             (false, nd))
               <-> q = false /\ (In k (ts_vars g) \/ k = nd)).
  { intros q. rewrite In_kdict_set, In_vars_keys. split.
    - intros [[-> H]|E]; [auto|inversion E; auto].
    - intros [-> [H| ->]]; auto. }
  split.
  - intros [H|([q j] & E & H)].
    + apply Hd in H. tauto.
    + unfold key_prime in E. cbn in E. inversion E. subst.
      apply Hd in H. tauto.
  - intros H. destruct p.
    + right. exists (false, k). split; [reflexivity|]. apply Hd. tauto.
    + left. apply Hd. tauto.
Qed.


(* ---- more about loops ---- *)
Lemma fold_left_fst_snoc {A C B} (F : B -> list A)
    (body : list A * C -> B -> list A * C) l :
  (forall a c x, In x l -> fst (body (a, c) x) = a ++ F x) ->
  forall a c, fst (fold_left body l (a, c)) = a ++ flat_map F l.
Proof.
  induction l as [|x l IH]; intros H a c; cbn.
  - now rewrite app_nil_r.
  - destruct (body (a, c) x) as [a' c'] eqn:E.
    rewrite IH by (intros; apply H; right; assumption).
    assert (E' : a' = a ++ F x).
    { rewrite <- (H a c x) by (left; reflexivity). now rewrite E. }
    rewrite E'. now rewrite app_assoc.
Qed.

Lemma flat_map_map {A B C} (f : B -> list C) (g : A -> B) l :
  flat_map f (map g l) = flat_map (fun x => f (g x)) l.
Proof. induction l; cbn; congruence. Qed.

Lemma map_flat_map {A B C} (h : B -> C) (f : A -> list B) l :
  map h (flat_map f l) = flat_map (fun x => map h (f x)) l.
Proof. induction l; cbn; [reflexivity|]. now rewrite map_app, IHl. Qed.

(* ---- the graph ---- *)
Definition labels_ok (nd : var) (g : tsys) : Prop :=
  forall u v d, In (u, v, d) (ts_edges g) ->
                ~ In (true, nd) (map fst (e_asg d)).

Definition code_accepts (ign : bool) (g : tsys) : Prop :=
  ts_nodes g <> [] /\ (ign = false -> ts_initial g <> []).

Lemma graph_has_succ_out (g : tsys) u :
  graph_has_succ EL NL g u = negb (is_nil (out_edges g u)).
Proof.
  unfold graph_has_succ, out_edges.
  induction (ts_edges g) as [|e l IH]; cbn; [reflexivity|].
  destruct (Z.eqb (fst (fst e)) u); cbn; [reflexivity|exact IH].
Qed.

Lemma graph_edges_from_out (g : tsys) u :
  graph_edges_from EL NL g u
  = map (fun e => (fst (fst e), snd (fst e), label_of_e EL NL (snd e)))
        (out_edges g u).
Proof. reflexivity. Qed.

Lemma out_edges_In (g : tsys) u e :
  In e (out_edges g u) -> In e (ts_edges g) /\ fst (fst e) = u.
Proof.
  unfold out_edges. rewrite filter_In, Z.eqb_eq. tauto.
Qed.

Section WithDvars.
Variables (g : tsys) (nd : var) (dv : list key).
Hypothesis Hdv : forall a, key_mem (fst a) dv = in_dvars nd g a.

Lemma dv_not_nil : is_nil dv = false.
Proof.
  destruct dv as [|k l] eqn:E; [|reflexivity].
  specialize (Hdv (false, nd, 0%Z)). cbn in Hdv.
  rewrite Nat.eqb_refl in Hdv. discriminate.
Qed.

(* `_init_from_ts` *)
Lemma lz_init_from_ts_eq ign :
  (ign = false -> ts_initial g <> []) ->
  lz_init_from_ts EL NL (ts_initial g) nd dv ign = init_from_ts nd g ign.
Proof.
  intros H. unfold lz_init_from_ts, init_from_ts.
  destruct ign; [reflexivity|].
  destruct (ts_initial g) as [|u r] eqn:E; [now specialize (H eq_refl)|].
  cbn [is_nil negb]. rewrite stx_disj_eq, map_map. reflexivity.
Qed.

(* the action of a node label *)
Lemma lz_to_action_node (d : nlabel NL) :
  lz_to_action EL NL (label_of_n EL NL d) dv
  = to_action (in_dvars nd g) (n_item d) (n_asgs d).
Proof.
  rewrite lz_to_action_eq. cbn [label_of_n l_formula l_items].
  apply to_action_ext. intros a _. apply Hdv.
Qed.

(* `_node_var_trans` *)
Lemma lz_node_var_trans_eq :
  lz_node_var_trans EL NL g nd dv = node_var_trans nd g.
Proof.
  unfold lz_node_var_trans, node_var_trans. cbv zeta.
  rewrite dv_not_nil. cbn [negb].
  set (P := fun n : Z * nlabel NL => @assign EL NL (false, nd, fst n)).
  set (R := fun n : Z * nlabel NL =>
              @to_action EL NL (in_dvars nd g) (n_item (snd n))
                         (n_asgs (snd n))).
  unfold graph_nodes_data.
  rewrite (fold_left_snoc2
    (fun m => if is_FTrue (lz_to_action EL NL (snd m) dv) then []
              else [FOr (FNot (lz_assign EL NL (false, nd) (fst m) dv))
                        (lz_to_action EL NL (snd m) dv)])
    (fun m => if is_FTrue (lz_to_action EL NL (snd m) dv) then []
              else [FPrime (FImp (lz_assign EL NL (false, nd) (fst m) dv)
                                 (lz_to_action EL NL (snd m) dv))])).
  2:{ intros a1 a2 [u d] _. cbn [fst snd str_is].
      destruct (is_FTrue (lz_to_action EL NL d dv));
        [now rewrite !app_nil_r|reflexivity]. }
  cbn [app]. rewrite !flat_map_map, !map_flat_map. cbn [fst snd].
  f_equal; apply flat_map_ext_in; intros [u d] _; cbn [fst snd];
    rewrite lz_to_action_node;
    destruct (is_FTrue (to_action (in_dvars nd g) (n_item d) (n_asgs d)));
    reflexivity.
Qed.

(* the disjunct of an edge *)
Definition edge_act (e : Z * Z * elabel EL) : form :=
  to_action (in_dvars nd g) (e_item (snd e))
            (e_asg (snd e) ++ [(true, nd, snd (fst e))]).

Hypothesis Hlab : labels_ok nd g.

Lemma lz_to_action_edge e :
  In e (ts_edges g) ->
  lz_to_action EL NL
    (label_set EL NL (label_of_e EL NL (snd e))
               (key_prime (false, nd)) (snd (fst e))) dv
  = edge_act e.
Proof.
  intros Hin. destruct e as [[u v] d]. cbn [fst snd].
  rewrite lz_to_action_eq. unfold edge_act.
  cbn [label_set label_of_e l_formula l_items key_prime fst snd].
  rewrite items_set_fresh by (exact (Hlab u v d Hin)).
  apply to_action_ext. intros a _. apply Hdv.
Qed.

Lemma node_trans_edge_act u :
  node_trans nd g u
  = match out_edges g u with
    | [] => FImp (assign (false, nd, u)) FFalse
    | es => FImp (assign (false, nd, u)) (disj (map Some (map edge_act es)))
    end.
Proof.
  unfold node_trans. destruct (out_edges g u) as [|e l]; [reflexivity|].
  do 2 f_equal. rewrite map_map. apply map_ext. intros [[a b] c]. reflexivity.
Qed.

(* the loop over the out-edges of u in `_sys_trans` / `_env_trans`:
   F is the function the body appends *)
Lemma post_loop (body : list form -> Z * Z * label -> list form) u :
  (forall acc x, body acc x
     = acc ++ [lz_to_action EL NL
                 (label_set EL NL (snd x) (key_prime (false, nd))
                            (snd (fst x))) dv]) ->
  fold_left body (graph_edges_from EL NL g u) []
  = map edge_act (out_edges g u).
Proof.
  intros H. rewrite graph_edges_from_out.
  rewrite (fold_left_snoc (fun x => [lz_to_action EL NL
                 (label_set EL NL (snd x) (key_prime (false, nd))
                            (snd (fst x))) dv])) by (intros; apply H).
  cbn [app]. rewrite flat_map_single, map_map.
  apply map_ext_in. intros e He. cbn [fst snd].
  apply lz_to_action_edge. now apply out_edges_In in He.
Qed.

(* `_sys_trans` *)
Lemma lz_sys_trans_eq : lz_sys_trans EL NL g nd dv = sys_trans nd g.
Proof.
  unfold lz_sys_trans, sys_trans. cbv zeta.
  rewrite stx_conj_eq.
  rewrite (fold_left_snoc (fun u => [node_trans nd g u])).
  { cbn [app]. unfold graph_nodes.
    now rewrite flat_map_single, !map_map. }
  intros acc u _. rewrite node_trans_edge_act, graph_has_succ_out.
  destruct (out_edges g u) as [|e l] eqn:Eo; cbn [is_nil negb];
    [reflexivity|].
  rewrite post_loop.
  2:{ intros a [[x y] d]. reflexivity. }
  rewrite stx_disj_eq, Eo. reflexivity.
Qed.

(* `_env_trans`: the same conjuncts (the list `sys` it also collects is
   never used) *)
Lemma lz_env_trans_eq sl : lz_env_trans EL NL g nd dv sl = env_trans nd g.
Proof.
  unfold lz_env_trans, env_trans. cbv zeta.
  rewrite stx_conj_eq.
  rewrite (fold_left_snoc (fun u => [node_trans nd g u])).
  { cbn [app]. unfold graph_nodes.
    rewrite flat_map_single, !map_map. apply (f_equal conj).
    apply map_ext. intros n. reflexivity. }
  intros acc u _. rewrite node_trans_edge_act, graph_has_succ_out.
  destruct (out_edges g u) as [|e l] eqn:Eo; cbn [is_nil negb];
    [reflexivity|].
  set (F := fun x : Z * Z * label =>
              [lz_to_action EL NL
                 (label_set EL NL (snd x) (key_prime (false, nd))
                            (snd (fst x))) dv]).
  assert (E : flat_map F (graph_edges_from EL NL g u)
              = map edge_act (out_edges g u)).
  { rewrite graph_edges_from_out. unfold F.
    rewrite flat_map_single, map_map.
    apply map_ext_in. intros x Hx. cbn [fst snd].
    apply lz_to_action_edge. now apply out_edges_In in Hx. }
  match goal with
  | |- context [fold_left ?body ?l ([], [])] =>
    pose proof (fold_left_fst_snoc F body l) as Hp;
    destruct (fold_left body l ([], [])) as [post sys] eqn:Hf
  end.
  specialize (Hp ltac:(intros a c [[x y] d] _; reflexivity) [] []).
  rewrite Hf in Hp. cbn [fst app] in Hp. subst post.
  rewrite E, stx_disj_eq, Eo. reflexivity.
Qed.

End WithDvars.


(* ---- `_env_trans_from_sys_ts` (the disjuncts go through a Python set) -- *)
Section Receptive.
Variables (g : tsys) (nd : var) (dv : list key).
Hypothesis Hdv : forall a, key_mem (fst a) dv = in_dvars nd g a.
Variable so : list form -> list form.

Definition recv_act (e : Z * Z * elabel EL) : form :=
  to_action (in_denv nd g) (e_item (snd e)) (e_asg (snd e)).

(* the model with the order [so] applied to the set of disjuncts *)
Definition env_trans_from_sys_ts_so : form :=
  conj (flat_map (fun n =>
    match out_edges g (fst n) with
    | [] => []
    | es => [Some (FImp (assign (false, nd, fst n))
                        (disj (map Some (so (map recv_act es)))))]
    end) (ts_nodes g)).

Lemma denv_spec a :
  key_mem (fst a)
    (filter (fun k => key_in_vars k (ts_env_vars g)) dv) = in_denv nd g a.
Proof.
  destruct a as [[p k] v]. cbn [fst]. unfold in_denv.
  match goal with
  | |- context [in_dvars nd g ?x] =>
    replace (in_dvars nd g x) with (key_mem (p, k) dv) by exact (Hdv x)
  end.
  apply eq_true_iff_eq.
  rewrite key_mem_In, filter_In, !andb_true_iff, key_mem_In.
  unfold key_in_vars. cbn [fst snd]. rewrite andb_true_iff. tauto.
Qed.

Lemma lz_env_trans_from_sys_ts_eq :
  lz_env_trans_from_sys_ts EL NL so g nd dv = env_trans_from_sys_ts_so.
Proof.
  unfold lz_env_trans_from_sys_ts, env_trans_from_sys_ts_so. cbv zeta.
  rewrite stx_conj_eq.
  set (denv := filter (fun k => key_in_vars k (ts_env_vars g)) dv).
  rewrite (fold_left_snoc (fun u =>
    match out_edges g u with
    | [] => []
    | es => [FImp (assign (false, nd, u))
                  (disj (map Some (so (map recv_act es))))]
    end)).
  { cbn [app]. unfold graph_nodes. rewrite flat_map_map.
    apply (f_equal conj). rewrite map_flat_map.
    apply flat_map_ext_in. intros n _.
    destruct (out_edges g (fst n)); reflexivity. }
  intros acc u _. rewrite graph_has_succ_out.
  destruct (out_edges g u) as [|e l] eqn:Eo; cbn [is_nil negb];
    [now rewrite app_nil_r|].
  set (F := fun x : Z * Z * label => [lz_to_action EL NL (snd x) denv]).
  assert (E : flat_map F (graph_edges_from EL NL g u)
              = map recv_act (out_edges g u)).
  { rewrite graph_edges_from_out. unfold F.
    rewrite flat_map_single, map_map.
    apply map_ext. intros [[x y] d]. cbn [fst snd].
    rewrite lz_to_action_eq. cbn [label_of_e l_formula l_items].
    apply to_action_ext. intros a _. apply denv_spec. }
  match goal with
  | |- context [fold_left ?body ?l (u, [])] =>
    rewrite (fold_left_const_snoc F body u l)
  end.
  2:{ intros a x Hx. rewrite graph_edges_from_out in Hx.
      apply in_map_iff in Hx. destruct Hx as (e0 & <- & Hin).
      apply out_edges_In in Hin. destruct Hin as [_ Hu].
      cbv beta iota. cbn [negb]. rewrite Hu. reflexivity. }
  cbn [app]. rewrite E, Eo. cbn [map is_nil negb].
  rewrite stx_disj_eq. reflexivity.
Qed.

End Receptive.

(* with the identity order the translation IS the model *)
Lemma env_trans_from_sys_ts_so_id (g : tsys) nd :
  env_trans_from_sys_ts_so g nd (fun l => l) = env_trans_from_sys_ts nd g.
Proof.
  unfold env_trans_from_sys_ts_so, env_trans_from_sys_ts.
  apply (f_equal conj). apply flat_map_ext_in. intros n _.
  destruct (out_edges g (fst n)) as [|e l]; [reflexivity|].
  do 4 f_equal. rewrite map_map. apply map_ext. intros [[x y] d].
  reflexivity.
Qed.

(* ---- `_graph_to_formulas` ---------------------------------------------- *)
Definition formulas_so (so : list form -> list form) (nd : var)
    (ign rec sl : bool) (g : tsys)
    : list form * list form * list form * list form :=
  let '(ei, et, si, st) := graph_to_formulas nd ign rec sl g in
  (ei, if ts_owner_sys g && rec then [env_trans_from_sys_ts_so g nd so]
       else et, si, st).

Theorem lz_graph_to_formulas_eq so (g : tsys) nd ign rec sl :
  code_accepts ign g -> labels_ok nd g ->
  lz_graph_to_formulas EL NL so g nd ign rec sl
  = formulas_so so nd ign rec sl g.
Proof.
  intros [Hn Hi] Hlab.
  unfold lz_graph_to_formulas, formulas_so, graph_to_formulas,
    lz_prime_dict.
  cbv beta iota zeta.
  replace (0 <? length (graph_nodes EL NL g)) with true.
  2:{ symmetry. apply Nat.ltb_lt. unfold graph_nodes. rewrite map_length.
      destruct (ts_nodes g); [congruence|cbn; lia]. }
  match goal with
  | |- context [lz_node_var_trans EL NL g nd ?d] => set (dv := d)
  end.
  assert (Hdv : forall a, key_mem (fst a) dv = in_dvars nd g a)
    by exact (gen_dvars_spec g nd).
  rewrite (lz_init_from_ts_eq g nd dv ign Hi).
  rewrite (lz_node_var_trans_eq g nd dv Hdv).
  destruct (node_var_trans nd g) as [ti np].
  destruct (ts_owner_sys g); cbn [negb andb].
  - rewrite (lz_sys_trans_eq g nd dv Hdv Hlab).
    rewrite (lz_env_trans_from_sys_ts_eq g nd dv Hdv so).
    destruct sl, rec; reflexivity.
  - rewrite (lz_env_trans_eq g nd dv Hdv Hlab).
    destruct sl; reflexivity.
Qed.

Lemma lz_add_expr_eq c : lz_add_expr EL NL c = add_expr c.
Proof. unfold lz_add_expr, add_expr. apply stx_conj_eq. Qed.

Lemma lz_nodevar_dom_eq (g : tsys) : lz_nodevar_dom EL NL g = nodevar_dom g.
Proof.
  unfold lz_nodevar_dom, nodevar_dom, graph_nodes, list_min, list_max.
  destruct (map fst (ts_nodes g)); reflexivity.
Qed.

(* ---- `graph_to_logic` --------------------------------------------------- *)
(* the four formulas of the record the translated graph_to_logic fills *)
Definition aut_of (a : gaut EL NL) : automaton EL NL :=
  {| env_init := a_env_init EL NL a; env_action := a_env_action EL NL a;
     sys_init := a_sys_init EL NL a; sys_action := a_sys_action EL NL a |}.

Definition automaton_so (so : list form -> list form) (nd : var)
    (ign rec sl : bool) (g : tsys) : automaton EL NL :=
  let '(ei, et, si, st) := formulas_so so nd ign rec sl g in
  {| env_init := add_expr ei; env_action := add_expr et;
     sys_init := add_expr si; sys_action := add_expr st |}.

Theorem lz_graph_to_logic_eq so (g : tsys) nd ign rec sl :
  code_accepts ign g -> labels_ok nd g ->
  let a := lz_graph_to_logic EL NL so g nd ign rec sl in
  aut_of a = automaton_so so nd ign rec sl g
  /\ a_nd_dom EL NL a = nodevar_dom g
  /\ (a_env_vars EL NL a, a_sys_vars EL NL a) = varlists nd g.
Proof.
  intros Ha Hl. unfold lz_graph_to_logic, automaton_so. cbv zeta.
  rewrite (lz_graph_to_formulas_eq so g nd ign rec sl Ha Hl).
  destruct (formulas_so so nd ign rec sl g) as [[[ei et] si] st].
  rewrite !lz_add_expr_eq, lz_nodevar_dom_eq. unfold varlists.
  destruct (ts_owner_sys g); cbn; auto.
Qed.

Lemma automaton_so_id nd ign rec sl (g : tsys) :
  automaton_so (fun l => l) nd ign rec sl g = graph_to_logic nd ign rec sl g.
Proof.
  unfold automaton_so, formulas_so, graph_to_logic.
  rewrite env_trans_from_sys_ts_so_id.
  unfold graph_to_formulas.
  destruct (node_var_trans nd g) as [ti np].
  destruct (ts_owner_sys g); [|reflexivity].
  destruct rec; reflexivity.
Qed.

(* the code IS the model (for the identity order of the set) *)
Theorem translated_graph_to_logic_is_model (g : tsys) nd ign rec sl :
  code_accepts ign g -> labels_ok nd g ->
  let a := lz_graph_to_logic EL NL (fun l => l) g nd ign rec sl in
  aut_of a = graph_to_logic nd ign rec sl g
  /\ a_nd_dom EL NL a = nodevar_dom g
  /\ (a_env_vars EL NL a, a_sys_vars EL NL a) = varlists nd g.
Proof.
  intros Ha Hl.
  destruct (lz_graph_to_logic_eq (fun l => l) g nd ign rec sl Ha Hl)
    as (H1 & H2 & H3).
  cbv zeta. rewrite H1, automaton_so_id. auto.
Qed.

(* ---- meaning: for EVERY order / removal of duplicates of the set ------- *)
Section Meaning.
Variable esem : EL -> val -> val -> bool.
Variable nsem : NL -> val -> bool.
Local Notation eval := (@eval EL NL esem nsem).
Variable so : list form -> list form.
Hypothesis Hso : forall l x, In x (so l) <-> In x l.

Lemma disj_some_sem (l : list form) s s' :
  eval (disj (map Some l)) s s' = existsb (fun f => eval f s s') l.
Proof.
  rewrite disj_sem. induction l as [|x l IH]; cbn; [reflexivity|].
  now rewrite IH.
Qed.

Lemma env_trans_from_sys_ts_so_sem (g : tsys) nd s s' :
  eval (env_trans_from_sys_ts_so g nd so) s s'
  = eval (env_trans_from_sys_ts nd g) s s'.
Proof.
  rewrite <- env_trans_from_sys_ts_so_id.
  unfold env_trans_from_sys_ts_so. rewrite !conj_sem.
  induction (ts_nodes g) as [|n r IH]; [reflexivity|].
  cbn [flat_map]. rewrite !forallb_app, IH. f_equal.
  destruct (out_edges g (fst n)) as [|e l]; [reflexivity|].
  cbn [forallb eval_item Formula.eval]. do 2 f_equal.
  rewrite !disj_some_sem.
  apply existsb_same_elements. apply Hso.
Qed.

Theorem automaton_so_sem nd ign rec sl (g : tsys) s s' :
  let a := automaton_so so nd ign rec sl g in
  let m := graph_to_logic nd ign rec sl g in
  env_init a = env_init m /\ sys_init a = sys_init m
  /\ sys_action a = sys_action m
  /\ eval (env_action a) s s' = eval (env_action m) s s'.
Proof.
  unfold automaton_so, formulas_so, graph_to_logic.
  destruct (graph_to_formulas nd ign rec sl g) as [[[ei et] si] st] eqn:E.
  cbn [env_init sys_init sys_action env_action].
  repeat split.
  destruct (ts_owner_sys g && rec) eqn:Eo; [|reflexivity].
  assert (Et : et = [env_trans_from_sys_ts nd g]).
  { unfold graph_to_formulas in E.
    destruct (node_var_trans nd g) as [ti np].
    apply andb_true_iff in Eo. destruct Eo as [Eo ->]. rewrite Eo in E.
    now inversion E. }
  subst et. unfold add_expr. cbn [map]. rewrite !conj_sem.
  cbn [forallb eval_item]. now rewrite env_trans_from_sys_ts_so_sem.
Qed.

End Meaning.


(* ---- the C20 theorems, for the translated code -------------------------- *)
Section Translated.
Variable esem : EL -> val -> val -> bool.
Variable nsem : NL -> val -> bool.
Local Notation eval := (@eval EL NL esem nsem).
Variable so : list form -> list form.
Hypothesis Hso : forall l x, In x (so l) <-> In x l.
Variables (g : tsys) (nd : var) (ign rec sl : bool).
Hypothesis Hacc : code_accepts ign g.
Hypothesis Hlab : labels_ok nd g.

(* the automaton filled by the translated graph_to_logic *)
Definition translated : automaton EL NL :=
  aut_of (lz_graph_to_logic EL NL so g nd ign rec sl).
Local Notation model := (graph_to_logic nd ign rec sl g).

Theorem translated_meaning s s' :
  env_init translated = env_init model
  /\ sys_init translated = sys_init model
  /\ sys_action translated = sys_action model
  /\ eval (env_action translated) s s' = eval (env_action model) s s'.
Proof.
  unfold translated.
  destruct (lz_graph_to_logic_eq so g nd ign rec sl Hacc Hlab) as (H & _).
  cbv zeta in H. rewrite H.
  exact (automaton_so_sem esem nsem so Hso nd ign rec sl g s s').
Qed.

Lemma translated_owner_action s s' :
  eval (owner_action translated g) s s' = eval (owner_action model g) s s'.
Proof.
  destruct (translated_meaning s s') as (_ & _ & H3 & H4).
  unfold owner_action. destruct (ts_owner_sys g); [now rewrite H3|exact H4].
Qed.

Lemma translated_owner_init s s' :
  eval (owner_init translated g) s s' = eval (owner_init model g) s s'.
Proof.
  destruct (translated_meaning s s') as (H1 & H2 & _).
  unfold owner_init. destruct (ts_owner_sys g); [now rewrite H2|now rewrite H1].
Qed.

Lemma translated_other_action s s' :
  eval (other_action translated g) s s' = eval (other_action model g) s s'.
Proof.
  destruct (translated_meaning s s') as (_ & _ & H3 & H4).
  unfold other_action. destruct (ts_owner_sys g); [exact H4|now rewrite H3].
Qed.

Lemma translated_other_init s s' :
  eval (other_init translated g) s s' = eval (other_init model g) s s'.
Proof.
  destruct (translated_meaning s s') as (H1 & H2 & _).
  unfold other_init. destruct (ts_owner_sys g); [now rewrite H1|now rewrite H2].
Qed.

Theorem translated_owner_action_exact s s' :
  eval (owner_action translated g) s s'
  = owner_action_sem esem nsem nd sl g s s'.
Proof. rewrite translated_owner_action. apply owner_action_exact. Qed.

Theorem translated_owner_action_spec s s' :
  In (s nd) (map fst (ts_nodes g)) ->
  eval (owner_action translated g) s s' = true <->
  ((exists u v l, In (u, v, l) (ts_edges g) /\ u = s nd /\ v = s' nd
                  /\ elabel_holds esem (in_dvars nd g) l s s' = true)
   \/ (sl = true /\ s' nd = s nd))
  /\ node_labels_hold nsem nd g s' = true.
Proof.
  intros H. rewrite translated_owner_action.
  exact (owner_action_spec EL NL esem nsem nd ign rec sl g s s' H).
Qed.

Theorem translated_init_spec s s' :
  eval (owner_init translated g) s s' = true <->
  (ign = true \/ In (s nd) (ts_initial g))
  /\ node_labels_hold nsem nd g s = true.
Proof.
  rewrite translated_owner_init.
  exact (init_spec EL NL esem nsem nd ign rec sl g s s').
Qed.

Theorem translated_other_player_unconstrained s s' :
  ts_owner_sys g && rec = false ->
  eval (other_action translated g) s s' = true
  /\ eval (other_init translated g) s s' = true.
Proof.
  intros H. rewrite translated_other_action, translated_other_init.
  exact (other_player_unconstrained EL NL esem nsem nd ign rec sl g s s' H).
Qed.

Theorem translated_other_action_exact s s' :
  eval (other_action translated g) s s'
  = if ts_owner_sys g && rec then receptive_sem esem nd g s s' else true.
Proof. rewrite translated_other_action. apply other_action_exact. Qed.

Lemma chain_ext (r1 r2 : val -> val -> Prop) :
  (forall s t, r1 s t <-> r2 s t) ->
  forall rest s0, chain r1 s0 rest <-> chain r2 s0 rest.
Proof.
  intros H. induction rest as [|t r IH]; intros s0; cbn; [tauto|].
  rewrite H, IH. tauto.
Qed.

Theorem translated_runs_are_paths :
  wf_graph g ->
  forall rest s0,
  In (s0 nd) (node_ids g) ->
  chain (fun s t => eval (owner_action translated g) s t = true) s0 rest
  <-> chain (graph_step esem nsem nd sl g) s0 rest
      /\ Forall (fun s => In (s nd) (node_ids g)) rest.
Proof.
  intros Hwf rest s0 H0.
  rewrite <- (runs_are_paths EL NL esem nsem nd ign rec sl g Hwf rest s0 H0).
  apply chain_ext. intros s t. now rewrite translated_owner_action.
Qed.

End Translated.

(* `_recurse_op` of the code with the constants of conj / disj *)
Theorem translated_recurse_op_sem_conj esem nsem (h : list form) s s' :
  @eval EL NL esem nsem
    (stx_recurse_op EL NL (S (length h)) 0 (length h) h FFalse FTrue OpConj)
    s s'
  = forallb (fun f => @eval EL NL esem nsem f s s') h.
Proof.
  rewrite stx_recurse_op_eq by lia.
  rewrite Nat.sub_0_r, firstn_all. cbn [skipn].
  exact (recurse_op_sem_conj EL NL esem nsem (length h) h s s' (le_n _)).
Qed.

Theorem translated_recurse_op_sem_disj esem nsem (h : list form) s s' :
  @eval EL NL esem nsem
    (stx_recurse_op EL NL (S (length h)) 0 (length h) h FTrue FFalse OpDisj)
    s s'
  = existsb (fun f => @eval EL NL esem nsem f s s') h.
Proof.
  rewrite stx_recurse_op_eq by lia.
  rewrite Nat.sub_0_r, firstn_all. cbn [skipn].
  exact (recurse_op_sem_disj EL NL esem nsem (length h) h s s' (le_n _)).
Qed.

End Logicizer.
