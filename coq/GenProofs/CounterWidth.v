(* The memory variables the translated transducer constructions declare
   (gen/TransducerGen.v: *_declares, from the call of aut.declare_variables),
   passed through the TRANSLATED width computation of the declaration code
   (gen/BitsGen.v: dom_to_width / _bitfield_limits, C18), get bit fields that
   hold every value the construction uses: the number of values G of `_goal`
   is at least the number of recurrence goals, the number of values H of
   `_hold` at least the number of persistence sets plus one ("none").  This
   discharges the hypotheses `length goals <= G` of the C02 theorems for the
   widths the real declaration produces. *)
From Coq Require Import ZArith List Bool Lia String.
From Omega Require Import L0Bits.Bits L0Bits.BitsFacts L4.Arena.
From OmegaGen Require Import BitsGen FixpointGen Gr1Gen TransducerGen.
From OmegaGP Require Import BitsProofs.
Import ListNotations.
Local Open Scope Z_scope.

(* an unsigned declaration 0..hi gets the field 0 .. 2^w - 1 with hi inside *)
Lemma unsigned_field (hi : nat) :
  exists h, declared_hint 0 (Z.of_nat hi) = Some h /\ h_signed h = false /\
    bitfield_limits h = Some (0, 2 ^ h_width h - 1) /\
    Z.of_nat hi + 1 <= 2 ^ h_width h.
Proof.
  assert (Hle : 0 <= Z.of_nat hi) by lia.
  destruct (declared_hint_some 0 (Z.of_nat hi) Hle) as (h & E & Hwf & Hdom).
  exists h. split; [exact E|].
  pose proof (bitfield_limits_spec h Hwf) as Hl.
  assert (Hs : h_signed h = false).
  { pose proof E as E'. unfold declared_hint in E'. rewrite dom_to_width_spec in E' by lia.
    inversion E' as [Eh]. cbn [h_signed]. reflexivity. }
  split; [exact Hs|].
  assert (Hlim : limits_of h = (0, 2 ^ h_width h - 1)).
  { unfold limits_of. rewrite Hs, Hdom. cbn [fst snd].
    destruct (Z.geb_spec 0 0); [reflexivity|lia]. }
  rewrite Hlim in Hl. split; [exact Hl|].
  pose proof (hint_representable 0 (Z.of_nat hi) h 0 (2 ^ h_width h - 1) Hle E Hl
                (Z.of_nat hi) ltac:(lia)). lia.
Qed.

Definition name_hold : string := "_hold"%string.
Definition name_goal : string := "_goal"%string.

Section Widths.
Variables holds goals : list bdd.

Theorem streett_declares_pinned :
  StreettGen.make_streett_transducer_declares goals =
  [("_goal"%string, 0%nat, (List.length goals - 1)%nat)].
Proof. reflexivity. Qed.

Theorem rabin_declares_pinned :
  RabinGen.make_rabin_transducer_declares holds goals =
  [("_hold"%string, 0%nat, (List.length holds - 1 + 1)%nat);
   ("_goal"%string, 0%nat, (List.length goals - 1)%nat)].
Proof. reflexivity. Qed.

(* the goal counter's field has at least as many values as there are goals *)
Theorem goal_counter_fits :
  (1 <= List.length goals)%nat ->
  forall name lo hi,
  In (name, lo, hi) (StreettGen.make_streett_transducer_declares goals) ->
  lo = 0%nat /\
  exists h, declared_hint 0 (Z.of_nat hi) = Some h /\ h_signed h = false /\
    bitfield_limits h = Some (0, 2 ^ h_width h - 1) /\
    (List.length goals <= Z.to_nat (2 ^ h_width h))%nat.
Proof.
  intros Hn name lo hi Hin. rewrite streett_declares_pinned in Hin.
  destruct Hin as [Heq|[]]. inversion Heq; subst. split; [reflexivity|].
  destruct (unsigned_field (List.length goals - 1)) as (h & E & Hs & Hl & Hfit).
  exists h. repeat split; try assumption. lia.
Qed.

(* both Rabin memory fields hold the values the construction uses *)
Theorem rabin_memory_fits :
  (1 <= List.length holds)%nat -> (1 <= List.length goals)%nat ->
  forall name lo hi,
  In (name, lo, hi) (RabinGen.make_rabin_transducer_declares holds goals) ->
  lo = 0%nat /\
  exists h, declared_hint 0 (Z.of_nat hi) = Some h /\ h_signed h = false /\
    bitfield_limits h = Some (0, 2 ^ h_width h - 1) /\
    ((name = name_hold -> List.length holds + 1 <= Z.to_nat (2 ^ h_width h)) /\
     (name = name_goal -> List.length goals <= Z.to_nat (2 ^ h_width h)))%nat.
Proof.
  intros Hh Hg name lo hi Hin. rewrite rabin_declares_pinned in Hin.
  destruct Hin as [Heq|[Heq|[]]]; inversion Heq; subst; (split; [reflexivity|]).
  - destruct (unsigned_field (List.length holds - 1 + 1)) as (h & E & Hs & Hl & Hfit).
    exists h. repeat split; try assumption; [intros _; lia|discriminate].
  - destruct (unsigned_field (List.length goals - 1)) as (h & E & Hs & Hl & Hfit).
    exists h. repeat split; try assumption; [discriminate|intros _; lia].
Qed.

End Widths.
