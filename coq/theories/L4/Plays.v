(* L4 / Plays: infinite plays of a two-player game over an arena, strategies
   of the component and of the environment as functions of the history, the
   four modes (Moore/Mealy component, strict/non-strict stepwise implication)
   and the Streett(1) / Rabin(1) objectives in game terms.

   A state is a pair (x, y) of an environment and a component valuation
   index; the rigid constants' valuation c is fixed along a play.  Step i of
   a play p is the valuation  (c, x_i, y_i, x_{i+1}, y_{i+1}).

   Mode:
   - Moore component: chooses y' without seeing x'; the environment then
     sees y'.  Mealy component: the environment chooses x' first (without
     seeing y'), the component sees x'.
   - plus_one (strict): the component must keep its action at step n if the
     environment kept its action at all steps before n; non-strict: if the
     environment kept it at all steps up to and including n. *)
From Coq Require Import List Bool Arith Lia.
Import ListNotations.
From Omega Require Import L4.Arena.

Definition st := (nat * nat)%type.
Definition play := nat -> st.
Definition swap_st (s : st) : st := (snd s, fst s).

Fixpoint hist (p : play) (i : nat) : list st :=
  match i with 0 => [p 0] | S k => p (S k) :: hist p k end.

Lemma hist_map (f : st -> st) p i : map f (hist p i) = hist (fun n => f (p n)) i.
Proof. induction i as [|i IH]; cbn [hist map]; [reflexivity|]. rewrite IH. reflexivity. Qed.

Lemma hist_hd p i d : hd d (hist p i) = p i.
Proof. destruct i; reflexivity. Qed.

Section Plays.
Variables nx ny : nat.
Variable c : nat.

Definition stv (s : st) : V := mkV c (fst s) (snd s) (fst s) (snd s).
Definition stepv (s s' : st) : V := mkV c (fst s) (snd s) (fst s') (snd s').

Definition inrange (p : play) : Prop := forall i, fst (p i) < nx /\ snd (p i) < ny.

(* strategies: history (latest state first), the opponent's next value (used
   only by the player who moves second) -> own next value *)
Definition strat := list st -> nat -> nat.

Definition cvalid (moore : bool) (f : strat) : Prop :=
  (forall h x', f h x' < ny) /\ (moore = true -> forall h x1 x2, f h x1 = f h x2).
Definition evalid (moore : bool) (g : strat) : Prop :=
  (forall h y', g h y' < nx) /\ (moore = false -> forall h y1 y2, g h y1 = g h y2).

Definition cconsistent (f : strat) (p : play) : Prop :=
  forall i, snd (p (S i)) = f (hist p i) (fst (p (S i))).
Definition econsistent (g : strat) (p : play) : Prop :=
  forall i, fst (p (S i)) = g (hist p i) (snd (p (S i))).

(* the play of a component strategy against an environment strategy *)
Fixpoint jhist (moore : bool) (f g : strat) (s0 : st) (n : nat) : list st :=
  match n with
  | 0 => [s0]
  | S k =>
    let h := jhist moore f g s0 k in
    (if moore then let y' := f h 0 in (g h y', y')
     else let x' := g h 0 in (x', f h x')) :: h
  end.
Definition jplay (moore : bool) (f g : strat) (s0 : st) : play :=
  fun n => hd s0 (jhist moore f g s0 n).

Lemma jhist_hist moore f g s0 n : hist (jplay moore f g s0) n = jhist moore f g s0 n.
Proof.
  induction n as [|n IH]; [reflexivity|].
  cbn [hist]. rewrite IH. unfold jplay at 1. cbn [jhist hd]. reflexivity.
Qed.

Lemma jplay_0 moore f g s0 : jplay moore f g s0 0 = s0.
Proof. reflexivity. Qed.

Lemma jplay_consistent moore f g s0 :
  cvalid moore f -> evalid moore g ->
  cconsistent f (jplay moore f g s0) /\ econsistent g (jplay moore f g s0).
Proof.
  intros [_ Hf] [_ Hg]. split; intros i; rewrite jhist_hist; unfold jplay;
    cbn [jhist hd]; destruct moore; cbn [fst snd]; try reflexivity.
  - apply Hf. reflexivity.
  - apply Hg. reflexivity.
Qed.

Lemma jplay_inrange moore f g s0 :
  cvalid moore f -> evalid moore g -> fst s0 < nx -> snd s0 < ny ->
  inrange (jplay moore f g s0).
Proof.
  intros [Hf _] [Hg _] H1 H2 i. destruct i as [|i]; [split; assumption|].
  unfold jplay. cbn [jhist hd]. destruct moore; cbn [fst snd]; split; auto.
Qed.

(* ------------------------------------------------------------ objectives *)
Variables E S : bdd.
Variables holds goals : list bdd.
Variable plus_one : bool.

Definition Eat (p : play) (i : nat) : Prop := E (stepv (p i) (p (Datatypes.S i))) = true.
Definition Sat (p : play) (i : nat) : Prop := S (stepv (p i) (p (Datatypes.S i))) = true.

(* the component keeps its action for as long as the mode obliges it to *)
Definition safe_comp (p : play) : Prop :=
  forall n, (forall i, i < n -> Eat p i) -> (plus_one = false -> Eat p n) -> Sat p n.

Definition persist (p : play) : Prop :=
  exists P, In P holds /\ exists N, forall i, N <= i -> P (stv (p i)) = true.
Definition recur (p : play) : Prop :=
  forall R, In R goals -> forall N, exists i, N <= i /\ R (stv (p i)) = true.

Definition win_streett (p : play) : Prop :=
  safe_comp p /\ ((forall i, Eat p i) -> persist p \/ recur p).
Definition win_rabin (p : play) : Prop :=
  safe_comp p /\ ((forall i, Eat p i) -> persist p /\ recur p).

(* the component wins from s with objective W *)
Definition comp_wins (moore : bool) (W : play -> Prop) (s : st) : Prop :=
  exists f, cvalid moore f /\
    forall p, inrange p -> p 0 = s -> cconsistent f p -> W p.
(* the environment can prevent W from s *)
Definition env_prevents (moore : bool) (W : play -> Prop) (s : st) : Prop :=
  exists g, evalid moore g /\
    forall p, inrange p -> p 0 = s -> econsistent g p -> ~ W p.

Lemma not_both moore W s :
  fst s < nx -> snd s < ny ->
  comp_wins moore W s -> env_prevents moore W s -> False.
Proof.
  intros H1 H2 [f [Vf Wf]] [g [Vg Wg]].
  destruct (jplay_consistent moore f g s Vf Vg) as [Cf Cg].
  pose proof (jplay_inrange moore f g s Vf Vg H1 H2) as Hr.
  apply (Wg (jplay moore f g s) Hr (jplay_0 _ _ _ _) Cg).
  apply (Wf (jplay moore f g s) Hr (jplay_0 _ _ _ _) Cf).
Qed.

End Plays.
