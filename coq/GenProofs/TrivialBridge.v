(* Tie T for gr1.trivial_winning_set: the function translated on every run
   from the current gr1.py / temporal.py (gen/TrivialGen.v: the construction
   of the second automaton field by field, the defaults of
   default_rabin_automaton, the two calls of the GENERATED solvers, zk[-1],
   the returned expression) returns, at every valuation, what the model
   GenProofs/TrivialSet.v says -- for all arenas, tables, liveness lists,
   modes and fuel.  The proof is computation plus the pointwise meaning of
   the BDD operators, so it survives renamings and re-orderings of the
   source but not a change of which field feeds which, of the complement,
   of the mode defaults or of the returned expression. *)
From Coq Require Import List Bool Arith.
Import ListNotations.
From Omega Require Import L4.Arena L4.ArenaFacts L4.Duality.
From OmegaGen Require Import FixpointGen Gr1Gen TrivialGen.
From OmegaGP Require Import GameSemantics TrivialSet.

Theorem trivial_winning_set_is_trivial_set :
  forall nc nx ny (E S : bdd) (holds goals : list bdd) (moore plus_one : bool) (fuel : nat) v,
  forall Ie Is, TrivialGen.trivial_winning_set nc nx ny E S Ie Is holds goals moore plus_one fuel v =
  trivial_set nc nx ny E S holds goals moore plus_one fuel v.
Proof.
  intros. rewrite trivial_set_at.
  unfold TrivialGen.trivial_winning_set, env_rabin_region, env_goals, streett_solved,
    rabin_solved.
  cbv zeta.
  repeat (rewrite ?band_spec, ?bor_spec, ?bnot_spec; unfold dual at 1).
  rewrite ?bnot_spec.
  reflexivity.
Qed.

(* ---- the theorems of TrivialSet.v about the TRANSLATED function ---- *)
Section Composed.
Variables nc nx ny : nat.
Variables E S Ie Is : bdd.
Variables holds goals : list bdd.
Variables moore plus_one : bool.
Variable fuel : nat.
Hypothesis HfA : Kleene.NV nc nx ny <= fuel.
Hypothesis HfB : Kleene.NV nc ny nx <= fuel.

Local Notation gen :=
  (TrivialGen.trivial_winning_set nc nx ny E S Ie Is holds goals moore plus_one fuel).

Theorem trivial_winning_set_mu v :
  Kleene.inr nc nx ny v ->
  gen v =
  GR1Spec.streett_spec nc nx ny moore plus_one E S holds goals v
  && negb (GR1Spec.rabin_spec nc ny nx true true (dual S) (dual E) [btrue]
             (env_goals nc nx ny holds) (swapV v)).
Proof.
  intros Hv. rewrite trivial_winning_set_is_trivial_set.
  apply trivial_set_mu; assumption.
Qed.

Variable c : nat.
Hypothesis Hc : c < nc.
Hypothesis HnR : 0 < length goals.
Hypothesis HnP : 0 < length holds.

Theorem trivial_winning_set_spec s :
  fst s < nx -> snd s < ny ->
  (gen (Plays.stv c s) = true <->
   Plays.comp_wins nx ny moore (Plays.win_streett c E S holds goals plus_one) s /\
   ~ Plays.comp_wins ny nx true
       (Plays.win_rabin c (dual S) (dual E) [btrue] (map Phi holds) true) (Plays.swap_st s)).
Proof.
  intros H1 H2. rewrite trivial_winning_set_is_trivial_set.
  apply trivial_set_spec; assumption.
Qed.

Theorem trivial_winning_set_spec_dual s :
  fst s < nx -> snd s < ny ->
  (gen (Plays.stv c s) = true <->
   Plays.comp_wins nx ny moore (Plays.win_streett c E S holds goals plus_one) s /\
   Plays.env_prevents ny nx true
       (Plays.win_rabin c (dual S) (dual E) [btrue] (map Phi holds) true) (Plays.swap_st s)).
Proof.
  intros H1 H2. rewrite trivial_winning_set_is_trivial_set.
  apply trivial_set_spec_dual; assumption.
Qed.
End Composed.
