"""Fail-closed translator (tie T) for the branch-and-bound SKELETON of
omega/symbolic/cover.py and cover_enum.py:

    cover._traverse, cover._branch, cover.minimize
    cover_enum._traverse_exhaustive, cover_enum._branch_exhaustive

The control structure of these functions (order of tests, comparison
operators, what is returned where, how bab.upper_bound is threaded, which
arguments the recursive calls get) is read from the source text with `ast`
and emitted as Gallina over the PRIMITIVES of the hand model
(coq/theories/L5Cover/MinCover.v, CoverEnum.v): cyclic_core, indep_size,
some_cover, unfloors, pick, embed, primes, diff, union, filter/box_leb,
length, union_fam.  BDD-level expressions are mapped to those primitives by
the fixed tables below; every statement and expression that is not recognised
raises `Refuse` (the check then reports a broken tie).  coq/GenProofs/
CoverBBBridge.v proves that the generated functions EQUAL the hand-written
MinCover.traverse / minimize_xy (with _branch inlined) and
CoverEnumExact.trav (= the branch-and-bound part of CoverEnum.ccfr), so a
change of the skeleton in /repo that alters the generated term breaks the
bridge on every run, independently of the sampled inputs.

State: `bab.upper_bound` is threaded as a `nat`; a stateful function returns
`M (value * nat)` where M is `option` (cover.py: None = the model's "would
fail / out of fuel") or `res` (cover_enum.py: assertion errors).  The
translator never imports omega.
"""
import ast


class Refuse(Exception):
    """The source left the supported subset."""


def _src(n):
    return ast.unparse(n)


# statements that do not influence the result ------------------------------
SKIP_CALL_PREFIXES = ('log.', '_print_cyclic_core', 'assert_is_a_cover_from_y',
                      'cov.assert_is_a_cover_from_y')
SKIP_ASSIGN = {            # target = rhs (exact source), book-keeping only
    't0': 'time.perf_counter()',
}
# (function, source of the statement) that only feeds logging
SKIP_STMT_SRC = {
    ('_traverse',
     "if bab.lower_bound is None:\n    log.info(f'global lower bound: {branch_lb}')"
     "\n    bab.lower_bound = branch_lb"),
    ('_traverse_exhaustive',
     "if bab.lower_bound is None:\n    log.info(f'global lower bound: {branch_lb}')"
     "\n    bab.lower_bound = branch_lb"),
}
# assertions: 'skip' = re-checks an invariant that the model does not model
# (C09 model) / a type fact of dd; otherwise the boolean Gallina test that the
# cover_enum model contains (`check`)
ASSERTS = {
    '_traverse': {
        'core_lb == 0': 'skip', 'xcore != fol.false': 'skip',
        'ycore != fol.false': 'skip'},
    '_branch': {
        'set(d) == bab.p_vars': 'skip', 'ynew != y': 'skip',
        'x_minus_y != x': 'skip', 'e0 is None': 'skip',
        'e0 is not None': 'skip'},
    'minimize': {
        'cover is not None': 'skip',
        '_none_covered(cover, low, prm, fol)': 'skip'},
    '_traverse_exhaustive': {
        'ycore == fol.false': 'is_nil {ycore}',
        'core_lb == 0': 'Nat.eqb {core_lb} 0',
        'xcore != fol.false': 'skip', 'ycore != fol.false': 'skip'},
    '_branch_exhaustive': {
        'support_issubset(x, bab.p_vars, fol)': 'skip',
        'support_issubset(y, bab.p_vars, fol)': 'skip',
        'set(d) == bab.p_vars': 'skip', 'ynew != y': 'skip',
        'x_minus_y != x':
            'negb (Nat.eqb (length {x_minus_y}) (length {x}))',
        'mincovers_left': 'skip', 'mincovers_right': 'skip'},
}


class Fn:
    """Translation of one function body into the state/failure monad."""

    def __init__(self, name, node, monad, sigs):
        self.name = name
        self.node = node
        self.monad = monad          # 'option' | 'res'
        self.sigs = sigs            # callee name -> how to call it
        self.env = {}               # python name -> (coq term, type)
        self.nub = 0
        self.ub = 'ub'
        self.notes = []
        self.rettype = None

    # ---------------------------------------------------------------- monad
    def fail(self):
        return 'None' if self.monad == 'option' else 'fail EAssert'

    def ret(self, v):
        if self.monad == 'option':
            return f'Some ({v}, {self.ub})'
        return f'ok ({v}, {self.ub})'

    def bind_partial(self, term, pat, body):
        if self.monad == 'option':
            return (f'match {term} with\n| None => None\n'
                    f'| Some {pat} =>\n{body}\nend')
        return (f'match {term} with\n| None => fail EAssert\n'
                f'| Some {pat} =>\n{body}\nend')

    def bind_m(self, term, pat, body):
        if self.monad == 'option':
            return (f'match {term} with\n| None => None\n'
                    f'| Some {pat} =>\n{body}\nend')
        return f'bind ({term}) (fun r_ => let \'{pat} := r_ in\n{body})'

    def fresh_ub(self):
        self.nub += 1
        self.ub = f'ub{self.nub}'
        return self.ub

    # ---------------------------------------------------------------- exprs
    def var(self, name):
        if name not in self.env:
            raise Refuse(f'{self.name}: unknown variable {name}')
        return self.env[name]

    def expr(self, e):
        """(coq term, type) of a PURE expression."""
        s = _src(e)
        if isinstance(e, ast.Constant):
            if e.value is None:
                return 'None', 'oset'
            if isinstance(e.value, (int, float)) and e.value == 0:
                return '0%nat', 'nat'
            if isinstance(e.value, int) and e.value > 0:
                return f'{e.value}%nat', 'nat'
            raise Refuse(f'{self.name}: constant {s}')
        if isinstance(e, ast.Name):
            return self.var(e.id)
        if s == 'bab.upper_bound':
            return self.ub, 'nat'
        if s == 'fol.false':
            return '[]', 'set'
        if isinstance(e, ast.Tuple):
            parts = [self.expr(x) for x in e.elts]
            return ('(' + ', '.join(p[0] for p in parts) + ')',
                    ('tuple',) + tuple(p[1] for p in parts))
        if isinstance(e, ast.BinOp):
            if isinstance(e.op, ast.Add):
                a, ta = self.expr(e.left)
                b, tb = self.expr(e.right)
                if ta == tb == 'nat':
                    return f'({a} + {b})%nat', 'nat'
                raise Refuse(f'{self.name}: + on {ta}, {tb}: {s}')
            if isinstance(e.op, ast.BitAnd) and isinstance(e.right, ast.UnaryOp) \
                    and isinstance(e.right.op, ast.Invert):
                a, ta = self.expr(e.left)
                b, tb = self.expr(e.right.operand)
                if ta == 'set' and (tb == 'set' or
                                    (isinstance(tb, tuple) and tb[0] == 'single')):
                    return f'(diff {a} {b})', 'set'
                if ta == 'set' and isinstance(tb, tuple) and tb[0] == 'under':
                    return (f'(filter (fun p_ => negb (box_leb p_ {tb[1]})) {a})',
                            'set')
                raise Refuse(f'{self.name}: & ~ on {ta}, {tb}: {s}')
            if isinstance(e.op, ast.BitOr):
                a, ta = self.expr(e.left)
                b, tb = self.expr(e.right)
                if ta == 'set' and isinstance(tb, tuple) and tb[0] == 'single':
                    # u | assign_from(d): the model adds the element in front
                    return f'({tb[1]} :: {a})', 'set'
                if ta == 'set' and tb == 'set':
                    return f'(union {a} {b})', 'set'
                raise Refuse(f'{self.name}: | on {ta}, {tb}: {s}')
        if isinstance(e, ast.Set) and len(e.elts) == 1:
            a, ta = self.expr(e.elts[0])
            if ta == 'set':
                return f'[{a}]', 'fam'
        if isinstance(e, ast.Call) and s == 'set()':
            return '[]', 'fam'
        if isinstance(e, ast.Call) and _src(e.func) == 'set' and len(e.args) == 1:
            a, ta = self.expr(e.args[0])
            if ta == 'fam':
                return a, 'fam'
        if isinstance(e, ast.Call):
            return self.call(e)
        if isinstance(e, ast.DictComp) and \
                s == '{bab.p_to_q[k]: v for k, v in d.items()}':
            d, td = self.var('d')
            return d, ('elemq', d)
        raise Refuse(f'{self.name}: expression {s}')

    def call(self, e):
        s = _src(e)
        f = _src(e.func)
        args = e.args
        if f in ('_cost', 'cov._cost') and len(args) == 3:
            u, tu = self.expr(args[0])
            if tu == 'set':
                return f'(length {u})', 'nat'
            if tu == 'oset':
                return f'(cost {u})', 'cost'
        if f in ('_lower_bound', 'cov._lower_bound') and len(args) == 5 and \
                _src(args[2]).endswith('.p_leq_q') and _src(args[3]).endswith('.p_to_q'):
            x, tx = self.expr(args[0])
            y, ty = self.expr(args[1])
            if tx == ty == 'set':
                return f'(indep_size pick (S (length {x})) {x} {y})', 'nat'
        if f == 'fol.assign_from' and len(args) == 1:
            d, td = self.expr(args[0])
            if td == 'elem':
                return f'[{d}]', ('single', d)
        if f == 'fol.let' and len(args) == 2 and _src(args[1]) == 'bab.p_leq_q':
            d, td = self.expr(args[0])
            if isinstance(td, tuple) and td[0] == 'elemq':
                return d, ('under', td[1])
        if f == 'lat.embed_as_implicants' and len(args) == 3:
            return '(embed rs f)', 'set'
        if f == 'lat.prime_implicants' and len(args) == 3:
            a, ta = self.expr(args[0])
            if ta == 'fcare':
                return '(primes rs f care)', 'set'
        raise Refuse(f'{self.name}: call {s}')

    def test(self, e):
        """Gallina boolean of a condition."""
        s = _src(e)
        if isinstance(e, ast.UnaryOp) and isinstance(e.op, ast.Not):
            a, ta = self.expr(e.operand)
            if ta == 'fam':
                return f'is_nil {a}'
        if isinstance(e, ast.Compare) and len(e.ops) == 1:
            op = e.ops[0]
            l, r = e.left, e.comparators[0]
            if isinstance(op, (ast.Is, ast.IsNot)) and _src(r) == 'None':
                a, ta = self.expr(l)
                if ta == 'oset':
                    return ('is_none ' if isinstance(op, ast.Is) else 'is_some ') + a
            if isinstance(op, ast.Eq) and _src(r) == 'fol.false':
                a, ta = self.expr(l)
                if ta == 'set':
                    return f'is_nil {a}'
            a, ta = self.expr(l)
            b, tb = self.expr(r)
            if ta == tb == 'nat':
                if isinstance(op, ast.GtE):
                    return f'({b} <=? {a})%nat'
                if isinstance(op, ast.Gt):
                    return f'({b} <? {a})%nat'
                if isinstance(op, ast.Lt):
                    return f'({a} <? {b})%nat'
                if isinstance(op, ast.LtE):
                    return f'({a} <=? {b})%nat'
                if isinstance(op, ast.Eq):
                    return f'Nat.eqb {a} {b}'
            if ta == tb == 'cost':
                if isinstance(op, ast.Lt):
                    return f'cost_lt {a} {b}'
        raise Refuse(f'{self.name}: condition {s}')

    # ---------------------------------------------------------------- stmts
    def bind_targets(self, target, types):
        """Pattern and environment update for an assignment target."""
        if isinstance(target, ast.Name):
            if target.id == '_':
                return '_'
            nm = self.fresh_name(target.id)
            self.env[target.id] = (nm, types)
            return nm
        if isinstance(target, ast.Tuple):
            if not (isinstance(types, tuple) and types[0] == 'tuple'
                    and len(types) - 1 == len(target.elts)):
                raise Refuse(f'{self.name}: tuple target {_src(target)} : {types}')
            return '(' + ', '.join(self.bind_targets(t, ty) for t, ty
                                   in zip(target.elts, types[1:])) + ')'
        raise Refuse(f'{self.name}: target {_src(target)}')

    def fresh_name(self, base):
        used = {v[0] for v in self.env.values()}
        nm = base
        k = 0
        while nm in used or nm in ('f', 'care', 'rs', 'pick', 'ub', 'rec'):
            k += 1
            nm = f'{base}{k}'
        return nm

    def stmts(self, body):
        if not body:
            raise Refuse(f'{self.name}: control reaches the end without return')
        st, rest = body[0], body[1:]
        src = _src(st)
        # ---- ignorable
        if isinstance(st, ast.Expr) and isinstance(st.value, ast.Constant) \
                and isinstance(st.value.value, str):
            return self.stmts(rest)
        if isinstance(st, ast.Expr) and isinstance(st.value, ast.Call) and \
                _src(st.value.func).startswith(SKIP_CALL_PREFIXES):
            return self.stmts(rest)
        if (self.name, src) in SKIP_STMT_SRC:
            return self.stmts(rest)
        if self.name == 'minimize' and src == 'lat.setup_lattice(prm, fol)':
            return self.stmts(rest)     # declares the lattice relations
        if isinstance(st, ast.Assign) and len(st.targets) == 1 and \
                isinstance(st.targets[0], ast.Name) and \
                SKIP_ASSIGN.get(st.targets[0].id) == _src(st.value):
            return self.stmts(rest)
        if isinstance(st, ast.If) and self.only_logging(st.body) and not st.orelse \
                and self.pure_warning_test(st.test):
            self.notes.append(f'{self.name}: warning `{_src(st.test)}` skipped')
            return self.stmts(rest)
        # ---- `r = set(F); F = set(); for c in r: c |= S; F.add(c)`
        if len(body) >= 3 and self.is_map_union(body[0], body[1], body[2]):
            F = body[1].targets[0].id
            a, _ = self.var(F)
            S, tS = self.expr(body[2].body[0].value)
            if not (tS == 'set' or (isinstance(tS, tuple) and tS[0] == 'single')):
                raise Refuse(f'{self.name}: |= {tS}')
            nm = self.fresh_name(F)
            self.env[F] = (nm, 'fam')
            self.env[body[0].targets[0].id] = (a, 'fam')
            return (f'let {nm} := map (fun c_ => union c_ {S}) {a} in\n'
                    + self.stmts(body[3:]))
        # ---- `e = next(iter(F))`
        if isinstance(st, ast.Assign) and len(st.targets) == 1 and \
                isinstance(st.targets[0], ast.Name) and isinstance(st.value, ast.Call) \
                and _src(st.value.func) == 'next' and len(st.value.args) == 1 and \
                isinstance(st.value.args[0], ast.Call) and \
                _src(st.value.args[0].func) == 'iter' and len(st.value.args[0].args) == 1:
            a, ta = self.expr(st.value.args[0].args[0])
            if ta != 'fam':
                raise Refuse(f'{self.name}: next(iter(.)) of {ta}')
            nm = self.fresh_name(st.targets[0].id)
            self.env[st.targets[0].id] = (nm, 'set')
            return (f'match {a} with\n| [] => {self.fail()}\n| {nm} :: _ =>\n'
                    + self.stmts(rest) + '\nend')
        # ---- assert
        if isinstance(st, ast.Assert):
            key = _src(st.test)
            table = ASSERTS.get(self.name, {})
            if key not in table:
                raise Refuse(f'{self.name}: unknown assertion `{key}`')
            if table[key] == 'skip':
                return self.stmts(rest)
            cond = table[key].format(**{k: v[0] for k, v in self.env.items()})
            return f'check ({cond})\n({self.stmts(rest)})'
        # ---- return
        if isinstance(st, ast.Return):
            if rest:
                raise Refuse(f'{self.name}: code after return')
            return self.do_return(st.value)
        # ---- if
        if isinstance(st, ast.If):
            return self.do_if(st, rest)
        # ---- assignment
        if isinstance(st, ast.Assign) and len(st.targets) == 1:
            return self.do_assign(st.targets[0], st.value, rest)
        raise Refuse(f'{self.name}: statement `{src.splitlines()[0]}`')

    def is_map_union(self, s0, s1, s2):
        if not (isinstance(s0, ast.Assign) and isinstance(s1, ast.Assign)
                and isinstance(s2, ast.For)):
            return False
        if not (len(s0.targets) == 1 and isinstance(s0.targets[0], ast.Name)
                and len(s1.targets) == 1 and isinstance(s1.targets[0], ast.Name)):
            return False
        r, F = s0.targets[0].id, s1.targets[0].id
        if _src(s0.value) != f'set({F})' or _src(s1.value) != 'set()':
            return False
        if not (isinstance(s2.target, ast.Name) and _src(s2.iter) == r
                and not s2.orelse and len(s2.body) == 2):
            return False
        c = s2.target.id
        a, b = s2.body
        return (isinstance(a, ast.AugAssign) and isinstance(a.op, ast.BitOr)
                and _src(a.target) == c
                and isinstance(b, ast.Expr) and _src(b.value) == f'{F}.add({c})')

    def chain_assign(self, st):
        """`if c1: v = a  elif c2: v = b ...` (a branch may be followed by
        `v.update(w)`): (v, term) with the previous value of v as default."""
        def branch(body):
            if not body or not (isinstance(body[0], ast.Assign)
                                and len(body[0].targets) == 1
                                and isinstance(body[0].targets[0], ast.Name)):
                return None
            v = body[0].targets[0].id
            a, ta = self.expr(body[0].value)
            if ta != 'fam':
                return None
            if len(body) == 1:
                return v, a
            if len(body) == 2 and isinstance(body[1], ast.Expr) and \
                    isinstance(body[1].value, ast.Call) and \
                    _src(body[1].value.func) == f'{v}.update' and \
                    len(body[1].value.args) == 1:
                b, tb = self.expr(body[1].value.args[0])
                if tb == 'fam':
                    return v, f'(union_fam {a} {b})'
            return None
        got = branch(st.body)
        if got is None:
            return None
        v, a = got
        cond = self.test(st.test)
        if not st.orelse:
            prev, tp = self.var(v)
            if tp != 'fam':
                return None
            return v, f'if {cond} then {a} else {prev}'
        if len(st.orelse) == 1 and isinstance(st.orelse[0], ast.If):
            sub = self.chain_assign(st.orelse[0])
            if sub is None or sub[0] != v:
                return None
            return v, f'if {cond} then {a} else {sub[1]}'
        return None

    def only_logging(self, body):
        return all(isinstance(s, ast.Expr) and isinstance(s.value, ast.Call)
                   and _src(s.value.func).startswith('log.') for s in body)

    def pure_warning_test(self, t):
        """A test that only inspects the inputs (no effect on the result when
        its branch only logs)."""
        allowed = {'f', 'care', 'fol', '_care_implies_type_hints',
                   '_f_implies_care', 'cov'}
        for n in ast.walk(t):
            if isinstance(n, ast.Name) and n.id not in allowed:
                return False
            if isinstance(n, (ast.NamedExpr, ast.Lambda, ast.Await, ast.Yield)):
                return False
        return True

    def coerce(self, e, want):
        """Term of the expression at the declared return type."""
        if isinstance(want, tuple) and want[0] == 'tuple':
            if not (isinstance(e, ast.Tuple) and len(e.elts) == len(want) - 1):
                raise Refuse(f'{self.name}: return {_src(e)} : expected {want}')
            return '(' + ', '.join(self.coerce(x, w) for x, w
                                   in zip(e.elts, want[1:])) + ')'
        v, tv = self.expr(e)
        if tv == want:
            return v
        if want == 'oset' and tv == 'set':
            return f'Some {v}'
        raise Refuse(f'{self.name}: return {_src(e)} : {tv}, expected {want}')

    def do_return(self, value):
        return self.ret(self.coerce(value, self.rettype))

    def snapshot(self):
        return dict(self.env), self.ub, self.nub

    def restore(self, snap):
        self.env, self.ub, _ = dict(snap[0]), snap[1], snap[2]

    def do_if(self, st, rest):
        src = _src(st.test)
        # `if v is None: v, _ = CALL` : the variable gets a set in both cases
        if src.endswith(' is None') and not st.orelse and len(st.body) == 1 and \
                isinstance(st.body[0], ast.Assign) and isinstance(st.test.left, ast.Name):
            v = st.test.left.id
            a, ta = self.var(v)
            if ta != 'oset':
                raise Refuse(f'{self.name}: `{src}` on {ta}')
            snap = self.snapshot()
            then = self.do_assign(st.body[0].targets[0], st.body[0].value, rest)
            self.restore(snap)
            nm = self.fresh_name(v)
            self.env[v] = (nm, 'set')
            els = self.stmts(rest)
            return (f'match {a} with\n| None =>\n{then}\n| Some {nm} =>\n{els}\nend')
        # `if v is None: ...; return ...` : afterwards v is a set
        if src.endswith(' is None') and not st.orelse and isinstance(st.test.left, ast.Name) \
                and self.ends_with_return(st.body) and self.var(st.test.left.id)[1] == 'oset':
            v = st.test.left.id
            a, _ = self.var(v)
            snap = self.snapshot()
            then = self.stmts(st.body)
            self.restore(snap)
            nm = self.fresh_name(v)
            self.env[v] = (nm, 'set')
            els = self.stmts(rest)
            return (f'match {a} with\n| None =>\n{then}\n| Some {nm} =>\n{els}\nend')
        if not self.ends_with_return(st.body):
            snapc = self.snapshot()
            try:
                ch = self.chain_assign(st)
            except Refuse:
                ch = None
            self.restore(snapc)
            if ch is not None:
                v, term = ch
                nm = self.fresh_name(v)
                self.env[v] = (nm, 'fam')
                return f'let {nm} := {term} in\n' + self.stmts(rest)
        cond = self.test(st.test)
        snap = self.snapshot()
        returns = self.ends_with_return(st.body)
        if returns and not st.orelse:
            then = self.stmts(st.body)
            self.restore(snap)
            els = self.stmts(rest)
            return f'if {cond}\nthen {then}\nelse {els}'
        if st.orelse and not returns and not self.ends_with_return(st.orelse):
            # both branches assign one variable: an expression-level choice
            if len(st.body) and len(st.orelse):
                tb = self.branch_assign(st.body)
                eb = self.branch_assign(st.orelse)
                if tb and eb and tb[0] == eb[0]:
                    a, ta = tb[1]
                    b, tb_ = eb[1]
                    if ta != tb_:
                        raise Refuse(f'{self.name}: branches of `if {src}` '
                                     f'assign {ta} / {tb_}')
                    nm = self.fresh_name(tb[0])
                    self.env[tb[0]] = (nm, ta)
                    return (f'let {nm} := if {cond} then {a} else {b} in\n'
                            + self.stmts(rest))
        raise Refuse(f'{self.name}: shape of `if {src}`')

    def branch_assign(self, body):
        """(name, (term, type)) when the branch is asserts + one assignment."""
        out = None
        for s in body:
            if isinstance(s, ast.Assert):
                key = _src(s.test)
                if ASSERTS.get(self.name, {}).get(key) != 'skip':
                    raise Refuse(f'{self.name}: assertion `{key}` in a branch')
                continue
            if isinstance(s, ast.Assign) and len(s.targets) == 1 and \
                    isinstance(s.targets[0], ast.Name) and out is None:
                out = (s.targets[0].id, self.opt_expr(s.value))
                continue
            return None
        return out

    def opt_expr(self, e):
        """Expression of option-set type: oset variables, or set operations
        on an oset variable lifted by option_map (`e0 | y_branch`)."""
        if isinstance(e, ast.Name) and self.var(e.id)[1] == 'oset':
            return self.var(e.id)
        if isinstance(e, ast.BinOp) and isinstance(e.op, ast.BitOr) and \
                isinstance(e.left, ast.Name) and self.var(e.left.id)[1] == 'oset':
            a, _ = self.var(e.left.id)
            b, tb = self.expr(e.right)
            if isinstance(tb, tuple) and tb[0] == 'single':
                return f'(option_map (cons {tb[1]}) {a})', 'oset'
            if tb == 'set':
                return f'(option_map (fun c_ => union c_ {b}) {a})', 'oset'
        raise Refuse(f'{self.name}: option expression {_src(e)}')

    def ends_with_return(self, body):
        return bool(body) and isinstance(body[-1], ast.Return)

    def do_assign(self, target, value, rest):
        src = _src(value)
        # ---- state update
        if _src(target) == 'bab.upper_bound':
            if isinstance(value, ast.Call) and _src(value.func) in ('_upper_bound', 'cov._upper_bound'):
                x, _ = self.expr(value.args[0])
                y, _ = self.expr(value.args[1])
                c0 = self.fresh_name('c0')
                self.env['__greedy'] = (c0, 'set')
                ub = self.fresh_ub()
                body = f'let {ub} := length {c0} in\n' + self.stmts(rest)
                return self.bind_partial(
                    f'some_cover pick (S (length {x})) {x} {y}', c0, body)
            v, tv = self.expr(value)
            if tv != 'nat':
                raise Refuse(f'{self.name}: bab.upper_bound = {src} : {tv}')
            ub = self.fresh_ub()
            return f'let {ub} := {v} in\n' + self.stmts(rest)
        # ---- partial / stateful calls
        if isinstance(value, ast.Call):
            f = _src(value.func)
            args = value.args
            if f == '_cyclic_core_fixpoint' and len(args) == 4:
                x, _ = self.expr(args[0])
                y, _ = self.expr(args[1])
                pat = self.bind_targets(target, ('tuple', 'set', 'set', 'set'))
                return self.bind_partial(f'cyclic_core rs {x} {y}', pat,
                                         self.stmts(rest))
            if f == 'fol.pick' and len(args) == 1:
                y, ty = self.expr(args[0])
                if ty != 'set':
                    raise Refuse(f'{self.name}: pick of {ty}')
                pat = self.bind_targets(target, 'elem')
                return self.bind_partial(f'pick {y}', pat, self.stmts(rest))
            if f == '_some_cover' and len(args) == 5:
                x, _ = self.expr(args[0])
                y, _ = self.expr(args[1])
                pat = self.bind_targets(target, ('tuple', 'set', 'nat'))
                # the pair (cover, its size): only the cover is a model value
                c = self.fresh_name('c_greedy')
                body = f'let {pat} := ({c}, length {c}) in\n' + self.stmts(rest)
                return self.bind_partial(
                    f'some_cover pick (S (length {x})) {x} {y}', c, body)
            if f == 'unfloors' and len(args) == 4:
                c, tc = self.expr(args[0])
                y, _ = self.expr(args[1])
                pat = self.bind_targets(target, 'set')
                return self.bind_partial(f'unfloors pick {c} {y}', pat,
                                         self.stmts(rest))
            if f in self.sigs:
                return self.sigs[f](self, target, args, rest)
        # ---- book-keeping of minimize
        if self.name == 'minimize':
            if src in ('lat.setup_aux_vars(f, care, fol)',
                       '_BranchAndBound(prm, fol)'):
                return self.stmts(rest)
            if src == 'f | ~care':
                self.env[target.id] = ('fcare', 'fcare')
                return self.stmts(rest)
            if src == 'care & ~f':
                self.env[target.id] = ('low', 'low')
                return self.stmts(rest)
        # ---- pure
        v, tv = self.expr(value)
        if isinstance(tv, tuple) and tv[0] in ('single', 'under', 'elemq'):
            # symbolic values: remembered, no let
            if not isinstance(target, ast.Name):
                raise Refuse(f'{self.name}: target of {src}')
            if tv[0] == 'single':
                nm = self.fresh_name(target.id)
                self.env[target.id] = (nm, tv)
                return f'let {nm} := {v} in\n' + self.stmts(rest)
            self.env[target.id] = (v, tv)
            return self.stmts(rest)
        pat = self.bind_targets(target, tv)
        return f'let {pat} := {v} in\n' + self.stmts(rest)


def _call_traverse(fuel_term):
    def go(fn, target, args, rest):
        x, _ = fn.expr(args[0])
        y, _ = fn.expr(args[1])
        pc, tpc = fn.expr(args[2])
        if tpc != 'nat' or _src(args[3]) != 'bab' or _src(args[4]) != 'fol':
            raise Refuse(f'{fn.name}: call of _traverse')
        call = f'{fuel_term} {x} {y} {pc} {fn.ub}'
        pat = fn.bind_targets(target, ('tuple', 'oset', 'nat'))
        ub = fn.fresh_ub()
        return fn.bind_m(call, f'({pat}, {ub})', fn.stmts(rest))
    return go


def _call_branch(fn, target, args, rest):
    x, _ = fn.expr(args[0])
    y, _ = fn.expr(args[1])
    pc, tpc = fn.expr(args[2])
    if tpc != 'nat' or _src(args[3]) != 'bab' or _src(args[4]) != 'fol':
        raise Refuse(f'{fn.name}: call of _branch')
    call = f'branch_gen rec {x} {y} {pc} {fn.ub}'
    pat = fn.bind_targets(target, 'oset')
    ub = fn.fresh_ub()
    return fn.bind_m(call, f'({pat}, {ub})', fn.stmts(rest))


def _indent(text, n=2):
    return '\n'.join(' ' * n + ln for ln in text.splitlines())


def _function(tree, name):
    for node in tree.body:
        if isinstance(node, ast.FunctionDef) and node.name == name:
            return node
    raise Refuse(f'function {name} not found')


def translate_cover(path):
    """Gallina text of branch_gen, traverse_gen, minimize_gen (cover.py)."""
    with open(path) as fh:
        tree = ast.parse(fh.read())
    notes = []
    out = []
    # _branch: parameterised by the recursive _traverse
    node = _function(tree, '_branch')
    if [a.arg for a in node.args.args] != ['x', 'y', 'path_cost', 'bab', 'fol']:
        raise Refuse('_branch: parameters')
    fn = Fn('_branch', node, 'option', {'_traverse': _call_traverse('rec')})
    fn.env = {'x': ('x', 'set'), 'y': ('y', 'set'), 'path_cost': ('path_cost', 'nat')}
    fn.rettype = 'oset'
    body = fn.stmts(node.body)
    notes += fn.notes
    out.append(
        'Definition branch_gen\n'
        '  (rec : list box -> list box -> nat -> nat ->\n'
        '         option (option (list box) * nat * nat))\n'
        '  (x y : list box) (path_cost ub : nat)\n'
        '  : option (option (list box) * nat) :=\n' + _indent(body) + '.')
    # _traverse: the Fixpoint on the fuel
    node = _function(tree, '_traverse')
    if [a.arg for a in node.args.args] != ['x', 'y', 'path_cost', 'bab', 'fol']:
        raise Refuse('_traverse: parameters')
    fn = Fn('_traverse', node, 'option', {'_branch': _call_branch})
    fn.env = {'x': ('x', 'set'), 'y': ('y', 'set'), 'path_cost': ('path_cost', 'nat')}
    fn.rettype = ('tuple', 'oset', 'nat')
    body = fn.stmts(node.body)
    notes += fn.notes
    out.append(
        'Fixpoint traverse_gen (fuel : nat) (x y : list box) (path_cost ub : nat)\n'
        '  : option (option (list box) * nat * nat) :=\n'
        '  match fuel with\n  | O => None\n  | S fuel_ =>\n'
        '      let rec := traverse_gen fuel_ in\n' + _indent(body, 6) + '\n  end.')
    # minimize
    node = _function(tree, 'minimize')
    if [a.arg for a in node.args.args] != ['f', 'care', 'fol']:
        raise Refuse('minimize: parameters')

    def call_top(fn, target, args, rest):
        x, _ = fn.expr(args[0])
        y, _ = fn.expr(args[1])
        pc, tpc = fn.expr(args[2])
        if tpc != 'nat':
            raise Refuse('minimize: call of _traverse')
        call = f'traverse_gen (S (length {y})) {x} {y} {pc} {fn.ub}'
        pat = fn.bind_targets(target, ('tuple', 'oset', 'nat'))
        ub = fn.fresh_ub()
        return fn.bind_m(call, f'({pat}, {ub})', fn.stmts(rest))
    fn = Fn('minimize', node, 'option', {'_traverse': call_top})
    fn.env = {}
    fn.rettype = 'set'
    body = fn.stmts(node.body)
    notes += fn.notes
    out.append(
        'Definition minimize_gen (f care : point -> bool)\n'
        '  : option (list box * nat) :=\n  let ub := 0%nat in\n' + _indent(body) + '.')
    return '\n\n'.join(out), notes


def _call_rec_enum(fn, target, args, rest):
    x, _ = fn.expr(args[0])
    y, _ = fn.expr(args[1])
    pc, tpc = fn.expr(args[2])
    if tpc != 'nat' or _src(args[3]) != 'bab' or _src(args[4]) != 'fol':
        raise Refuse(f'{fn.name}: call of _cyclic_core_fixpoint_recursive')
    call = f'rec {x} {y} {pc} {fn.ub}'
    pat = fn.bind_targets(target, 'fam')
    ub = fn.fresh_ub()
    return fn.bind_m(call, f'({pat}, {ub})', fn.stmts(rest))


def _call_branch_enum(fn, target, args, rest):
    x, _ = fn.expr(args[0])
    y, _ = fn.expr(args[1])
    pc, tpc = fn.expr(args[2])
    if tpc != 'nat' or _src(args[3]) != 'bab' or _src(args[4]) != 'fol':
        raise Refuse(f'{fn.name}: call of _branch_exhaustive')
    call = f'branch_exh_gen rec {x} {y} {pc} {fn.ub}'
    pat = fn.bind_targets(target, 'fam')
    ub = fn.fresh_ub()
    return fn.bind_m(call, f'({pat}, {ub})', fn.stmts(rest))


def translate_enum(path):
    """Gallina text of branch_exh_gen, traverse_exh_gen (cover_enum.py)."""
    with open(path) as fh:
        tree = ast.parse(fh.read())
    notes = []
    out = []
    node = _function(tree, '_branch_exhaustive')
    if [a.arg for a in node.args.args] != ['x', 'y', 'path_cost', 'bab', 'fol']:
        raise Refuse('_branch_exhaustive: parameters')
    fn = Fn('_branch_exhaustive', node, 'res',
            {'_cyclic_core_fixpoint_recursive': _call_rec_enum})
    fn.env = {'x': ('x', 'set'), 'y': ('y', 'set'), 'path_cost': ('path_cost', 'nat')}
    fn.rettype = 'fam'
    body = fn.stmts(node.body)
    notes += fn.notes
    out.append(
        'Definition branch_exh_gen\n'
        '  (rec : list box -> list box -> nat -> nat -> res (family * nat))\n'
        '  (x y : list box) (path_cost ub : nat) : res (family * nat) :=\n'
        + _indent(body) + '.')
    node = _function(tree, '_traverse_exhaustive')
    if [a.arg for a in node.args.args] != ['xcore', 'ycore', 'path_cost', 'bab', 'fol']:
        raise Refuse('_traverse_exhaustive: parameters')
    fn = Fn('_traverse_exhaustive', node, 'res',
            {'_branch_exhaustive': _call_branch_enum})
    fn.env = {'xcore': ('xcore', 'set'), 'ycore': ('ycore', 'set'),
              'path_cost': ('path_cost', 'nat')}
    fn.rettype = 'fam'
    body = fn.stmts(node.body)
    notes += fn.notes
    out.append(
        'Definition traverse_exh_gen\n'
        '  (rec : list box -> list box -> nat -> nat -> res (family * nat))\n'
        '  (xcore ycore : list box) (path_cost ub : nat) : res (family * nat) :=\n'
        + _indent(body) + '.')
    return '\n\n'.join(out), notes


HEADER = '''(* GENERATED by tools/vlib/cover_bbgen.py from %(src)s in the working tree
   of /repo.  Do not edit; regenerated on every check run. *)
From Coq Require Import List ZArith Bool Arith.
Import ListNotations.
From Omega Require Import L5Cover.Boxes L5Cover.MinCover L5Cover.CoverEnum.

(* cost of a possibly missing cover: None = infinity *)
Definition cost (u : option (list box)) : option nat := option_map (@length box) u.
Definition cost_lt (a b : option nat) : bool :=
  match a, b with
  | Some m, Some n => (m <? n)%%nat
  | Some _, None => true
  | None, _ => false
  end.
Definition is_none {A} (o : option A) : bool :=
  match o with None => true | Some _ => false end.

Section Gen.
Variable rs : ranges.
Variable pick : list box -> option box.

'''
FOOTER = '\nEnd Gen.\n'


def cover_text(repo):
    import os
    path = os.path.join(repo, 'omega/symbolic/cover.py')
    body, notes = translate_cover(path)
    path2 = os.path.join(repo, 'omega/symbolic/cover_enum.py')
    body2, notes2 = translate_enum(path2)
    text = (HEADER % dict(src='omega/symbolic/cover.py and cover_enum.py')
            + body + '\n\n(* ---- cover_enum.py *)\n' + body2 + FOOTER)
    text += ''.join(f'(* note: {n} *)\n' for n in notes + notes2)
    return text


def ensure(ctx):
    """Tie T for the branch-and-bound skeleton (used by the C09 and C10
    plug-ins): translate the five functions from the working tree
    (fail-closed) and re-prove that the translation equals the hand model."""
    from vlib.core import Broken, REPO
    try:
        text = cover_text(REPO)
    except Refuse as e:
        raise Broken('translator', f'omega/symbolic/cover.py, cover_enum.py: {e}')
    except SyntaxError as e:
        raise Broken('translator', f'omega/symbolic/cover.py, cover_enum.py: {e}')
    ctx.write_gen('gen/CoverBBGen.v', text)
    ctx.prove('GenProofs/CoverBBBridge.v', timeout=600)


TRUSTED = (
    'tie T (skeleton): cover._traverse, cover._branch, cover.minimize, '
    'cover_enum._traverse_exhaustive and cover_enum._branch_exhaustive are '
    'translated on every run by tools/vlib/cover_bbgen.py into '
    'gen/CoverBBGen.v over the primitives of the hand model (cyclic_core, '
    'indep_size, some_cover, unfloors, pick, the recursive '
    '_cyclic_core_fixpoint_recursive, set operations: fixed table of '
    'recognised expressions and assertions, anything else refuses) and '
    'GenProofs/CoverBBBridge.v proves them EQUAL to MinCover.traverse / '
    'minimize and to the branch-and-bound part of CoverEnum.ccfr')


if __name__ == '__main__':
    import sys
    print(cover_text(sys.argv[1] if len(sys.argv) > 1 else '/repo'))
