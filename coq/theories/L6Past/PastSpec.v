(* L6Past / PastSpec: declarative anchored semantics of past/future LTL over
   an infinite sequence of valuations (the textbook clauses, as propositions).
   Past operators only read positions <= i, so for the past fragment the same
   clauses define the semantics over every finite sequence that has
   position i.  Definitions only. *)
From Coq Require Import String List Bool.
From Omega Require Import L6Past.PastSyntax.

Definition bopP (o : binop) (a b : Prop) : Prop :=
  match o with
  | OAnd => a /\ b
  | OOr => a \/ b
  | OImp => a -> b
  | OIff => a <-> b
  | OXor => ~ (a <-> b)
  end.

Fixpoint holds (f : form) (rho : nat -> env) (i : nat) {struct f} : Prop :=
  match f with
  | FVar v => rho i v = true
  | FAtom a => rho i a = true
  | FConst b => b = true
  | FNot f => ~ holds f rho i
  | FBin o f g => bopP o (holds f rho i) (holds g rho i)
  | FIte c a b =>
      (holds c rho i /\ holds a rho i) \/ (~ holds c rho i /\ holds b rho i)
  (* weak previous: holds in the first state *)
  | FPrevW f => forall j, i = S j -> holds f rho j
  (* strong previous: a previous state exists *)
  | FPrevS f => exists j, i = S j /\ holds f rho j
  | FHist f => forall j, j <= i -> holds f rho j
  | FOnce f => exists j, j <= i /\ holds f rho j
  | FSince f g =>
      exists j, j <= i /\ holds g rho j /\
                forall k, j < k -> k <= i -> holds f rho k
  | FAlways f => forall j, i <= j -> holds f rho j
  | FEvent f => exists j, i <= j /\ holds f rho j
  | FUntil f g =>
      exists j, i <= j /\ holds g rho j /\
                forall k, i <= k -> k < j -> holds f rho k
  end.
