(* L6 Syntax — print then re-parse.  Token level: the token sequence of
   Flatten.flatten is the yield of a fully parenthesised surface tree of the
   whole grammar (RoundtripSpec.xembed) that respects the table and denotes
   the tree, hence parses back to it (quantifiers and LET included).  String
   level: the string that flatten prints lexes to that token sequence. *)
From Coq Require Import List String Ascii NArith Bool Lia.
From Omega Require Import L6Syntax.Tokens L6Syntax.TreeInd L6Syntax.Lexer
  L6Syntax.Parser L6Syntax.Flatten L6Syntax.Frontend L6Syntax.LexSpec
  L6Syntax.PrecSpec L6Syntax.PrecFullSpec L6Syntax.RoundtripSpec
  L6Syntax.LexerProofs L6Syntax.ParserProofs L6Syntax.PrecFullProofs.
Import ListNotations.
Local Open Scope string_scope.

(* ---- helpers on the list predicates of the fragment ---- *)
Lemma allP_Forall : forall (P : tree -> Prop) l, allP P l <-> Forall P l.
Proof.
  induction l as [|x r IH]; simpl; split; intro H; auto.
  - destruct H as [Hx Hr]. constructor; [exact Hx | apply IH; exact Hr].
  - inversion H; subst. split; [assumption | apply IH; assumption].
Qed.

Lemma allP_mp : forall (A B : tree -> Prop) l,
  allP A l -> Forall (fun x => A x -> B x) l -> Forall B l.
Proof.
  induction l as [|x r IH]; intros HA HF; [constructor|].
  destruct HA as [Hx Hr]. inversion HF; subst. constructor; auto.
Qed.

(* a definition of LET in the fragment, with a fact about its body *)
Definition is_def (A : tree -> Prop) (d : tree) : Prop :=
  exists n e, d = Bin CBinary "==" (Term KOpname n) e /\ A e.

Lemma def_okP_is_def : forall (A : tree -> Prop) d, def_okP A d <-> is_def A d.
Proof.
  intros A d. split.
  - destruct d as [| |c o l r| |]; simpl; try contradiction.
    destruct c; try contradiction. destruct l as [k n| | | |]; try contradiction.
    destruct k; try contradiction. intros [-> H]. exists n, r. auto.
  - intros [n [e [-> H]]]. simpl. auto.
Qed.

Lemma defs_mp : forall (A B : tree -> Prop) ds,
  allP (def_okP A) ds -> Forall (def_body_P (fun t => A t -> B t)) ds ->
  Forall (is_def B) ds.
Proof.
  induction ds as [|d r IH]; intros HA HF; [constructor|].
  destruct HA as [Hd Hr]. inversion HF as [|? ? Hb Hbr]; subst.
  constructor; [|auto].
  apply def_okP_is_def in Hd. destruct Hd as [n [e [-> He]]].
  exists n, e. simpl in Hb. auto.
Qed.

Lemma allP_defs : forall (A : tree -> Prop) ds,
  allP (def_okP A) ds <-> Forall (is_def A) ds.
Proof.
  intros A ds. rewrite allP_Forall.
  split; apply Forall_impl; intro d; apply def_okP_is_def.
Qed.

(* the two new forms of the fragment, spelled out *)
Lemma flat_ok_quant : forall T optok op po vs body,
  flat_ok T optok (Opr op [Opr po vs; body]) <->
  ((op = "\A" \/ op = "\E") /\ po = "params"
   /\ (tty (optok op) = "FORALL" \/ tty (optok op) = "EXISTS") /\ tval (optok op) = op
   /\ vs <> [] /\ Forall (flat_ok T optok) vs /\ flat_ok T optok body).
Proof. intros. cbn [flat_ok]. rewrite allP_Forall. reflexivity. Qed.

Lemma flat_ok_let : forall T optok op ds body,
  flat_ok T optok (Opr op [Lst ds; body]) <->
  (op = "LET" /\ tty (optok op) = "LET" /\ tval (optok op) = op
   /\ ds <> [] /\ Forall (is_def (flat_ok T optok)) ds /\ flat_ok T optok body).
Proof. intros. cbn [flat_ok]. rewrite allP_defs. reflexivity. Qed.

Section Tok.
Local Open Scope list_scope.
Variable T : ptable.
Hypothesis HokF : table_ok_full T = true.
Variable optok : string -> token.
Local Notation flat_ok := (flat_ok T optok).
Local Notation xembed := (xembed optok).
Local Notation xdef := (xdef optok).
Local Notation flatten := (flatten optok).

Let Hok : table_ok T = true := PrecFullProofs.Hok T HokF.

(* what the induction carries for a tree of the fragment *)
Definition emb_ok (t : tree) : Prop :=
  xyield (xembed t) = flatten t /\ xerase T (xembed t) = t
  /\ xwf T (xembed t) /\ xrespects T (xembed t).

(* images of xembed are atoms, parenthesised, or ite(...): closed on both
   edges *)
Lemma xembed_fits : forall t m, xfits T m (xembed t).
Proof.
  destruct t as [k v|op x|c op l r|op args|xs]; intros; cbn; auto.
  - destruct k; cbn; auto. destruct (is_neg v); cbn; auto.
  - destruct args as [|a [|b [|c [|d args]]]]; cbn; auto.
    destruct a as [| | |o [|v vs]|[|d ds]]; cbn; auto.
Qed.

Lemma xembed_rok : forall t o, not_dots o -> xrok T o (xembed t).
Proof.
  destruct t as [k v|op x|c op l r|op args|xs]; intros; cbn; auto.
  - destruct k; cbn; auto. destruct (is_neg v); cbn; auto.
  - destruct args as [|a [|b [|c [|d args]]]]; cbn; auto.
    destruct a as [| | |o' [|v vs]|[|d ds]]; cbn; auto.
Qed.

(* unfolding equations of the mutual fixpoints of PrecFullSpec.v (all by
   conversion), so that the proofs below never unfold them *)
Section Eqs.
Variables (e x l r a b c : xt) (t lp rp kw c1 c2 col i n d : token)
  (ls : xlist) (ds : xdefs).
Lemma ly_L1 : lyield (L1 e) = xyield e. Proof. reflexivity. Qed.
Lemma ly_LS : lyield (LS e t ls) = xyield e ++ t :: lyield ls. Proof. reflexivity. Qed.
Lemma le_L1 : lerase T (L1 e) = [xerase T e]. Proof. reflexivity. Qed.
Lemma le_LS : lerase T (LS e t ls) = xerase T e :: lerase T ls. Proof. reflexivity. Qed.
Lemma lw_L1 : lwf T (L1 e) = xwf T e. Proof. reflexivity. Qed.
Lemma lw_LS : lwf T (LS e t ls) = (xwf T e /\ tty t = "COMMA" /\ lwf T ls).
Proof. reflexivity. Qed.
Lemma lr_L1 : lrespects T (L1 e) = xrespects T e. Proof. reflexivity. Qed.
Lemma lr_LS : lrespects T (LS e t ls) = (xrespects T e /\ lrespects T ls).
Proof. reflexivity. Qed.
Lemma dy_D1 : dyield (D1 n d e) = n :: d :: xyield e. Proof. reflexivity. Qed.
Lemma dy_DS : dyield (DS n d e ds) = n :: d :: xyield e ++ dyield ds.
Proof. reflexivity. Qed.
Lemma de_D1 : derase T (D1 n d e)
  = [Bin CBinary "==" (Term KOpname (tval n)) (xerase T e)]. Proof. reflexivity. Qed.
Lemma de_DS : derase T (DS n d e ds)
  = Bin CBinary "==" (Term KOpname (tval n)) (xerase T e) :: derase T ds.
Proof. reflexivity. Qed.
Lemma dw_D1 : dwf T (D1 n d e) = (tty n = "NAME" /\ tty d = "DEF" /\ xwf T e).
Proof. reflexivity. Qed.
Lemma dw_DS : dwf T (DS n d e ds)
  = (tty n = "NAME" /\ tty d = "DEF" /\ xwf T e /\ dwf T ds). Proof. reflexivity. Qed.
Lemma dr_D1 : drespects T (D1 n d e)
  = (xrespects T e /\ xfits T (rule_bind T "DEF") e). Proof. reflexivity. Qed.
Lemma dr_DS : drespects T (DS n d e ds)
  = (xrespects T e /\ xfits T (rule_bind T "DEF") e /\ drespects T ds).
Proof. reflexivity. Qed.

Lemma xy_paren : xyield (XParen lp x rp) = lp :: xyield x ++ [rp]. Proof. reflexivity. Qed.
Lemma xe_paren : xerase T (XParen lp x rp) = xerase T x. Proof. reflexivity. Qed.
Lemma xw_paren : xwf T (XParen lp x rp)
  = (tty lp = "LPAREN" /\ xwf T x /\ tty rp = "RPAREN"). Proof. reflexivity. Qed.
Lemma xr_paren : xrespects T (XParen lp x rp) = xrespects T x. Proof. reflexivity. Qed.

Lemma xy_pre : xyield (XPre t x) = t :: xyield x. Proof. reflexivity. Qed.
Lemma xe_pre : xerase T (XPre t x) = Un (tval t) (xerase T x). Proof. reflexivity. Qed.
Lemma xw_pre : xwf T (XPre t x) = (pt_pre T (tty t) <> None /\ xwf T x).
Proof. reflexivity. Qed.
Lemma xr_pre : xrespects T (XPre t x) = (xrespects T x /\ xfits T (pre_pbp T t) x).
Proof. reflexivity. Qed.

Lemma xy_bin : xyield (XBin t l r) = xyield l ++ t :: xyield r. Proof. reflexivity. Qed.
Lemma xe_bin : xerase T (XBin t l r)
  = match pt_bin T (tty t) with
    | Some (c, _, _) => Bin c (tval t) (xerase T l) (xerase T r)
    | None => Bin CBinary (tval t) (xerase T l) (xerase T r)
    end. Proof. reflexivity. Qed.
Lemma xw_bin : xwf T (XBin t l r) = (pt_bin T (tty t) <> None /\ xwf T l /\ xwf T r).
Proof. reflexivity. Qed.
Lemma xr_bin : xrespects T (XBin t l r)
  = (xrespects T l /\ xrespects T r /\ xrok T (Some t) l /\ xfits T (bin_rbp T t) r).
Proof. reflexivity. Qed.

Lemma xy_ite : xyield (XIte kw lp a c1 b c2 c rp)
  = kw :: lp :: xyield a ++ c1 :: xyield b ++ c2 :: xyield c ++ [rp].
Proof. reflexivity. Qed.
Lemma xe_ite : xerase T (XIte kw lp a c1 b c2 c rp)
  = Opr (tval kw) [xerase T a; xerase T b; xerase T c]. Proof. reflexivity. Qed.
Lemma xw_ite : xwf T (XIte kw lp a c1 b c2 c rp)
  = (tty kw = "ITE" /\ tty lp = "LPAREN" /\ xwf T a /\ tty c1 = "COMMA" /\ xwf T b
     /\ tty c2 = "COMMA" /\ xwf T c /\ tty rp = "RPAREN"). Proof. reflexivity. Qed.
Lemma xr_ite : xrespects T (XIte kw lp a c1 b c2 c rp)
  = (xrespects T a /\ xrespects T b /\ xrespects T c). Proof. reflexivity. Qed.

Lemma xy_quant : xyield (XQuant kw ls col b) = kw :: lyield ls ++ col :: xyield b.
Proof. reflexivity. Qed.
Lemma xe_quant : xerase T (XQuant kw ls col b)
  = Opr (tval kw) [Opr "params" (lerase T ls); xerase T b]. Proof. reflexivity. Qed.
Lemma xw_quant : xwf T (XQuant kw ls col b)
  = ((tty kw = "FORALL" \/ tty kw = "EXISTS") /\ lwf T ls /\ tty col = "COLON"
     /\ xwf T b). Proof. reflexivity. Qed.
Lemma xr_quant : xrespects T (XQuant kw ls col b)
  = (lrespects T ls /\ xrespects T b /\ xfits T (rule_bind T "COLON") b).
Proof. reflexivity. Qed.

Lemma xy_let : xyield (XLet kw ds i b) = kw :: dyield ds ++ i :: xyield b.
Proof. reflexivity. Qed.
Lemma xe_let : xerase T (XLet kw ds i b)
  = Opr (tval kw) [Lst (derase T ds); xerase T b]. Proof. reflexivity. Qed.
Lemma xw_let : xwf T (XLet kw ds i b)
  = (tty kw = "LET" /\ dwf T ds /\ tty i = "IN_EXPR" /\ xwf T b). Proof. reflexivity. Qed.
Lemma xr_let : xrespects T (XLet kw ds i b)
  = (drespects T ds /\ xrespects T b /\ xfits T (rule_bind T "LET_IN") b).
Proof. reflexivity. Qed.
End Eqs.

Ltac xeqs :=
  rewrite ?xy_paren, ?xe_paren, ?xw_paren, ?xr_paren, ?xy_pre, ?xe_pre, ?xw_pre, ?xr_pre,
    ?xy_bin, ?xe_bin, ?xw_bin, ?xr_bin, ?xy_ite, ?xe_ite, ?xw_ite, ?xr_ite,
    ?xy_quant, ?xe_quant, ?xw_quant, ?xr_quant, ?xy_let, ?xe_let, ?xw_let, ?xr_let.

(* the equations of xembed and flatten on the forms of the fragment *)
Lemma xembed_un : forall op x,
  xembed (Un op x) = XParen LPt (XPre (optok op) (xembed x)) RPt.
Proof. reflexivity. Qed.
Lemma xembed_bin : forall c op l r,
  xembed (Bin c op l r) = XParen LPt (XBin (optok op) (xembed l) (xembed r)) RPt.
Proof. reflexivity. Qed.
Lemma xembed_ite : forall op a b c,
  xembed (Opr op [a; b; c])
  = XIte (optok op) LPt (xembed a) CMt (xembed b) CMt (xembed c) RPt.
Proof. reflexivity. Qed.
Lemma xembed_quant : forall op po v vs body,
  xembed (Opr op [Opr po (v :: vs); body])
  = XParen LPt (XQuant (optok op) (mk_xlist (xembed v) (map xembed vs)) COLONt
                       (xembed body)) RPt.
Proof. reflexivity. Qed.
Lemma xembed_let : forall op d ds body,
  xembed (Opr op [Lst (d :: ds); body])
  = XParen LPt (XLet (optok op) (mk_xdefs (xdef d) (map xdef ds)) INt
                     (xembed body)) RPt.
Proof. reflexivity. Qed.

Lemma flatten_un : forall op x, flatten (Un op x) = LPt :: optok op :: flatten x ++ [RPt].
Proof. reflexivity. Qed.
Lemma flatten_bin : forall c op l r,
  flatten (Bin c op l r) = LPt :: flatten l ++ optok op :: flatten r ++ [RPt].
Proof. reflexivity. Qed.
Lemma flatten_ite : forall op a b c,
  flatten (Opr op [a; b; c])
  = optok op :: LPt :: flatten a ++ CMt :: flatten b ++ CMt :: flatten c ++ [RPt].
Proof.
  intros. cbn [Flatten.flatten sep_toks].
  repeat (rewrite <- app_assoc; cbn [app]). reflexivity.
Qed.
Lemma flatten_quant : forall op po vs body, is_quant_op op = true ->
  flatten (Opr op [Opr po vs; body])
  = LPt :: optok op :: sep_toks flatten vs ++ COLONt :: flatten body ++ [RPt].
Proof. intros op po vs body H. cbn [Flatten.flatten]. rewrite H. reflexivity. Qed.
Lemma flatten_let : forall op ds body, is_let_op op = true ->
  flatten (Opr op [Lst ds; body])
  = LPt :: optok op :: flat_map (def_toks flatten) ds ++ INt :: flatten body ++ [RPt].
Proof. intros op ds body H. cbn [Flatten.flatten]. rewrite H. reflexivity. Qed.

(* binders *)
Lemma xlist_ok : forall vs v, Forall emb_ok (v :: vs) ->
  lyield (mk_xlist (xembed v) (map xembed vs)) = sep_toks flatten (v :: vs)
  /\ lerase T (mk_xlist (xembed v) (map xembed vs)) = v :: vs
  /\ lwf T (mk_xlist (xembed v) (map xembed vs))
  /\ lrespects T (mk_xlist (xembed v) (map xembed vs)).
Proof.
  induction vs as [|w r IH]; intros v H; inversion H as [|? ? Hv Hr]; subst;
    destruct Hv as [Y [E [W R]]].
  - cbn [map mk_xlist]. rewrite ly_L1, le_L1, lw_L1, lr_L1, E. auto.
  - destruct (IH w Hr) as [Y' [E' [W' R']]].
    cbn [map mk_xlist]. rewrite ly_LS, le_LS, lw_LS, lr_LS, Y, Y', E, E'.
    repeat split; auto.
Qed.

(* definitions *)
Lemma xdef_eq : forall c o k n e, xdef (Bin c o (Term k n) e) = (Tok "NAME" n, xembed e).
Proof. reflexivity. Qed.

Lemma xdefs_ok : forall ds d, Forall (is_def emb_ok) (d :: ds) ->
  dyield (mk_xdefs (xdef d) (map xdef ds)) = flat_map (def_toks flatten) (d :: ds)
  /\ derase T (mk_xdefs (xdef d) (map xdef ds)) = d :: ds
  /\ dwf T (mk_xdefs (xdef d) (map xdef ds))
  /\ drespects T (mk_xdefs (xdef d) (map xdef ds)).
Proof.
  induction ds as [|d2 r IH]; intros d H; inversion H as [|? ? Hd Hr]; subst;
    destruct Hd as [n [e [-> [Y [E [W R]]]]]].
  - cbn [map mk_xdefs]. rewrite xdef_eq. cbn [fst snd].
    rewrite dy_D1, de_D1, dw_D1, dr_D1, Y, E.
    repeat split; auto using xembed_fits.
    cbn [flat_map def_toks Flatten.flatten term_toks]. rewrite app_nil_r. reflexivity.
  - destruct (IH d2 Hr) as [Y' [E' [W' R']]].
    cbn [map mk_xdefs]. rewrite xdef_eq. cbn [fst snd].
    rewrite dy_DS, de_DS, dw_DS, dr_DS, Y', E', Y, E.
    repeat split; auto using xembed_fits.
Qed.

Lemma is_quant_true : forall op, op = "\A" \/ op = "\E" -> is_quant_op op = true.
Proof. intros op [->| ->]; reflexivity. Qed.

Lemma xembed_ok : forall t, flat_ok t -> emb_ok t.
Proof.
  induction t using tree_ind2; intros F.
  - (* terminals *)
    unfold emb_ok. destruct k; simpl in F; try contradiction.
    + repeat split.
    + cbn [RoundtripSpec.xembed Flatten.flatten term_toks].
      destruct (is_neg v) eqn:Hn; repeat split.
      destruct v as [|c0 w]; [discriminate|]. simpl in Hn.
      apply Ascii.eqb_eq in Hn. subst c0. reflexivity.
    + destruct F as [Hty Hv]. repeat split; auto. cbn. rewrite Hv. reflexivity.
    + repeat split. cbn. rewrite <- F. reflexivity.
  - (* unary *)
    simpl in F. destruct F as [Hp [Hv Hx]]. destruct (IHt Hx) as [Y [E [W R]]].
    unfold emb_ok. rewrite xembed_un, flatten_un. xeqs. rewrite Y, E, Hv.
    repeat split; auto using xembed_fits.
  - (* binary *)
    simpl in F. destruct F as [Hc [Hv [Hl Hr]]].
    destruct (IHt1 Hl) as [Y1 [E1 [W1 R1]]]. destruct (IHt2 Hr) as [Y2 [E2 [W2 R2]]].
    unfold emb_ok. rewrite xembed_bin, flatten_bin. xeqs. rewrite Y1, Y2, E1, E2, Hv.
    unfold bin_class in Hc.
    destruct (pt_bin T (tty (optok op))) as [[[c' a] lv]|] eqn:Eb; [|discriminate].
    inversion Hc; subst c'.
    repeat split; auto using xembed_fits; try discriminate.
    + rewrite <- app_assoc. reflexivity.
    + apply xembed_rok. simpl.
      apply (op_not_nonop T Hok (optok op) "DOTS"); [simpl; tauto | left; congruence].
  - (* operators *)
    destruct args as [|a [|b [|c [|d args]]]]; simpl in F; try contradiction.
    + (* two operands: quantifier or LET *)
      inversion H as [|? ? Pa H1]; subst. inversion H1 as [|? ? Pb _]; subst.
      inversion H0 as [|? ? Sa _]; subst.
      destruct a as [| | |po vs|ds]; try contradiction.
      * (* \A / \E *)
        destruct F as [Hop [Hpo [Hty [Hv [Hne [Hall Hbody]]]]]].
        destruct vs as [|v vs]; [congruence|].
        simpl in Sa.
        destruct (xlist_ok vs v (allP_mp _ _ _ Hall Sa)) as [Yl [El [Wl Rl]]].
        destruct (Pb Hbody) as [Yb [Eb [Wb Rb]]].
        unfold emb_ok.
        rewrite xembed_quant, (flatten_quant op po _ _ (is_quant_true op Hop)). xeqs.
        rewrite Yl, Yb, El, Eb, Hv, Hpo.
        repeat split; auto using xembed_fits.
        cbn [app]. rewrite <- app_assoc. reflexivity.
      * (* LET *)
        destruct F as [Hop [Hty [Hv [Hne [Hall Hbody]]]]].
        destruct ds as [|d ds]; [congruence|].
        simpl in Sa.
        destruct (xdefs_ok ds d (defs_mp _ _ _ Hall Sa)) as [Yd [Ed [Wd Rd]]].
        destruct (Pb Hbody) as [Yb [Eb [Wb Rb]]].
        unfold emb_ok.
        rewrite xembed_let, (flatten_let op _ _ (f_equal is_let_op Hop)). xeqs.
        rewrite Yd, Yb, Ed, Eb, Hv.
        repeat split; auto using xembed_fits.
        cbn [app]. rewrite <- app_assoc. reflexivity.
    + (* ite ( a , b , c ) *)
      destruct F as [Hk [Hv [Ha [Hb Hc]]]].
      inversion H as [|? ? Pa H1]; subst. inversion H1 as [|? ? Pb H2]; subst.
      inversion H2 as [|? ? Pc _]; subst.
      destruct (Pa Ha) as [Y1 [E1 [W1 R1]]]. destruct (Pb Hb) as [Y2 [E2 [W2 R2]]].
      destruct (Pc Hc) as [Y3 [E3 [W3 R3]]].
      unfold emb_ok. rewrite xembed_ite, flatten_ite. xeqs.
      rewrite Y1, Y2, Y3, E1, E2, E3, Hv.
      repeat split; auto.
  - simpl in F. contradiction.
Qed.

(* roundtrip: flatten prints a token sequence that parses back to the tree *)
Theorem roundtrip : forall t, flat_ok t -> parse T (flatten t) = Some t.
Proof.
  intros t F. destruct (xembed_ok t F) as [Y [E [W R]]].
  rewrite <- Y, (prec_determines_tree_full T HokF _ W R), E. reflexivity.
Qed.

End Tok.

Section RT.
Variable rules : list lexrule.
Variable reserved values : list (string * string).
Variable ignore : list N.
Variable optok : string -> token.
Hypothesis Hblank : is_ignored ignore " "%char = true.

Local Notation Rendered := (Rendered rules reserved values ignore).
Local Notation ltok := (lexeme_tok rules reserved values ignore).
Local Notation sflat := (sflat rules reserved values ignore optok).

Lemma R_blank : forall s ts, Rendered s ts -> Rendered (" " ++ s) ts.
Proof.
  intros. apply R_sep; [discriminate | | assumption].
  apply sep_blank; [exact Hblank | constructor].
Qed.

Lemma ltok_nonempty : forall s c tok, ltok s c = Some tok -> s <> "".
Proof. intros s c tok H E. subst. unfold lexeme_tok in H. simpl in H. discriminate. Qed.

Lemma hd_char_app : forall a b, a <> "" -> hd_char (a ++ b) = hd_char a.
Proof. destruct a; simpl; congruence. Qed.

Lemma R_tok' : forall sp c s ts tok,
  ltok sp c = Some tok -> hd_char s = c -> Rendered s ts -> Rendered (sp ++ s) (tok :: ts).
Proof. intros. subst c. apply R_tok; assumption. Qed.

(* equations of flatten_str on the two forms printed in concrete syntax *)
Lemma flatten_str_quant : forall op po vs body, is_quant_op op = true ->
  flatten_str (Opr op [Opr po vs; body])
  = "(" ++ " " ++ op ++ " " ++ join ", " (map flatten_str vs) ++ ":" ++ " "
    ++ flatten_str body ++ " " ++ ")".
Proof. intros op po vs body H. cbn [flatten_str]. rewrite H. reflexivity. Qed.

Lemma flatten_str_let : forall op ds body, is_let_op op = true ->
  flatten_str (Opr op [Lst ds; body])
  = "(" ++ " " ++ "LET" ++ " " ++ join " " (map def_str ds) ++ " " ++ "IN" ++ " "
    ++ flatten_str body ++ " " ++ ")".
Proof. intros op ds body H. cbn [flatten_str]. rewrite H. reflexivity. Qed.

(* what the induction carries: the printed string of t, followed by tail, is
   a rendering of the tokens of t followed by those of tail *)
Definition rend_ok (t : tree) : Prop :=
  forall nx tail ts',
    sflat t nx -> hd_char tail = nx -> Rendered tail ts' ->
    Rendered (flatten_str t ++ tail) (flatten optok t ++ ts')%list.

(* v1, v2, ..., vn followed by ":" *)
Lemma binders_rendered : forall vs, Forall rend_ok vs ->
  forall tail ts',
    sflat_binders rules reserved values ignore sflat vs ->
    hd_char tail = Some ":"%char -> Rendered tail ts' ->
    Rendered (join ", " (map flatten_str vs) ++ tail)
             (sep_toks (flatten optok) vs ++ ts')%list.
Proof.
  induction vs as [|v r IH]; intros HF tail ts' Hs Hc HR; [exact HR|].
  inversion HF as [|? ? Pv Pr]; subst. destruct r as [|w r].
  - exact (Pv _ tail ts' Hs Hc HR).
  - destruct Hs as [Hv [Hcm Hr]].
    change (join ", " (map flatten_str (v :: w :: r)))
      with (flatten_str v ++ "," ++ " " ++ join ", " (map flatten_str (w :: r))).
    change (sep_toks (flatten optok) (v :: w :: r))
      with (flatten optok v ++ CM :: sep_toks (flatten optok) (w :: r))%list.
    rewrite !sapp_assoc. rewrite <- app_assoc. simpl app.
    eapply Pv; [exact Hv | reflexivity |].
    eapply (R_tok' ","); [exact Hcm | reflexivity |]. apply R_blank.
    apply IH; assumption.
Qed.

(* n1 == e1 n2 == e2 ... followed by a blank *)
Lemma defs_rendered : forall ds, Forall (def_body_P rend_ok) ds ->
  forall tail ts',
    allP (sflat_def rules reserved values ignore sflat) ds ->
    hd_char tail = sp -> Rendered tail ts' ->
    Rendered (join " " (map def_str ds) ++ tail)
             (flat_map (def_toks (flatten optok)) ds ++ ts')%list.
Proof.
  induction ds as [|d r IH]; intros HF tail ts' Hs Hc HR; [exact HR|].
  inversion HF as [|? ? Pd Pr]; subst. destruct Hs as [Hd Hr].
  destruct d as [| |c o l e| |]; try contradiction.
  destruct l as [k n| | | |]; try contradiction. destruct k; try contradiction.
  destruct Hd as [Hn [Hdf He]]. simpl in Pd.
  assert (X : forall tl tk, hd_char tl = sp -> Rendered tl tk ->
    Rendered (def_str (Bin c o (Term KOpname n) e) ++ tl)
             (def_toks (flatten optok) (Bin c o (Term KOpname n) e) ++ tk)%list).
  { intros tl tk Hh Ht.
    change (def_str (Bin c o (Term KOpname n) e))
      with (n ++ " " ++ "==" ++ " " ++ flatten_str e).
    change (def_toks (flatten optok) (Bin c o (Term KOpname n) e))
      with (Tok "NAME" n :: DFt :: flatten optok e)%list.
    rewrite !sapp_assoc. simpl app.
    eapply R_tok'; [exact Hn | reflexivity |]. apply R_blank.
    eapply (R_tok' "=="); [exact Hdf | reflexivity |]. apply R_blank.
    eapply Pd; [exact He | exact Hh | exact Ht]. }
  destruct r as [|d2 r].
  - change (flat_map (def_toks (flatten optok)) [Bin c o (Term KOpname n) e])
      with (def_toks (flatten optok) (Bin c o (Term KOpname n) e) ++ [])%list.
    rewrite <- app_assoc. apply X; assumption.
  - change (join " " (map def_str (Bin c o (Term KOpname n) e :: d2 :: r)))
      with (def_str (Bin c o (Term KOpname n) e) ++ " " ++ join " " (map def_str (d2 :: r))).
    change (flat_map (def_toks (flatten optok)) (Bin c o (Term KOpname n) e :: d2 :: r))
      with (def_toks (flatten optok) (Bin c o (Term KOpname n) e)
            ++ flat_map (def_toks (flatten optok)) (d2 :: r))%list.
    rewrite !sapp_assoc. rewrite <- app_assoc.
    apply X; [reflexivity|]. apply R_blank. apply IH; assumption.
Qed.

(* the printed string of t, followed by tail, is a rendering of the tokens
   of t followed by those of tail *)
Lemma sflat_rendered : forall t, rend_ok t.
Proof.
  induction t using tree_ind2; intros nx tail ts' Hs Hc HR.
  - destruct k; simpl in Hs |- *; try contradiction.
    + eapply R_tok'; eauto.
    + destruct (is_neg v) eqn:Hn.
      * destruct Hs as [Hm Hnum].
        destruct v as [|c0 w]; [discriminate|]. simpl in Hn.
        apply Ascii.eqb_eq in Hn. subst c0. simpl in Hm, Hnum |- *.
        change (String "-" (w ++ tail)) with ("-" ++ (w ++ tail)).
        eapply R_tok'; [exact Hm | | ].
        -- apply hd_char_app. eapply ltok_nonempty; eauto.
        -- eapply R_tok'; eauto.
      * eapply R_tok'; eauto.
    + eapply R_tok'; eauto.
    + destruct Hs as [Ev [H1 [H2 H3]]].
      rewrite Ev at 1. unfold term_toks.
      change (substring 1 (String.length v - 2) v) with (unquote v).
      change (String """" (unquote v ++ """") ++ tail)
        with (String """" ((unquote v ++ """") ++ tail)).
      rewrite sapp_assoc.
      change (String """" (unquote v ++ """" ++ tail))
        with ("""" ++ (unquote v ++ ("""" ++ tail))).
      eapply (R_tok' """"); [exact H1 | | ].
      * rewrite <- sapp_assoc. apply hd_char_app. destruct (unquote v); discriminate.
      * eapply R_tok'; [exact H2 | reflexivity |].
        eapply (R_tok' """"); eauto.
  - (* Un *)
    simpl in Hs. destruct Hs as [HL [Hop [Hx HRp]]].
    change (flatten_str (Un op t))
      with ("(" ++ " " ++ op ++ " " ++ flatten_str t ++ " " ++ ")").
    change (flatten optok (Un op t)) with (LP :: optok op :: flatten optok t ++ [RP])%list.
    rewrite !sapp_assoc. simpl app. rewrite <- ?app_assoc. simpl app.
    eapply (R_tok' "("); [exact HL | reflexivity |]. apply R_blank.
    eapply R_tok'; [exact Hop | reflexivity |]. apply R_blank.
    eapply IHt; [exact Hx | reflexivity |]. apply R_blank.
    eapply (R_tok' ")"); eauto.
  - (* Bin *)
    simpl in Hs. destruct Hs as [HL [Hl [Hop [Hr HRp]]]].
    change (flatten_str (Bin c op t1 t2))
      with ("(" ++ " " ++ flatten_str t1 ++ " " ++ op ++ " " ++ flatten_str t2 ++ " " ++ ")").
    change (flatten optok (Bin c op t1 t2))
      with (LP :: flatten optok t1 ++ optok op :: flatten optok t2 ++ [RP])%list.
    rewrite !sapp_assoc. simpl app. rewrite <- ?app_assoc. simpl app.
    eapply (R_tok' "("); [exact HL | reflexivity |]. apply R_blank.
    rewrite <- ?app_assoc; simpl app.
    eapply IHt1; [exact Hl | reflexivity |]. apply R_blank.
    eapply R_tok'; [exact Hop | reflexivity |]. apply R_blank.
    rewrite <- ?app_assoc; simpl app.
    eapply IHt2; [exact Hr | reflexivity |]. apply R_blank.
    eapply (R_tok' ")"); eauto.
  - (* Opr *)
    destruct args as [|a [|b [|d [|e args]]]]; simpl in Hs; try contradiction.
    + (* two operands: quantifier or LET *)
      inversion H as [|? ? Pa H1]; subst. inversion H1 as [|? ? Pb _]; subst.
      inversion H0 as [|? ? Sa _]; subst.
      destruct a as [| | |po vs|ds]; try contradiction.
      * (* ( op v1, v2: body ) *)
        destruct Hs as [Hq [HL [Hop [Hvs [Hcl [Hb HRp]]]]]]. simpl in Sa.
        rewrite (flatten_str_quant op po vs b Hq), (flatten_quant optok op po vs b Hq).
        rewrite !sapp_assoc. simpl app. rewrite <- ?app_assoc. simpl app.
        eapply (R_tok' "("); [exact HL | reflexivity |]. apply R_blank.
        eapply R_tok'; [exact Hop | reflexivity |]. apply R_blank.
        apply (binders_rendered vs Sa); [exact Hvs | reflexivity |].
        eapply (R_tok' ":"); [exact Hcl | reflexivity |]. apply R_blank.
        rewrite <- ?app_assoc; simpl app.
        eapply (Pb sp); [exact Hb | reflexivity |]. apply R_blank.
        eapply (R_tok' ")"); eauto.
      * (* ( LET n1 == e1 n2 == e2 IN body ) *)
        destruct Hs as [Hq [HL [Hop [Hds [Hin [Hb HRp]]]]]]. simpl in Sa.
        rewrite (flatten_str_let op ds b Hq), (flatten_let optok op ds b Hq).
        rewrite !sapp_assoc. simpl app. rewrite <- ?app_assoc. simpl app.
        eapply (R_tok' "("); [exact HL | reflexivity |]. apply R_blank.
        eapply (R_tok' "LET"); [exact Hop | reflexivity |]. apply R_blank.
        apply (defs_rendered ds Sa); [exact Hds | reflexivity |]. apply R_blank.
        eapply (R_tok' "IN"); [exact Hin | reflexivity |]. apply R_blank.
        rewrite <- ?app_assoc; simpl app.
        eapply (Pb sp); [exact Hb | reflexivity |]. apply R_blank.
        eapply (R_tok' ")"); eauto.
    + (* ite(a, b, d) *)
      destruct Hs as [Hop [HL [Ha [Hcm [Hb [Hd HRp]]]]]].
      inversion H as [|? ? Pa H1]; subst. inversion H1 as [|? ? Pb H2]; subst.
      inversion H2 as [|? ? Pd H3]; subst.
      change (flatten_str (Opr op [a; b; d]))
        with (op ++ "(" ++ (flatten_str a ++ ", " ++ flatten_str b ++ ", " ++ flatten_str d) ++ ")").
      change (flatten optok (Opr op [a; b; d]))
        with (optok op :: LP :: (flatten optok a ++ CM :: flatten optok b ++ CM :: flatten optok d) ++ [RP])%list.
      rewrite !sapp_assoc. repeat (rewrite <- app_assoc; simpl app).
      eapply R_tok'; [exact Hop | reflexivity |].
      eapply (R_tok' "("); [exact HL | |].
      { destruct (flatten_str a); reflexivity. }
      change (", " ++ flatten_str b ++ ", " ++ flatten_str d ++ ")" ++ tail)
        with ("," ++ " " ++ flatten_str b ++ "," ++ " " ++ flatten_str d ++ ")" ++ tail).
      eapply Pa; [exact Ha | reflexivity |].
      eapply (R_tok' ","); [exact Hcm | reflexivity |]. apply R_blank.
      eapply Pb; [exact Hb | reflexivity |].
      eapply (R_tok' ","); [exact Hcm | reflexivity |]. apply R_blank.
      eapply Pd; [exact Hd | reflexivity |].
      eapply (R_tok' ")"); eauto.
  - simpl in Hs. contradiction.
Qed.

Lemma sapp_nil_r : forall s : string, s ++ "" = s.
Proof. induction s; simpl; [reflexivity|]. rewrite IHs. reflexivity. Qed.

Variable T : ptable.
Hypothesis Hok : table_ok_full T = true.
Hypothesis Htab : lex_table_ok rules = true.
Hypothesis Hign : ignore_ok ignore = true.

(* roundtrip at the level of strings: Parser().parse(tree.flatten()) *)
Theorem roundtrip_string : forall t,
  flat_ok T optok t -> sflat t None ->
  parse_string rules reserved values ignore T (flatten_str t) = Some t.
Proof.
  intros t Hf Hs. unfold parse_string, lex_string.
  assert (R : Rendered (flatten_str t) (flatten optok t)).
  { rewrite <- (sapp_nil_r (flatten_str t)), <- (app_nil_r (flatten optok t)).
    eapply (sflat_rendered t); [exact Hs | reflexivity | constructor]. }
  rewrite (lex_rendered rules reserved values ignore Htab Hign _ _ R).
  apply roundtrip; assumption.
Qed.

(* comments, blanks and line breaks do not matter for the parse *)
Theorem comments_ws_parse : forall s1 s2 ts,
  Rendered s1 ts -> Rendered s2 ts ->
  parse_string rules reserved values ignore T s1
  = parse_string rules reserved values ignore T s2.
Proof.
  intros s1 s2 ts R1 R2. unfold parse_string, lex_string.
  rewrite (lex_rendered rules reserved values ignore Htab Hign _ _ R1).
  rewrite (lex_rendered rules reserved values ignore Htab Hign _ _ R2). reflexivity.
Qed.

End RT.
