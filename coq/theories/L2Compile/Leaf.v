(* L2l / Leaf: the leaves of bitvector.Nodes.*.flatten as functions of the
   symbol table: numerals (Num.flatten = int_to_twos_complement), Boolean
   constants (Bool.flatten) and variables without a definition
   (Var.flatten, var_to_twos_complement, _append_sign_bit, _is_bool_var).
   Names are Python strings; [py_token var_id] reads one token as a formula.
   No proofs here (see LeafProofs.v). *)
From Coq Require Import String Ascii ZArith List Bool.
From Omega Require Import L1Circuits.Circuits L1Circuits.Deep L1Circuits.PyBits
  L1Circuits.PyStr L2Compile.Expr L2Compile.Emit L2Compile.Thread.
Import ListNotations.
Open Scope Z_scope.

Definition bstr (b : bool) : string := if b then "1"%string else "0"%string.

(* int_to_twos_complement(s) for the numeral z: the digit strings *)
Definition num_names (z : Z) : list string := map bstr (int_to_twos_complement z).
(* Num.flatten: the constant formulas *)
Definition num_bits (z : Z) : list bx := map XC (int_to_twos_complement z).

(* _is_bool_var(name, t) *)
Definition is_bool_var (t : PyStr.table) (name : string) : option bool :=
  match dict_get t name with
  | Some h => Some (String.eqb (h_type h) "bool")
  | None =>
      match dict_get t (py_rsplit1 "_" name) with
      | Some h' => match h_bitnames h' with
                   | Some bs => Some (str_mem name bs)
                   | None => None              (* ValueError *)
                   end
      | None => Some false
      end
  end.

(* var_to_twos_complement(var, t) for the entry h of an integer variable:
   the bit names, then the constant sign bit of a sign-definite variable *)
Definition check_width (l : list string) : option (list string) :=
  if (2 <=? length l)%nat then Some l else None.
Definition var_names (h : hint) : option (list string) :=
  if String.eqb (h_type h) "bool" then None else
  match h_bitnames h, h_signed h with
  | Some bits, Some true => check_width bits
  | Some bits, Some false =>
      match h_dom h with
      | Some (lo, hi) =>
          if lo * hi >=? 0 then
            if lo >=? 0 then check_width (bits ++ ["0"%string])
            else if hi <? 0 then check_width (bits ++ ["1"%string]) else None
          else None
      | None => None
      end
  | _, _ => None
  end.

(* make_bit: the prime goes on names, not on the constant sign bit *)
Definition prime_name (prime : bool) (b : string) : option string :=
  if prime then
    match py_first_isdigit b with
    | Some dg => Some (if negb dg then b ++ "'" else b)%string
    | None => None                            (* b[0] of an empty name *)
    end
  else Some b.

Section Var.
Variable var_id : string -> nat.

(* Var.flatten when the name has no definition *)
Definition d_var_flatten (t : PyStr.table) (name : string) (prime : bool) : option fres :=
  match is_bool_var t name with
  | Some true =>
      option_map RStr (py_token var_id (name ++ (if prime then "'" else ""))%string)
  | Some false =>
      match dict_get t name with
      | Some h =>
          match var_names h with
          | Some ns =>
              match py_mapM (prime_name prime) ns with
              | Some ps => option_map RBits (py_mapM (py_token var_id) ps)
              | None => None
              end
          | None => None
          end
      | None => None
      end
  | None => None
  end.

(* ---- quantifier-free arithmetic over declared variables and numerals *)
Inductive qexp :=
| QNum (v : string)                       (* a numeral, as lexed *)
| QVar (name : string)                    (* a declared integer variable *)
| QPrime (op : string) (a : qexp)         (* X a, a' *)
| QArith (o : aop) (op : string) (a b : qexp).

(* the tree the parser builds *)
Fixpoint qnode (e : qexp) : pnode :=
  match e with
  | QNum v => PNode "Num" v []
  | QVar n => PNode "Var" n []
  | QPrime op a => PNode "Unary" op [qnode a]
  | QArith _ op a b => PNode "Arithmetic" op [qnode a; qnode b]
  end.

(* the same tree with the bits of its leaves read off the symbol table *)
Fixpoint q_anode (t : PyStr.table) (prime : bool) (e : qexp) : option anode :=
  match e with
  | QNum v => option_map (fun z => ALeaf (PNode "Num" v []) (num_bits z)) (py_int v)
  | QVar n =>
      match d_var_flatten t n prime with
      | Some (RBits bits) => Some (ALeaf (PNode "Var" n []) bits)
      | _ => None
      end
  | QPrime op a =>
      if String.eqb op "X" || String.eqb op "'"
      then option_map (APrime op) (q_anode t true a) else None
  | QArith o op a b =>
      match aop_of_string op, q_anode t prime a, q_anode t prime b with
      | Some o', Some a', Some b' =>
          if match o, o' with
             | AAdd, AAdd | ASub, ASub | AMul, AMul | ADiv, ADiv | AMod, AMod => true
             | _, _ => false
             end
          then Some (AArith o op a' b') else None
      | _, _, _ => None
      end
  end.
End Var.

(* integer meaning: [env name primed] = value of the (primed) variable;
   None = some divisor is zero *)
Fixpoint qval (env : string -> bool -> Z) (prime : bool) (e : qexp) : option Z :=
  match e with
  | QNum v => py_int v
  | QVar n => Some (env n prime)
  | QPrime _ a => qval env true a
  | QArith o _ a b =>
      match qval env prime a, qval env prime b with
      | Some x, Some y =>
          match sem_aop o x y with Ok (VZ z) => Some z | _ => None end
      | _, _ => None
      end
  end.

(* ---- quantifier-free Boolean formulas over comparisons, Boolean variables
   and constants (the Binary / Unary connectives of the parser) *)
Inductive bexp :=
| BConst (v : string)                    (* TRUE / FALSE as lexed *)
| BVar (name : string)                   (* a declared Boolean variable *)
| BCmp (op : string) (l r : qexp)        (* comparison of integer terms *)
| BNot (op : string) (a : bexp)          (* ~ a *)
| BBin (op : string) (a b : bexp).       (* /\ \/ => <=> ^ *)

Fixpoint bnode (e : bexp) : pnode :=
  match e with
  | BConst v => PNode "Bool" v []
  | BVar n => PNode "Var" n []
  | BCmp op l r => PNode "Comparator" op [qnode l; qnode r]
  | BNot op a => PNode "Unary" op [bnode a]
  | BBin op a b => PNode "Binary" op [bnode a; bnode b]
  end.

(* value of an emitted Boolean-scope formula: a buffer is evaluated on its
   own memory (symbolic/bdd.py) *)
Definition lift2 (f : bool -> bool -> bool) (a b : option bool) : option bool :=
  match a, b with Some x, Some y => Some (f x y) | _, _ => None end.
Fixpoint eval_px (vars : nat -> bool) (p : px) : option bool :=
  match p with
  | PB b => Some (evalx vars [] b)
  | PBuf f => buf_value vars f
  | PNot a => option_map negb (eval_px vars a)
  | PAnd a b => lift2 andb (eval_px vars a) (eval_px vars b)
  | POr a b => lift2 orb (eval_px vars a) (eval_px vars b)
  | PXor a b => lift2 xorb (eval_px vars a) (eval_px vars b)
  end.

Definition bop_of_string (s : string) : option bop :=
  if String.eqb s "/\" then Some BAnd else if String.eqb s "\/" then Some BOr
  else if String.eqb s "=>" then Some BImp else if String.eqb s "<=>" then Some BIff
  else if String.eqb s "^" then Some BXor else None.

(* Boolean meaning; None = a divisor is zero, or not a formula of the
   fragment *)
Fixpoint bsem (env : string -> bool -> Z) (benv : string -> bool) (e : bexp)
  : option bool :=
  match e with
  | BConst v => if String.eqb (py_lower v) "true" then Some true
                else if String.eqb (py_lower v) "false" then Some false else None
  | BVar n => Some (benv n)
  | BCmp op l r =>
      match cmp_of_string op, qval env false l, qval env false r with
      | Some o, Some x, Some y => Some (sem_cmp o x y)
      | _, _, _ => None
      end
  | BNot op a => if String.eqb op "~" then option_map negb (bsem env benv a) else None
  | BBin op a b =>
      match bop_of_string op, bsem env benv a, bsem env benv b with
      | Some o, Some x, Some y => Some (sem_bop o x y)
      | _, _, _ => None
      end
  end.
