(* C08 — a formula printed from a BDD is equivalent on the care set and
   re-parses.  Statements only; proofs in theories/L5Cover/ListExprProofs.v.

   The model (L5Cover/ListExpr.v) is at the level of the syntax tree that the
   formula parser returns for the printed text; the marker line
   `care expression` is read as TRUE (DESIGN C08).  That the text is accepted
   by the parser is established on every run with the REAL parser (tie H);
   the theorem [printed_reparses] of DESIGN (parser model of C16) is not
   proved here.  That the cover handed to the printer is a cover by
   implicants is C09 ([C09_minimize_sound]). *)
From Coq Require Import List ZArith Bool.
Import ListNotations.
From Omega Require Import L5Cover.Boxes L5Cover.BoxesProofs L5Cover.ListExpr
  L5Cover.ListExprProofs.
Open Scope Z_scope.

(* first sentence: for ANY cover K of f by boxes inside [f or outside care]
   and all display options, the printed formula agrees with f at every point
   of the care set (points range over the whole bit-field grid [limits]) *)
Theorem C08_dnf_equiv_on_care :
  forall limits doms f care K,
  length doms = length limits ->
  covers limits f K ->
  (forall b, In b K -> implicant limits f care b) ->
  forall care_is_true show_dom show_limits e,
  dumps_cover limits doms care care_is_true show_dom show_limits K = Some e ->
  forall p, in_ranges limits p -> care p = true -> eval p e = f p.
Proof. exact dnf_equiv_on_care. Qed.

(* clipping to the type hint keeps the members among the values of the hint,
   yields a non-empty interval inside the hint, and drops the conjunct only
   when every value of the hint is a member *)
Theorem C08_clip_preserves : forall a b u v r,
  clip_subrange (a, b) (u, v) = Some r ->
  match r with
  | None => forall x, u <= x <= v -> a <= x <= b
  | Some (a', b') =>
      a' <= b' /\ u <= a' /\ b' <= v /\
      forall x, u <= x <= v -> (a <= x <= b <-> a' <= x <= b')
  end.
Proof. exact clip_preserves. Qed.

(* it is defined exactly on non-empty intervals that meet *)
Theorem C08_clip_defined : forall a b u v,
  a <= b -> u <= v -> a <= v -> u <= b ->
  exists r, clip_subrange (a, b) (u, v) = Some r.
Proof. exact clip_subrange_total. Qed.

(* second sentence: a printed disjunct holds at no care point outside f, and
   the disjuncts together hold at every point of f (inside the type hints
   when clipping is on) *)
Theorem C08_disjuncts_sound :
  forall limits doms f care K,
  length doms = length limits ->
  covers limits f K ->
  (forall b, In b K -> implicant limits f care b) ->
  forall use_dom ds,
  list_expr use_dom doms K = Some ds ->
  (use_dom = true -> forall p, in_ranges limits p -> care p = true ->
                               containsb doms p = true) ->
  (forall d, In d ds ->
     forall p, in_ranges limits p -> care p = true -> eval p d = true -> f p = true) /\
  (forall p, in_ranges limits p -> f p = true ->
     (use_dom = true -> containsb doms p = true) ->
     exists d, In d ds /\ eval p d = true).
Proof. exact disjuncts_sound. Qed.

(* each printed disjunct is non-empty: it holds at a point of its box *)
Theorem C08_disjunct_nonempty_clipped : forall doms b c,
  box_atoms true O doms b = Some c -> length doms = length b ->
  exists p, containsb b p = true /\ eval p (conj c) = true.
Proof. exact disjunct_nonempty_clipped. Qed.

Theorem C08_disjunct_nonempty_plain : forall doms b c p,
  box_atoms false O doms b = Some c -> length doms = length b ->
  containsb b p = true -> eval p (conj c) = true.
Proof. exact disjunct_nonempty_plain. Qed.

(* the conjunction printed for a box denotes the box (at the points inside
   the hints when clipping is on) *)
Theorem C08_box_denotation : forall use_dom b doms c p,
  box_atoms use_dom O doms b = Some c ->
  length p = length b -> length doms = length b ->
  (use_dom = true -> containsb doms p = true) ->
  eval p (conj c) = containsb b p.
Proof. exact box_atoms_sem0. Qed.

(* meaning of the check that is evaluated on the REAL output *)
Theorem C08_printed_ok_correct : forall limits f care clipped e ds,
  printed_ok limits f care clipped e ds = true ->
  (forall p, in_ranges limits p -> care p = true -> eval p e = f p) /\
  (forall d, In d ds -> exists b,
      Forall (fun i => fst i <= snd i) b /\
      (forall p, in_ranges limits p -> eval p d = containsb b p) /\
      (forall p, contains b p -> care p = true -> f p = true)) /\
  (forall p, in_ranges limits p -> f p = true ->
      (clipped = true -> care p = true) ->
      exists d, In d ds /\ eval p d = true).
Proof. exact printed_ok_correct. Qed.

(* non-vacuity: an instance satisfying the hypotheses of the first theorem,
   with clipping and both kinds of range conjuncts switched on *)
Example C08_instance :
  let limits := [(0, 3); (0, 1)] in
  let doms := [(0, 2); (0, 1)] in
  let f := mem_pt [[0;0]; [0;1]; [2;1]] in
  let care := mem_pt [[0;0]; [0;1]; [1;0]; [1;1]; [2;0]; [2;1]] in
  let K := [[(0,0);(0,1)]; [(2,3);(1,1)]] in
  coversb limits f K = true /\
  forallb (fun b => mem_box (implicants limits f care) b) K = true /\
  exists e, dumps_cover limits doms care false true true K = Some e /\
            allb (fun p => if care p then Bool.eqb (eval p e) (f p) else true)
                 (grid limits) = true.
Proof. cbv zeta. split; [vm_compute; reflexivity|]. split; [vm_compute; reflexivity|].
  eexists. split; vm_compute; reflexivity. Qed.

Print Assumptions C08_dnf_equiv_on_care.
Print Assumptions C08_clip_preserves.
Print Assumptions C08_clip_defined.
Print Assumptions C08_disjuncts_sound.
Print Assumptions C08_disjunct_nonempty_clipped.
Print Assumptions C08_disjunct_nonempty_plain.
Print Assumptions C08_box_denotation.
Print Assumptions C08_printed_ok_correct.
