(* L5Cover / CoverEnumBounded4: the model of cover_enum.minimize (as repaired
   by fixes/F2.patch) returns exactly the set of all minimum covers for ALL
   non-empty functions of four two-valued variables with care = TRUE, by
   computation; and the regression examples for finding F2. *)
From Coq Require Import List ZArith NArith Bool Lia.
Import ListNotations.
From Omega Require Import L5Cover.Boxes L5Cover.BoxesProofs L5Cover.MinCover
  L5Cover.MinCoverProofs L5Cover.CoverEnum L5Cover.CoverEnumProofs
  L5Cover.MinCoverBounded L5Cover.MinCoverBounded4.
Open Scope Z_scope.

Definition enum_all4 (pick : list box -> option box) : bool :=
  allb (fun hi => allb (fun lo =>
          if (256 * hi + lo =? 0)%N then true
          else ok_enum rs4 pick (fun_of_mask (256 * hi + lo)%N) care_true)
        (nrange 256 0%N)) (nrange 256 0%N).

Lemma enum_all4_correct pick : enum_all4 pick = true ->
  forall fm, (1 <= fm < 65536)%N ->
  exists R, enum_minimize rs4 pick (fun_of_mask fm) care_true = inl R /\
            all_min_prime_covers rs4 (fun_of_mask fm) care_true R.
Proof.
  unfold enum_all4. rewrite allb_forallb, forallb_forall. intros H fm Hf.
  pose proof (N.div_mod fm 256%N ltac:(lia)) as E.
  assert (Hhi : (fm / 256 < 256)%N) by (apply N.div_lt_upper_bound; lia).
  assert (Hlo : (fm mod 256 < 256)%N) by (apply N.mod_lt; lia).
  set (hi := (fm / 256)%N) in *. set (lo := (fm mod 256)%N) in *.
  clearbody hi lo. subst fm.
  assert (Hin : In hi (nrange 256 0%N)) by (apply nrange_In; cbn; lia).
  specialize (H hi Hin). rewrite allb_forallb, forallb_forall in H.
  assert (Hin2 : In lo (nrange 256 0%N)) by (apply nrange_In; cbn; lia).
  specialize (H lo Hin2).
  destruct (N.eqb_spec (256 * hi + lo) 0); [lia|].
  apply ok_enum_correct, H.
Qed.

Lemma enum_all4_first : enum_all4 pick_first = true.
Proof. vm_compute. reflexivity. Qed.

Theorem enum_exact_bounded_4_first :
  forall fm, (1 <= fm < 65536)%N ->
  exists R, enum_minimize rs4 pick_first (fun_of_mask fm) care_true = inl R /\
            all_min_prime_covers rs4 (fun_of_mask fm) care_true R.
Proof. exact (enum_all4_correct pick_first enum_all4_first). Qed.

(* ---- finding F2: the witness of DESIGN section 7 (minterms 0000 0001 0010
   1000 1011 1100 1101 1111).  The repaired code returns the three minimum
   covers.  In the unrepaired code the expansion of the second element of
   the cover from maxima obtains, from _below_and_suff, a set of two boxes
   that differ only in the upper end of one two-valued variable, i.e. a set
   that is a cylinder along that parameter: pick_iter without care_vars
   yields ONE partial assignment for both, and the assertion
   count(new_cover) == k (line 425) fails with 3 <> 2. *)
Definition f2_f : point -> bool :=
  mem_pt [[0;0;0;0];[0;0;0;1];[0;0;1;0];[1;0;0;0];[1;0;1;1];[1;1;0;0];
          [1;1;0;1];[1;1;1;1]].

Example F2_repaired_answer :
  exists R, enum_minimize rs4 pick_first f2_f care_true = inl R /\
            length R = 3%nat /\ is_all_min_covers_b rs4 f2_f care_true R = true.
Proof. eexists. split; [vm_compute; reflexivity|]. split; vm_compute; reflexivity. Qed.

(* the data of the failing call, as observed on the real code *)
Definition f2_lm : list box :=
  [[(0,0);(0,0);(0,0);(0,1)]; [(1,1);(0,1);(0,0);(0,0)];
   [(1,1);(1,1);(0,0);(0,1)]; [(0,0);(0,0);(0,1);(0,0)];
   [(1,1);(0,1);(1,1);(1,1)]].
Definition f2_x : list box :=
  [[(0,0);(0,0);(0,0);(0,1)]; [(0,0);(0,0);(0,1);(0,0)];
   [(1,1);(0,0);(0,0);(0,0)]; [(1,1);(0,1);(1,1);(1,1)];
   [(1,1);(1,1);(0,0);(0,0)]; [(1,1);(1,1);(0,0);(1,1)]].
Definition f2_y : list box :=
  [[(0,0);(0,0);(0,0);(0,1)]; [(0,0);(0,0);(0,1);(0,0)];
   [(1,1);(0,0);(0,0);(0,0)]; [(1,1);(0,1);(0,0);(0,0)];
   [(1,1);(0,1);(1,1);(1,1)]; [(1,1);(1,1);(0,0);(0,1)];
   [(1,1);(1,1);(0,0);(1,1)]].

Example F2_mechanism :
  exists S,
    below_and_suff [(1,1);(0,1);(0,0);(0,0)]
      (union [[(0,0);(0,0);(0,0);(0,1)]] (tl f2_lm)) f2_x f2_y = inl S /\
    length S = 2%nat /\
    independent_of (0, 1) S 1 true = true.
Proof. eexists. split; [vm_compute; reflexivity|]. split; vm_compute; reflexivity. Qed.
