(* L4Steps / Assembly: `steps.Assembly` and `steps.History`.

   A machine is anything with `vars`, `init()` and `step(state)`
   (AutomatonStepper, Scheduler, hand-written components); `machines` is the
   dictionary name -> machine in insertion order.  The functions are
   parametric in the single-key unmangling function so that the unrepaired
   code (defect F9) can be run next to the repaired one.

   No proofs here (see AssemblyProofs.v). *)
From Coq Require Import List Bool String Ascii ZArith.
From Omega Require Import L4Steps.Mangle L4Steps.Stepper.
Import ListNotations.
Open Scope string_scope.

Record machine := {
  m_vars : list string;           (* keys of `machine.vars` *)
  m_init : res dict;              (* `machine.init()` *)
  m_step : dict -> res dict       (* `machine.step(local_state)` *)
}.

Definition machines := list (string * machine).

Section WithOmit.
Variable om : string -> string -> string.

(* `Assembly.init`: loop over the machines, accumulating `self.state` *)
Fixpoint asm_init_acc (ms : machines) (state : dict) : res dict :=
  match ms with
  | [] => Ok state
  | (name, m) :: ms' =>
      bind (m_init m) (fun partial =>
      bind (to_global partial name) (fun g =>
      bind (update_state state g) (fun state' =>
      asm_init_acc ms' state')))
  end.

Definition asm_init (ms : machines) : res dict := asm_init_acc ms [].

(* `Assembly.step`: loop over the machines, accumulating `next_state` *)
Fixpoint asm_step_acc (ms : machines) (state next : dict) : res dict :=
  match ms with
  | [] => Ok next
  | (name, m) :: ms' =>
      bind (to_local_with om state name (m_vars m)) (fun local =>
      bind (m_step m local) (fun partial =>
      bind (to_global partial name) (fun g =>
      bind (update_state next g) (fun next' =>
      asm_step_acc ms' state next'))))
  end.

Definition asm_step (ms : machines) (state : dict) : res dict :=
  asm_step_acc ms state [].

(* `History`: current state (`None` before `init`) and earlier states *)
Record assembly := { s_state : option dict; s_past : list dict }.

Definition asm_new : assembly := {| s_state := None; s_past := [] |}.

Definition do_init (ms : machines) (a : assembly) : res assembly :=
  bind (asm_init ms) (fun s =>
  Ok {| s_state := Some s; s_past := s_past a |}).

(* `Assembly.step` + `History.update` *)
Definition do_step (ms : machines) (a : assembly) : res assembly :=
  match s_state a with
  | None => Err Uninit
  | Some s =>
      bind (asm_step ms s) (fun n =>
      Ok {| s_state := Some n; s_past := (s_past a ++ [s])%list |})
  end.

Fixpoint do_steps (ms : machines) (n : nat) (a : assembly) : res assembly :=
  match n with
  | O => Ok a
  | S n' => bind (do_step ms a) (do_steps ms n')
  end.

(* init followed by n steps *)
Definition run (ms : machines) (n : nat) : res assembly :=
  bind (do_init ms asm_new) (do_steps ms n).
End WithOmit.

(* the recorded behaviour: past states followed by the current one *)
Definition trace (a : assembly) : list dict :=
  (s_past a ++ match s_state a with Some s => [s] | None => [] end)%list.

(* --- concrete machines -------------------------------------------------- *)
(* `steps.Scheduler(n)` *)
Definition scheduler (n : Z) : machine := {|
  m_vars := ["turn"];
  m_init := Ok [("turn", 0%Z)];
  m_step := fun st =>
    match lookup "turn" st with
    | Some t => Ok [("turn", ((t + 1) mod n)%Z)]
    | None => Err Missing
    end
|}.

(* an AutomatonStepper as a machine; `machine.vars` = `aut.vars` *)
Definition stepper_machine (pick_i pick_s : list dict -> option dict)
    (A : automaton) : machine := {|
  m_vars := names (a_decls A);
  m_init := init pick_i A;
  m_step := step pick_s A
|}.

(* a machine replayed from logged calls (correspondence check): `init`
   returns the logged dictionary, `step` returns the logged result of the
   call whose argument equals the local state (as finite maps) *)
Fixpoint replay_step (log : list (dict * res dict)) (local : dict)
    : res dict :=
  match log with
  | [] => Err Missing
  | (arg, r) :: log' =>
      if dict_eqb arg local then r else replay_step log' local
  end.

Definition replay_machine (vars : list string) (i : res dict)
    (log : list (dict * res dict)) : machine :=
  {| m_vars := vars; m_init := i; m_step := replay_step log |}.
