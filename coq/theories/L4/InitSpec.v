(* L4 / InitSpec: the four quantified initial-condition formulas of GR(1)
   realizability (qinit forms) as executable specifications. *)
From Coq Require Import List Bool Arith Lia.
Import ListNotations.
From Omega Require Import L4.Arena L4.ArenaFacts L4.Kleene.

Section InitSpec.
Variables nc nx ny : nat.
Variables env_init sys_init : bdd.
Variable plus_one : bool.

(* validity: true at every valuation of the arena *)
Definition valid (u : bdd) : bool := beq nc nx ny u btrue.

Lemma valid_iff u : valid u = true <-> forall v, inr nc nx ny v -> u v = true.
Proof. unfold valid. rewrite beq_true_iff. unfold inr. reflexivity. Qed.

(* SysInit /\ (EnvInit => Win)   or   EnvInit => (SysInit /\ Win) *)
Definition init_form (win : bdd) : bdd := fun v =>
  if plus_one then sys_init v && (win v || negb (env_init v))
  else (sys_init v && win v) || negb (env_init v).

Definition ex_sys (u : bdd) : bdd := fun v => existsb (fun y => u (setg Sys v y)) (seq 0 ny).
Definition all_env (u : bdd) : bdd := fun v => forallb (fun x => u (setg Env v x)) (seq 0 nx).
Definition ex_env_sys (u : bdd) : bdd := fun v =>
  existsb (fun x => existsb (fun y => u (setg Sys (setg Env v x) y)) (seq 0 ny)) (seq 0 nx).

Definition realizable_spec (q : qinit_t) (win : bdd) : option bool :=
  match q with
  | QAA => if valid sys_init
           then Some (valid (fun v => win v || negb (env_init v))) else None
  | QEE => if valid env_init
           then Some (valid (ex_env_sys (fun v => win v && sys_init v))) else None
  | QAE => Some (valid (all_env (ex_sys (init_form win))))
  | QEA => Some (valid (ex_sys (all_env (init_form win))))
  end.

Definition init_spec (q : qinit_t) (win : bdd) : bdd :=
  match q with
  | QAA => btrue
  | QEE => fun v => win v && sys_init v
  | QAE => init_form win
  | QEA => all_env (init_form win)
  end.

End InitSpec.
