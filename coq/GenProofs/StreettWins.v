(* The synthesized Streett(1) implementation, read as a strategy, wins the
   game (theories/L4/Plays.v): from every state of the region returned by the
   GENERATED solver, the component that at every step takes a step the
   TRANSLATED construction's action allows (the first one in a fixed order;
   the goal counter is its memory) keeps its action as the mode obliges and,
   if the environment keeps its action forever, satisfies persistence or
   recurrence - on EVERY play consistent with it.  Combines non-blocking,
   closure, counter range, refinement and liveness (C02) into the
   game-semantic statement of C01.

   Depends on Classical_Prop.classic (through the liveness theorem). *)
From Coq Require Import List Bool Arith Lia.
Import ListNotations.
From Omega Require Import L4.Arena L4.ArenaFacts L4.Kleene L4.GameSpec L4.Plays L4.RabinStrategy.
From OmegaGen Require Import FixpointGen Gr1Gen.
From OmegaGP Require Import FixpointProofs StreettProofs TransducerModel StreettTProofs
  StreettNB2 StreettNB4 StreettIter2 StreettClosure1 StreettClosure2 StreettLive4.

Section Wins.
Variables nc nx ny : nat.
Variables E S : bdd.
Variables holds goals : list bdd.
Variables moore plus_one : bool.
Variable fuel : nat.
Hypothesis Hfuel : NV nc nx ny <= fuel.
Hypothesis Sh : Forall spred holds.
Hypothesis Sg : Forall spred goals.
Variable G : nat.
Hypothesis HG : 0 < G.
Hypothesis HnG : length goals <= G.
Hypothesis Hgoals : 0 < length goals.
Variable c : nat.
Hypothesis Hc : c < nc.

Local Notation L := (lift nc nx ny G).
Local Notation sol := (Gr1Gen.solve_streett_game nc nx ny E S holds goals moore plus_one fuel).
Local Notation zf := (fst (fst sol)).
Local Notation A := (streett_action nc nx ny G (L E) (L S) (map L holds) (map L goals)
                       moore plus_one (L zf) (map (map L) (snd (fst sol)))
                       (map (map (map L)) (snd sol))).
Local Notation n := (length goals).
Local Notation ev := (ev G).
Local Notation stv := (stv c).
Local Notation stepv := (stepv c).

(* ---- the implementation as a function of the history ------------------- *)
Definition pairs : list (nat * nat) := list_prod (seq 0 ny) (seq 0 G).

Definition okp (x yb m x' : nat) (p : nat * nat) : bool :=
  if moore
  then forallb (fun x'' => A (ev c x yb m x'' (fst p) (snd p))) (seq 0 nx)
  else A (ev c x yb m x' (fst p) (snd p)).

Definition ch (x yb m x' : nat) : nat * nat :=
  match find (okp x yb m x') pairs with Some p => p | None => (0, 0) end.

Fixpoint memof (h : list st) : nat :=
  match h with
  | [] => 0
  | s :: h' =>
    match h' with
    | [] => 0
    | sp :: _ => snd (ch (fst sp) (snd sp) (memof h') (fst s))
    end
  end.

Definition impl_strategy : strat :=
  fun h x' => let s := hd (0, 0) h in
              clampy ny (fst (ch (fst s) (snd s) (memof h) x')).

Lemma okp_moore x yb m x1 x2 p : moore = true -> okp x yb m x1 p = okp x yb m x2 p.
Proof. intros Hm. unfold okp. rewrite Hm. reflexivity. Qed.

Lemma ch_moore x yb m x1 x2 : moore = true -> ch x yb m x1 = ch x yb m x2.
Proof.
  intros Hm. unfold ch.
  assert (Hf : find (okp x yb m x1) pairs = find (okp x yb m x2) pairs).
  { induction pairs as [|p l IH]; cbn [find]; [reflexivity|].
    rewrite (okp_moore x yb m x1 x2 p Hm). destruct (okp x yb m x2 p); [reflexivity|exact IH]. }
  rewrite Hf. reflexivity.
Qed.

Lemma impl_strategy_valid : 0 < ny -> cvalid ny moore impl_strategy.
Proof.
  intros Hny. split.
  - intros h x'. unfold impl_strategy, clampy.
    destruct (_ <? ny) eqn:El; [apply Nat.ltb_lt, El|exact Hny].
  - intros Hm h x1 x2. unfold impl_strategy. cbv zeta.
    rewrite (ch_moore _ _ _ x1 x2 Hm). reflexivity.
Qed.

(* the chooser returns an allowed step at every winning state *)
Lemma ch_spec x yb m x' :
  x < nx -> yb < ny -> m < n -> x' < nx -> zf (sv c x yb) = true ->
  let p := ch x yb m x' in
  fst p < ny /\ snd p < G /\ A (ev c x yb m x' (fst p) (snd p)) = true.
Proof.
  intros Hx Hyb Hm Hx' Hz. cbv zeta.
  destruct (streett_impl_nonblocking nc nx ny E S holds goals moore plus_one fuel Hfuel Sh Sg
              G HG HnG c x yb m Hc Hx Hyb Hm Hz) as [m' [Hm' Hnb]].
  assert (Hex : exists p, In p pairs /\ okp x yb m x' p = true).
  { unfold NBm in Hnb. unfold okp. destruct moore.
    - destruct Hnb as [yb' [Hyb' Hall]]. exists (yb', m'). split.
      + unfold pairs. apply in_prod; apply in_seq; lia.
      + cbn [fst snd]. apply forallb_forall. intros x'' Hin. apply in_seq in Hin.
        apply Hall. lia.
    - destruct (Hnb x' Hx') as [yb' [Hyb' Hs]]. exists (yb', m'). split.
      + unfold pairs. apply in_prod; apply in_seq; lia.
      + exact Hs. }
  unfold ch. destruct (find (okp x yb m x') pairs) as [p|] eqn:Ef.
  - apply find_some in Ef. destruct Ef as [Hin Hok].
    destruct p as [yb' mm]. unfold pairs in Hin. apply in_prod_iff in Hin.
    destruct Hin as [H1 H2]. apply in_seq in H1, H2. cbn [fst snd].
    split; [lia|]. split; [lia|].
    unfold okp in Hok. cbn [fst snd] in Hok. destruct moore; [|exact Hok].
    rewrite forallb_forall in Hok. apply Hok. apply in_seq. lia.
  - exfalso. destruct Hex as [p [Hin Hok]].
    pose proof (find_none _ _ Ef p Hin) as Hn. congruence.
Qed.

(* ---- one play ----------------------------------------------------------- *)
Section OnePlay.
Variable p : play.
Hypothesis Hr : inrange nx ny p.
Hypothesis Hcons : cconsistent impl_strategy p.
Hypothesis H0 : zf (stv (p 0)) = true.

Definition mseq (i : nat) : nat := memof (hist p i).

Lemma hist_cons i : exists t, hist p i = p i :: t.
Proof. destruct i; cbn [hist]; eexists; reflexivity. Qed.

Lemma mseq_0 : mseq 0 = 0.
Proof. reflexivity. Qed.

Lemma mseq_S i :
  mseq (Datatypes.S i) =
  snd (ch (fst (p i)) (snd (p i)) (mseq i) (fst (p (Datatypes.S i)))).
Proof.
  unfold mseq. cbn [hist memof]. destruct (hist_cons i) as [t Ht]. rewrite Ht. reflexivity.
Qed.

Definition sigma (i : nat) : V :=
  ev c (fst (p i)) (snd (p i)) (mseq i)
       (fst (p (Datatypes.S i))) (snd (p (Datatypes.S i))) (mseq (Datatypes.S i)).

Definition Inv (i : nat) : Prop := zf (stv (p i)) = true /\ mseq i < n.

Lemma stv_sv s : stv s = sv c (fst s) (snd s).
Proof. reflexivity. Qed.

(* the step of the play at position i is the chooser's *)
Lemma play_step i :
  Inv i ->
  snd (p (Datatypes.S i)) = fst (ch (fst (p i)) (snd (p i)) (mseq i) (fst (p (Datatypes.S i)))) /\
  snd (p (Datatypes.S i)) < ny /\ mseq (Datatypes.S i) < G /\ A (sigma i) = true.
Proof.
  intros [Hz Hm].
  destruct (Hr i) as [Hx Hy]. destruct (Hr (Datatypes.S i)) as [Hx' Hy'].
  rewrite stv_sv in Hz.
  destruct (ch_spec (fst (p i)) (snd (p i)) (mseq i) (fst (p (Datatypes.S i)))
              Hx Hy Hm Hx' Hz) as [H1 [H2 H3]].
  assert (Hsnd : snd (p (Datatypes.S i)) =
                 fst (ch (fst (p i)) (snd (p i)) (mseq i) (fst (p (Datatypes.S i))))).
  { rewrite (Hcons i). unfold impl_strategy. rewrite hist_hd. fold (mseq i).
    unfold clampy. apply Nat.ltb_lt in H1. rewrite H1. reflexivity. }
  split; [exact Hsnd|]. split; [exact Hy'|]. rewrite mseq_S. split; [exact H2|].
  unfold sigma. rewrite mseq_S, Hsnd. exact H3.
Qed.

Lemma sigma_inr i : Inv i -> inr nc nx (ny * G) (sigma i).
Proof.
  intros HI. destruct (play_step i HI) as [_ [Hy' [Hm' _]]]. destruct HI as [_ Hm].
  destruct (Hr i) as [Hx Hy]. destruct (Hr (Datatypes.S i)) as [Hx' _].
  unfold sigma, Kleene.inr, in_range, StreettNB2.ev. cbn [vc vx vy vxp vyp].
  repeat rewrite andb_true_iff. repeat rewrite Nat.ltb_lt.
  assert (mseq i < G) by lia.
  assert (snd (p i) * G + mseq i < ny * G) by nia.
  assert (snd (p (Datatypes.S i)) * G + mseq (Datatypes.S i) < ny * G) by nia. lia.
Qed.

Lemma bv_sigma i : Inv i ->
  bv G (sigma i) = stepv (p i) (p (Datatypes.S i)).
Proof.
  intros HI. destruct (play_step i HI) as [_ [_ [Hm' _]]]. destruct HI as [_ Hm].
  unfold sigma. rewrite (bv_ev G HG) by lia. reflexivity.
Qed.

Lemma E_sigma i : Inv i -> L E (sigma i) = E (stepv (p i) (p (Datatypes.S i))).
Proof. intros HI. rewrite (lift_spec nc nx ny G). rewrite (bv_sigma i HI). reflexivity. Qed.

Lemma S_sigma i : Inv i -> L S (sigma i) = S (stepv (p i) (p (Datatypes.S i))).
Proof. intros HI. rewrite (lift_spec nc nx ny G). rewrite (bv_sigma i HI). reflexivity. Qed.

Lemma inv_next i : Inv i -> Eat c E p i -> Inv (Datatypes.S i).
Proof.
  intros HI He. destruct (play_step i HI) as [_ [Hy' [Hm' HA]]].
  pose proof (sigma_inr i HI) as Hin.
  assert (HE : L E (sigma i) = true) by (rewrite (E_sigma i HI); exact He).
  split.
  - pose proof (streett_impl_closed nc nx ny E S holds goals moore plus_one fuel Hfuel Sh Sg
                  G HG (sigma i) Hin HA HE) as Hcl.
    unfold nextpt in Hcl. unfold sigma at 1 2 3 4 5 in Hcl. unfold StreettNB2.ev in Hcl.
    cbn [vc vxp vyp] in Hcl. unfold StreettNB2.bv in Hcl. cbn [vc vx vy vxp vyp] in Hcl.
    rewrite Nat.div_add_l in Hcl by lia. rewrite Nat.div_small in Hcl by lia.
    rewrite Nat.add_0_r in Hcl. exact Hcl.
  - destruct (streett_counter_range nc nx ny G (L E) (L S) (map L holds) (map L goals)
                moore plus_one (L zf) (map (map L) (snd (fst sol)))
                (map (map (map L)) (snd sol)) (sigma i) Hin HA) as [Hr1 _].
    destruct (Hr1 HE) as [_ Hp]. rewrite map_length in Hp.
    unfold sigma in Hp. rewrite (cntp_ev G HG) in Hp by exact Hm'. lia.
Qed.

Lemma inv_all i : (forall t, t < i -> Eat c E p t) -> Inv i.
Proof.
  induction i as [|i IH]; intros He.
  - split; [exact H0|rewrite mseq_0; exact Hgoals].
  - apply inv_next; [apply IH; intros t Ht; apply He; lia|apply He; lia].
Qed.

Theorem impl_play_safe : safe_comp c E S plus_one p.
Proof.
  intros k He Hns.
  pose proof (inv_all k He) as HI.
  destruct (play_step k HI) as [_ [_ [_ HA]]].
  pose proof (sigma_inr k HI) as Hin.
  pose proof (streett_action_refines nc nx ny G (L E) (L S) (map L holds) (map L goals)
                moore plus_one (L zf) (map (map L) (snd (fst sol)))
                (map (map (map L)) (snd sol)) (sigma k) HA) as Hob.
  apply (oblig_mode_oblig nc nx ny G (L E) (L S) moore plus_one (sigma k) Hin) in Hob.
  unfold oblig in Hob. unfold Sat. rewrite <- (S_sigma k HI).
  destruct plus_one; [exact Hob|].
  specialize (Hns eq_refl). unfold Eat in Hns. rewrite <- (E_sigma k HI) in Hns.
  rewrite Hns in Hob. exact Hob.
Qed.

Theorem impl_play_live :
  (forall i, Eat c E p i) -> persist c holds p \/ recur c goals p.
Proof.
  intros HE.
  assert (HI : forall i, Inv i) by (intros i; apply inv_all; intros t _; apply HE).
  assert (Hb : behaviour nc nx ny E S holds goals moore plus_one fuel G sigma).
  { constructor.
    - intros i. apply sigma_inr, HI.
    - intros i. apply (play_step i (HI i)).
    - intros i. rewrite (E_sigma i (HI i)). apply HE.
    - intros i. unfold sigma, StreettNB2.ev. cbn [vc vx vy vxp vyp]. auto. }
  assert (Hc0 : cnt G (sigma 0) < n).
  { unfold sigma. rewrite (cnt_ev G HG) by (rewrite mseq_0; exact HG).
    rewrite mseq_0. exact Hgoals. }
  destruct (streett_impl_live nc nx ny E S holds goals moore plus_one fuel Hfuel Sh Sg G HG
              sigma Hb Hc0) as [[P [HP [N HN]]]|Hrec].
  - left. exists P. split; [exact HP|]. exists N. intros i Hi.
    specialize (HN i Hi). rewrite (bv_sigma i (HI i)) in HN.
    rewrite Forall_forall in Sh. rewrite (Sh P HP) in HN. exact HN.
  - right. intros R HR N.
    destruct (In_nth_error _ _ HR) as [j Hj].
    destruct (Hrec j R Hj N) as [i [Hi Hv]]. exists i. split; [exact Hi|].
    rewrite (bv_sigma i (HI i)) in Hv.
    rewrite Forall_forall in Sg. rewrite (Sg R HR) in Hv. exact Hv.
Qed.

Theorem impl_play_won : win_streett c E S holds goals plus_one p.
Proof. split; [exact impl_play_safe|exact impl_play_live]. Qed.

End OnePlay.

(* the synthesized implementation - [impl_strategy], NAMED - is a winning
   strategy from every state of the region: it is a valid strategy of the
   mode and every play consistent with it is won *)
Theorem implementation_is_winning_strategy s :
  fst s < nx -> snd s < ny -> zf (stv s) = true ->
  cvalid ny moore impl_strategy /\
  forall p, inrange nx ny p -> p 0 = s -> cconsistent impl_strategy p ->
            win_streett c E S holds goals plus_one p.
Proof.
  intros H1 H2 Hz. split; [apply impl_strategy_valid; lia|].
  intros p Hr Hp0 Hcons. apply impl_play_won; [exact Hr|exact Hcons|].
  rewrite Hp0. exact Hz.
Qed.

(* hence SOME strategy wins (the statement that does not name the
   implementation; it also follows from the exactness of the region, C01) *)
Theorem implementation_wins s :
  fst s < nx -> snd s < ny -> zf (stv s) = true ->
  comp_wins nx ny moore (win_streett c E S holds goals plus_one) s.
Proof.
  intros H1 H2 Hz. exists impl_strategy.
  exact (implementation_is_winning_strategy s H1 H2 Hz).
Qed.

End Wins.
