"""Regenerate coq/gen/ListExprGen.v from omega/symbolic/_type_hints.py,
omega/logic/syntax.py, omega/symbolic/orthotopes.py and
omega/symbolic/cover.py (tie T for C08; translator tools/py2coq_listexpr.py).

Translated on every run: _type_hints._clip_subrange, _check_type_hint,
_format_range, _list_type_hints, _list_limits; syntax.vertical_op;
orthotopes.list_expr; cover.dumps_cover.  The theorems of
coq/GenProofs/ListExprBridge.v (generated code = hand-written model
L5Cover/ListExpr.v) are about these generated definitions and are re-proved on
every run.  The generated file imports gen/BitsGen.v (_bitfield_limits, C18):
call vlib.bits_gen.ensure_bits first.
"""
import os
import sys

sys.path.insert(0, os.path.join(os.path.dirname(__file__), '..'))
import py2coq  # noqa: E402
import py2coq_listexpr  # noqa: E402
from vlib.core import Broken, REPO  # noqa: E402

GEN = 'gen/ListExprGen.v'
SOURCES = [py2coq_listexpr.SOURCES[m] for m in ('tyh', 'stx', 'lat', 'cov')]
FUNCTIONS = [py2coq_listexpr.SOURCES[py2coq_listexpr.SIGS[n][0]]
             .rsplit('/', 1)[1][:-3] + '.' + n for n in py2coq_listexpr.ORDER]


def listexpr_text():
    """(text of gen/ListExprGen.v, translator notes, templates met)."""
    return py2coq_listexpr.generate(REPO)


def ensure_listexpr(ctx):
    """Translate the current sources; write and compile gen/ListExprGen.v.

    Returns (notes, [(template, tree)]).  A refusal of the translator (the
    source left the supported subset) is a broken tie."""
    try:
        text, notes, templates = listexpr_text()
    except py2coq.Refuse as e:
        raise Broken('translator', f'{", ".join(SOURCES)}: {e}')
    except (SyntaxError, OSError) as e:
        raise Broken('translator', f'{", ".join(SOURCES)}: {e}')
    ctx.write_gen(GEN, text)
    return notes, templates


if __name__ == '__main__':
    print(listexpr_text()[0])
