"""Translator extension for gr1.make_streett_transducer / make_rabin_transducer.

On top of the 'bdd' dialect of py2coq.py:
  - natural numbers: len(L), literals, + - %, variables bound to them;
  - `for i, a in enumerate(L)`, `for a, b in zip(L1, L2)` (and their nesting);
  - `L[0]`, `L[1:]`, `L[-1]`;
  - memory formulas: `aut.add_expr(s)` where `s` is an (r)f-string over the
    memory variable names (`c = '_goal'`, `w = '_hold'`) and natural-number
    expressions, with the connectives used in gr1.py: conjunction `/\\`,
    `=`, `#`, `\\in a..b`, postfix prime; it becomes
    `mp (fun v => ...)` over the accessors `m_goal v`, `m_goal' v`, ...;
  - the refusals of the construction (`assert is_realizable(...)`,
    `assert u != aut.false`, `_make_init`) make the result an option;
    the result is the pair (action['impl'], init['impl']);
  - book-keeping of the automaton that the arena model fixes once and for all
    (declaring the memory variables, varlists, the Moore-support assertion,
    the Moore/Mealy warning) is skipped and noted;
  - loop-carried variables are computed by a def-use scan (a variable that
    is overwritten before it is read again is not carried).
Anything else raises `Refuse`.
"""
import ast
import re
import textwrap

import py2coq
from py2coq import Refuse, _src, _dotted

SKIP_STMT_CALLS = ('_warn_moore_mealy', 'aut.prime_varlists',
                   'symbolic._assert_support_moore')
MEMVARS = {'_goal': 'm_goal', '_hold': 'm_hold'}
# zip truncation vs the code's own length assertion: lengths agree for the
# solver's iterates (the onion invariants); dropped as a precondition
EXTRA_IGNORED = ("len(xk) == len(holds)",)


class Tdc(py2coq.Translator):
    def emit_function(self, fi):
        self.natvars = set()
        self.strconst = {}
        self.strexpr = {}
        self.dead = set()
        self.guards = []
        self.iterating = []
        self.natlets = []      # top-level natural-number bindings, in order
        self.dicts = {}        # name -> [(memory variable, lo, hi)]
        self.declared = None
        text = super().emit_function(fi)
        # the memory variables the construction declares, with their ranges
        # (aut.declare_variables(**vrs)): data pinned by the bridge lemmas
        if self.declared is None:
            raise Refuse('the construction declares no memory variable')
        lets = ''.join(f'  let {n} := {e} in\n' for n, e in self.natlets)
        rows = '; '.join(f'("{m}"%string, {lo}, {hi})'
                         for m, lo, hi in self.declared)
        text += (f'\n\nDefinition {fi.coq_name}_declares : '
                 'list (string * nat * nat) :=\n'
                 + lets + f'  [{rows}].')
        return text

    # ------------------------------------------------------------ nat exprs
    def is_nat(self, e):
        if isinstance(e, ast.Constant) and isinstance(e.value, int) \
                and not isinstance(e.value, bool):
            return True
        if isinstance(e, ast.Name):
            return e.id in self.natvars
        if isinstance(e, ast.Call) and _dotted(e.func) == 'len' \
                and len(e.args) == 1:
            return True
        if isinstance(e, ast.BinOp) and isinstance(
                e.op, (ast.Add, ast.Sub, ast.Mod)):
            return self.is_nat(e.left) and self.is_nat(e.right)
        return False

    def natexpr(self, e, defined):
        if isinstance(e, ast.Constant):
            if e.value < 0:
                raise Refuse('negative natural number')
            return str(e.value)
        if isinstance(e, ast.Name):
            if e.id not in defined:
                raise Refuse(f'unknown name {e.id}')
            return e.id
        if isinstance(e, ast.Call):
            return f'(List.length {self.expr(e.args[0], defined)})'
        a = self.natexpr(e.left, defined)
        b = self.natexpr(e.right, defined)
        if isinstance(e.op, ast.Sub):
            # Python's integers go negative, nat's subtraction truncates:
            # the enclosing statement guards  b <= a  (model refuses else)
            self.guards.append(f'Nat.leb {b} {a}')
        if isinstance(e.op, ast.Mod):
            # divisor must be the length of a list being iterated over
            # (non-empty while the body runs): no division by zero
            r = e.right
            if not (isinstance(r, ast.Call) and _dotted(r.func) == 'len'
                    and _src(r.args[0]) in self.iterating):
                raise Refuse(f'modulus not known to be positive: {_src(e)}')
        op = {ast.Add: '+', ast.Sub: '-', ast.Mod: 'mod'}[type(e.op)]
        return f'({a} {op} {b})'

    # ------------------------------------------------------------ statements
    def block(self, stmts, defined, tail):
        if not stmts:
            return super().block(stmts, defined, tail)
        s, rest = stmts[0], stmts[1:]
        k = lambda d=defined: self.block(rest, d, tail)
        if isinstance(s, ast.Expr) and isinstance(s.value, ast.Call):
            f = _dotted(s.value.func) or ''
            if f == 'aut.declare_variables':
                c = s.value
                if c.args or len(c.keywords) != 1 or c.keywords[0].arg \
                        is not None or not isinstance(
                            c.keywords[0].value, ast.Name) \
                        or c.keywords[0].value.id not in self.dicts:
                    raise Refuse('declare_variables: not **<recorded dict>')
                if self.declared is not None:
                    raise Refuse('memory declared twice')
                self.declared = self.dicts[c.keywords[0].value.id]
                self.notes.append(
                    'aut.declare_variables of the dictionary: recorded as '
                    f'{self.fi.coq_name}_declares')
                return k()
            if f in SKIP_STMT_CALLS:
                self.notes.append(f'{f}(...) skipped (automaton book-keeping)')
                return k()
            if f == '_make_init':
                a = s.value.args
                self.must_be_aut(a[2])
                call = (f'make_init fuel {self.expr(a[0], defined)} '
                        f'{self.expr(a[1], defined)}')
                d2 = set(defined) | {'init_impl'}
                return (f'match {call} with\n| Some init_impl =>\n'
                        + self.block(rest, d2, tail) + '\n| None => None end')
        if isinstance(s, ast.Assert):
            t = s.test
            if _src(t) in EXTRA_IGNORED:
                self.notes.append(f'precondition dropped: {_src(t)}')
                return k()
            if isinstance(t, ast.Call) and _dotted(t.func) == 'is_realizable':
                self.must_be_aut(t.args[1])
                w = self.expr(t.args[0], defined)
                return (f'match is_realizable fuel {w} with\n| Some true =>\n'
                        + k() + '\n| _ => None end')
        if isinstance(s, ast.Return) and _src(s.value) == "aut.action['impl']":
            if rest:
                raise Refuse('code after return')
            if not {'action_impl', 'init_impl'} <= set(defined):
                raise Refuse('result returned before it is stored')
            return 'Some (action_impl, init_impl)'
        if isinstance(s, ast.Assign) and len(s.targets) == 1:
            t, v = s.targets[0], s.value
            ts = _src(t)
            if ts == "aut.action['impl']":
                d2 = set(defined) | {'action_impl'}
                return (f'let action_impl := {self.expr(v, defined)} in\n'
                        + self.block(rest, d2, tail))
            if ts == "aut.varlist['impl']":
                self.notes.append("aut.varlist['impl'] assignment skipped")
                return k()
            if isinstance(t, ast.Name):
                # dictionaries used only to declare the memory variables
                if isinstance(v, ast.Dict):
                    # {memory variable name: (lo, hi), ...}
                    rows = []
                    for kk, vv in zip(v.keys, v.values):
                        if not (isinstance(kk, ast.Name)
                                and kk.id in self.strconst
                                and isinstance(vv, ast.Tuple)
                                and len(vv.elts) == 2
                                and all(self.is_nat(e) for e in vv.elts)):
                            raise Refuse(f'dictionary literal: {_src(v)}')
                        n0 = len(self.guards)
                        lo = self.natexpr(vv.elts[0], defined)
                        hi = self.natexpr(vv.elts[1], defined)
                        if len(self.guards) != n0:
                            raise Refuse('subtraction in a declared range')
                        rows.append((self.strconst[kk.id], lo, hi))
                    self.dicts[t.id] = rows
                    self.dead.add(t.id)
                    return k()
                if isinstance(v, ast.Call) and _dotted(v.func) == 'dict':
                    self.dead.add(t.id)
                    return k()
                if isinstance(v, ast.Constant) and isinstance(v.value, str):
                    self.strconst[t.id] = v.value
                    self.strvars.add(t.id)
                    self.strexpr[t.id] = v
                    return k()
                if isinstance(v, ast.JoinedStr):
                    self.strvars.add(t.id)
                    self.strexpr[t.id] = v
                    return k()
                if self.is_nat(v):
                    self.guards = []
                    e = self.natexpr(v, defined)
                    guards, self.guards = self.guards, []
                    self.natvars.add(t.id)
                    if self.fi.partial:
                        self.natlets.append((t.id, e))
                    d2 = set(defined) | {t.id}
                    body = f'let {t.id} := {e} in\n' + self.block(
                        rest, d2, tail)
                    if guards:
                        if not self.fi.partial:
                            raise Refuse('subtraction inside a loop body')
                        self.notes.append(
                            f'{_src(s)}: model refuses unless '
                            + ' and '.join(guards))
                        return (f'if {" && ".join(guards)} then\n{body}\n'
                                'else None')
                    return body
        return super().block(stmts, defined, tail)

    # -------------------------------------------------------------- liveness
    def first_access(self, name, stmts):
        """'r' if `name` may be read before it is certainly overwritten in
        `stmts`, 'w' if it is certainly overwritten first, else None."""
        U = lambda x: self.used(x if isinstance(x, list) else [x])
        for s in stmts:
            if isinstance(s, ast.Assign):
                if name in U(s.value):
                    return 'r'
                for t in s.targets:
                    if isinstance(t, ast.Name):
                        if t.id == name:
                            return 'w'
                    elif isinstance(t, ast.Tuple) and all(
                            isinstance(e, ast.Name) for e in t.elts):
                        if name in [e.id for e in t.elts]:
                            return 'w'
                    elif name in U(t):
                        return 'r'
            elif isinstance(s, ast.AugAssign):
                if name in U(s.target) or name in U(s.value):
                    return 'r'
            elif isinstance(s, ast.For):
                if name in U(s.iter):
                    return 'r'
                if name in U(s.target):
                    # rebound by the loop for its body; afterwards it holds
                    # either value: keep scanning (a later read refuses)
                    continue
                if self.first_access(name, s.body) == 'r':
                    return 'r'
                if self.first_access(name, s.orelse) == 'r':
                    return 'r'
            elif isinstance(s, ast.While):
                if name in U(s.test):
                    return 'r'
                if self.first_access(name, s.body) == 'r':
                    return 'r'
                if self.first_access(name, s.orelse) == 'r':
                    return 'r'
            elif isinstance(s, ast.If):
                if name in U(s.test):
                    return 'r'
                a1 = self.first_access(name, s.body)
                a2 = self.first_access(name, s.orelse)
                if 'r' in (a1, a2):
                    return 'r'
                if a1 == 'w' and a2 == 'w':
                    return 'w'
            elif name in U(s):
                return 'r'
        return None

    def reads_first(self, name, stmts):
        return self.first_access(name, stmts) == 'r'

    def for_stmt(self, s, rest, defined, tail):
        if s.orelse:
            raise Refuse('for-else')
        pat, names = self.target_pattern(s.target)
        nat_names = []
        if (isinstance(s.iter, ast.Call)
                and _dotted(s.iter.func) == 'enumerate'
                and isinstance(s.target, ast.Tuple)
                and isinstance(s.target.elts[0], ast.Name)):
            nat_names = [s.target.elts[0].id]
        L = self.iter_expr(s.iter, defined)
        asg = [n for n in self.assigned(s.body) if n not in names
               and n not in self.dead
               and not self.only_string_assigned(n, s.body)]
        carried = []
        for n in asg:
            need = (self.reads_first(n, s.body) or self.reads_first(n, rest)
                    or (tail is not None
                        and re.search(rf'\b{n}\b', tail) is not None))
            if not need:
                continue
            if n not in defined:
                raise Refuse(f'for body defines {n}, used after the loop '
                             'or across iterations')
            carried.append(n)
        for x in names:
            if self.reads_first(x, rest):
                raise Refuse(f'loop variable {x} used after loop')
        cpat = self.tup(carried)
        saved = self.fi.partial
        saved_str = dict(self.strexpr)
        self.fi.partial = False
        added = [x for x in nat_names if x not in self.natvars]
        self.natvars.update(added)
        # strings assigned in the body must be assigned there before use
        for n in self.assigned(s.body):
            self.strexpr.pop(n, None)
        it = s.iter
        while isinstance(it, ast.Call) and _dotted(it.func) == 'enumerate':
            it = it.args[0]
        self.iterating.append(_src(it))
        try:
            b = self.block(s.body, set(defined) | set(names), cpat)
        finally:
            self.iterating.pop()
            self.fi.partial = saved
            self.strexpr = saved_str
            for n in self.assigned(s.body):
                self.strexpr.pop(n, None)
            self.natvars.difference_update(added)
        fold = (f"fold_left (fun {self.pat_arg(carried)} {pat} =>\n"
                + textwrap.indent(b, '  ') + ')\n'
                f"  {L} {cpat}")
        if not rest and tail is not None and tail == cpat:
            # `let 'p := X in p` is X
            return fold
        restc = self.block(rest, defined, tail)
        q = "'" if len(carried) != 1 else ''
        return (f"let {q}{cpat} :=\n"
                f"  fold_left (fun {self.pat_arg(carried)} {pat} =>\n"
                + textwrap.indent(b, '    ') + ')\n'
                f"    {L} {cpat}\nin\n{restc}")

    def target_pattern(self, t):
        """(pattern text, bound names)"""
        if isinstance(t, ast.Name):
            return t.id, [t.id]
        if isinstance(t, ast.Tuple):
            parts, names = [], []
            for e in t.elts:
                p, n = self.target_pattern(e)
                parts.append(p.lstrip("'"))
                names += n
            return "'(" + ', '.join(parts) + ')', names
        raise Refuse(f'for target: {_src(t)}')

    def iter_expr(self, it, defined):
        if isinstance(it, ast.Call) and not it.keywords:
            f = _dotted(it.func)
            if f == 'enumerate' and len(it.args) == 1:
                self._enum = True
                return f'(enumerate 0 {self.iter_expr(it.args[0], defined)})'
            if f == 'zip' and len(it.args) >= 2:
                xs = [self.iter_expr(a, defined) for a in it.args]
                r = xs[0]
                for x in xs[1:]:
                    r = f'(combine {r} {x})'
                return r
        return self.expr(it, defined)

    # ------------------------------------------------------------ expressions
    def expr(self, e, defined):
        if isinstance(e, ast.Name) and e.id in self.dead:
            raise Refuse(f'{e.id} (dictionary) used as a value')
        if self.is_nat(e) and not isinstance(e, ast.Name):
            n0 = len(self.guards)
            r = self.natexpr(e, defined)
            if len(self.guards) != n0:
                raise Refuse(f'subtraction outside an assignment: {_src(e)}')
            return r
        if isinstance(e, ast.Subscript) and not (
                isinstance(e.slice, ast.Constant)
                and isinstance(e.slice.value, str)) and not isinstance(
                    e.slice, ast.Name):
            base = self.expr(e.value, defined)
            sl = e.slice
            if isinstance(sl, ast.Constant) and sl.value == 0:
                return f'(hd bfalse {base})'
            if (isinstance(sl, ast.UnaryOp) and isinstance(sl.op, ast.USub)
                    and isinstance(sl.operand, ast.Constant)
                    and sl.operand.value == 1):
                return f'(last {base} bfalse)'
            if (isinstance(sl, ast.Slice) and sl.upper is None
                    and sl.step is None
                    and isinstance(sl.lower, ast.Constant)
                    and sl.lower.value == 1):
                return f'(tl {base})'
            raise Refuse(f'subscript {_src(e)}')
        if isinstance(e, ast.Call) and _dotted(e.func) == 'aut.add_expr' \
                and len(e.args) == 1 and isinstance(e.args[0], ast.Name) \
                and e.args[0].id in self.strexpr:
            return self.memformula(self.strexpr[e.args[0].id], defined)
        if isinstance(e, ast.Attribute) and _src(e) == 'aut.true':
            return 'btrue'
        return super().expr(e, defined)

    # --------------------------------------------------------- memory formulas
    def memformula(self, node, defined):
        """f-string over memory variables -> `mp (fun v => bool)`."""
        parts = []
        holes = []
        if isinstance(node, ast.Constant):
            parts.append(node.value)
        else:
            for v in node.values:
                if isinstance(v, ast.Constant):
                    parts.append(v.value)
                elif isinstance(v, ast.FormattedValue) and v.conversion == -1 \
                        and v.format_spec is None:
                    x = v.value
                    if isinstance(x, ast.Name) and x.id in self.strconst:
                        name = self.strconst[x.id]
                        if name not in MEMVARS:
                            raise Refuse(f'unknown memory variable {name}')
                        parts.append(f' @{MEMVARS[name]} ')
                    elif self.is_nat(x):
                        n0 = len(self.guards)
                        holes.append(self.natexpr(x, defined))
                        if len(self.guards) != n0:
                            raise Refuse('subtraction inside an f-string')
                        parts.append(f' §{len(holes) - 1} ')
                    else:
                        raise Refuse(f'f-string field {_src(x)}')
                else:
                    raise Refuse('f-string conversion / format spec')
        text = ''.join(parts)
        toks = re.findall(r"@\w+|§\d+|\d+|/\\|\\in|\.\.|[()=#']", text)
        if ''.join(toks) != re.sub(r'\s+', '', text):
            raise Refuse(f'memory formula not understood: {text!r}')
        pos = [0]

        def peek():
            return toks[pos[0]] if pos[0] < len(toks) else None

        def take(t=None):
            x = peek()
            if x is None or (t is not None and x != t):
                raise Refuse(f'memory formula: expected {t}, got {x}: {text!r}')
            pos[0] += 1
            return x

        def term():
            x = take()
            if x.startswith('@'):
                name = x[1:]
                if peek() == "'":
                    take()
                    return f"({name}' mv__)"
                return f'({name} mv__)'
            if x.startswith('§'):
                return holes[int(x[1:])]
            if x.isdigit():
                return x
            raise Refuse(f'memory formula term {x}: {text!r}')

        def atom():
            if peek() == '(':
                take('(')
                r = formula()
                take(')')
                return r
            a = term()
            op = take()
            if op == '=':
                return [f'Nat.eqb {a} {term()}']
            if op == '#':
                return [f'negb (Nat.eqb {a} {term()})']
            if op == '\\in':
                lo = term()
                take('..')
                hi = term()
                return [f'(Nat.leb {lo} {a} && Nat.leb {a} {hi})']
            raise Refuse(f'memory formula operator {op}: {text!r}')

        def formula():
            r = atom()
            while peek() == '/\\':
                take()
                r = r + atom()
            return r
        conj = formula()
        if peek() is not None:
            raise Refuse(f'memory formula: trailing {peek()}: {text!r}')
        return '(mp (fun mv__ => ' + ' && '.join(conj) + '))'


def translate(specs, order, context_specs=()):
    """specs: [(path, [names])] translated with the extension; context_specs:
    functions that may be called (already translated elsewhere)."""
    tr = Tdc()
    for path, names, dialect in context_specs:
        tr.add_source(path, names, dialect)
    for path, names in specs:
        tr.add_source(path, names, 'bdd')
    out = []
    for name in order:
        fi = tr.funcs[name]
        fi.partial = True
        pre = py2coq._Pre()
        fi.node = pre.visit(fi.node)
        ast.fix_missing_locations(fi.node)
        tr.pending_none = pre.none_vars
        tr.unwrapped = set()
        out.append(tr.emit_function(fi))
    return '\n\n'.join(out) + '\n', tr.notes
