(* L7 / Bits: integer <-> bit conversions copied into the generated file:
   codegen.int_to_bits (after the F4 repair; the unrepaired definition is
   kept as [int_to_bits_old] for the regression example),
   bitvector.twos_complement_to_int, bitvector._append_sign_bit,
   bitvector.dom_to_width.  No proofs here. *)
From Coq Require Import List Bool ZArith.
Import ListNotations.
Local Open Scope Z_scope.

(* Python's int.bit_length *)
Definition bit_length (x : Z) : Z :=
  match x with
  | Z0 => 0
  | Zpos p | Zneg p => Zpos (Pos.size p)
  end.

(* the m low binary digits of y, least significant first *)
Fixpoint bits_of (m : nat) (y : Z) : list bool :=
  match m with
  | O => []
  | S k => Z.odd y :: bits_of k (Z.div2 y)
  end.

(*  n = x.bit_length()
    m = max(width, n, 1)
    y = x if x >= 0 else 2**m + x
    bits = bin(y).lstrip('-0b').zfill(m); reversed; bool                   *)
Definition int_to_bits (x : Z) (width : Z) : list bool :=
  let n := bit_length x in
  let m := Z.max (Z.max width n) 1 in
  let y := if 0 <=? x then x else 2 ^ m + x in
  bits_of (Z.to_nat (Z.max m (bit_length y))) y.

(* the definition before the repair: y = 2**n + x *)
Definition int_to_bits_old (x : Z) (width : Z) : list bool :=
  let n := bit_length x in
  let y := if 0 <=? x then x else 2 ^ n + x in
  let m := Z.max (Z.max width n) 1 in
  bits_of (Z.to_nat (Z.max m (bit_length y))) y.

Definition b2z (b : bool) : Z := if b then 1 else 0.

Fixpoint uval (bits : list bool) : Z :=
  match bits with
  | [] => 0
  | b :: r => b2z b + 2 * uval r
  end.

(*  n = len(bits) - 1
    -r[-1] * 2**n + sum(b * 2**i for i, b in enumerate(r[:-1]))            *)
Definition twos_complement_to_int (bits : list bool) : Z :=
  let n := Z.of_nat (length bits) - 1 in
  - b2z (last bits false) * 2 ^ n + uval (removelast bits).

(* type hints *)
Inductive vtype := TBool | TInt (lo hi : Z).
Inductive val := VB (b : bool) | VZ (z : Z).

(* bitvector.dom_to_width *)
Definition signed_of (lo hi : Z) : bool := (lo <? 0) && (0 <=? hi).
Definition width_of (lo hi : Z) : Z :=
  let w := bit_length (Z.max (Z.abs lo) (Z.abs hi)) in
  let w := if w =? 0 then 1 else w in
  if signed_of lo hi then w + 1 else w.

(* bitvector._append_sign_bit *)
Definition append_sign_bit (lo hi : Z) (bits : list bool) : list bool :=
  if signed_of lo hi then bits else bits ++ [negb (0 <=? lo)].

(* value of one variable in codegen.assign_bitvectors (after the F7 repair a
   Boolean is passed through; it is modelled as a one-bit vector) *)
Definition encode (t : vtype) (v : val) : list bool :=
  match t, v with
  | TBool, VB b => [b]
  | TBool, VZ z => [negb (z =? 0)]                 (* bool(value) *)
  | TInt lo hi, VZ z => int_to_bits z (width_of lo hi)
  | TInt lo hi, VB b => int_to_bits (b2z b) (width_of lo hi)
  end.

(* the bits of a variable that the generated code reads *)
Definition nbits (t : vtype) : nat :=
  match t with TBool => 1%nat | TInt lo hi => Z.to_nat (width_of lo hi) end.

(* one variable in bitvector.bitfields_to_ints *)
Definition decode (t : vtype) (bits : list bool) : val :=
  match t with
  | TBool => VB (hd false bits)
  | TInt lo hi => VZ (twos_complement_to_int (append_sign_bit lo hi bits))
  end.

(* values representable in the bits of a variable (wider than lo..hi) *)
Definition representable (t : vtype) (v : val) : Prop :=
  match t, v with
  | TBool, VB _ => True
  | TInt lo hi, VZ z =>
      let w := width_of lo hi in
      if signed_of lo hi then - 2 ^ (w - 1) <= z < 2 ^ (w - 1)
      else if 0 <=? lo then 0 <= z < 2 ^ w
      else - 2 ^ w <= z < 0
  | _, _ => False
  end.

Definition val_eqb (a b : val) : bool :=
  match a, b with
  | VB x, VB y => eqb x y
  | VZ x, VZ y => Z.eqb x y
  | _, _ => false
  end.

Fixpoint bools_eqb (a b : list bool) : bool :=
  match a, b with
  | [], [] => true
  | x :: a', y :: b' => eqb x y && bools_eqb a' b'
  | _, _ => false
  end.
