(* gr1.trivial_winning_set, the model (hand-written; GenProofs/TrivialBridge.v
   proves the function translated from the current gr1.py equal to it).

   The function takes a Streett(1) automaton and builds a second, Rabin(1)
   automaton ON THE SAME BDD in which the two players have exchanged roles:
   the variable lists are swapped, the environment's action is the
   component's and vice versa, the recurrence goals are the complements ~P_k
   of the persistence sets of the Streett(1) game, the only persistence set
   is TRUE, and the mode is the default of temporal.default_rabin_automaton
   (Moore, strict: moore = plus_one = true) whatever the mode of the
   Streett(1) game.  It returns  win_streett & ~ win_rabin.

   BDDs are modelled by meaning over valuations whose coordinates are named
   by ROLE (vx: environment, vy: component), so "the same BDD read by the
   automaton whose variable lists are swapped" is the BDD read through
   [swapV] ([dual]), in the arena (nc, ny, nx). *)
From Coq Require Import List Bool Arith Lia.
Import ListNotations.
From Omega Require Import L4.Arena L4.ArenaFacts L4.Kleene L4.GameSpec L4.Mu L4.GR1Spec
  L4.Duality L4.Plays L4.Determinacy.
From OmegaGen Require Import FixpointGen Gr1Gen.
From OmegaGP Require Import FixpointProofs StreettProofs RabinProofs GameSemantics.

Section TrivialSet.
Variables nc nx ny : nat.
Variables E S : bdd.
Variables holds goals : list bdd.
Variables moore plus_one : bool.
Variable fuel : nat.

(* recurrence goals of the environment's game: ~P_k, read by the swapped
   automaton *)
Definition env_goals : list bdd := map dual (map (bnot nc nx ny) holds).

(* the region from which the environment of the Streett(1) game, playing as
   the (Moore, strict) component of the role-swapped game, wins Rabin(1)
   with recurrence goals ~P_k and persistence set TRUE; a BDD of the swapped
   arena *)
Definition env_rabin_region : bdd :=
  rabin_solved nc ny nx (dual S) (dual E) [btrue] env_goals true true fuel.

(* what trivial_winning_set returns (first component) *)
Definition trivial_set : bdd :=
  band nc nx ny
    (streett_solved nc nx ny E S holds goals moore plus_one fuel)
    (bnot nc nx ny (dual env_rabin_region)).

Lemma trivial_set_at v :
  trivial_set v =
  streett_solved nc nx ny E S holds goals moore plus_one fuel v
  && negb (env_rabin_region (swapV v)).
Proof. unfold trivial_set. rewrite band_spec, bnot_spec. reflexivity. Qed.

Lemma env_goals_length : length env_goals = length holds.
Proof. unfold env_goals. rewrite !map_length. reflexivity. Qed.

(* ---- in mu-calculus terms ---- *)
Hypothesis HfA : NV nc nx ny <= fuel.
Hypothesis HfB : NV nc ny nx <= fuel.

Theorem trivial_set_mu v :
  inr nc nx ny v ->
  trivial_set v =
  streett_spec nc nx ny moore plus_one E S holds goals v
  && negb (rabin_spec nc ny nx true true (dual S) (dual E) [btrue] env_goals (swapV v)).
Proof.
  intros Hv. rewrite trivial_set_at. f_equal.
  - apply (streett_fixpoint nc nx ny E S holds goals moore plus_one fuel HfA). exact Hv.
  - f_equal. unfold env_rabin_region, rabin_solved.
    apply (rabin_fixpoint nc ny nx (dual S) (dual E) [btrue] env_goals true true fuel HfB).
    apply inr_swap. rewrite swapV_invol. exact Hv.
Qed.

(* ---- in game terms ---- *)
Variable c : nat.
Hypothesis Hc : c < nc.
Hypothesis HnR : 0 < length goals.
Hypothesis HnP : 0 < length holds.

(* the environment's objective in the role-swapped game, with the goals as
   the function builds them ... *)
Local Notation WenvRaw := (win_rabin c (dual S) (dual E) [btrue] env_goals true).
(* ... and with the complement-swap map of L4/Duality.v *)
Local Notation Wenv := (win_rabin c (dual S) (dual E) [btrue] (map Phi holds) true).

Lemma env_goals_Phi q :
  recur c env_goals q <-> recur c (map Phi holds) q.
Proof.
  unfold recur, env_goals. rewrite map_map. split; intros H R HR N.
  - apply in_map_iff in HR. destruct HR as [P [<- HP]].
    destruct (H (dual (bnot nc nx ny P)) (in_map _ _ _ HP) N) as [i [Hi Hq]].
    exists i. split; [exact Hi|]. unfold dual in Hq. rewrite bnot_spec in Hq. exact Hq.
  - apply in_map_iff in HR. destruct HR as [P [<- HP]].
    destruct (H (Phi P) (in_map _ _ _ HP) N) as [i [Hi Hq]].
    exists i. split; [exact Hi|]. unfold dual. rewrite bnot_spec. exact Hq.
Qed.

Lemma Wenv_raw q : WenvRaw q <-> Wenv q.
Proof. unfold win_rabin. rewrite env_goals_Phi. reflexivity. Qed.

Lemma comp_wins_ext n1 n2 m (W1 W2 : play -> Prop) s :
  (forall p, W1 p <-> W2 p) -> comp_wins n1 n2 m W1 s <-> comp_wins n1 n2 m W2 s.
Proof.
  intros H. split; intros [f [Vf Wf]]; exists f; (split; [exact Vf|]);
    intros p H1 H2 H3; apply H; apply Wf; assumption.
Qed.

Lemma env_prevents_ext n1 n2 m (W1 W2 : play -> Prop) s :
  (forall p, W1 p <-> W2 p) -> env_prevents n1 n2 m W1 s <-> env_prevents n1 n2 m W2 s.
Proof.
  intros H. split; intros [g [Vg Wg]]; exists g; (split; [exact Vg|]);
    intros p H1 H2 H3 HW; apply (Wg p H1 H2 H3); apply H; exact HW.
Qed.

Lemma env_region_exact s :
  fst s < nx -> snd s < ny ->
  (env_rabin_region (stv c (swap_st s)) = true <-> comp_wins ny nx true Wenv (swap_st s)).
Proof.
  intros H1 H2. unfold env_rabin_region.
  rewrite (rabin_solved_exact nc ny nx (dual S) (dual E) [btrue] env_goals true true c Hc).
  - apply comp_wins_ext. exact Wenv_raw.
  - rewrite env_goals_length. exact HnP.
  - cbn. lia.
  - exact HfB.
  - exact H2.
  - exact H1.
Qed.

(* The trivial set holds at s exactly when the component wins the
   Streett(1) game from s (in the game's own mode) and the environment,
   playing as the Moore/strict component of the role-swapped game, does NOT
   have a strategy that keeps its (= the original environment's) action and,
   if the original component keeps its action forever, makes every
   persistence set P_k false infinitely often. *)
Theorem trivial_set_spec s :
  fst s < nx -> snd s < ny ->
  (trivial_set (stv c s) = true <->
   comp_wins nx ny moore (win_streett c E S holds goals plus_one) s /\
   ~ comp_wins ny nx true Wenv (swap_st s)).
Proof.
  intros H1 H2. rewrite trivial_set_at, andb_true_iff, negb_true_iff.
  rewrite (streett_solved_exact nc nx ny E S holds goals moore plus_one c Hc HnR HnP fuel HfA s H1 H2).
  change (swapV (stv c s)) with (stv c (swap_st s)).
  rewrite <- (env_region_exact s H1 H2).
  destruct (env_rabin_region (stv c (swap_st s))); split; intros [Ha Hb]; split; auto;
    try discriminate. exfalso. apply Hb. reflexivity.
Qed.

(* determinacy dual: "does not win" = "the opponent prevents"; the opponent
   in the role-swapped game is the original component, moving second
   (Mealy) there *)
Theorem trivial_set_spec_dual s :
  fst s < nx -> snd s < ny ->
  (trivial_set (stv c s) = true <->
   comp_wins nx ny moore (win_streett c E S holds goals plus_one) s /\
   env_prevents ny nx true Wenv (swap_st s)).
Proof.
  intros H1 H2. rewrite (trivial_set_spec s H1 H2). split; intros [Ha Hb]; (split; [exact Ha|]).
  - destruct (env_rabin_region (stv c (swap_st s))) eqn:Er.
    + exfalso. apply Hb. apply (env_region_exact s H1 H2). exact Er.
    + apply (env_prevents_ext ny nx true WenvRaw Wenv); [exact Wenv_raw|].
      assert (Hg : 0 < length env_goals) by (rewrite env_goals_length; exact HnP).
      assert (Hh : 0 < length [btrue]) by (cbn; lia).
      exact (rabin_solved_complete nc ny nx (dual S) (dual E) [btrue] env_goals true true c Hc
               Hg Hh fuel HfB (swap_st s) H2 H1 Er).
  - intros Hw. apply (not_both ny nx true Wenv (swap_st s)); [exact H2|exact H1|exact Hw|exact Hb].
Qed.

(* the environment's objective spelled out on a play q of the role-swapped
   game (q i = (y_i, x_i)): the trivial persistence set drops out *)
Lemma Wenv_reading q :
  Wenv q <->
  safe_comp c (dual S) (dual E) true q /\
  ((forall i, Eat c (dual S) q i) ->
   forall P, In P holds -> forall N, exists i, N <= i /\ P (stv c (swap_st (q i))) = false).
Proof.
  unfold win_rabin. split; intros [Hs Hl]; (split; [exact Hs|]); intros He.
  - destruct (Hl He) as [_ Hr]. intros P HP N.
    destruct (Hr (Phi P) (in_map _ _ _ HP) N) as [i [Hi Hq]]. exists i. split; [exact Hi|].
    unfold Phi in Hq. apply negb_true_iff in Hq. exact Hq.
  - split.
    + exists btrue. split; [left; reflexivity|]. exists 0. intros; reflexivity.
    + intros R HR N. apply in_map_iff in HR. destruct HR as [P [<- HP]].
      destruct (Hl He P HP N) as [i [Hi Hq]]. exists i. split; [exact Hi|].
      unfold Phi. apply negb_true_iff. exact Hq.
Qed.

End TrivialSet.
