(* L6Graph / GraphSpec: the short mathematical reading of a labelled
   transition system -- what C20 says the four formulas must mean.
   Definitions only. *)
From Coq Require Import List Bool ZArith Arith.
Import ListNotations.
From Omega Require Import L6Graph.Formula L6Graph.Logicizer.

Section Spec.
Variables EL NL : Type.
Variable esem : EL -> val -> val -> bool.
Variable nsem : NL -> val -> bool.
Local Notation tsys := (tsys EL NL).

(* a 'formula' entry: absent, '' and 'TRUE' hold; 'FALSE' does not *)
Definition fstr_holds {L} (sem : L -> bool) (f : option (fstr L)) : bool :=
  match f with
  | None => true
  | Some SEmpty => true
  | Some STrue => true
  | Some SFalse => false
  | Some (SLab l) => sem l
  end.

Definition asg_holds (s s' : val) (a : asg) : bool :=
  let '(p, k, v) := a in Z.eqb (if p then s' k else s k) v.

(* an edge label holds of (s, s'): its formula holds and every assignment to
   a declared variable (open world: other keys are ignored) holds; [dv]
   says which keys count *)
Definition elabel_holds (dv : asg -> bool) (l : elabel EL) (s s' : val)
    : bool :=
  fstr_holds (fun x => esem x s s') (e_formula l)
  && forallb (fun a => implb (dv a) (asg_holds s s' a)) (e_asg l).

(* a node label holds of s *)
Definition nlabel_holds (nd : var) (g : tsys) (l : nlabel NL) (s : val)
    : bool :=
  fstr_holds (fun x => nsem x s) (n_formula l)
  && forallb (fun kv => implb (in_dvars nd g (false, fst kv, snd kv))
                              (Z.eqb (s (fst kv)) (snd kv))) (n_asg l).

Definition is_node (g : tsys) (u : Z) : bool :=
  existsb (fun n => Z.eqb (fst n) u) (ts_nodes g).

Definition has_succ (g : tsys) (u : Z) : bool :=
  existsb (fun e => Z.eqb (fst (fst e)) u) (ts_edges g).

(* some edge s(nd) -> s'(nd) has its label satisfied by (s, s') *)
Definition edge_step (nd : var) (g : tsys) (s s' : val) : bool :=
  existsb (fun e => Z.eqb (fst (fst e)) (s nd)
                    && (Z.eqb (s' nd) (snd (fst e))
                        && elabel_holds (in_dvars nd g) (snd e) s s'))
          (ts_edges g).

(* the label of the node s(nd) -- of every entry of the node list carrying
   that id -- holds at s *)
Definition node_labels_hold (nd : var) (g : tsys) (s : val) : bool :=
  forallb (fun n => implb (Z.eqb (s nd) (fst n))
                          (nlabel_holds nd g (snd n) s)) (ts_nodes g).

(* meaning of the owner's action for EVERY pair of valuations: at a node
   value of the graph, an edge step (or a stutter when self-loops are
   requested); at other values of the node variable no constraint from the
   edges; in both cases the label of the target node holds next *)
Definition owner_action_sem (nd : var) (self_loops : bool) (g : tsys)
    (s s' : val) : bool :=
  (implb (is_node g (s nd)) (edge_step nd g s s')
   || (self_loops && Z.eqb (s' nd) (s nd)))
  && node_labels_hold nd g s'.

Definition owner_init_sem (nd : var) (ignore_initial : bool) (g : tsys)
    (s : val) : bool :=
  (ignore_initial || existsb (Z.eqb (s nd)) (ts_initial g))
  && node_labels_hold nd g s.

(* the receptiveness assumption as the code builds it: at a node with
   successors, some outgoing edge has its formula and its assignments to
   UNPRIMED environment variables satisfied *)
Definition receptive_sem (nd : var) (g : tsys) (s s' : val) : bool :=
  implb (is_node g (s nd) && has_succ g (s nd))
        (existsb (fun e => Z.eqb (fst (fst e)) (s nd)
                           && elabel_holds (in_denv nd g) (snd e) s s')
                 (ts_edges g)).

(* label of a node, for graphs whose node list has no duplicate ids *)
Definition node_label (g : tsys) (u : Z) : option (nlabel NL) :=
  option_map snd (find (fun n => Z.eqb (fst n) u) (ts_nodes g)).

(* ---- runs ---------------------------------------------------------- *)
Definition node_ids (g : tsys) : list Z := map fst (ts_nodes g).

(* what networkx and TransitionSystem.assert_consistent guarantee: initial
   nodes and the end points of edges are nodes *)
Definition wf_graph (g : tsys) : Prop :=
  (forall u, In u (ts_initial g) -> In u (node_ids g)) /\
  (forall u v l, In (u, v, l) (ts_edges g) ->
                 In u (node_ids g) /\ In v (node_ids g)).

(* s, then the valuations of [rest], consecutive ones related by [act] *)
Fixpoint chain (act : val -> val -> Prop) (s : val) (rest : list val)
    : Prop :=
  match rest with
  | [] => True
  | t :: r => act s t /\ chain act t r
  end.

(* one step of the labelled graph, as the property words it *)
Definition graph_step (nd : var) (sl : bool) (g : tsys) (s s' : val) : Prop :=
  ((exists u v l, In (u, v, l) (ts_edges g) /\ u = s nd /\ v = s' nd
                  /\ elabel_holds (in_dvars nd g) l s s' = true)
   \/ (sl = true /\ s' nd = s nd))
  /\ node_labels_hold nd g s' = true.

Definition graph_init (nd : var) (ign : bool) (g : tsys) (s : val) : Prop :=
  (ign = true \/ In (s nd) (ts_initial g))
  /\ node_labels_hold nd g s = true.

End Spec.

Arguments fstr_holds {L} sem f.
Arguments elabel_holds {EL} esem dv l s s'.
Arguments nlabel_holds {EL NL} nsem nd g l s.
Arguments is_node {EL NL} g u.
Arguments has_succ {EL NL} g u.
Arguments edge_step {EL NL} esem nd g s s'.
Arguments node_labels_hold {EL NL} nsem nd g s.
Arguments owner_action_sem {EL NL} esem nsem nd self_loops g s s'.
Arguments owner_init_sem {EL NL} nsem nd ignore_initial g s.
Arguments receptive_sem {EL NL} esem nd g s s'.
Arguments node_label {EL NL} g u.
Arguments node_ids {EL NL} g.
Arguments wf_graph {EL NL} g.
Arguments graph_step {EL NL} esem nsem nd sl g s s'.
Arguments graph_init {EL NL} nsem nd ign g s.
