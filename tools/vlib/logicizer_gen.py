"""Regenerate coq/gen/LogicizerGen.v from omega/symbolic/logicizer.py and
omega/logic/syntax.py (tie T for C20; translator tools/py2coq_logicizer.py).

Translated on every run: logicizer.graph_to_logic, _graph_to_formulas,
_sys_trans, _env_trans, _env_trans_from_sys_ts, _node_var_trans,
_init_from_ts, _to_action, _assign, _prime_dict, _pstr, _nodevar_dom,
_add_expr and syntax.conj, disj, _associative_op, _recurse_op.  The theorems
of coq/GenProofs/LogicizerBridge.v (generated code = hand-written model) are
about these generated definitions and are re-proved on every run.
"""
import os
import sys

sys.path.insert(0, os.path.join(os.path.dirname(__file__), '..'))
import py2coq  # noqa: E402
import py2coq_logicizer  # noqa: E402
from vlib.core import Broken, REPO  # noqa: E402

SOURCES = [py2coq_logicizer.LZ_SRC, py2coq_logicizer.STX_SRC]
FUNCTIONS = [('logicizer.' if py2coq_logicizer.SIGS[n][0] == 'lz'
              else 'syntax.') + n for n in py2coq_logicizer.ORDER]


def logicizer_text():
    """(text of gen/LogicizerGen.v, translator notes)."""
    return py2coq_logicizer.generate(REPO)


def templates():
    """The recognised string templates, as printed in the generated file."""
    return py2coq_logicizer.template_table_comment()


def ensure_logicizer(ctx):
    try:
        t, notes = logicizer_text()
    except py2coq.Refuse as e:
        raise Broken('translator', f'{", ".join(SOURCES)}: {e}')
    except (SyntaxError, OSError) as e:
        raise Broken('translator', f'{", ".join(SOURCES)}: {e}')
    ctx.write_gen('gen/LogicizerGen.v', t)
    return notes


if __name__ == '__main__':
    print(logicizer_text()[0])
