"""C08 — a formula printed from a BDD is equivalent on the care set and
re-parses."""
import concurrent.futures
import itertools
import json
import os

from vlib import core, cover_inst as ci, cover_coq as cq
from vlib import bits_gen, listexpr_gen
from vlib.core import Broken, Mismatch, Failing

ID = 'C08'
LEVEL = 'proof'
THEORIES = ['theories/L5Cover/BoxesProofs.vo',
            'theories/L5Cover/ListExprProofs.vo',
            'theories/L5Cover/ListExprNorm.vo',
            'theories/L5Cover/ListExprTotal.vo',
            'theories/L0Bits/Bits.vo']

HEADER = cq.HEADER + 'From Omega Require Import L5Cover.ListExpr.\n'
OPTIONS = [dict(show_dom=a, show_limits=b, comment=c)
           for a in (False, True) for b in (False, True)
           for c in (False, True)]
MARKER = 'care expression'


def prove(ctx):
    with ctx.coq_lock():
        # tie T: regenerate gen/BitsGen.v (_bitfield_limits) and
        # gen/ListExprGen.v (the printing functions) from the current
        # sources, then re-prove GenProofs/ListExprBridge.v (generated code =
        # model) and the statements built on it
        bits_gen.ensure_bits(ctx)
        notes, templates = listexpr_gen.ensure_listexpr(ctx)
        ctx.prove_with_deps('Properties/C08.v', timeout=900)
    ctx.extra['translation'] = dict(
        sources=listexpr_gen.SOURCES, functions=listexpr_gen.FUNCTIONS,
        generated='coq/' + listexpr_gen.GEN,
        bridge='coq/GenProofs/ListExprBridge.v',
        string_templates=[f'{t}   :   {tree}' for t, tree in templates],
        notes=notes)
    ctx.trusted.append(
        'translator tie T: tools/py2coq_listexpr.py (_type_hints.'
        '_clip_subrange, _check_type_hint, _format_range, _list_type_hints, '
        '_list_limits; syntax.vertical_op; orthotopes.list_expr; '
        'cover.dumps_cover -> Gallina, proved equal to '
        'theories/L5Cover/ListExpr.v on every run: Leibniz for '
        '_clip_subrange, _list_limits, _list_type_hints, vertical_op; equal '
        'trees up to the association of /\\ and \\/ (ListExprNorm.norm) for '
        'list_expr and dumps_cover, for the boxes in the order natsort lists '
        'the disjuncts). Trusted in it: the fixed template grammar (which '
        'tree an f-string / str.format / join is read as; every template met '
        'is printed in gen/ListExprGen.v), in particular that a junction '
        'list is read as TLA+ reads it (by indentation) and that the marker '
        'line `care expression` is TRUE; the erasure of white space, '
        'comments and logging; latex=False only; None (exception or text '
        'outside the fragment) for every raise / failed assert; the reading '
        'of the BDD `cover` as (sorted variables, products of pick_iter) and '
        'of prm.x_vars, _care_implies_type_hints(f, care, fol), care == '
        'fol.true as extra arguments; natsort as an arbitrary permutation; '
        'everything skipped (the BDD-level postcondition of dumps_cover, '
        'the warnings of _check_type_hint) is listed as a note in the '
        'generated file and in the evidence')
    ctx.trusted.append(
        'tie H remains for: what the real parser (omega.logic.lexyacc.Parser) '
        'returns for the printed text (it ignores indentation; the check '
        'compares denotations), the BDD-level parts (cover.minimize, '
        'setup_aux_vars, fol.pick_iter on the cover, '
        '_care_implies_type_hints, Context.to_expr) and the conversion of '
        'the parser\'s tree to a Gallina literal (vlib/cover_coq.expr_lit)')


# ------------------------------------------------------------------ real side
_parser = None


def parse(s):
    global _parser
    if _parser is None:
        import omega.logic.lexyacc as lex
        _parser = lex.Parser()
    return _parser.parse(s)


def flatten(t, ops):
    if getattr(t, 'type', None) == 'operator' and t.operator in ops \
            and type(t).__name__ == 'Binary':
        return flatten(t.operands[0], ops) + flatten(t.operands[1], ops)
    return [t]


def split_printed(tree, n_lead):
    """(leading range conjuncts, disjunct trees) of a printed formula as the
    real parser reads it: /\\ r1 ... /\\ rn /\\ (\\/ d1 ... \\/ dk) [/\\ TRUE]
    where, the parser not being indentation sensitive, a trailing /\\ TRUE
    belongs to the last disjunct."""
    conj = flatten(tree, cq._AND)
    lead, body = conj[:n_lead], conj[n_lead:]
    if not body:
        raise cq.Unsupported('no disjunction in the printed formula')
    first = body[0]
    if (getattr(first, 'type', None) == 'operator'
            and first.operator in cq._OR):
        if len(body) != 1:
            raise cq.Unsupported('conjuncts after the disjunction')
        return lead, [flatten(d, cq._AND) for d in flatten(first, cq._OR)]
    return lead, [body]


def conj_lit(trees, index):
    ls = [cq.expr_lit(t, index) for t in trees]
    out = ls[-1]
    for e in reversed(ls[:-1]):
        out = f'(EAnd {e} {out})'
    return out


def care_within_hints(inst, limits, doms, idx):
    """care => type hints of the variables f or care depend on (positions
    idx), as cover._care_implies_type_hints decides it."""
    pts = inst['care']
    if pts is None:
        return all(tuple(limits[i]) == tuple(doms[i]) for i in idx)
    return all(all(doms[i][0] <= p[i] <= doms[i][1] for i in idx)
               for p in pts)


def f_within_care(inst):
    if inst['care'] is None:
        return True
    cs = set(map(tuple, inst['care']))
    return all(tuple(p) in cs for p in inst['f'])


def work(job):
    import omega.symbolic.cover as cov
    kind, inst = job
    res = dict(kind=kind, outputs=[])
    try:
        pb = ci.Problem(inst)
    except ci.LimitsDiffer as e:
        res['infra'] = str(e)
        return res
    ctx = pb.ctx
    res.update(limits=pb.limits, names=pb.names, doms=pb.doms,
               support=pb.support_names(),
               f_in_care=f_within_care(inst))
    res['eff_dom'] = care_within_hints(
        inst, pb.limits, pb.doms,
        [pb.names.index(x) for x in res['support']])
    try:
        cover = cov.minimize(pb.f, pb.care, ctx)
        boxes, xs = pb.read_boxes(cover)
        res['cover'] = sorted(boxes)
        res['xs'] = xs
    except Exception as e:
        res['error'] = ci.describe_exception(e)
        return res
    index = {x: i for i, x in enumerate(xs)}
    res['index'] = index
    for opt in OPTIONS:
        o = dict(opt=opt)
        res['outputs'].append(o)
        n_lead = len(xs) * (int(opt['show_limits'])
                            + int(opt['show_dom'] and res['eff_dom']))
        for name, fn in (
                ('to_expr', lambda: ctx.to_expr(pb.f, care=pb.care, **opt)),
                ('dumps_cover', lambda: cov.dumps_cover(
                    cover, pb.f, pb.care, ctx, **opt))):
            try:
                s = fn()
            except Exception as e:
                o[name] = dict(error=ci.describe_exception(e))
                continue
            d = dict(text=s)
            o[name] = d
            has_marker = MARKER in s
            d['marker'] = has_marker
            try:
                tree = parse(s.replace(MARKER, 'TRUE'))
            except Exception as e:
                d['parse_error'] = repr(e)[:300]
                continue
            try:
                d['expr'] = cq.expr_lit(tree, index)
                lead, ds = split_printed(tree, n_lead)
                d['disjuncts'] = [conj_lit(c, index) for c in ds]
                d['lead'] = [cq.expr_lit(t, index) for t in lead]
            except cq.Unsupported as e:
                d['unsupported'] = str(e)
    return res


def run_all(jobs):
    n = min(core.NPROC, max(1, len(jobs)))
    with concurrent.futures.ProcessPoolExecutor(n) as ex:
        return list(ex.map(work, jobs, chunksize=max(1, len(jobs) // (n * 8))))


def clip_cases():
    """Exhaustive small-range tie of _type_hints._clip_subrange."""
    import omega.symbolic._type_hints as tyh
    out = []
    R = range(-3, 4)
    for a, b, u, v in itertools.product(R, R, R, R):
        try:
            r = tyh._clip_subrange((a, b), (u, v), 'x')
            if r == (None, None):
                lit = '(Some None)'
            else:
                lit = f'(Some (Some ({cq.z(r[0])},{cq.z(r[1])})))'
        except AssertionError:
            lit = 'None'
        out.append(f'(({cq.z(a)},{cq.z(b)}),({cq.z(u)},{cq.z(v)}),{lit})')
    return out


# ------------------------------------------------------------------ instances
def gen_instances(ctx):
    rng = ctx.rng
    out = []
    cdir = os.path.join(core.VERIF, 'corpus', ID)
    if os.path.isdir(cdir):
        for fn in sorted(os.listdir(cdir)):
            if fn.endswith('.json'):
                d = json.load(open(os.path.join(cdir, fn)))
                out.append((d.get('kind', 'corpus'), d['instance']))
    n = 2500 if ctx.thorough else 150
    for i in range(n):
        bk = 'cudd' if i % 2 else 'autoref'
        nv = [1, 2, 3, 4][i % 4] if i % 3 else None
        out.append(('random', ci.random_instance(
            rng, 64 if ctx.thorough else 40, nvars=nv, backend=bk)))
    # Boolean-like functions of three 0..1 variables with care sets
    for _ in range(300 if ctx.thorough else 30):
        cm = rng.randrange(1, 256)
        fm = rng.randrange(1, 256) & cm
        if fm == 0:
            continue
        out.append(('bool3', ci.boolean_instance(
            3, fm, None if rng.random() < 0.3 and fm != 255 else cm)))
    return out


def coq_group(i, inst, res):
    names = res['names']
    idx = [names.index(x) for x in res['xs']]
    p = f'i{i}_'
    defs = cq.instance_defs(p, inst, res['limits'], idx)
    doms = [res['doms'][j] for j in idx]
    proj = lambda bs: [[b[j] for j in idx] for b in bs]
    defs += (f'\nDefinition {p}doms : list ival := {cq.box(doms)}.'
             f'\nDefinition {p}K : list box := {cq.boxes(proj(res["cover"]))}.')
    care_true = 'true' if inst['care'] is None else 'false'
    terms, keys = [], []
    seen = {}
    for k, o in enumerate(res['outputs']):
        opt = o['opt']
        for name in ('to_expr', 'dumps_cover'):
            d = o.get(name)
            if not d or 'expr' not in d:
                continue
            sig = (d['expr'], tuple(d['disjuncts']),
                   bool(opt['show_dom'] and res['eff_dom']))
            if sig not in seen:
                seen[sig] = True
                defs += (f'\nDefinition {p}e{k}{name[0]} : expr := {d["expr"]}.'
                         f'\nDefinition {p}d{k}{name[0]} : list expr := '
                         f'{cq.exprs(d["disjuncts"])}.')
                d['def'] = f'{k}{name[0]}'
                clipped = ('true' if opt['show_dom'] and res['eff_dom']
                           else 'false')
                terms.append(f'printed_ok {p}rs {p}f {p}care {clipped} '
                             f'{p}e{k}{name[0]} {p}d{k}{name[0]}')
                keys.append((k, name, 'printed_ok'))
            else:
                d['def'] = None
        d = o.get('dumps_cover')
        if d and 'expr' in d:
            b = lambda x: 'true' if x else 'false'
            # find the definition holding this expr
            e = d['expr']
            terms.append(
                f'match dumps_cover {p}rs {p}doms {p}care {care_true} '
                f'{b(opt["show_dom"])} {b(opt["show_limits"])} {p}K with '
                f'Some m => equiv_on_grid {p}rs m ({e}) | None => false end')
            keys.append((k, 'dumps_cover', 'model'))
            use_dom = b(opt['show_dom'] and res['eff_dom'])
            terms.append(
                f'match list_expr {use_dom} {p}doms {p}K with '
                f'Some ms => same_disjuncts {p}rs ms '
                f'{cq.exprs(d["disjuncts"])} | None => false end')
            keys.append((k, 'dumps_cover', 'model_disjuncts'))
    terms.append(f'Bool.eqb (care_implies_hints {p}rs {p}doms {p}care) '
                 + ('true' if res['eff_dom'] else 'false'))
    keys.append((None, None, 'care_implies_hints'))
    return (defs, terms), keys


def rejected(res, o, name):
    """The library's documented rejection: f has points outside care (it
    warns `f should imply care set`) and clipping to the type hints meets a
    box disjoint from them (`assert not disjoint ranges`)."""
    d = o.get(name) or {}
    err = d.get('error')
    return bool(err and err['type'] == 'AssertionError'
                and err['frames'][-1][0] == '_clip_subrange'
                and not res['f_in_care']
                and o['opt']['show_dom'] and res['eff_dom'])


def correspond(ctx):
    jobs = gen_instances(ctx)
    ctx.log(f'{len(jobs)} instances x 8 option sets; running the implementation')
    results = run_all(jobs)
    ctx.log('implementation done; evaluating in Coq')
    mism, groups, allkeys = [], [], []
    stats = dict(rejected=0, outputs=0, with_marker=0, clipped=0,
                 f_outside_care=0, protruding=0)
    nontrivial = 0
    for i, ((kind, inst), res) in enumerate(zip(jobs, results)):
        if 'infra' in res:
            raise Broken('infra', res['infra'])
        if 'error' in res:
            mism.append(Mismatch(
                'cover.minimize raised ' + res['error']['type'], inst,
                impl=res['error'], property_fails=True))
            continue
        if sorted(res['xs']) != sorted(res['support']):
            mism.append(Mismatch(
                'lattice variables differ from the joint support of f, care',
                inst, impl=res['xs'], model=res['support']))
            continue
        if not res['f_in_care']:
            stats['f_outside_care'] += 1
        hint_box = res['doms']
        if any(not all(d[0] <= v <= d[1] for v, d in zip(p, hint_box))
               for p in inst['f']):
            stats['protruding'] += 1
        bad = False
        for o in res['outputs']:
            for name in ('to_expr', 'dumps_cover'):
                d = o.get(name) or {}
                case = dict(inst, options=o['opt'], function=name)
                if 'error' in d:
                    if rejected(res, o, name):
                        stats['rejected'] += 1
                        continue
                    mism.append(Mismatch(
                        f'{name} raised {d["error"]["type"]} in '
                        f'{d["error"]["frames"][-1][0]}', case,
                        impl=d['error'], property_fails=True))
                    bad = True
                elif 'parse_error' in d:
                    mism.append(Mismatch(
                        f'the output of {name} is not accepted by the parser',
                        case, impl=dict(text=d['text'], error=d['parse_error']),
                        property_fails=True))
                    bad = True
                elif 'unsupported' in d:
                    mism.append(Mismatch(
                        f'the output of {name} left the modelled fragment: '
                        + d['unsupported'], case, impl=d['text']))
                    bad = True
                else:
                    stats['outputs'] += 1
                    stats['with_marker'] += int(bool(d.get('marker')))
        if bad:
            continue
        if len(res['cover']) > 1:
            nontrivial += 1
        if res['eff_dom']:
            stats['clipped'] += 1
        g, keys = coq_group(i, inst, res)
        groups.append(g)
        allkeys += [(i, k) for k in keys]
    # _clip_subrange, exhaustively on -3..3
    cc = clip_cases()
    groups.append((
        'Definition clip_table := [' + ';\n'.join(cc) + '].',
        ['allb (fun t => match t with (ab, dom, r) => '
         'clip_eqb (clip_subrange ab dom) r end) clip_table']))
    allkeys.append((None, (None, None, 'clip_subrange')))
    vals = ctx.eval_groups('corr', HEADER, groups,
                           shard=900 if ctx.thorough else 200, timeout=2400)
    for (i, k), ok in zip(allkeys, vals):
        if ok:
            continue
        if i is None:
            mism.append(Mismatch(
                '_type_hints._clip_subrange differs from the model on some '
                '(a, b), (u, v) in -3..3', None))
            continue
        kind, inst = jobs[i]
        res = results[i]
        kk, name, what = k
        if what == 'care_implies_hints':
            mism.append(Mismatch('care => type hints: model and harness '
                                 'disagree', inst))
            continue
        o = res['outputs'][kk]
        case = dict(inst, options=o['opt'], function=name)
        if what == 'printed_ok':
            mism.append(Mismatch(
                f'the formula printed by {name} fails C08 (verified checker '
                'printed_ok: agreement with f on care / disjuncts are '
                'non-empty boxes inside f or outside care / disjuncts '
                'contain f)', case, impl=o[name]['text'],
                property_fails=True))
        else:
            mism.append(Mismatch(
                f'the formula printed by dumps_cover differs from the model '
                f'({what})', case, impl=o[name]['text'], model=res['cover']))
    ctx.cov['evaluations'] += len(vals)
    ctx.cov['distinct_nontrivial'] += nontrivial
    ctx.cov['rule'] = (
        'random predicates/care sets over 1-4 integer variables in the three '
        'hint shapes (non-negative, sign-crossing, all-negative), f and care '
        'random subsets of the BIT-RANGE grid (f may protrude from the hints '
        'and, in a quarter of the cases, from care), plus functions of three '
        '0..1 variables; for each, all 8 combinations of show_dom/'
        'show_limits/comment through Context.to_expr and cover.dumps_cover; '
        'the text (marker line read as TRUE) is parsed with the REAL parser '
        'and its tree evaluated point-wise inside Coq over the whole '
        'bit-range grid by the verified checker printed_ok; the tree is also '
        'compared (same denotation; same set of disjunct denotations) with '
        'the model dumps_cover/list_expr applied to the real cover; '
        '_clip_subrange compared exhaustively on -3..3. rejected = f has '
        'points outside care and clipping meets a box disjoint from the '
        'hints (library assertion). non-trivial = more than one disjunct')
    ok_i = [i for i, r in enumerate(results) if r.get('outputs')]
    ctx.cov['samples'] = [
        dict(instance=jobs[i][1], options=results[i]['outputs'][5]['opt'],
             text=(results[i]['outputs'][5].get('to_expr') or {}).get('text'))
        for i in ok_i[:3]]
    ctx.extra['correspondence'] = dict(
        instances=len(jobs), option_sets=8, comparisons=len(vals),
        mismatches=len(mism), backends=['autoref', 'cudd'], **stats)
    # exercise the search oracle
    orc = 0
    for (kind, inst), res in list(zip(jobs, results))[:: max(1, len(jobs) // 10)]:
        for o in res.get('outputs', [])[:8:3]:
            d = o.get('to_expr') or {}
            if 'text' in d:
                why = oracle_text(inst, res, d['text'])
                orc += 1
                if why:
                    mism.append(Mismatch(
                        'point-wise oracle: ' + why,
                        dict(inst, options=o['opt'], function='to_expr'),
                        impl=d['text'], property_fails=True))
    ctx.extra['oracle_crosschecked_outputs'] = orc
    return mism


# ---------------------------------------------------------------- search
def ev(t, env):
    """Independent integer evaluation of a parsed formula."""
    ty = getattr(t, 'type', None)
    if ty == 'bool':
        return str(t.value).upper() == 'TRUE'
    if ty == 'var':
        return env[t.value]
    if ty == 'num':
        return int(t.value)
    op, xs = t.operator, t.operands
    if op in cq._NOT:
        return not ev(xs[0], env)
    if op in cq._AND:
        return ev(xs[0], env) and ev(xs[1], env)
    if op in cq._OR:
        return ev(xs[0], env) or ev(xs[1], env)
    if op in cq._IMP:
        return (not ev(xs[0], env)) or ev(xs[1], env)
    if op in cq._IFF:
        return ev(xs[0], env) == ev(xs[1], env)
    if op == '\\in':
        lo, hi = xs[1].operands
        return ev(lo, env) <= ev(xs[0], env) <= ev(hi, env)
    a, b = ev(xs[0], env), ev(xs[1], env)
    return {'=': a == b, '#': a != b, '!=': a != b, '/=': a != b,
            '<': a < b, '<=': a <= b, '=<': a <= b, '>': a > b,
            '>=': a >= b}[op]


def oracle_text(inst, res, text):
    """None if `text` satisfies C08 for the instance, else what fails."""
    try:
        tree = parse(text.replace(MARKER, 'TRUE'))
    except Exception as e:
        return 'not accepted by the parser: ' + repr(e)[:200]
    names = res['names']
    limits = res['limits']
    fs = set(map(tuple, inst['f']))
    cs = None if inst['care'] is None else set(map(tuple, inst['care']))
    for p in itertools.product(*[range(a, b + 1) for a, b in limits]):
        if cs is not None and p not in cs:
            continue
        if ev(tree, dict(zip(names, p))) != (p in fs):
            return (f'at {dict(zip(names, p))} (in care) the formula is '
                    f'{p not in fs} but the predicate is {p in fs}')
    return None


def failing_of(case):
    inst = {k: case[k] for k in ('decl', 'f', 'care', 'backend')}
    res = work(('replay', inst))
    rc = './check C08 --replay <this file>'
    if 'error' in res:
        return Failing('cover.minimize raised ' + res['error']['type'], case,
                       got=res['error'], replay_cmd=rc)
    for o in res.get('outputs', []):
        if 'options' in case and o['opt'] != case['options']:
            continue
        for name in ('to_expr', 'dumps_cover'):
            d = o.get(name) or {}
            c = dict(inst, options=o['opt'], function=name)
            if 'error' in d:
                if rejected(res, o, name):
                    continue
                return Failing(f'{name} raised {d["error"]["type"]} in '
                               f'{d["error"]["frames"][-1][0]}', c,
                               expected='a formula', got=d['error'],
                               replay_cmd=rc)
            if 'text' in d:
                why = oracle_text(inst, res, d['text'])
                if why:
                    return Failing(f'{name}: ' + why, c,
                                   expected='agreement with the predicate on '
                                   'the care set', got=d['text'],
                                   replay_cmd=rc)
    return None


def search(ctx, broken, mismatches):
    for m in mismatches:
        if m.case is None:
            continue
        f = failing_of(m.case)
        if f:
            return [f]
    budget = 600 if ctx.thorough else 150
    jobs = [('s', ci.random_instance(ctx.rng, 40)) for _ in range(budget)]
    results = run_all(jobs)
    for (k, inst), res in zip(jobs, results):
        f = None
        if 'error' in res:
            f = failing_of(inst)
        else:
            for o in res.get('outputs', []):
                for name in ('to_expr', 'dumps_cover'):
                    d = o.get(name) or {}
                    if ('error' in d and not rejected(res, o, name)) or (
                            'text' in d and oracle_text(inst, res, d['text'])):
                        f = failing_of(dict(inst, options=o['opt']))
                        break
                if f:
                    break
        if f:
            return [f]
    return []


def replay(path):
    d = json.load(open(path))
    case = d.get('input') or d.get('case')
    if case is None:
        print('no input in replay file (broken obligation):',
              json.dumps(d.get('broken'))[:500])
        return 1
    f = failing_of(case)
    if f:
        print('still fails:', f.what)
        return 1
    print('passes')
    return 0
