(* L4 / Duality2: the converse duality.  The complement of the Rabin(1)
   region, read in the opponent's coordinates, is the opponent's Streett(1)
   region for the complemented liveness condition (persistence := complemented
   recurrence, recurrence := complemented persistence), roles swapped,
   Moore <-> Mealy, strict <-> non-strict. *)
From Coq Require Import List Bool Arith Lia.
Import ListNotations.
From Omega Require Import L4.Arena L4.ArenaFacts L4.Kleene L4.AlgOrder L4.GameSpec L4.Mu
  L4.GR1Spec L4.Duality.

Section Duality2.
Variables nc nx ny : nat.
Variables moore plus_one : bool.
Variables E S : bdd.
Variables holds goals : list bdd.

Local Notation eqvB := (eqv nc ny nx).
Local Notation cpreA := (GR1Spec.cpre nx ny moore plus_one E S).
Local Notation cpreB := (GR1Spec.cpre ny nx (negb moore) (negb plus_one) (dual S) (dual E)).
Local Notation rX := (rX nc nx ny moore plus_one E S).
Local Notation rXop := (rX_op nc nx ny moore plus_one E S).
Local Notation rY := (rY nc nx ny moore plus_one E S goals).
Local Notation rYop := (rY_op nc nx ny moore plus_one E S goals).
Local Notation rZop := (rZ_op nc nx ny moore plus_one E S holds goals).
Local Notation holdsB := (map Phi goals).
Local Notation goalsB := (map Phi holds).
Local Notation sX := (sX nc ny nx (negb moore) (negb plus_one) (dual S) (dual E)).
Local Notation sXop := (sX_op nc ny nx (negb moore) (negb plus_one) (dual S) (dual E)).
Local Notation sY := (sY nc ny nx (negb moore) (negb plus_one) (dual S) (dual E) holdsB).
Local Notation sYop := (sY_op nc ny nx (negb moore) (negb plus_one) (dual S) (dual E) holdsB).
Local Notation sZop := (sZ_op nc ny nx (negb moore) (negb plus_one) (dual S) (dual E) holdsB goalsB).

Lemma dualR_X R i : eqvB (Phi (rX R i)) (sX (Phi R) (Phi i)).
Proof.
  apply (is_gfp_unique nc ny nx (sXop (Phi R) (Phi i))); [|apply sX_is_gfp].
  apply (Phi_lfp_gfp nc nx ny (rXop R i)); [apply rX_op_mono|apply sX_op_mono| |apply rX_is_lfp].
  intros q v Hv. unfold GR1Spec.rX_op, GR1Spec.sX_op.
  rewrite Phi_band, !bor_spec, Phi_bor, !band_spec, cpre_Phi.
  rewrite (andb_comm (Phi R v)). reflexivity.
Qed.

Lemma sX_eqvB P u u' : eqvB u u' -> eqvB (sX P u) (sX P u').
Proof.
  intros H. apply le_antisym; apply sX_mono_u; [apply eqv_le|apply eqv_le']; exact H.
Qed.

Lemma dualR_Y g : eqvB (Phi (rY g)) (sY (Phi g)).
Proof.
  apply (is_lfp_unique nc ny nx (sYop (Phi g))); [|apply sY_is_lfp].
  apply (Phi_gfp_lfp nc nx ny (rYop g)); [apply rY_op_mono|apply sY_op_mono| |apply rY_is_gfp].
  intros q. unfold GR1Spec.rY_op, GR1Spec.sY_op.
  apply eqv_trans with
    (big_or (map (fun R => Phi (rX R (band nc nx ny (cpreA q) g))) goals)).
  - rewrite map_map. apply big_or_map_eqvB. intros R.
    apply eqv_trans with (sX (Phi R) (Phi (band nc nx ny (cpreA q) g))).
    + apply sX_eqvB. intros v _. rewrite Phi_band, !bor_spec, cpre_Phi. reflexivity.
    + apply eqv_sym, dualR_X.
  - intros v _. rewrite Phi_big_and, map_map. reflexivity.
Qed.

Lemma sY_eqvB g g' : eqvB g g' -> eqvB (sY g) (sY g').
Proof.
  intros H. apply le_antisym; apply sY_mono; [apply eqv_le|apply eqv_le']; exact H.
Qed.

Lemma dualR_Z_op q : eqvB (sZop (Phi q)) (Phi (rZop q)).
Proof.
  unfold GR1Spec.rZ_op, GR1Spec.sZ_op.
  apply eqv_trans with
    (big_and (map (fun P => Phi (rY (bor nc nx ny (cpreA q) P))) holds)).
  - rewrite map_map. apply big_and_map_eqvB. intros P.
    apply eqv_trans with (sY (Phi (bor nc nx ny (cpreA q) P))).
    + apply sY_eqvB. intros v _. rewrite Phi_bor, !band_spec, cpre_Phi. apply andb_comm.
    + apply eqv_sym, dualR_Y.
  - intros v _. rewrite Phi_big_or, map_map. reflexivity.
Qed.

Theorem rabin_streett_dual :
  eqvB (Phi (rabin_spec nc nx ny moore plus_one E S holds goals))
       (streett_spec nc ny nx (negb moore) (negb plus_one) (dual S) (dual E) holdsB goalsB).
Proof.
  apply (is_gfp_unique nc ny nx sZop); [|apply streett_spec_is_gfp].
  apply (Phi_lfp_gfp nc nx ny rZop); [apply rZ_op_mono|apply sZ_op_mono|apply dualR_Z_op|].
  apply rabin_spec_is_lfp.
Qed.

Corollary rabin_streett_partition v :
  inr nc nx ny v ->
  rabin_spec nc nx ny moore plus_one E S holds goals v =
  negb (streett_spec nc ny nx (negb moore) (negb plus_one) (dual S) (dual E) holdsB goalsB
          (swapV v)).
Proof.
  intros Hv. pose proof (rabin_streett_dual (swapV v)) as H.
  rewrite <- H.
  - unfold Phi. rewrite swapV_invol, negb_involutive. reflexivity.
  - apply inr_swap. rewrite swapV_invol. exact Hv.
Qed.

End Duality2.
