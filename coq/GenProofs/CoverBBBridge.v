(* The branch-and-bound skeleton TRANSLATED from omega/symbolic/cover.py
   (_traverse, _branch, minimize) and cover_enum.py (_traverse_exhaustive,
   _branch_exhaustive) (gen/CoverBBGen.v, tie T, regenerated on every run by
   tools/vlib/cover_bbgen.py) is the hand-written model: L5Cover/MinCover.v
   (traverse with _branch inlined, minimize) that the C09 theorems talk
   about, and the branch-and-bound part [trav] of L5Cover/CoverEnum.ccfr that
   the C10 theorems talk about.  Leibniz equalities, by unfolding and case analysis
   on the scrutinees (plus n + 1 = S n): a change of the skeleton in cover.py
   that alters the translated term (a comparison operator, the order of the
   tests, the value returned or threaded as upper bound, the arguments of
   the recursive calls) breaks these lemmas on every run, independently of
   the sampled inputs. *)
From Coq Require Import List ZArith Bool Arith Lia.
Import ListNotations.
From Omega Require Import L5Cover.Boxes L5Cover.MinCover L5Cover.CoverEnum
  L5Cover.CoverEnumExact L5Cover.CoverEnumTotal.
From OmegaGen Require Import CoverBBGen.

Lemma cost_lt_cost (a b : option (list box)) : cost_lt (cost a) (cost b) = lt_cost a b.
Proof. destruct a, b; reflexivity. Qed.

Section Bridge.
Variable rs : ranges.
Variable pick : list box -> option box.

(* cover._traverse with cover._branch *)
Theorem traverse_gen_is_model : forall fuel X Y pc ub,
  traverse_gen rs pick fuel X Y pc ub = traverse rs pick fuel X Y pc ub.
Proof.
  induction fuel as [|n IH]; intros X Y pc ub; [reflexivity|].
  cbn [traverse_gen traverse].
  destruct (cyclic_core rs X Y) as [[[Xc Yc] E]|]; [|reflexivity]. cbv zeta.
  destruct Xc as [|x0 Xc']; cbn [is_nil].
  - destruct (ub <=? _)%nat; reflexivity.
  - destruct (ub <=? _)%nat; [reflexivity|].
    unfold branch_gen. destruct (pick Yc) as [d|]; [|reflexivity]. cbv zeta.
    rewrite Nat.add_1_r, IH.
    destruct (traverse rs pick n _ _ _ ub) as [[[e0 llb] ub1]|]; [|reflexivity].
    destruct (ub1 <=? _)%nat; [reflexivity|].
    rewrite IH.
    destruct (traverse rs pick n _ _ _ ub1) as [[[e1 l1] ub2]|]; [|reflexivity].
    rewrite cost_lt_cost.
    destruct (lt_cost e0 e1); [destruct e0 | destruct e1]; reflexivity.
Qed.

(* cover.minimize *)
Theorem minimize_gen_is_model : forall f care,
  option_map fst (minimize_gen rs pick f care) = minimize rs pick f care.
Proof.
  intros f care. unfold minimize_gen, minimize, minimize_xy. cbv zeta.
  destruct (some_cover pick _ (embed rs f) (primes rs f care)) as [c0|] eqn:Ec; [|reflexivity].
  rewrite traverse_gen_is_model.
  destruct (traverse rs pick _ _ _ 0 (length c0)) as [[[[C|] lb] ub']|]; [| |reflexivity].
  - destruct (unfloors pick C _); reflexivity.
  - destruct (unfloors pick c0 _); reflexivity.
Qed.

(* cover_enum._traverse_exhaustive with _branch_exhaustive: the branch and
   bound inside _cyclic_core_fixpoint_recursive *)
Theorem traverse_exh_gen_is_model : forall rec x y npc ub,
  traverse_exh_gen pick rec x y npc ub = trav pick rec x y npc ub.
Proof.
  intros rec x y npc ub. unfold traverse_exh_gen, trav. cbv zeta.
  destruct x as [|x0 x']; cbn [is_nil].
  - destruct y as [|y0 y']; cbn [is_nil check]; reflexivity.
  - destruct (ub <? _)%nat; [reflexivity|].
    unfold branch_exh_gen. destruct (pick y) as [d|]; [|reflexivity]. cbv zeta.
    rewrite Nat.add_1_r.
    destruct (negb (Nat.eqb _ _)); cbn [check]; [|reflexivity].
    destruct (rec _ _ (S npc) ub) as [[Fl ul]|e]; cbn [bind fst snd]; [|reflexivity].
    destruct (rec _ _ npc ul) as [[Fr ur]|e]; cbn [bind fst snd]; [|reflexivity].
    destruct (map (fun c_ => union c_ [d]) Fl) as [|l0 Ls]; cbn [is_nil]; [reflexivity|].
    destruct Fr as [|r0 Rs]; cbn [is_nil]; [reflexivity|].
    destruct (length l0 <? length r0)%nat eqn:E1; [reflexivity|].
    destruct (length r0 <? length l0)%nat eqn:E2; [reflexivity|].
    apply Nat.ltb_ge in E1. apply Nat.ltb_ge in E2.
    assert (E3 : Nat.eqb (length l0) (length r0) = true) by (apply Nat.eqb_eq; lia).
    rewrite E3. reflexivity.
Qed.

(* ... which is where CoverEnum.ccfr uses it *)
Theorem ccfr_uses_translated_skeleton : forall n X Y pc ub,
  ccfr rs pick (S n) X Y pc ub =
  check (cover_refines X Y)
    (let xt := max_ceilings rs X Y in
     let yt := max_floors rs xt Y in
     let yfl := dedup (map (floor rs xt) Y) in
     let e := inter xt yt in
     let x := diff xt e in
     let y := diff yt e in
     let npc := (pc + length e)%nat in
     bind (if (if (if same_setb x X then same_setb y Y else false) then true else is_nil x)
           then traverse_exh_gen pick (ccfr rs pick n) x y npc ub
           else ccfr rs pick n x y npc ub)
          (wrap X Y xt yt yfl e y)).
Proof.
  intros. rewrite ccfr_unfold. cbv zeta. rewrite traverse_exh_gen_is_model. reflexivity.
Qed.
End Bridge.

Print Assumptions traverse_exh_gen_is_model.
Print Assumptions ccfr_uses_translated_skeleton.
Print Assumptions traverse_gen_is_model.
Print Assumptions minimize_gen_is_model.
