"""Fail-closed translator for the pure integer / list / dict functions behind
`Context.pick_iter` (tie T for C07):

    omega/symbolic/enumeration.py : _enumerate_int, _take_product_iter,
                                    _bitfields_to_int_iter
    omega/logic/bitvector.py      : _append_sign_bit

Like py2coq.py it reads the CURRENT source text with `ast` (never imports
omega), compiles statements in continuation style and raises `Refuse` on
anything outside the subset below.  Output: coq/gen/EnumGen.v, proved equal to
the hand-written model in coq/GenProofs/EnumBridge.v on every run.

Values and their Gallina types (a kind error is a refusal)

  int              Python int                         Z
  bool             Python bool                        bool
  obit             a bit value or None: True/False as given by dd, the sign
                   digits '0'/'1' appended by _append_sign_bit, or None.  The
                   only operations accepted on it are `is None` and `int()`,
                   under which True, '1' and 1 are indistinguishable
                                                      option bool
  bit1             int(b) of a bit known not to be None: 0 or 1
                                                      bool (Z.b2z in arithmetic)
  ident            name of a declared variable (key of the table)   string
  bname            name of a bit (key of a bit assignment)   the Section type
                   `bitname`; a variable name used as the bit of a Boolean
                   variable is `bool_bit x` (Python: the same string)
  str              string constant compared with d['type']   string
  entry            a table entry d (dict with string keys): the record
                   `entry` with fields type/bitnames/signed/dom/width
  val              value stored in a yielded assignment: VB bool | VZ int
  list k           Python list                        list
  set k            Python set, used only through membership / emptiness
                                                      list (order, repetition
                                                      immaterial)
  dict k v         Python dict, insertion ordered     list (k * v) with
                   dict_get / dict_set / dict_remove / py_popitem
  gen k            a generator object (lazy): the computation of the callee,
                   run where it is consumed; the translator checks that no
                   argument changed in between and that it is consumed once

Effects.  Every function body is a term of `M S T = option (S * list T)`:
None is ANY exception (failed `assert`, `raise`, IndexError, KeyError, a
negative exponent leaving the integers, out of fuel); otherwise the final
state/result S and the list of yielded values in order.  A generator that
raises after some yields is None as a whole (every consumer here runs it to
the end).  `if` is translated by duplicating the rest of the block into both
branches, so kinds may differ between branches (`b = int(b)`); names assigned
in a loop body and live before it are the loop's state.

Recursion becomes a Fixpoint on an extra first argument `fuel : nat` (None when
it runs out); every function that calls a recursive one passes its own fuel
on.  The bridge proves the results for EVERY sufficient fuel.

Mutation/aliasing discipline (value semantics is exact only without
aliasing): a list/dict may be changed in place only if it is *fresh* (bound by
dict(...)/list(...)/dict() in this function and not yielded, returned, stored
or passed on since) or a parameter; a function that changes a parameter in
place either returns None and is translated as returning the final value
(`_append_sign_bit`), or is a generator, and then the caller's argument is
dead after the call (`_take_product_iter` pops from `sets`).

Nothing is dropped silently: every skipped statement/expression is a note.
"""
import ast
import textwrap

from py2coq import Refuse, _src, _dotted

ENUM_SRC = 'omega/symbolic/enumeration.py'
BV_SRC = 'omega/logic/bitvector.py'

L = lambda k: ('list', k)
D = lambda k, v: ('dict', k, v)
FASGN = D('ident', 'val')

# parameter kinds BY POSITION (names are taken from the source), result kind
SIGNATURES = {
    '_enumerate_int': dict(params=[L('obit'), 'int'], yields='int'),
    '_take_product_iter': dict(params=[D('ident', L('int')), FASGN],
                               yields=FASGN),
    '_bitfields_to_int_iter': dict(params=[D('bname', 'bool'),
                                           D('ident', 'entry')],
                                   returns=('gen', FASGN)),
    '_append_sign_bit': dict(params=[L('obit'), 'ident', 'entry'],
                             returns='none'),
}
COQ_NAME = {'_enumerate_int': 'enumerate_int',
            '_take_product_iter': 'take_product_iter',
            '_bitfields_to_int_iter': 'bitfields_to_int_iter',
            '_append_sign_bit': 'append_sign_bit'}
MODULE_OF = {'_enumerate_int': 'enum', '_take_product_iter': 'enum',
             '_bitfields_to_int_iter': 'enum', '_append_sign_bit': 'bv'}
ENTRY_FIELDS = {'type': ('e_type', 'str'),
                'bitnames': ('e_bitnames', L('bname')),
                'signed': ('e_signed', 'bool'),
                'dom': ('e_dom', ('tuple', 'int', 'int')),
                'width': ('e_width', 'int')}
MUTABLE = ('list', 'dict', 'set')
SKIP_CALLS = ('logger.debug', 'logger.info', 'logging.debug', 'logging.info')


def _comment(s):
    return (s.replace('"', "'").replace('(*', '( *').replace('*)', '* )')
            .replace('\n', ' '))


def is_mut(k):
    return isinstance(k, tuple) and k[0] in MUTABLE


def coq_type(k):
    if k is None:
        return '_'
    if isinstance(k, tuple):
        if k[0] in ('list', 'set'):
            return f'(list {coq_type(k[1])})'
        if k[0] == 'dict':
            return f'(list ({coq_type(k[1])} * {coq_type(k[2])}))'
        if k[0] == 'tuple':
            return '(' + ' * '.join(coq_type(x) for x in k[1:]) + ')'
        raise Refuse(f'no Gallina type for kind {k}')
    return {'int': 'Z', 'bool': 'bool', 'obit': '(option bool)',
            'bit1': 'bool', 'ident': 'string', 'bname': 'bitname',
            'str': 'string', 'entry': '(entry bitname)', 'val': 'val',
            'unit': 'unit'}[k]


def eqb_of(k):
    if k == 'ident' or k == 'str':
        return 'String.eqb'
    if k == 'bname':
        return 'bn_eqb'
    raise Refuse(f'no equality test for keys of kind {k}')


class Cell:
    """Kind of a container created empty (`dict()`, `set()`): fixed by its
    uses, found by iterating the translation of the function."""

    def __init__(self):
        self.k = None


def resolve(k):
    if isinstance(k, Cell):
        return resolve(k.k)
    if isinstance(k, tuple):
        return tuple([k[0]] + [resolve(x) for x in k[1:]])
    return k


JOINS = {frozenset(['ident', 'bname']): 'bname',
         frozenset(['bool', 'val']): 'val',
         frozenset(['int', 'val']): 'val',
         frozenset(['bit1', 'obit']): 'obit',
         frozenset(['bool', 'obit']): 'obit'}


class Var:
    def __init__(self, kind, coq, fresh=False, param=False, gen=None):
        self.kind, self.coq, self.fresh = kind, coq, fresh
        self.param, self.gen = param, gen
        self.version = 0

    def copy(self):
        v = Var(self.kind, self.coq, self.fresh, self.param, self.gen)
        v.version = self.version
        return v


class Gen:
    """A generator object bound to a name: callee term + the versions of the
    names it reads lazily."""

    def __init__(self, term, reads, src):
        self.term, self.reads, self.src = term, reads, src


class Func:
    def __init__(self, name, node, module):
        self.name, self.node, self.module = name, node, module
        self.coq = COQ_NAME[name]
        self.is_gen = any(isinstance(n, (ast.Yield, ast.YieldFrom))
                          for n in ast.walk(node))
        self.recursive = any(
            isinstance(n, ast.Call) and _dotted(n.func) == name
            for n in ast.walk(node))
        self.fuel = self.recursive
        self.mutated_params = []
        self.defaults = {}


class Ctx:
    """What falling off the end of a block means."""

    def __init__(self, kind, carried=None, exits=None):
        self.kind = kind            # 'func' | 'loop'
        self.carried = carried or []    # [(name, kind)]
        self.exits = exits if exits is not None else []


class Translator:
    def __init__(self, sources):
        """sources: {module tag: path}; tags 'enum', 'bv'."""
        self.trees = {}
        for tag, path in sources.items():
            with open(path) as f:
                self.trees[tag] = ast.parse(f.read())
        self.funcs = {}
        self.notes = []
        self.cur = None
        self.cells = {}
        self.ntmp = 0

    # ------------------------------------------------------------ notes
    def note(self, s):
        s = f'{self.cur.name}: {s}' if self.cur else s
        if s not in self.notes:
            self.notes.append(s)

    # ------------------------------------------------------------ module level
    def find(self, tag, name):
        tree = self.trees[tag]
        defs = [n for n in tree.body if isinstance(n, ast.FunctionDef)
                and n.name == name]
        if len(defs) != 1:
            raise Refuse(f'{name}: {len(defs)} definitions')
        # the name must not be rebound anywhere else in the module
        for n in ast.walk(tree):
            if isinstance(n, ast.Name) and n.id == name and isinstance(
                    n.ctx, (ast.Store, ast.Del)):
                raise Refuse(f'{name} is rebound in the module')
            if isinstance(n, (ast.Global, ast.Nonlocal)) and name in n.names:
                raise Refuse(f'{name} is declared global/nonlocal')
            if isinstance(n, (ast.FunctionDef, ast.ClassDef)) and \
                    n.name == name and n is not defs[0]:
                raise Refuse(f'{name} is defined twice')
            if isinstance(n, (ast.Import, ast.ImportFrom)):
                for a in n.names:
                    if (a.asname or a.name.split('.')[0]) == name:
                        raise Refuse(f'{name} is rebound by an import')
        node = defs[0]
        if node.decorator_list:
            raise Refuse(f'{name}: decorated')
        return node

    def module_alias(self, tag, alias, target):
        """`import <target> as <alias>` at module level, alias bound once."""
        tree = self.trees[tag]
        hits = 0
        for n in ast.walk(tree):
            if isinstance(n, ast.Import):
                for a in n.names:
                    if (a.asname or a.name.split('.')[0]) == alias:
                        if a.name != target or a.asname != alias or \
                                n not in tree.body:
                            raise Refuse(f'{alias} is not {target}')
                        hits += 1
            elif isinstance(n, ast.ImportFrom):
                for a in n.names:
                    if (a.asname or a.name) == alias:
                        raise Refuse(f'{alias} is bound by from-import')
            elif isinstance(n, ast.Name) and n.id == alias and isinstance(
                    n.ctx, (ast.Store, ast.Del)):
                raise Refuse(f'{alias} is rebound')
            elif isinstance(n, (ast.FunctionDef, ast.ClassDef)) and \
                    n.name == alias:
                raise Refuse(f'{alias} is rebound')
            elif isinstance(n, ast.arg) and n.arg == alias:
                raise Refuse(f'{alias} is shadowed by a parameter')
        if hits != 1:
            raise Refuse(f'{alias}: {hits} imports')

    # ------------------------------------------------------------ functions
    def translate_function(self, tag, name):
        node = self.find(tag, name)
        fi = Func(name, node, tag)
        self.cur = fi
        a = node.args
        if a.vararg or a.kwarg or a.kwonlyargs or a.posonlyargs:
            raise Refuse(f'{name}: unsupported signature')
        sig = SIGNATURES[name]
        if len(a.args) != len(sig['params']):
            raise Refuse(f'{name}: {len(a.args)} parameters, expected '
                         f'{len(sig["params"])}')
        fi.params = [x.arg for x in a.args]
        if len(set(fi.params)) != len(fi.params):
            raise Refuse(f'{name}: repeated parameter')
        nd = len(a.defaults)
        for p, k, dv in zip(fi.params[len(fi.params) - nd:],
                            sig['params'][len(fi.params) - nd:], a.defaults):
            if not (k == 'int' and isinstance(dv, ast.Constant)
                    and type(dv.value) is int):
                raise Refuse(f'{name}: default of {p}')
            fi.defaults[p] = str(dv.value)
        for n in ast.walk(node):
            if n is not node and isinstance(n, (
                    ast.Global, ast.Nonlocal, ast.FunctionDef, ast.Lambda,
                    ast.AsyncFunctionDef, ast.YieldFrom, ast.Await, ast.Try,
                    ast.With, ast.While, ast.Delete, ast.Import,
                    ast.ImportFrom, ast.ClassDef, ast.NamedExpr, ast.Starred,
                    ast.Break, ast.ListComp, ast.SetComp, ast.DictComp,
                    ast.GeneratorExp, ast.IfExp)):
                raise Refuse(f'{name}: {type(n).__name__} is outside the '
                             'translated subset')
        if fi.is_gen != ('yields' in sig):
            raise Refuse(f'{name}: generator-ness differs from the expected '
                         'signature')
        body = list(node.body)
        if (body and isinstance(body[0], ast.Expr)
                and isinstance(body[0].value, ast.Constant)
                and isinstance(body[0].value.value, str)):
            body = body[1:]
            self.note('docstring skipped')
        fi.mutated_params = [p for p in fi.params
                             if p in self.mutated(body, inplace_only=True)
                             and p not in self.mutated(body, rebound_only=True)]
        for p in fi.mutated_params:
            k = sig['params'][fi.params.index(p)]
            if not is_mut(k):
                raise Refuse(f'{name}: parameter {p} is rebound')
        self.funcs[name] = fi       # visible to its own body (recursion)
        # fuel: own recursion or a callee that needs it
        for n in ast.walk(node):
            if isinstance(n, ast.Call):
                c = self.callee(n)
                if c is not None and c is not fi and c.fuel:
                    fi.fuel = True
        if not fi.is_gen and sig.get('returns') == 'none':
            if len(fi.mutated_params) != 1:
                raise Refuse(f'{name}: a procedure must change exactly one '
                             'parameter in place')
            fi.inout = fi.mutated_params[0]
            self.note(f'returns None and changes `{fi.inout}` in place: '
                      f'translated as returning the final `{fi.inout}`')
        else:
            fi.inout = None
            if fi.mutated_params and not fi.is_gen:
                raise Refuse(f'{name} changes {fi.mutated_params} in place')
            for p in fi.mutated_params:
                self.note(f'changes its argument `{p}` in place while it '
                          'runs: a caller may not use that argument again')
        self.funcs[name] = fi       # visible to its own body (recursion)
        # iterate: kinds of containers created empty are fixed by their uses
        for _ in range(4):
            before = {k: resolve(c) for k, c in self.cells.items()}
            saved_notes = list(self.notes)
            self.ntmp = 0
            env = {}
            for p, k in zip(fi.params, sig['params']):
                env[p] = Var(k, 'v_' + p, param=True)
            text = self.block(body, env, Ctx('func'))
            after = {k: resolve(c) for k, c in self.cells.items()}
            if before == after:
                break
            self.notes = saved_notes
        else:
            raise Refuse(f'{name}: kinds do not settle')
        fi.text = text
        self.cur = None
        return fi

    def result_type(self, fi):
        sig = SIGNATURES[fi.name]
        if fi.is_gen:
            return f'M unit {coq_type(sig["yields"])}'
        r = sig['returns']
        if r == 'none':
            k = sig['params'][fi.params.index(fi.inout)]
            return f'M {coq_type(k)} T'
        if isinstance(r, tuple) and r[0] == 'gen':
            return f'M unit {coq_type(r[1])}'
        raise Refuse(f'{fi.name}: result kind {r}')

    def emit(self, fi):
        sig = SIGNATURES[fi.name]
        ps = ' '.join(f'(v_{p} : {coq_type(k)})'
                      for p, k in zip(fi.params, sig['params']))
        rt = self.result_type(fi)
        poly = '{T : Type} ' if rt.endswith(' T') else ''
        ind = lambda s: textwrap.indent(s, '  ')
        if fi.recursive:
            return (f'Fixpoint {fi.coq} {poly}(fuel : nat) {ps} '
                    f'{{struct fuel}} : {rt} :=\n'
                    f'  match fuel with\n  | O => m_fail\n  | S fuel =>\n'
                    + ind(ind(fi.text)) + '\n  end.')
        fp = '(fuel : nat) ' if fi.fuel else ''
        return (f'Definition {fi.coq} {poly}{fp}{ps} : {rt} :=\n'
                + ind(fi.text) + '.')

    # ------------------------------------------------------------ helpers
    def callee(self, call):
        """The translated function a call refers to, or None."""
        fn = _dotted(call.func)
        if fn is None:
            return None
        here = self.cur.module
        if fn in SIGNATURES and MODULE_OF[fn] == here:
            if fn not in self.funcs:
                raise Refuse(f'call to {fn} before its translation')
            return self.funcs[fn]
        if here == 'enum' and fn.startswith('bv.') and \
                MODULE_OF.get(fn[3:]) == 'bv':
            self.module_alias('enum', 'bv', 'omega.logic.bitvector')
            if fn[3:] not in self.funcs:
                raise Refuse(f'call to {fn} before its translation')
            return self.funcs[fn[3:]]
        return None

    def mutated(self, stmts, inplace_only=False, rebound_only=False):
        """Names changed IN PLACE or rebound by statements."""
        out = set()
        for s in stmts:
            for n in ast.walk(s):
                if isinstance(n, ast.Name) and isinstance(n.ctx, ast.Store):
                    if not inplace_only:
                        out.add(n.id)
                elif rebound_only:
                    continue
                elif isinstance(n, ast.Subscript) and isinstance(
                        n.ctx, ast.Store) and isinstance(n.value, ast.Name):
                    out.add(n.value.id)
                elif (isinstance(n, ast.Call)
                      and isinstance(n.func, ast.Attribute)
                      and isinstance(n.func.value, ast.Name)
                      and n.func.attr in (
                          'append', 'extend', 'add', 'update', 'pop',
                          'popitem', 'remove', 'clear', 'insert',
                          'setdefault', 'discard', 'sort', 'reverse',
                          'difference_update', 'intersection_update')):
                    out.add(n.func.value.id)
                elif isinstance(n, ast.Call):
                    # a translated procedure changes its first argument
                    fn = _dotted(n.func)
                    base = fn[3:] if fn and fn.startswith('bv.') else fn
                    sig = SIGNATURES.get(base)
                    if sig and sig.get('returns') == 'none' and n.args and \
                            isinstance(n.args[0], ast.Name):
                        out.add(n.args[0].id)
        return out

    def tmp(self):
        self.ntmp += 1
        return f't{self.ntmp}'

    def cell(self, node, slot):
        key = (self.cur.name, node.lineno, node.col_offset, slot)
        if key not in self.cells:
            self.cells[key] = Cell()
        return self.cells[key]

    def unify(self, have, want, what):
        """Make kind `have` (possibly with open cells) accept `want`; returns
        nothing, updates cells.  Used when a value of kind `want` is put into
        a container whose element kind is `have`."""
        if isinstance(have, Cell):
            cur = resolve(have)
            w = resolve(want)
            if cur is None:
                have.k = w
                return
            if cur == w:
                return
            if isinstance(cur, tuple) and isinstance(w, tuple) and \
                    cur[0] == w[0] and len(cur) == len(w):
                # structural: only closed kinds reach here
                if cur != w:
                    raise Refuse(f'{what}: kinds {cur} and {w}')
                return
            j = JOINS.get(frozenset([cur, w])) if not isinstance(
                cur, tuple) and not isinstance(w, tuple) else None
            if j is None:
                raise Refuse(f'{what}: kinds {cur} and {w} do not join')
            have.k = j
            return
        if isinstance(have, tuple) and isinstance(want, tuple) and \
                have[0] == want[0] and len(have) == len(want):
            for a, b in zip(have[1:], want[1:]):
                self.unify(a, b, what)
            return
        if resolve(have) != resolve(want):
            h, w = resolve(have), resolve(want)
            if JOINS.get(frozenset([h, w])) == h:
                return      # coercible
            raise Refuse(f'{what}: kind {w} where {h} is expected')

    def coerce(self, term, have, want, what):
        """Term of kind `have` as a term of kind `want`."""
        have, want = resolve(have), resolve(want)
        if have == want or want is None:
            return term
        if have == 'ident' and want == 'bname':
            return f'(bool_bit {term})'
        if have == 'bool' and want == 'val':
            return f'(VB {term})'
        if have == 'int' and want == 'val':
            return f'(VZ {term})'
        if have == 'bit1' and want == 'int':
            return f'(Z.b2z {term})'
        if have in ('bit1', 'bool') and want == 'obit':
            return f'(Some {term})'
        if isinstance(have, tuple) and isinstance(want, tuple) and \
                have[0] == want[0] and have[0] in ('list', 'set', 'dict'):
            if all(resolve(a) is None or resolve(a) == resolve(b)
                   for a, b in zip(have[1:], want[1:])):
                return term
        raise Refuse(f'{what}: kind {have} where {want} is expected')

    def bind_mut_alias(self, s, kd):
        if isinstance(s.value, ast.Name) and is_mut(resolve(kd)):
            raise Refuse(f'{_src(s)}: second name for a mutable object')

    # ------------------------------------------------------------ blocks
    def end(self, env, ctx):
        """Value when control falls off the end of the block."""
        if ctx.kind == 'loop':
            ts = []
            for n, k in ctx.carried:
                if n not in env:
                    raise Refuse(f'{n} is not defined at the end of the loop '
                                 'body')
                ts.append(self.coerce(env[n].coq, env[n].kind, k,
                                      f'loop state {n}'))
            ctx.exits.append({n: env[n].fresh for n, _ in ctx.carried})
            return f'm_ret {self.tup(ts)}'
        fi = self.cur
        if fi.inout:
            if fi.inout not in env:
                raise Refuse(f'{fi.inout} is not defined at return')
            return f'm_ret {env[fi.inout].coq}'
        if fi.is_gen:
            return 'm_ret Datatypes.tt'
        raise Refuse(f'{fi.name}: control reaches the end without return')

    @staticmethod
    def tup(ts):
        if not ts:
            return 'Datatypes.tt'
        if len(ts) == 1:
            return ts[0]
        return '(' + ', '.join(ts) + ')'

    @staticmethod
    def pat(ts):
        if not ts:
            return '_'
        if len(ts) == 1:
            return ts[0]
        return "'(" + ', '.join(ts) + ')'

    def wrap(self, pre, text):
        """Put the partial sub-computations of a statement in front of it."""
        for name, term in reversed(pre):
            if name.startswith('let '):
                text = f'{name} := {term} in\n{text}'
            else:
                text = f'm_opt {term} (fun {name} =>\n{text})'
        return text

    def setvar(self, env, name, kind, fresh=False, gen=None):
        if name in self.cur.params and name not in env:
            pass
        old = env.get(name)
        v = Var(kind, 'v_' + name, fresh=fresh, gen=gen)
        v.version = (old.version + 1) if old else 1
        if old is not None and old.param and not is_mut(resolve(old.kind)):
            pass
        env[name] = v
        return v

    def touch(self, env, name, fresh=None):
        """`name` was changed in place."""
        v = env[name].copy()
        v.version += 1
        if fresh is not None:
            v.fresh = fresh
        env[name] = v

    def escapes(self, env, e):
        """A mutable object referred to by expression `e` becomes shared."""
        if isinstance(e, ast.Name) and e.id in env and \
                is_mut(resolve(env[e.id].kind)):
            v = env[e.id].copy()
            v.fresh = False
            v.param = False
            v.shared = True
            env[e.id] = v

    def may_mutate(self, env, name, src):
        if name not in env:
            raise Refuse(f'{src}: unknown name {name}')
        v = env[name]
        if not is_mut(resolve(v.kind)):
            raise Refuse(f'{src}: {name} is not a list/dict/set')
        if not (v.fresh or (v.param and name in self.cur.mutated_params
                            and not getattr(v, 'shared', False))):
            raise Refuse(f'{src}: `{name}` is changed in place but may be '
                         'shared (not a fresh copy)')

    def block(self, stmts, env, ctx):
        if not stmts:
            return self.end(env, ctx)
        s, rest = stmts[0], stmts[1:]
        env = dict(env)
        pre = []

        def k():
            return self.block(rest, env, ctx)
        if isinstance(s, ast.Pass):
            return k()
        if isinstance(s, ast.Continue):
            if ctx.kind != 'loop':
                raise Refuse('continue outside a loop')
            return self.end(env, ctx)
        if isinstance(s, ast.Return):
            if ctx.kind != 'func':
                raise Refuse('return inside a loop')
            if s.value is None:
                return self.end(env, ctx)
            return self.return_value(s, env)
        if isinstance(s, ast.Raise):
            self.note(f'`{_comment(_src(s))[:60]}...` is failure (None)')
            return 'm_fail'
        if isinstance(s, ast.Assert):
            t = self.cond(s.test, env, pre)
            if s.msg is not None:
                self.note(f'message of `assert {_comment(_src(s.test))}` '
                          'skipped (evaluated only when the assertion has '
                          'already failed)')
            return self.wrap(pre, f'm_assert {t} (\n{k()})')
        if isinstance(s, ast.Expr):
            return self.expr_stmt(s, env, k, pre)
        if isinstance(s, ast.Assign):
            return self.assign(s, env, k, pre)
        if isinstance(s, ast.If):
            return self.if_stmt(s, rest, env, ctx)
        if isinstance(s, ast.For):
            return self.for_stmt(s, rest, env, ctx)
        raise Refuse(f'statement kind {type(s).__name__}: {_src(s)}')

    def pure_check(self, e):
        """An expression that is skipped must not have effects."""
        for n in ast.walk(e):
            if isinstance(n, ast.Call) and _dotted(n.func) in (
                    'len', 'str', 'repr', 'sorted'):
                continue
            if isinstance(n, (ast.Call, ast.Yield, ast.Await, ast.NamedExpr)):
                raise Refuse(f'skipped expression contains a call: {_src(e)}')

    def return_value(self, s, env):
        fi = self.cur
        sig = SIGNATURES[fi.name]
        r = sig.get('returns')
        if fi.is_gen or fi.inout:
            raise Refuse(f'{fi.name}: return with a value')
        if isinstance(r, tuple) and r[0] == 'gen':
            g = self.gen_value(s.value, env, [])
            if resolve(g.kind) != resolve(r[1]):
                raise Refuse(f'{_src(s)}: yields {resolve(g.kind)}')
            self.note(f'`{_comment(_src(s))}`: the returned generator is '
                      'the computation of the callee (a failure while '
                      'building it and a failure while it runs are both '
                      'None)')
            return g.term
        raise Refuse(f'return: {_src(s)}')

    # ------------------------------------------------------------ statements
    def expr_stmt(self, s, env, k, pre):
        v = s.value
        if isinstance(v, ast.Constant) and isinstance(v.value, str):
            self.note('string statement skipped')
            return k()
        if isinstance(v, ast.Yield):
            if v.value is None:
                raise Refuse('bare yield')
            t, kd = self.expr(v.value, env, pre)
            want = SIGNATURES[self.cur.name]['yields']
            t = self.coerce(t, kd, want, _src(s))
            self.escapes(env, v.value)
            return self.wrap(pre, f'm_yield {t} (\n{k()})')
        if not isinstance(v, ast.Call):
            raise Refuse(f'statement: {_src(s)}')
        fn = _dotted(v.func)
        if fn in SKIP_CALLS:
            for a in v.args:
                self.pure_check(a)
            if v.keywords:
                raise Refuse(f'{_src(s)}: keywords')
            self.note(f'`{_comment(_src(s))[:50]}...` skipped (logging)')
            return k()
        c = self.callee(v)
        if c is not None and c.inout:
            # procedure: the first argument is changed in place
            if v.keywords or len(v.args) != len(c.params):
                raise Refuse(f'call {_src(s)}')
            idx = c.params.index(c.inout)
            a0 = v.args[idx]
            if not isinstance(a0, ast.Name):
                raise Refuse(f'{_src(s)}: the changed argument is not a name')
            self.may_mutate(env, a0.id, _src(s))
            ts = self.call_args(c, v, env, pre)
            fuel = 'fuel ' if c.fuel else ''
            var = env[a0.id]
            self.touch(env, a0.id)
            return self.wrap(pre, f'm_bind ({c.coq} {fuel}{" ".join(ts)}) '
                             f'(fun {var.coq} =>\n{k()})')
        if isinstance(v.func, ast.Attribute) and isinstance(
                v.func.value, ast.Name):
            X, meth = v.func.value.id, v.func.attr
            if X not in env:
                raise Refuse(f'{_src(s)}: unknown name {X}')
            kd = env[X].kind
            rk = resolve(kd)
            if v.keywords:
                raise Refuse(f'{_src(s)}: keywords')
            if isinstance(rk, tuple) and rk[0] == 'list' and \
                    meth == 'append' and len(v.args) == 1:
                self.may_mutate(env, X, _src(s))
                t, ek = self.expr(v.args[0], env, pre)
                self.unify(kd[1], ek, _src(s))
                t = self.coerce(t, ek, kd[1], _src(s))
                self.escapes(env, v.args[0])
                self.touch(env, X)
                return self.wrap(pre, f'let {env[X].coq} := {env[X].coq} ++ '
                                 f'[{t}] in\n{k()}')
            if isinstance(rk, tuple) and rk[0] == 'set' and \
                    meth in ('add', 'update') and len(v.args) == 1:
                self.may_mutate(env, X, _src(s))
                t, ek = self.expr(v.args[0], env, pre)
                if meth == 'add':
                    self.unify(kd[1], ek, _src(s))
                    t = '[' + self.coerce(t, ek, kd[1], _src(s)) + ']'
                else:
                    rek = resolve(ek)
                    if not (isinstance(rek, tuple)
                            and rek[0] in ('list', 'set')):
                        raise Refuse(f'{_src(s)}: update with kind {rek}')
                    self.unify(kd[1], ek[1], _src(s))
                    if resolve(ek[1]) != resolve(kd[1]):
                        raise Refuse(f'{_src(s)}: element kinds '
                                     f'{resolve(ek[1])} / {resolve(kd[1])}')
                self.touch(env, X)
                return self.wrap(pre, f'let {env[X].coq} := {env[X].coq} ++ '
                                 f'{t} in\n{k()}')
        raise Refuse(f'statement: {_src(s)}')

    def call_args(self, c, call, env, pre):
        sig = SIGNATURES[c.name]
        args = list(call.args)
        if call.keywords:
            raise Refuse(f'{_src(call)}: keyword arguments')
        if len(args) > len(c.params):
            raise Refuse(f'{_src(call)}: too many arguments')
        ts = []
        for i, (p, kd) in enumerate(zip(c.params, sig['params'])):
            if i < len(args):
                t, ak = self.expr(args[i], env, pre)
                ts.append(self.coerce_arg(t, ak, kd, _src(call)))
            elif p in c.defaults:
                ts.append(c.defaults[p])
            else:
                raise Refuse(f'{_src(call)}: missing argument {p}')
        return ts

    def coerce_arg(self, t, have, want, what):
        self.unify(have, want, what)
        h = resolve(have)
        if h is None or (isinstance(h, tuple) and None in h):
            # still open in this pass
            return t
        if h != resolve(want):
            raise Refuse(f'{what}: argument of kind {h}, expected '
                         f'{resolve(want)}')
        return t

    def gen_value(self, e, env, pre):
        """A generator-valued expression: a call of a translated generator
        function (or of a function returning one), or a name bound to one.
        Returns a Gen with .kind (element kind)."""
        if isinstance(e, ast.Name):
            if e.id not in env or env[e.id].gen is None:
                raise Refuse(f'{e.id} is not a generator')
            v = env[e.id]
            g = v.gen
            for n, ver in g.reads.items():
                if n not in env or env[n].version != ver:
                    raise Refuse(f'`{n}` changed between the creation of the '
                                 f'generator `{g.src}` and its use')
            del env[e.id]       # consumed
            return g
        if not isinstance(e, ast.Call):
            raise Refuse(f'not a generator: {_src(e)}')
        c = self.callee(e)
        if c is None:
            raise Refuse(f'not a translated generator: {_src(e)}')
        sig = SIGNATURES[c.name]
        if c.is_gen:
            ek = sig['yields']
        elif isinstance(sig.get('returns'), tuple):
            ek = sig['returns'][1]
        else:
            raise Refuse(f'{_src(e)} is not a generator')
        n0 = len(pre)
        ts = self.call_args(c, e, env, pre)
        if len(pre) != n0:
            raise Refuse(f'{_src(e)}: partial expression as argument')
        fuel = 'fuel ' if c.fuel else ''
        g = Gen(f'({c.coq} {fuel}{" ".join(ts)})', {}, _comment(_src(e)))
        g.kind = ek
        for a in e.args:
            for n in ast.walk(a):
                if isinstance(n, ast.Name) and n.id in env:
                    g.reads[n.id] = env[n.id].version
        # arguments the callee changes while it runs are dead from here on;
        # other mutable arguments become shared
        for p, a in zip(c.params, e.args):
            if p in c.mutated_params:
                if not isinstance(a, ast.Name):
                    raise Refuse(f'{_src(e)}: changed argument is not a name')
                self.may_mutate(env, a.id, _src(e))
                g.dead = getattr(g, 'dead', []) + [a.id]
            else:
                self.escapes(env, a)
        for n in getattr(g, 'dead', []):
            g.reads.pop(n, None)
            del env[n]
        return g

    def assign(self, s, env, k, pre):
        if len(s.targets) != 1:
            raise Refuse('chained assignment')
        t = s.targets[0]
        v = s.value
        # --- a, b = D.popitem()
        if (isinstance(t, ast.Tuple) and isinstance(v, ast.Call)
                and isinstance(v.func, ast.Attribute)
                and v.func.attr == 'popitem'
                and isinstance(v.func.value, ast.Name)):
            X = v.func.value.id
            if v.args or v.keywords or len(t.elts) != 2 or not all(
                    isinstance(x, ast.Name) for x in t.elts):
                raise Refuse(f'{_src(s)}')
            a, b = t.elts[0].id, t.elts[1].id
            if len({a, b, X}) != 3:
                raise Refuse(f'{_src(s)}: repeated name')
            self.may_mutate(env, X, _src(s))
            kd = resolve(env[X].kind)
            if kd[0] != 'dict':
                raise Refuse(f'{_src(s)}: popitem on kind {kd}')
            xv = env[X].coq
            self.touch(env, X)
            self.setvar(env, a, kd[1])
            self.setvar(env, b, kd[2], fresh=False)
            self.note(f'`{_comment(_src(s))}`: dict.popitem removes the LAST '
                      'inserted item (KeyError on an empty dict is failure)')
            return (f"m_opt (py_popitem {xv}) (fun '({xv}, (v_{a}, v_{b})) "
                    f'=>\n{k()})')
        # --- a, b = <tuple-valued>
        if isinstance(t, ast.Tuple):
            if not all(isinstance(x, ast.Name) for x in t.elts):
                raise Refuse(f'assignment target {_src(t)}')
            names = [x.id for x in t.elts]
            if len(set(names)) != len(names):
                raise Refuse(f'{_src(s)}: repeated target')
            e, kd = self.expr(v, env, pre)
            kd = resolve(kd)
            if not (isinstance(kd, tuple) and kd[0] == 'tuple'
                    and len(kd) - 1 == len(names)):
                raise Refuse(f'{_src(s)}: value is not a {len(names)}-tuple')
            for x, kx in zip(names, kd[1:]):
                self.setvar(env, x, kx)
            p = ', '.join('v_' + x for x in names)
            return self.wrap(pre, f"let '({p}) := {e} in\n{k()}")
        # --- X[key] = ...
        if isinstance(t, ast.Subscript):
            return self.store(s, t, v, env, k, pre)
        if not isinstance(t, ast.Name):
            raise Refuse(f'assignment target {_src(t)}')
        x = t.id
        # --- x = D.pop(key)
        if self.is_pop(v):
            val, vk = self.pop(v, env, pre)
            self.setvar(env, x, vk)
            return self.wrap(pre, f'let v_{x} := {val} in\n{k()}')
        # --- x = <generator>
        if isinstance(v, ast.Call) and self.callee(v) is not None and (
                self.callee(v).is_gen or isinstance(
                    SIGNATURES[self.callee(v).name].get('returns'), tuple)):
            g = self.gen_value(v, env, pre)
            self.setvar(env, x, ('gen', g.kind), gen=g)
            self.note(f'`{_comment(_src(s))}` creates a generator: it runs '
                      'where it is consumed (arguments checked unchanged)')
            return k()
        # --- x = list(<generator>)
        if self.is_list_of_gen(v, env):
            g = self.gen_value(v.args[0], env, pre)
            self.setvar(env, x, L(g.kind), fresh=True)
            return self.wrap(pre, f'm_consume {g.term} (fun v_{x} =>\n{k()})')
        e, kd = self.expr(v, env, pre)
        self.bind_mut_alias(s, kd)
        fresh = self.is_fresh_constructor(v)
        if is_mut(resolve(kd)) and not fresh:
            self.escapes(env, v)
        self.setvar(env, x, kd, fresh=fresh)
        return self.wrap(pre, f'let v_{x} := {e} in\n{k()}')

    def is_list_of_gen(self, v, env):
        if not (isinstance(v, ast.Call) and _dotted(v.func) == 'list'
                and len(v.args) == 1 and not v.keywords):
            return False
        a = v.args[0]
        if isinstance(a, ast.Name):
            return a.id in env and env[a.id].gen is not None
        return isinstance(a, ast.Call) and self.callee(a) is not None

    @staticmethod
    def is_fresh_constructor(v):
        if isinstance(v, ast.Call) and _dotted(v.func) in (
                'dict', 'list', 'set') and not v.keywords:
            return True
        return isinstance(v, (ast.List, ast.Dict, ast.Set))

    @staticmethod
    def is_pop(v):
        return (isinstance(v, ast.Call) and isinstance(v.func, ast.Attribute)
                and v.func.attr == 'pop'
                and isinstance(v.func.value, ast.Name)
                and len(v.args) == 1 and not v.keywords)

    def pop(self, v, env, pre):
        """D.pop(key): the value (bound first) and D without the key."""
        X = v.func.value.id
        self.may_mutate(env, X, _src(v))
        kd = env[X].kind
        rk = resolve(kd)
        if rk[0] != 'dict':
            raise Refuse(f'{_src(v)}: pop on kind {rk}')
        kt, kk = self.expr(v.args[0], env, pre)
        kt = self.coerce(kt, kk, rk[1], _src(v))
        eq = eqb_of(rk[1])
        tv = self.tmp()
        xv = env[X].coq
        pre.append((tv, f'(dict_get {eq} {kt} {xv})'))
        # the removal is a let in front of the statement, after the lookup
        pre.append(('let ' + xv, f'dict_remove {eq} {kt} {xv}'))
        self.touch(env, X)
        self.note(f'`{_comment(_src(v))}`: the value, then the dict without '
                  'the key (KeyError is failure)')
        return tv, rk[2]

    def store(self, s, t, v, env, k, pre):
        if not isinstance(t.value, ast.Name):
            raise Refuse(f'store: {_src(s)}')
        X = t.value.id
        self.may_mutate(env, X, _src(s))
        kd = env[X].kind
        rk = resolve(kd)
        if not (isinstance(rk, tuple) and rk[0] == 'dict'):
            raise Refuse(f'{_src(s)}: store into kind {rk}')
        kt, kk = self.expr(t.slice, env, pre)
        self.unify(kd[1], kk, _src(s))
        if self.is_pop(v):
            vt, vk = self.pop(v, env, pre)
        elif self.is_list_of_gen(v, env):
            g = self.gen_value(v.args[0], env, pre)
            tv = self.tmp()
            self.unify(kd[2], L(g.kind), _src(s))
            rk = resolve(kd)
            if rk[1] is None:
                return 'm_fail'     # kinds still open in this pass
            kt = self.coerce(kt, kk, rk[1], _src(s))
            xv = env[X].coq
            self.touch(env, X)
            eq = eqb_of(rk[1])
            return self.wrap(pre, f'm_consume {g.term} (fun {tv} =>\n'
                             f'let {xv} := dict_set {eq} {kt} {tv} {xv} in\n'
                             f'{k()})')
        else:
            vt, vk = self.expr(v, env, pre)
            self.escapes(env, v)
        self.unify(kd[2], vk, _src(s))
        rk = resolve(kd)
        if rk[1] is None or rk[2] is None:
            return 'm_fail'         # kinds still open in this pass
        kt = self.coerce(kt, kk, rk[1], _src(s))
        vt = self.coerce(vt, vk, rk[2], _src(s))
        xv = env[X].coq
        self.touch(env, X)
        eq = eqb_of(rk[1])
        return self.wrap(pre, f'let {xv} := dict_set {eq} {kt} {vt} {xv} in\n'
                         f'{k()}')

    # ------------------------------------------------------------ if
    def none_test(self, t, env):
        """`x is None` / `x is not None` on a bit value: (name, positive)."""
        if (isinstance(t, ast.Compare) and len(t.ops) == 1
                and isinstance(t.ops[0], (ast.Is, ast.IsNot))
                and isinstance(t.left, ast.Name)
                and isinstance(t.comparators[0], ast.Constant)
                and t.comparators[0].value is None):
            x = t.left.id
            if x not in env:
                raise Refuse(f'unknown name {x}')
            k = resolve(env[x].kind)
            if k == 'obit':
                return x, isinstance(t.ops[0], ast.Is)
            if k == 'bit1':
                # known not to be None on this path
                return x, isinstance(t.ops[0], ast.Is)
            raise Refuse(f'{_src(t)}: `is None` on kind {k}')
        return None

    def if_stmt(self, s, rest, env, ctx):
        nt = self.none_test(s.test, env)
        ind = lambda x: textwrap.indent(x, '  ')
        if nt is not None:
            x, positive = nt
            none_br, some_br = ((s.body, s.orelse) if positive
                                else (s.orelse, s.body))
            v = env[x]
            if resolve(v.kind) == 'bit1':
                # the test is decided on this path
                self.note(f'`{_comment(_src(s.test))}` is False where `{x}` '
                          'is already int(...) of a bit')
                return self.block(list(some_br) + rest, env, ctx)
            e_none = dict(env)
            e_some = dict(env)
            nv = v.copy()
            nv.kind = 'bit1'
            e_some[x] = nv
            a = self.block(list(none_br) + rest, e_none, ctx)
            b = self.block(list(some_br) + rest, e_some, ctx)
            return (f'match {v.coq} with\n| None =>\n{ind(a)}\n'
                    f'| Some {v.coq} =>\n{ind(b)}\nend')
        pre = []
        c = self.cond(s.test, env, pre)
        a = self.block(list(s.body) + rest, dict(env), ctx)
        b = self.block(list(s.orelse) + rest, dict(env), ctx)
        return self.wrap(pre, f'if {c} then\n{ind(a)}\nelse\n{ind(b)}')

    # ------------------------------------------------------------ for
    def assigned_names(self, stmts):
        out = []
        for n in sorted(self.mutated(stmts)):
            out.append(n)
        return out

    def for_stmt(self, s, rest, env, ctx):
        if s.orelse:
            raise Refuse('for-else')
        for n in ast.walk(s):
            if isinstance(n, ast.Return):
                raise Refuse('return inside a loop')
        pre = []
        # the iterable
        it = s.iter
        consume = None
        if (isinstance(it, ast.Call) and isinstance(it.func, ast.Attribute)
                and it.func.attr == 'items' and not it.args
                and not it.keywords and isinstance(it.func.value, ast.Name)):
            X = it.func.value.id
            if X not in env:
                raise Refuse(f'unknown name {X}')
            kd = resolve(env[X].kind)
            if kd[0] != 'dict':
                raise Refuse(f'{_src(it)}: items() on kind {kd}')
            if X in self.mutated(s.body):
                raise Refuse(f'the loop changes {X} while iterating over it')
            lst, ek = env[X].coq, ('tuple', kd[1], kd[2])
        elif isinstance(it, ast.Name) and it.id in env and \
                env[it.id].gen is None:
            kd = resolve(env[it.id].kind)
            if not (isinstance(kd, tuple) and kd[0] == 'list'):
                raise Refuse(f'for over {_src(it)} of kind {kd}')
            if it.id in self.mutated(s.body):
                raise Refuse(f'the loop changes {it.id} while iterating '
                             'over it')
            lst, ek = env[it.id].coq, kd[1]
        else:
            g = self.gen_value(it, env, pre)
            lst = self.tmp()
            consume = g
            ek = g.kind
            # a generator reads its arguments while the loop runs
            bad = set(g.reads) & self.mutated(s.body)
            if bad:
                raise Refuse(f'the loop changes {sorted(bad)} while the '
                             f'generator {g.src} reads it')
        # the target
        inner = dict(env)
        if isinstance(s.target, ast.Name):
            tnames = [s.target.id]
            tpat = 'v_' + s.target.id
            self.setvar(inner, s.target.id, ek)
        elif isinstance(s.target, ast.Tuple) and all(
                isinstance(x, ast.Name) for x in s.target.elts):
            tnames = [x.id for x in s.target.elts]
            ekr = resolve(ek)
            if not (isinstance(ekr, tuple) and ekr[0] == 'tuple'
                    and len(ekr) - 1 == len(tnames)
                    and len(set(tnames)) == len(tnames)):
                raise Refuse(f'for target {_src(s.target)}')
            for x, kx in zip(tnames, ekr[1:]):
                self.setvar(inner, x, kx)
            tpat = "'(" + ', '.join('v_' + x for x in tnames) + ')'
        else:
            raise Refuse(f'for target {_src(s.target)}')
        for x in tnames:
            if x in env and x not in self.mutated(s.body) and False:
                pass
        names = [n for n in self.assigned_names(s.body)
                 if n in env and n not in tnames]
        for x in tnames:
            if x in env:
                self.note(f'loop variable `{x}` rebinds a live name; its '
                          'value after the loop is not available')
        carried = [(n, env[n].kind) for n in names]
        for n, kd in carried:
            if env[n].gen is not None:
                raise Refuse(f'generator {n} changed in a loop')
        fresh_in = {n: env[n].fresh for n, _ in carried}
        body_text = None
        for _ in range(3):
            b_env = dict(inner)
            for n, _k in carried:
                v = env[n].copy()
                v.fresh = fresh_in[n]
                b_env[n] = v
            lctx = Ctx('loop', carried)
            body_text = self.block(list(s.body), b_env, lctx)
            out = {n: all(e[n] for e in lctx.exits) and fresh_in[n]
                   for n, _ in carried}
            if out == fresh_in:
                break
            fresh_in = out
        else:
            raise Refuse('freshness of loop state does not settle')
        local = [n for n in self.assigned_names(s.body)
                 if n not in env and n not in tnames]
        if local:
            self.note(f'names first bound in the body of `for '
                      f'{_comment(_src(s.target))} in {_comment(_src(it))}` '
                      'are local to one iteration: ' + ', '.join(local))
        spat = self.pat([env[n].coq for n, _ in carried])
        s0 = self.tup([env[n].coq for n, _ in carried])
        ind = lambda x: textwrap.indent(x, '  ')
        loop = (f'm_for (fun {spat} {tpat} =>\n{ind(body_text)})\n'
                f'  {lst} {s0}')
        if consume is not None:
            loop = f'm_consume {consume.term} (fun {lst} =>\n{ind(loop)})'
        after = dict(env)
        for x in tnames:
            after.pop(x, None)
        for n, kd in carried:
            v = env[n].copy()
            v.version += 1
            v.fresh = fresh_in[n]
            after[n] = v
        return self.wrap(pre, f'm_bind (\n{ind(loop)})\n(fun {spat} =>\n'
                         + self.block(rest, after, ctx) + ')')

    # ------------------------------------------------------------ expressions
    def cond(self, e, env, pre):
        t, k = self.expr(e, env, pre)
        k = resolve(k)
        if k == 'bool':
            return t
        if isinstance(k, tuple) and k[0] in ('list', 'set', 'dict'):
            return f'(negb (is_nil {t}))'
        raise Refuse(f'truth value of kind {k}: {_src(e)}')

    def as_int(self, t, k, what):
        k = resolve(k)
        if k == 'int':
            return t
        if k == 'bit1':
            return f'(Z.b2z {t})'
        raise Refuse(f'{what}: kind {k} in arithmetic')

    def expr(self, e, env, pre):
        """(Gallina term, kind); partial sub-computations are appended to
        `pre` as (name, option-valued term)."""
        if isinstance(e, ast.Name):
            if e.id not in env:
                raise Refuse(f'{self.cur.name}: unknown or no longer usable '
                             f'name {e.id}')
            v = env[e.id]
            if v.gen is not None:
                raise Refuse(f'generator {e.id} used as a value')
            return v.coq, v.kind
        if isinstance(e, ast.Constant):
            if isinstance(e.value, bool):
                return ('true' if e.value else 'false'), 'bool'
            if type(e.value) is int:
                return (str(e.value) if e.value >= 0
                        else f'({e.value})'), 'int'
            if isinstance(e.value, str):
                if e.value in ('0', '1'):
                    self.note(f"the sign digit '{e.value}' is the bit value "
                              f"{'true' if e.value == '1' else 'false'} "
                              '(only int() and `is None` are applied to bit '
                              'values)')
                    return (f'(Some {"true" if e.value == "1" else "false"})',
                            'obit')
                if all(c.isalnum() or c == '_' for c in e.value):
                    return f'"{e.value}"%string', 'str'
            raise Refuse(f'constant {e.value!r}')
        if isinstance(e, ast.Tuple):
            xs = [self.expr(x, env, pre) for x in e.elts]
            return ('(' + ', '.join(t for t, _ in xs) + ')',
                    tuple(['tuple'] + [k for _, k in xs]))
        if isinstance(e, ast.UnaryOp):
            t, k = self.expr(e.operand, env, pre)
            if isinstance(e.op, ast.USub):
                return f'(- {self.as_int(t, k, _src(e))})', 'int'
            if isinstance(e.op, ast.Not):
                rk = resolve(k)
                if rk == 'bool':
                    return f'(negb {t})', 'bool'
                if isinstance(rk, tuple) and rk[0] in ('list', 'set', 'dict'):
                    return f'(is_nil {t})', 'bool'
            raise Refuse(f'unary {_src(e)}')
        if isinstance(e, ast.BinOp):
            a, ak = self.expr(e.left, env, pre)
            b, bk = self.expr(e.right, env, pre)
            a = self.as_int(a, ak, _src(e))
            b = self.as_int(b, bk, _src(e))
            if isinstance(e.op, ast.Add):
                return f'({a} + {b})', 'int'
            if isinstance(e.op, ast.Sub):
                return f'({a} - {b})', 'int'
            if isinstance(e.op, ast.Mult):
                return f'({a} * {b})', 'int'
            if isinstance(e.op, ast.Pow):
                tv = self.tmp()
                pre.append((tv, f'(py_pow {a} {b})'))
                self.note('`**`: a negative exponent (a float in Python) is '
                          'failure')
                return tv, 'int'
            raise Refuse(f'operator in {_src(e)}')
        if isinstance(e, ast.BoolOp):
            n0 = len(pre)
            xs = [self.cond(x, env, pre) for x in e.values]
            if len(pre) != n0:
                raise Refuse(f'partial expression under and/or: {_src(e)}')
            op = '&&' if isinstance(e.op, ast.And) else '||'
            return '(' + f' {op} '.join(xs) + ')', 'bool'
        if isinstance(e, ast.Compare):
            return self.compare(e, env, pre)
        if isinstance(e, ast.Subscript):
            return self.subscript(e, env, pre)
        if isinstance(e, ast.Call):
            return self.call(e, env, pre)
        raise Refuse(f'expression {type(e).__name__}: {_src(e)}')

    def compare(self, e, env, pre):
        if len(e.ops) != 1:
            raise Refuse(f'chained comparison {_src(e)}')
        op, l, r = e.ops[0], e.left, e.comparators[0]
        if isinstance(op, (ast.Is, ast.IsNot)):
            raise Refuse(f'`is` outside an if-test on a bit: {_src(e)}')
        a, ak = self.expr(l, env, pre)
        b, bk = self.expr(r, env, pre)
        rak, rbk = resolve(ak), resolve(bk)
        if isinstance(op, (ast.In, ast.NotIn)):
            if isinstance(rbk, tuple) and rbk[0] == 'dict':
                a = self.coerce(a, ak, rbk[1], _src(e))
                t = f'(dict_has {eqb_of(rbk[1])} {a} {b})'
            elif isinstance(rbk, tuple) and rbk[0] in ('set', 'list'):
                a = self.coerce(a, ak, rbk[1], _src(e))
                t = f'(mem {eqb_of(rbk[1])} {a} {b})'
            else:
                raise Refuse(f'{_src(e)}: membership in kind {rbk}')
            return (t if isinstance(op, ast.In) else f'(negb {t})'), 'bool'
        if rak == 'str' and rbk == 'str':
            if isinstance(op, ast.Eq):
                return f'(String.eqb {a} {b})', 'bool'
            if isinstance(op, ast.NotEq):
                return f'(negb (String.eqb {a} {b}))', 'bool'
            raise Refuse(f'comparison {_src(e)}')
        a = self.as_int(a, ak, _src(e))
        b = self.as_int(b, bk, _src(e))
        ops = {ast.Eq: '=?', ast.Lt: '<?', ast.LtE: '<=?', ast.Gt: '>?',
               ast.GtE: '>=?'}
        if type(op) in ops:
            return f'({a} {ops[type(op)]} {b})', 'bool'
        if isinstance(op, ast.NotEq):
            return f'(negb ({a} =? {b}))', 'bool'
        raise Refuse(f'comparison {_src(e)}')

    def subscript(self, e, env, pre):
        t, k = self.expr(e.value, env, pre)
        rk = resolve(k)
        key = e.slice
        if rk == 'entry':
            if not (isinstance(key, ast.Constant)
                    and key.value in ENTRY_FIELDS):
                raise Refuse(f'subscript {_src(e)}')
            f, fk = ENTRY_FIELDS[key.value]
            self.note(f"`d['{key.value}']` is the record field {f} (a "
                      'missing key, KeyError, is not modelled: bitblast_table '
                      "stores type for every entry and bitnames/signed/dom/"
                      "width for every entry of type 'int')")
            return f'({f} {t})', fk
        if isinstance(rk, tuple) and rk[0] == 'list':
            if isinstance(key, ast.Slice):
                raise Refuse(f'slice {_src(e)}')
            i, ik = self.expr(key, env, pre)
            i = self.as_int(i, ik, _src(e))
            tv = self.tmp()
            pre.append((tv, f'(py_index {t} {i})'))
            return tv, rk[1]
        raise Refuse(f'subscript {_src(e)} on kind {rk}')

    def call(self, e, env, pre):
        fn = _dotted(e.func)
        args = e.args
        if e.keywords:
            raise Refuse(f'keyword arguments in {_src(e)}')
        if fn == 'len' and len(args) == 1:
            t, k = self.expr(args[0], env, pre)
            rk = resolve(k)
            if not (isinstance(rk, tuple) and rk[0] in ('list', 'dict')):
                raise Refuse(f'{_src(e)}: len of kind {rk}')
            return f'(Z.of_nat (List.length {t}))', 'int'
        if fn == 'int' and len(args) == 1:
            t, k = self.expr(args[0], env, pre)
            rk = resolve(k)
            if rk == 'bit1':
                return t, 'bit1'
            if rk == 'int':
                return t, 'int'
            if rk == 'obit':
                raise Refuse(f'{_src(e)}: int() of a bit that may be None '
                             '(TypeError)')
            raise Refuse(f'{_src(e)}: int() of kind {rk}')
        if fn == 'dict' and len(args) == 0:
            c1, c2 = self.cell(e, 'k'), self.cell(e, 'v')
            return '[]', ('dict', c1, c2)
        if fn == 'dict' and len(args) == 1:
            t, k = self.expr(args[0], env, pre)
            rk = resolve(k)
            if not (isinstance(rk, tuple) and rk[0] == 'dict'):
                raise Refuse(f'{_src(e)}: dict() of kind {rk}')
            return t, k
        if fn == 'set' and len(args) == 0:
            return '[]', ('set', self.cell(e, 'e'))
        if fn == 'set' and len(args) == 1:
            t, k = self.expr(args[0], env, pre)
            rk = resolve(k)
            if isinstance(rk, tuple) and rk[0] == 'dict':
                return f'(map fst {t})', ('set', k[1])
            if isinstance(rk, tuple) and rk[0] in ('list', 'set'):
                return t, ('set', k[1])
            raise Refuse(f'{_src(e)}: set() of kind {rk}')
        if fn == 'list' and len(args) == 1:
            a = args[0]
            # list(map(D.get, L))
            if (isinstance(a, ast.Call) and _dotted(a.func) == 'map'
                    and len(a.args) == 2 and not a.keywords
                    and isinstance(a.args[0], ast.Attribute)
                    and a.args[0].attr == 'get'
                    and isinstance(a.args[0].value, ast.Name)):
                dt, dk = self.expr(a.args[0].value, env, pre)
                lt, lk = self.expr(a.args[1], env, pre)
                rdk, rlk = resolve(dk), resolve(lk)
                if not (isinstance(rdk, tuple) and rdk[0] == 'dict'
                        and rdk[2] == 'bool' and isinstance(rlk, tuple)
                        and rlk[0] == 'list' and rlk[1] == rdk[1]):
                    raise Refuse(f'{_src(e)}: kinds {rdk}, {rlk}')
                self.note(f'`{_comment(_src(e))}`: dict.get gives None for '
                          'an absent key, which is the None of a bit value')
                return (f'(map (fun x => dict_get {eqb_of(rdk[1])} x {dt}) '
                        f'{lt})', L('obit'))
            t, k = self.expr(a, env, pre)
            rk = resolve(k)
            if isinstance(rk, tuple) and rk[0] == 'list':
                return t, k
            raise Refuse(f'{_src(e)}: list() of kind {rk}')
        if isinstance(e.func, ast.Attribute) and len(args) == 1 and \
                e.func.attr in ('difference', 'intersection'):
            st, sk = self.expr(e.func.value, env, pre)
            at, ak = self.expr(args[0], env, pre)
            rsk, rak = resolve(sk), resolve(ak)
            if not (isinstance(rsk, tuple) and rsk[0] == 'set'):
                raise Refuse(f'{_src(e)}: receiver of kind {rsk}')
            if isinstance(rak, tuple) and rak[0] == 'dict':
                test = f'dict_has {eqb_of(rak[1])} x {at}'
                ek = rak[1]
            elif isinstance(rak, tuple) and rak[0] in ('set', 'list'):
                if rak[1] is None:
                    return st, sk       # kinds still open in this pass
                test = f'mem {eqb_of(rak[1])} x {at}'
                ek = rak[1]
            else:
                raise Refuse(f'{_src(e)}: argument of kind {rak}')
            if rsk[1] != ek:
                raise Refuse(f'{_src(e)}: element kinds {rsk[1]} / {ek}')
            if e.func.attr == 'difference':
                test = f'negb ({test})'
            return f'(filter (fun x => {test}) {st})', ('set', rsk[1])
        raise Refuse(f'call {_src(e)}')


HEADER = r'''(* GENERATED by tools/py2coq_enum.py from
     omega/logic/bitvector.py      : _append_sign_bit
     omega/symbolic/enumeration.py : _enumerate_int, _take_product_iter,
                                     _bitfields_to_int_iter
   in the working tree of the omega repository.
   Do not edit; regenerated on every check run.

   Python names are prefixed with v_; t1, t2, ... are intermediate values.
   A function body is a term of [M S T] = option (final state * yielded
   values); None is any exception.  See tools/py2coq_enum.py for the subset
   and the notes at the end for everything that was skipped. *)
From Coq Require Import ZArith List Bool String.
From Omega Require Import L0Bits.Bits L3Context.Ctx.
Import ListNotations.
Open Scope Z_scope.

(* ---- fixed prelude: the meaning of the Python constructs used ----------- *)
Definition M (S T : Type) : Type := option (S * list T).
Definition m_ret {S T} (s : S) : M S T := Some (s, []).
Definition m_fail {S T} : M S T := None.
Definition m_yield {S T} (x : T) (k : M S T) : M S T :=
  match k with Some (s, l) => Some (s, x :: l) | None => None end.
Definition m_assert {S T} (c : bool) (k : M S T) : M S T :=
  if c then k else None.
Definition m_opt {A S T} (o : option A) (k : A -> M S T) : M S T :=
  match o with Some a => k a | None => None end.
Definition m_bind {A S T} (m : M A T) (k : A -> M S T) : M S T :=
  match m with
  | None => None
  | Some (a, l) =>
    match k a with Some (s, l') => Some (s, l ++ l') | None => None end
  end.
Fixpoint m_for {A S T} (body : S -> A -> M S T) (l : list A) (s : S)
    : M S T :=
  match l with
  | [] => m_ret s
  | x :: r => m_bind (body s x) (m_for body r)
  end.
(* run a generator to the end, then go on with the list of its values *)
Definition m_consume {A S T U} (g : M A T) (k : list T -> M S U) : M S U :=
  match g with Some (_, l) => k l | None => None end.
(* what a caller that lists a generator sees *)
Definition m_values {S T} (m : M S T) : option (list T) :=
  match m with Some (_, l) => Some l | None => None end.
Definition m_result {S T} (m : M S T) : option S :=
  match m with Some (s, _) => Some s | None => None end.

Definition is_nil {A} (l : list A) : bool :=
  match l with [] => true | _ :: _ => false end.
(* l[i] with Python's negative indices; IndexError = None *)
Definition py_index {A} (l : list A) (i : Z) : option A :=
  let n := Z.of_nat (List.length l) in
  if i <? 0 then (if i + n <? 0 then None else nth_error l (Z.to_nat (i + n)))
  else nth_error l (Z.to_nat i).
Definition py_pow (a b : Z) : option Z :=
  if b <? 0 then None else Some (a ^ b).
(* dict.popitem: the last inserted item *)
Definition py_popitem {K V} (d : list (K * V))
    : option (list (K * V) * (K * V)) :=
  match rev d with [] => None | kv :: r => Some (rev r, kv) end.
Definition dict_remove {K V} (eqb : K -> K -> bool) (k : K) (d : list (K * V))
    : list (K * V) :=
  filter (fun kv => negb (eqb k (fst kv))) d.
Definition dict_has {K V} (eqb : K -> K -> bool) (k : K) (d : list (K * V))
    : bool :=
  match dict_get eqb k d with Some _ => true | None => false end.

(* a table entry d = table[var] (a dict with string keys) *)
Record entry (bitname : Type) := mkEntry {
  e_type : string; e_bitnames : list bitname; e_signed : bool;
  e_dom : Z * Z; e_width : Z }.
Arguments mkEntry {bitname}.
Arguments e_type {bitname}.
Arguments e_bitnames {bitname}.
Arguments e_signed {bitname}.
Arguments e_dom {bitname}.
Arguments e_width {bitname}.

Section Gen.
(* names of bits: any type with a Boolean equality; [bool_bit x] is the bit of
   the Boolean variable x (Python: both are the same string) *)
Variable bitname : Type.
Variable bn_eqb : bitname -> bitname -> bool.
Variable bool_bit : string -> bitname.

'''
FOOTER = '\n\nEnd Gen.\n'
ORDER = [('bv', '_append_sign_bit'), ('enum', '_enumerate_int'),
         ('enum', '_take_product_iter'), ('enum', '_bitfields_to_int_iter')]


def translate(enum_path, bv_path):
    """Returns (Gallina text of the definitions, notes)."""
    tr = Translator({'enum': enum_path, 'bv': bv_path})
    out = []
    for tag, name in ORDER:
        fi = tr.translate_function(tag, name)
        out.append(tr.emit(fi))
    return '\n\n'.join(out), tr.notes


def file_text(enum_path, bv_path):
    text, notes = translate(enum_path, bv_path)
    body = HEADER + text + FOOTER
    body += ''.join(f'(* note: {_comment(n)} *)\n' for n in notes)
    return body


if __name__ == '__main__':
    import sys
    print(file_text(sys.argv[1], sys.argv[2]))
