"""C20 — graph-to-logic conversion yields exactly the graph's transitions.

Tie H: the REAL `omega.symbolic.logicizer.graph_to_logic` is run on generated
labelled multigraphs; the truth tables of its four BDDs (over ALL bit-range
valuations of the declared variables, current and next) are compared inside
Coq with the hand-written model `L6Graph.Logicizer.graph_to_logic`, about
which `Properties/C20.v` proves the property for all graphs.
"""
import concurrent.futures
import json
import multiprocessing
import os
import random

from vlib import core
from vlib import graph_gen as gg
from vlib import logicizer_gen
from vlib.core import Broken, Mismatch, Failing

ID = 'C20'
LEVEL = 'proof'
THEORIES = ['theories/L6Graph/GraphTables.vo',
            'theories/L6Graph/LogicizerProofs.vo']

HEADER = '''From Coq Require Import List Bool ZArith NArith.
Import ListNotations.
From Omega Require Import L6Graph.Formula L6Graph.Logicizer L6Graph.GraphTables.
Local Open Scope Z_scope.
'''

TABLES = ['env_init', 'sys_init', 'env_action', 'sys_action']
CORPUS = os.path.join(core.VERIF, 'corpus', 'C20')


def prove(ctx):
    with ctx.coq_lock():
        # tie T: regenerate gen/LogicizerGen.v from the current logicizer.py
        # and syntax.py, then re-prove GenProofs/LogicizerBridge.v (generated
        # code = model) and the statements built on it
        notes = logicizer_gen.ensure_logicizer(ctx)
        ctx.prove_with_deps('Properties/C20.v')
    ctx.extra['translation'] = dict(
        sources=logicizer_gen.SOURCES, functions=logicizer_gen.FUNCTIONS,
        generated='coq/gen/LogicizerGen.v',
        bridge='coq/GenProofs/LogicizerBridge.v',
        string_templates=logicizer_gen.templates().splitlines(),
        notes=notes)
    ctx.trusted.append(
        'translator tie T: tools/py2coq_logicizer.py (logicizer.py '
        'graph_to_logic, _graph_to_formulas, _sys_trans, _env_trans, '
        '_env_trans_from_sys_ts, _node_var_trans, _init_from_ts, _to_action, '
        '_assign, _prime_dict, _pstr, _nodevar_dom, _add_expr and syntax.py '
        'conj, disj, _associative_op, _recurse_op -> Gallina, proved equal '
        'to theories/L6Graph/{Formula,Logicizer}.v on every run). Trusted in '
        'it: the fixed table of string templates (which tree an f-string / '
        'concatenation is read as; printed in gen/LogicizerGen.v), the '
        'erasure of type hints (the three formats of _assign are read as '
        'the same atom; its ValueError / unknown-hint branches are not '
        'modelled), of the white-space separator, of logging; raise and '
        'assert become preconditions (code_accepts); everything skipped is '
        'listed as a note in the generated file and in the evidence')
    ctx.trusted.append(
        'tie H remains for: the string -> BDD step (`aut.add_expr`, C06\'s '
        'subject) and the meaning of the fixed label alphabet of '
        'tools/vlib/graph_gen.py (GraphTables.esem_alpha/nsem_alpha), both '
        'exercised by the truth-table correspondence of this check')
    ctx.trusted.append(
        'the graph record is read from the networkx object handed to '
        'graph_to_logic (g.nodes(data=True), g.edges(data=True), '
        'g.initial_nodes, g.vars, g.env_vars, g.owner) by '
        'tools/vlib/graph_gen.py tsys_lit; that g.edges(u, data=True) are '
        'the entries of g.edges(data=True) leaving u and that g.succ.get(u) '
        'is true iff there is one are networkx facts')


# ------------------------------------------------------------ one case
def _work(case):
    """Run the real code on one case (all its flag combinations); also the
    explicit oracle.  Returns a list of per-flags dicts (picklable)."""
    out = []
    try:
        lit = gg.tsys_lit(case)
    except Exception:          # reported by run_impl below
        lit = None
    for flags in case['flags']:
        flags = list(flags)
        r = dict(flags=flags, tsys=lit)
        try:
            aut, sp, tabs = gg.run_impl(case, flags)
        except gg.Rejected as e:
            r['rejected'] = str(e)
            out.append(r)
            continue
        except Exception as e:      # the property says these must succeed
            r['error'] = repr(e)
            out.append(r)
            continue
        r['tabs'] = {k: tabs[k] for k in TABLES}
        r['varlist'] = tabs['varlist']
        r['nd_dom'] = tabs['nd_dom']
        r['doms'] = sp.doms_literal()
        r['size'] = sp.size
        want = gg.oracle_tables(case, flags, sp)
        for k in TABLES:
            if tabs[k] != want[k]:
                r['oracle_diff'] = gg.describe_diff(sp, k, tabs[k], want[k])
                break
        own = case['owner'] + '_action'
        full = [(1 << sp.size) - 1] * sp.size
        r['nontrivial'] = (tabs[own] != full and any(tabs[own]))
        out.append(r)
    return out


def run_cases(cases):
    if len(cases) < 8 or core.NPROC <= 1:
        return [_work(c) for c in cases]
    mpc = multiprocessing.get_context('fork')
    with concurrent.futures.ProcessPoolExecutor(
            core.NPROC, mp_context=mpc) as ex:
        return list(ex.map(_work, cases, chunksize=8))


def expected_varlist(case):
    env = [k for k in case['vars'] if k in case['env_vars']]
    sys_ = [k for k in case['vars'] if k not in case['env_vars']]
    (sys_ if case['owner'] == 'sys' else env).append(gg.NODEVAR)
    return dict(env=sorted(env), sys=sorted(sys_))


def coq_group(i, case, results):
    lit = next((r['tsys'] for r in results if r.get('tsys')), None)
    if lit is None:
        return ('', []), []
    defs = [f'Definition g{i} := {lit}.']
    terms, keys = [], []
    for j, r in enumerate(results):
        if 'tabs' not in r:
            continue
        t = r['tabs']
        if not isinstance(t['env_init'], int) or \
                not isinstance(t['sys_init'], int):
            continue                 # reported separately
        ign, rec, sl = r['flags']
        defs.append(
            f'Definition r{i}_{j} : list bool := Eval vm_compute in\n'
            f'  agree {r["doms"]}\n'
            f'    (graph_to_logic ND {gg.blit(ign)} {gg.blit(rec)} '
            f'{gg.blit(sl)} g{i})\n'
            f'    {gg.nlit(t["env_init"])} {gg.nlit(t["sys_init"])}\n'
            f'    {gg.rle_lit(t["env_action"])}\n'
            f'    {gg.rle_lit(t["sys_action"])}.')
        for k, name in enumerate(TABLES):
            terms.append(f'nth {k} r{i}_{j} false')
            keys.append((i, j, name))
        ids = lambda names: '[' + '; '.join(gg.VAR_ID[n] for n in names) + ']'
        terms.append(f'agree_decl g{i} {gg.zlit(r["nd_dom"][0])} '
                     f'{gg.zlit(r["nd_dom"][1])} '
                     f'{ids(r["varlist"]["env"])} {ids(r["varlist"]["sys"])}')
        keys.append((i, j, 'declarations'))
    return ('\n'.join(defs), terms), keys


def gen_cases(ctx):
    """corpus + exhaustive family + random family."""
    rng = ctx.rng
    cases, fam = [], []
    if os.path.isdir(CORPUS):
        for fn in sorted(os.listdir(CORPUS)):
            if fn.endswith('.json'):
                with open(os.path.join(CORPUS, fn)) as f:
                    c = json.load(f)
                c = c.get('input') or c
                c.setdefault('flags', gg.ALL_FLAGS)
                cases.append(c)
                fam.append('corpus')
    if ctx.thorough:
        exh = list(gg.exhaustive_cases(3, 4, seed=ctx.seed))
        n_rand, nfl, max_bits = 2000, 8, 6
    else:
        # every multigraph with <= 2 nodes, and every 32nd with 3 nodes
        exh = list(gg.exhaustive_cases(2, 4, seed=ctx.seed))
        n2 = gg.exhaustive_count(2, 4)
        exh += [c for c in gg.exhaustive_cases(
            3, 4, seed=ctx.seed, stride=32, offset=ctx.seed)
            if c['exh_index'] >= n2]
        n_rand, nfl, max_bits = 400, 4, 6
    cases += exh
    fam += ['exhaustive'] * len(exh)
    for _ in range(n_rand):
        c = gg.random_case(rng, max_nodes=5, max_bits=max_bits)
        c['flags'] = (gg.ALL_FLAGS if nfl == 8
                      else rng.sample(gg.ALL_FLAGS, nfl))
        cases.append(c)
        fam.append('random')
    # larger state spaces (128 valuations, 16384 pairs per action table)
    for _ in range(200 if ctx.thorough else 12):
        c = gg.random_case(rng, max_nodes=5, max_bits=7)
        c['flags'] = rng.sample(gg.ALL_FLAGS, 2)
        cases.append(c)
        fam.append('random')
    return cases, fam


def _case_json(case, flags=None):
    c = {k: case[k] for k in ('vars', 'env_vars', 'owner', 'nodes', 'edges',
                              'initial', 'backend', 'int_bool')
         if k in case}
    c['flags'] = [list(flags)] if flags is not None else case.get('flags')
    return c


def correspond(ctx):
    cases, fam = gen_cases(ctx)
    ctx.log(f'{len(cases)} graphs; running the real graph_to_logic')
    results = run_cases(cases)
    mism = []
    stats = dict(graphs=len(cases), runs=0, rejected=0, by_family={},
                 by_owner={}, by_flags={}, nodes_hist={}, edges_hist={},
                 states_hist={}, backends={}, dead_end_graphs=0,
                 multi_edge_graphs=0)
    nontrivial = 0
    groups, allkeys = [], []
    for i, (case, res) in enumerate(zip(cases, results)):
        stats['by_family'][fam[i]] = stats['by_family'].get(fam[i], 0) + 1
        n, m = len(case['nodes']), len(case['edges'])
        stats['nodes_hist'][n] = stats['nodes_hist'].get(n, 0) + 1
        stats['edges_hist'][m] = stats['edges_hist'].get(m, 0) + 1
        srcs = {e[0] for e in case['edges']}
        if any(u not in srcs for u, _ in case['nodes']):
            stats['dead_end_graphs'] += 1
        pairs = [(e[0], e[1]) for e in case['edges']]
        if len(pairs) != len(set(pairs)):
            stats['multi_edge_graphs'] += 1
        b = case.get('backend', 'cudd')
        stats['backends'][b] = stats['backends'].get(b, 0) + 1
        for r in res:
            fl = r['flags']
            if 'rejected' in r:
                stats['rejected'] += 1
                rr = stats.setdefault('rejected_reasons', {})
                rr[r['rejected']] = rr.get(r['rejected'], 0) + 1
                continue
            if 'error' in r:
                mism.append(Mismatch(
                    'graph_to_logic raised on a consistent transition system',
                    _case_json(case, fl), impl=r['error'],
                    property_fails=True))
                continue
            stats['runs'] += 1
            o = case['owner']
            stats['by_owner'][o] = stats['by_owner'].get(o, 0) + 1
            fk = ''.join('T' if x else 'F' for x in fl)
            stats['by_flags'][fk] = stats['by_flags'].get(fk, 0) + 1
            stats['states_hist'][r['size']] = \
                stats['states_hist'].get(r['size'], 0) + 1
            nontrivial += bool(r['nontrivial'])
            for k in ('env_init', 'sys_init'):
                if not isinstance(r['tabs'][k], int):
                    mism.append(Mismatch(
                        f'{k} is not a state predicate', _case_json(case, fl),
                        impl=str(r['tabs'][k]), property_fails=True))
            if r['varlist'] != expected_varlist(case):
                mism.append(Mismatch(
                    'variable ownership: the node variable must belong to '
                    'the owner, env_vars to env, the rest to sys',
                    _case_json(case, fl), impl=r['varlist'],
                    model=expected_varlist(case), property_fails=True))
            if 'oracle_diff' in r:
                mism.append(Mismatch(
                    'explicit-graph oracle disagrees with the implementation',
                    _case_json(case, fl), impl=r['oracle_diff'],
                    property_fails=True))
        g, keys = coq_group(i, case, res)
        if keys:
            groups.append(g)
            allkeys += keys
    ctx.log(f'{stats["runs"]} runs; evaluating the model in Coq '
            f'({len(allkeys)} table comparisons)')
    try:
        res = ctx.eval_groups('corr', HEADER, groups, shard=480)
    except Broken as b:
        if b.tie == 'infra' and not os.path.exists(os.path.join(
                core.COQ, 'theories/L6Graph/GraphTables.vo')):
            return mism + [Mismatch('model unavailable', None)]
        raise
    for (i, j, name), ok in zip(allkeys, res):
        if not ok:
            mism.append(Mismatch(
                f'{name} differs from the Coq model',
                dict(_case_json(cases[i], results[i][j]['flags']),
                     table=name),
                impl=_short(results[i][j]['tabs'][name]
                            if name in TABLES else
                            dict(nd_dom=results[i][j]['nd_dom'],
                                 varlist=results[i][j]['varlist']))))
    ctx.cov['evaluations'] += len(res)
    ctx.cov['distinct_nontrivial'] += nontrivial
    ctx.cov['exhaustive'] = (
        'all multigraphs with <= 3 nodes and <= 4 edges over the 3-label '
        'edge alphabet EXH_ELABELS (33320 graphs)' if ctx.thorough else
        'all multigraphs with <= 2 nodes and <= 4 edges over EXH_ELABELS '
        '(1855 graphs) and every 32nd of the 3-node ones')
    ctx.cov['rule'] = (
        'exhaustive family: multigraphs on nodes 0..n-1 (edges = multisets '
        'of (u, v, label), label in {none, partial assignment to a primed '
        'variable, formula over a primed variable + assignment}); owner, '
        'flags (ignore_initial, receptive, self_loops), node labels, initial '
        'nodes, back end drawn per graph. random family: 1-5 nodes with '
        'arbitrary (also negative, non-contiguous) integer ids, 0-8 edges '
        'with parallel edges, labels = optional formula from a 10-formula '
        "edge / 7-formula node alphabet or '' / 'TRUE' / 'FALSE', plus 0-3 "
        'assignments to x, x\', y, y\', z, z\' and to an undeclared key; y in '
        '0..1, 0..2, 0..3 or -1..1; env_vars random; both owners; flags: '
        'all 8 combinations (thorough) or 4 of them (quick); both dd back '
        'ends; 8-64 valuations per case, plus a few cases with 128 '
        '(16384 pairs per action table); 4% of the random graphs give a '
        'Boolean as 0/1 (refused by logicizer._assign: counted as '
        'rejected), graphs without initial nodes with ignore_initial=False '
        'are rejected too. Compared per run: truth tables of env/sys init '
        'and env/sys action over ALL bit-range valuations (current x next), '
        'the declared range of the node variable and the env/sys variable '
        'lists, with the Gallina model evaluated by vm_compute; every run '
        'is also compared with a direct explicit-graph evaluation of the '
        'property statement (search oracle). non-trivial = owner action '
        'neither empty nor full')
    k = next((i for i, f in enumerate(fam) if f == 'random'), 0)
    ctx.cov['samples'] = [dict(_case_json(cases[k]),
                               result={n: _short(v) for n, v in
                                       results[k][0].get('tabs', {}).items()})]
    stats['comparisons'] = len(res)
    stats['mismatches'] = len(mism)
    stats['oracle_crosschecked_runs'] = stats['runs']
    ctx.extra['correspondence'] = stats
    return mism


def _short(t):
    s = str(t)
    return s if len(s) < 400 else s[:400] + '...'


# ---------------------------------------------------------------- search
def oracle_check(case, flags):
    """Failing or None: the real code against the property statement."""
    try:
        aut, sp, tabs = gg.run_impl(case, list(flags))
    except gg.Rejected:
        return None
    except Exception as e:
        return Failing('graph_to_logic raised ' + repr(e),
                       _case_json(case, flags),
                       replay_cmd='./check C20 --replay <this file>')
    want = gg.oracle_tables(case, list(flags), sp)
    for k in TABLES:
        if tabs[k] != want[k]:
            d = gg.describe_diff(sp, k, tabs[k], want[k])
            return Failing(
                f'{k} of graph_to_logic is wrong at {d}',
                _case_json(case, flags), expected=d.get('required'),
                got=d.get('implementation'),
                replay_cmd='./check C20 --replay <this file>')
    if tabs['varlist'] != expected_varlist(case):
        return Failing('variable ownership wrong', _case_json(case, flags),
                       expected=expected_varlist(case), got=tabs['varlist'],
                       replay_cmd='./check C20 --replay <this file>')
    return None


def shrink(case, flags):
    """Greedy: drop edges, nodes, label entries while it still fails."""
    case = json.loads(json.dumps(_case_json(case, flags)))

    def fails(c):
        try:
            return oracle_check(c, flags) is not None
        except Exception:
            return False
    changed = True
    while changed:
        changed = False
        for i in range(len(case['edges'])):
            c = json.loads(json.dumps(case))
            del c['edges'][i]
            if fails(c):
                case, changed = c, True
                break
        if changed:
            continue
        for i in range(len(case['nodes'])):
            if len(case['nodes']) == 1:
                break
            u = case['nodes'][i][0]
            c = json.loads(json.dumps(case))
            del c['nodes'][i]
            c['edges'] = [e for e in c['edges'] if u not in (e[0], e[1])]
            c['initial'] = [x for x in c['initial'] if x != u]
            if fails(c):
                case, changed = c, True
                break
        if changed:
            continue
        for lab in [n[1] for n in case['nodes']] + \
                [e[2] for e in case['edges']]:
            for k in list(lab):
                v = lab.pop(k)
                if fails(case):
                    changed = True
                    break
                lab[k] = v
            if changed:
                break
    return case


def search(ctx, broken, mismatches):
    out = []
    for m in mismatches:
        if not m.case or 'nodes' not in m.case:
            continue
        for flags in m.case.get('flags') or gg.ALL_FLAGS:
            f = oracle_check(m.case, flags)
            if f:
                small = shrink(m.case, flags)
                out.append(oracle_check(small, flags) or f)
                return out
    budget = 3000 if ctx.thorough else 600
    rng = random.Random(ctx.seed + 77)
    for i in range(budget):
        case = gg.random_case(rng, max_nodes=4, max_bits=5)
        for flags in rng.sample(gg.ALL_FLAGS, 3):
            f = oracle_check(case, flags)
            if f:
                small = shrink(case, flags)
                out.append(oracle_check(small, flags) or f)
                return out
    return out


def replay(path):
    with open(path) as f:
        d = json.load(f)
    case = d.get('input') or d.get('case')
    if not case or 'nodes' not in case:
        for m in d.get('correspondence_mismatches', []):
            if m.get('case') and 'nodes' in m['case']:
                case = m['case']
                break
    if not case:
        print('no input in replay file')
        return 2
    status = 0
    for flags in case.get('flags') or gg.ALL_FLAGS:
        f = oracle_check(case, flags)
        if f:
            print('still fails:', f.what)
            status = 1
    if not status:
        print('passes')
    return status
