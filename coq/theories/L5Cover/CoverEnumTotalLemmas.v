(* L5Cover / CoverEnumTotalLemmas: the two enumerations of cover_enum.py do
   not fail (none of their assertions is violated) on the inputs that the
   repaired _cyclic_core_fixpoint_recursive gives them:

   - [enumerate_below_total] (_enumerate_mincovers_below): [lm] is a
     duplicate-free irredundant cover of X by pairwise incomparable elements
     of Y;
   - [enumerate_unfloor_total] (_enumerate_mincovers_unfloor): no element of
     Y lies above two different elements of the cover by floors (true for
     minimum covers);
   - [from_floor_total], [from_unfloor_total]: including the assertions that
     compare the numbers of covers. *)
From Coq Require Import List ZArith Bool Lia Arith SetoidList.
Import ListNotations.
From Omega Require Import L5Cover.Boxes L5Cover.BoxesProofs L5Cover.MinCover
  L5Cover.MinCoverProofs L5Cover.CyclicCoreOpt L5Cover.CoverEnum
  L5Cover.CyclicCoreTotal L5Cover.CoverEnumProofs L5Cover.CoverEnumLemmas.
Open Scope Z_scope.

(* ------------------------------------------------------------ folds that do not fail *)
Lemma fold_right_bind_app_total {A B} (g : A -> res (list B)) l :
  (forall p, In p l -> exists news, g p = inl news) ->
  exists next,
    fold_right (fun p acc =>
      bind acc (fun done => bind (g p) (fun news => ok (news ++ done)))) (ok []) l = inl next.
Proof.
  match goal with |- context [fold_right ?f _ _] => set (F := f) end.
  induction l as [|p l IH]; intros H; [exists []; reflexivity|].
  destruct IH as [done Hd]; [intros q Hq; apply H; right; exact Hq|].
  destruct (H p (or_introl eq_refl)) as [news Hn].
  exists (news ++ done).
  change (F p (fold_right F (ok []) l) = inl (news ++ done)).
  rewrite Hd. unfold F. cbn [bind]. rewrite Hn. reflexivity.
Qed.

Lemma fold_right_bind_cons_total (h : box -> list box) (k : nat) (E : err) succ :
  (forall z, In z succ -> length (h z) = k) ->
  exists news,
    fold_right (fun z acc =>
      bind acc (fun news =>
        let new := h z in
        if Nat.eqb (length new) k then ok (new :: news) else fail E)) (ok []) succ = inl news.
Proof.
  match goal with |- context [fold_right ?f _ _] => set (F := f) end.
  induction succ as [|z succ IH]; intros H; [exists []; reflexivity|].
  destruct IH as [nw Hn]; [intros q Hq; apply H; right; exact Hq|].
  exists (h z :: nw).
  change (F z (fold_right F (ok []) succ) = inl (h z :: nw)).
  rewrite Hn. unfold F. cbn [bind]. cbv zeta.
  rewrite (H z (or_introl eq_refl)), Nat.eqb_refl. reflexivity.
Qed.

Lemma fold_left_bind_union_total {A} (h : A -> res family) l : forall init,
  (forall c, In c l -> exists b, h c = inl b) ->
  exists r,
    fold_left (fun acc c =>
      bind acc (fun done => bind (h c) (fun b => ok (union_fam done b)))) l (inl init) = inl r.
Proof.
  induction l as [|c l IH]; intros init H; cbn [fold_left]; [eexists; reflexivity|].
  destruct (H c (or_introl eq_refl)) as [b Hb]. cbn [bind]. rewrite Hb. cbn [bind ok].
  apply IH. intros c' Hc'. apply H. right. exact Hc'.
Qed.

Lemma NoDup_app_r {A} (l l' : list A) : NoDup (l ++ l') -> NoDup l'.
Proof. induction l as [|a l IH]; cbn; intros H; [exact H|]. inversion H; subst. apply IH. assumption. Qed.

Lemma NoDup_app_disj {A} (l l' : list A) a : NoDup (l ++ l') -> In a l -> In a l' -> False.
Proof.
  induction l as [|b l IH]; cbn; intros H Ha Ha'; [destruct Ha|].
  inversion H as [|? ? Hn Hnd]; subst. destruct Ha as [->|Ha].
  - apply Hn. apply in_app_iff. right. exact Ha'.
  - apply (IH Hnd Ha Ha').
Qed.

(* ------------------------------------------------------------ counting covers up to order *)
Definition distinct (F : family) : Prop := NoDupA same_set F.

Lemma same_set_equiv : Equivalence same_set.
Proof.
  constructor.
  - intros K. apply same_set_refl.
  - intros K K'. apply same_set_sym.
  - intros K1 K2 K3. apply same_set_trans.
Qed.

Lemma InA_has F c : InA same_set c F <-> has F c.
Proof.
  rewrite InA_alt. unfold has. split; intros [c' [A B]]; exists c'; tauto.
Qed.

Lemma add_cover_distinct c F : distinct F -> distinct (add_cover c F).
Proof.
  intros H. unfold add_cover. destruct (anyb (same_setb c) F) eqn:E; [exact H|].
  apply (NoDupA_app same_set_equiv); [exact H | constructor; [intros Hc; inversion Hc | constructor]|].
  intros x Hx Hx'. inversion Hx' as [? ? Hs|? ? Hn]; subst; [|inversion Hn].
  apply InA_has in Hx. destruct Hx as [d [Hd Hxd]].
  assert (T : anyb (same_setb c) F = true).
  { rewrite anyb_existsb. apply existsb_exists. exists d. split; [exact Hd|].
    apply same_setb_true. apply same_set_trans with x; [apply same_set_sym, Hs | exact Hxd]. }
  congruence.
Qed.

Lemma union_fam_distinct G : forall F, distinct F -> distinct (union_fam F G).
Proof.
  unfold union_fam. induction G as [|c G IH]; intros F H; cbn [fold_left]; [exact H|].
  apply IH, add_cover_distinct, H.
Qed.

Lemma distinct_nil : distinct [].
Proof. constructor. Qed.

(* an injection up to order bounds the number of covers *)
Lemma distinct_count (phi : list box -> list box) F : forall G,
  distinct F ->
  (forall c, In c F -> has G (phi c)) ->
  (forall c c', In c F -> In c' F -> same_set (phi c) (phi c') -> same_set c c') ->
  (length F <= length G)%nat.
Proof.
  induction F as [|c F IH]; intros G HD Hhas Hinj; cbn [length]; [lia|].
  inversion HD as [|? ? Hn HD']; subst.
  destruct (Hhas c (or_introl eq_refl)) as [g [Hg Hs]].
  pose proof (remove_length_lt (list_eq_dec box_eq_dec) G g Hg) as Hlt.
  assert (L : (length F <= length (remove (list_eq_dec box_eq_dec) g G))%nat).
  { apply IH; [exact HD' | |].
    - intros c' Hc'. destruct (Hhas c' (or_intror Hc')) as [g' [Hg' Hs']].
      exists g'. split; [|exact Hs']. apply in_in_remove; [|exact Hg'].
      intros ->. apply Hn. apply InA_has. exists c'. split; [exact Hc'|].
      apply (Hinj c c' (or_introl eq_refl) (or_intror Hc')).
      apply same_set_trans with g; [exact Hs | apply same_set_sym, Hs'].
    - intros c1 c2 H1 H2. apply Hinj; right; assumption. }
  lia.
Qed.

(* a cover in which every element is needed *)
Definition irredundant (lm X : list box) : Prop :=
  forall m, In m lm -> exists x, In x X /\ box_le x m /\
                                 forall m', In m' lm -> m' <> m -> ~ box_le x m'.

Section Enumerations.
Variable X Y : list box.

(* ------------------------------------------------------------ _enumerate_mincovers_below *)
(* the partial covers at a level: [done] ++ [tail] = lm *)
Definition below_inv (done tail p : list box) : Prop :=
  Forall2 (fun m z => In z Y /\ box_le z m) done p /\ NoDup p /\ cov (p ++ tail) X.

Lemma below_inv_disjoint done tail p w :
  NoDup (done ++ tail) -> antichain (done ++ tail) ->
  below_inv done tail p -> In w p -> ~ In w tail.
Proof.
  intros Hnd Hac [HF _] Hw Hwt.
  destruct (Forall2_In_r _ _ _ _ HF Hw) as [m [Hm [_ Hle]]].
  assert (w = m).
  { apply Hac; [apply in_app_iff; right; exact Hwt | apply in_app_iff; left; exact Hm | exact Hle]. }
  subst w. apply (NoDup_app_disj done tail m Hnd Hm Hwt).
Qed.

Lemma union_disjoint_app (p tail : list box) :
  (forall w, In w p -> ~ In w tail) -> union p tail = p ++ tail.
Proof.
  intros H. unfold union, diff. f_equal. apply filter_all_true.
  intros a Ha. apply negb_true_iff. destruct (mem_box p a) eqn:E; [|reflexivity].
  apply mem_box_true in E. exfalso. apply (H a E Ha).
Qed.

Lemma union_single_app (p : list box) z : ~ In z p -> union p [z] = p ++ [z].
Proof. intros H. apply union_disjoint_app. intros w Hw [<-|[]]. apply H, Hw. Qed.

Lemma Forall2_app_single {A B} (R : A -> B -> Prop) l l' a b :
  Forall2 R l l' -> R a b -> Forall2 R (l ++ [a]) (l' ++ [b]).
Proof. intros H Hab. apply Forall2_app; [exact H | constructor; [exact Hab | constructor]]. Qed.

Lemma below_expand_total n k done m tail' p :
  let lm := done ++ m :: tail' in
  NoDup lm -> antichain lm -> incl lm Y -> irredundant lm X ->
  n = length lm -> k = S (length done) ->
  below_inv done (m :: tail') p ->
  exists news, below_expand n k (m :: tail') X Y p = inl news /\ news <> [] /\
               forall q, In q news -> below_inv (done ++ [m]) tail' q.
Proof.
  intros lm Hnd Hac Hin Hirr Hn Hk Hinv.
  pose proof (fun w => below_inv_disjoint done (m :: tail') p w Hnd Hac Hinv) as Hdis.
  destruct Hinv as [HF [HpN Hcov]].
  assert (Hm_lm : In m lm) by (apply in_app_iff; right; left; reflexivity).
  assert (Hlen : length (union p (m :: tail')) = n).
  { rewrite (union_disjoint_app p (m :: tail') Hdis), app_length, Hn.
    unfold lm. rewrite app_length. f_equal.
    clear -HF. induction HF; cbn; congruence. }
  (* the elements of the current cover other than m *)
  assert (Hother : forall o, In o (diff (union p (m :: tail')) [m]) <->
                             (In o p \/ In o tail') /\ o <> m).
  { intros o. rewrite diff_In, union_In. split.
    - intros [[Ho|[Ho|Ho]] Hne].
      + split; [left; exact Ho|]. intros ->. apply Hne. left. reflexivity.
      + exfalso. apply Hne. left. exact Ho.
      + split; [right; exact Ho|]. intros ->. apply Hne. left. reflexivity.
    - intros [[Ho|Ho] Hne].
      + split; [left; exact Ho|]. intros [E|[]]. apply Hne. symmetry. exact E.
      + split; [right; right; exact Ho|]. intros [E|[]]. apply Hne. symmetry. exact E. }
  (* m has a private element, which the other elements do not cover *)
  destruct (Hirr m Hm_lm) as [xs [Hxs [Hxsm Hpriv]]].
  assert (Hxs_other : forall o, In o (diff (union p (m :: tail')) [m]) -> ~ box_le xs o).
  { intros o Ho Hle. apply Hother in Ho. destruct Ho as [[Ho|Ho] Hne].
    - destruct (Forall2_In_r _ _ _ _ HF Ho) as [mj [Hmj [_ Hoj]]].
      apply (Hpriv mj); [apply in_app_iff; left; exact Hmj | |apply box_le_trans with o; assumption].
      intros ->. apply (NoDup_app_disj done (m :: tail') m Hnd Hmj). left. reflexivity.
    - apply (Hpriv o); [apply in_app_iff; right; right; exact Ho | exact Hne | exact Hle]. }
  unfold below_expand.
  assert (HmY : mem_box Y m = true) by (apply mem_box_true, Hin, Hm_lm).
  rewrite HmY. cbn [check]. cbv zeta. rewrite Hlen, Nat.eqb_refl. cbn [negb].
  (* _below_and_suff does not fail *)
  set (other := diff (union p (m :: tail')) [m]) in *.
  set (xsig := filter (fun p0 => negb (anyb (box_leb p0) other)) X).
  assert (Hxsig : forall x, In x xsig <-> In x X /\ forall o, In o other -> ~ box_le x o).
  { intros x. unfold xsig. rewrite filter_In, negb_true_iff, anyb_existsb. split.
    - intros [Hx Hn']. split; [exact Hx|]. intros o Ho Hle.
      assert (T : existsb (box_leb x) other = true).
      { apply existsb_exists. exists o. split; [exact Ho | apply box_leb_true, Hle]. }
      congruence.
    - intros [Hx Hno]. split; [exact Hx|]. destruct (existsb (box_leb x) other) eqn:E; [|reflexivity].
      apply existsb_exists in E. destruct E as [o [Ho Hle]]. exfalso.
      apply (Hno o Ho). apply box_leb_true, Hle. }
  assert (Hxs_sig : In xs xsig) by (apply Hxsig; split; assumption).
  assert (Hsig_m : forall x, In x xsig -> box_le x m).
  { intros x Hx. apply Hxsig in Hx. destruct Hx as [Hx Hno].
    destruct (Hcov x Hx) as [w [Hw Hle]]. apply in_app_iff in Hw.
    destruct Hw as [Hw|[<-|Hw]]; [| exact Hle |].
    - exfalso. apply (Hno w); [|exact Hle]. apply Hother. split; [left; exact Hw|].
      intros ->. apply (Hdis m Hw). left. reflexivity.
    - exfalso. apply (Hno w); [|exact Hle]. apply Hother. split; [right; exact Hw|].
      intros ->. apply NoDup_app_r in Hnd. inversion Hnd; contradiction. }
  assert (Hbs : exists succ, below_and_suff m (union p (m :: tail')) X Y = inl succ /\ In m succ).
  { unfold below_and_suff. fold other. cbv zeta. fold xsig.
    assert (E1 : negb (is_nil xsig) = true) by (destruct xsig; [destruct Hxs_sig | reflexivity]).
    rewrite E1. cbn [check].
    set (yonly := filter (fun q => allb (fun p0 => box_leb p0 q) xsig) Y).
    assert (Hm1 : In m yonly).
    { apply filter_In. split; [apply Hin, Hm_lm|]. rewrite allb_forallb. apply forallb_forall.
      intros x Hx. apply box_leb_true, Hsig_m, Hx. }
    assert (E2 : negb (is_nil yonly) = true) by (destruct yonly; [destruct Hm1 | reflexivity]).
    rewrite E2. cbn [check].
    set (yk := filter (fun p0 => box_leb p0 m) yonly).
    assert (Hm2 : In m yk).
    { apply filter_In. split; [exact Hm1 | apply box_leb_true, box_le_refl]. }
    assert (E3 : negb (is_nil yk) = true) by (destruct yk; [destruct Hm2 | reflexivity]).
    rewrite E3. cbn [check]. exists yk. split; [reflexivity | exact Hm2]. }
  destruct Hbs as [succ [Hsucc Hm_succ]]. rewrite Hsucc. cbn [bind].
  (* every successor is new *)
  assert (Hz : forall z, In z succ ->
             In z Y /\ box_le z m /\ (forall x, In x xsig -> box_le x z) /\ ~ In z p).
  { intros z Hz. apply (below_and_suff_In _ _ _ _ _ z Hsucc) in Hz.
    destruct Hz as [HzY [Hzm Hall]]. split; [exact HzY|]. split; [exact Hzm|].
    assert (Hall' : forall x, In x xsig -> box_le x z).
    { intros x Hx. apply Hxsig in Hx. apply Hall; apply Hx. }
    split; [exact Hall'|]. intros Hzp.
    apply (Hxs_other z); [|apply Hall', Hxs_sig].
    apply Hother. split; [left; exact Hzp|]. intros ->. apply (Hdis m Hzp). left. reflexivity. }
  destruct (fold_right_bind_cons_total (fun z => union p [z]) k E425 succ) as [news Hnews].
  { intros z Hzs. destruct (Hz z Hzs) as [_ [_ [_ Hnp]]].
    rewrite (union_single_app p z Hnp), app_length, Hk. cbn.
    assert (length p = length done) by (clear -HF; induction HF; cbn; congruence). lia. }
  exists news. split; [exact Hnews|].
  destruct (fold_right_bind_cons (fun z => union p [z]) k E425 succ news Hnews) as [Hfw Hbk].
  split.
  - intros En. specialize (Hfw m Hm_succ). rewrite En in Hfw. destruct Hfw.
  - intros q Hq. destruct (Hbk q Hq) as [z [Hzs ->]].
    destruct (Hz z Hzs) as [HzY [Hzm [Hall Hnp]]].
    rewrite (union_single_app p z Hnp). split; [|split].
    + apply Forall2_app_single; [exact HF | split; assumption].
    + apply NoDup_app_disjoint; [exact HpN | constructor; [intros []|constructor]|].
      intros b Hb [<-|[]]. apply Hnp, Hb.
    + intros x Hx. destruct (Hcov x Hx) as [w [Hw Hle]].
      apply in_app_iff in Hw. destruct Hw as [Hw|[<-|Hw]].
      * exists w. split; [apply in_app_iff; left; apply in_app_iff; left; exact Hw | exact Hle].
      * (* x was covered by m: either z covers it or another element does *)
        destruct (anyb (box_leb x) other) eqn:Ea.
        -- rewrite anyb_existsb in Ea. apply existsb_exists in Ea. destruct Ea as [o [Ho Hxo]].
           apply box_leb_true in Hxo. apply Hother in Ho. destruct Ho as [[Ho|Ho] _].
           ++ exists o. split; [apply in_app_iff; left; apply in_app_iff; left; exact Ho | exact Hxo].
           ++ exists o. split; [apply in_app_iff; right; exact Ho | exact Hxo].
        -- exists z. split; [apply in_app_iff; left; apply in_app_iff; right; left; reflexivity|].
           apply Hall. unfold xsig. apply filter_In. split; [exact Hx | rewrite Ea; reflexivity].
      * exists w. split; [apply in_app_iff; right; exact Hw | exact Hle].
Qed.

Lemma below_levels_total : forall tail done n k partials,
  let lm := done ++ tail in
  NoDup lm -> antichain lm -> incl lm Y -> irredundant lm X ->
  n = length lm -> k = S (length done) ->
  (forall p, In p partials -> below_inv done tail p) ->
  exists r, below_levels n k tail X Y partials = inl r /\
            (partials <> [] -> r <> []) /\
            forall q, In q r -> below_inv lm [] q.
Proof.
  induction tail as [|m tail' IH]; intros done n k partials lm Hnd Hac Hin Hirr Hn Hk Hp.
  - cbn [below_levels]. exists partials. split; [reflexivity|]. split; [auto|].
    intros q Hq. unfold lm. rewrite app_nil_r. apply Hp, Hq.
  - destruct (fold_right_bind_app_total (below_expand n k (m :: tail') X Y) partials)
      as [next Hnext].
    { intros p Hpp. destruct (below_expand_total n k done m tail' p Hnd Hac Hin Hirr Hn Hk (Hp p Hpp))
        as [news [A _]]. exists news. exact A. }
    assert (Eb : below_levels n k (m :: tail') X Y partials =
                 bind (inl next) (fun nx => below_levels n (S k) tail' X Y nx)).
    { cbn [below_levels]. rewrite <- Hnext. reflexivity. }
    rewrite Eb. cbn [bind].
    destruct (fold_right_bind_app _ _ _ Hnext) as [Hfw Hbk].
    assert (Elm : lm = (done ++ [m]) ++ tail') by (unfold lm; rewrite <- app_assoc; reflexivity).
    destruct (IH (done ++ [m]) n (S k) next) as [r [Hr [Hne Hq]]].
    + rewrite <- Elm. exact Hnd.
    + rewrite <- Elm. exact Hac.
    + rewrite <- Elm. exact Hin.
    + rewrite <- Elm. exact Hirr.
    + rewrite <- Elm. exact Hn.
    + rewrite app_length. cbn. lia.
    + intros q Hq. destruct (Hbk q Hq) as [p [news [Hpp [Hexp Hqn]]]].
      destruct (below_expand_total n k done m tail' p Hnd Hac Hin Hirr Hn Hk (Hp p Hpp))
        as [news' [A [_ B]]]. rewrite A in Hexp. inversion Hexp; subst news'. apply B, Hqn.
    + exists r. split; [exact Hr|]. split.
      * intros Hpne. apply Hne. destruct partials as [|p0 ps]; [contradiction|].
        destruct (Hfw p0 (or_introl eq_refl)) as [news [Hexp Hinc]].
        destruct (below_expand_total n k done m tail' p0 Hnd Hac Hin Hirr Hn Hk
                    (Hp p0 (or_introl eq_refl))) as [news' [A [Bne _]]].
        rewrite A in Hexp. inversion Hexp; subst news'.
        destruct news as [|q0 ?]; [contradiction|]. intros En.
        specialize (Hinc q0 (or_introl eq_refl)). rewrite En in Hinc. destruct Hinc.
      * intros q Hqr. rewrite Elm. apply Hq, Hqr.
Qed.

Lemma enumerate_below_total lm :
  lm <> [] -> NoDup lm -> antichain lm -> incl lm Y -> cov lm X -> irredundant lm X ->
  exists r, enumerate_below lm X Y = inl r /\ r <> [] /\
            forall q, In q r ->
              NoDup q /\ incl q Y /\ cov q X /\ length q = length lm.
Proof.
  intros Hne Hnd Hac Hin Hcov Hirr. unfold enumerate_below.
  assert (E1 : inclb lm Y = true) by (apply inclb_true, Hin). rewrite E1. cbn [check]. cbv zeta.
  assert (E2 : Nat.leb 1 (length lm) = true) by (destruct lm; [contradiction | reflexivity]).
  rewrite E2. cbn [check].
  destruct (below_levels_total lm [] (length lm) 1%nat [[]]) as [r [Hr [Hrne Hq]]];
    try assumption; try reflexivity.
  { intros p [<-|[]]. split; [constructor|]. split; [constructor | exact Hcov]. }
  cbn [app] in *. rewrite Hr. cbn [bind]. cbv zeta.
  assert (Hne' : union_fam [] r <> []).
  { intros En. assert (Hr0 : r <> []) by (apply Hrne; discriminate).
    destruct r as [|q0 r']; [contradiction|].
    destruct (union_fam_has_r (q0 :: r') [] q0 (or_introl eq_refl)) as [d [Hd _]].
    rewrite En in Hd. destruct Hd. }
  assert (E3 : negb (is_nil (union_fam [] r)) = true)
    by (destruct (union_fam [] r); [contradiction | reflexivity]).
  rewrite E3. cbn [check]. exists (union_fam [] r). split; [reflexivity|]. split; [exact Hne'|].
  intros q Hq'. destruct (union_fam_In _ _ _ Hq') as [[]|Hqr].
  destruct (Hq q Hqr) as [HF [HqN Hqc]]. rewrite app_nil_r in Hqc.
  split; [exact HqN|]. split; [|split; [exact Hqc|]].
  - intros z Hz. destruct (Forall2_In_r _ _ _ _ HF Hz) as [m [_ [HzY _]]]. exact HzY.
  - clear -HF. induction HF; cbn; congruence.
Qed.

(* ------------------------------------------------------------ _enumerate_mincovers_unfloor *)
(* no element of Y lies above two different elements of the cover *)
Definition injective_above (cf : list box) : Prop :=
  forall y f f', In y Y -> In f cf -> In f' cf -> box_le f y -> box_le f' y -> f = f'.

Definition unfloor_inv (done p : list box) : Prop :=
  Forall2 (fun f y => In y Y /\ box_le f y) done p /\ NoDup p.

Lemma unfloor_levels_total : forall tail done k partials,
  let cf := done ++ tail in
  NoDup cf -> injective_above cf ->
  (forall f, In f cf -> exists y, In y Y /\ box_le f y) ->
  k = S (length done) ->
  (forall p, In p partials -> unfloor_inv done p) ->
  exists r, unfloor_levels k tail Y partials = inl r /\
            (partials <> [] -> r <> []) /\
            forall q, In q r -> unfloor_inv cf q.
Proof.
  induction tail as [|f tail' IH]; intros done k partials cf Hnd Hinj Hab Hk Hp.
  - cbn [unfloor_levels]. exists partials. split; [reflexivity|]. split; [auto|].
    intros q Hq. unfold cf. rewrite app_nil_r. apply Hp, Hq.
  - assert (Hf_cf : In f cf) by (apply in_app_iff; right; left; reflexivity).
    destruct (Hab f Hf_cf) as [y0 [Hy0 Hfy0]].
    assert (Hsucc0 : In y0 (those_over Y f)) by (apply those_over_In; split; assumption).
    assert (E1 : negb (is_nil (those_over Y f)) = true)
      by (destruct (those_over Y f); [destruct Hsucc0 | reflexivity]).
    (* every successor is new for every partial cover *)
    assert (Hnew : forall p z, In p partials -> In z (those_over Y f) ->
                     ~ In z p /\ length (union p [z]) = k).
    { intros p z Hpp Hz. apply those_over_In in Hz. destruct Hz as [HzY Hfz].
      destruct (Hp p Hpp) as [HF HpN].
      assert (Hnp : ~ In z p).
      { intros Hzp. destruct (Forall2_In_r _ _ _ _ HF Hzp) as [fj [Hfj [_ Hfjz]]].
        assert (fj = f).
        { apply (Hinj z fj f HzY); [apply in_app_iff; left; exact Hfj | exact Hf_cf | exact Hfjz | exact Hfz]. }
        subst fj. apply NoDup_remove_2 in Hnd. apply Hnd. apply in_app_iff. left. exact Hfj. }
      split; [exact Hnp|]. rewrite (union_single_app p z Hnp), app_length, Hk. cbn.
      assert (length p = length done) by (clear -HF; induction HF; cbn; congruence). lia. }
    destruct (fold_right_bind_app_total
                (fun p => fold_right (fun z acc2 =>
                   bind acc2 (fun news =>
                     let new := union p [z] in
                     if Nat.eqb (length new) k then ok (new :: news) else fail EAssert))
                   (ok []) (those_over Y f)) partials) as [next Hnext].
    { intros p Hpp. apply (fold_right_bind_cons_total (fun z => union p [z]) k EAssert).
      intros z Hz. apply (Hnew p z Hpp Hz). }
    assert (Eb : unfloor_levels k (f :: tail') Y partials =
                 check (negb (is_nil (those_over Y f)))
                   (bind (inl next) (fun nx => unfloor_levels (S k) tail' Y nx))).
    { cbn [unfloor_levels]. rewrite <- Hnext. reflexivity. }
    rewrite Eb, E1. cbn [check bind].
    destruct (fold_right_bind_app _ _ _ Hnext) as [Hfw Hbk].
    assert (Ecf : cf = (done ++ [f]) ++ tail') by (unfold cf; rewrite <- app_assoc; reflexivity).
    destruct (IH (done ++ [f]) (S k) next) as [r [Hr [Hne Hq]]].
    + rewrite <- Ecf. exact Hnd.
    + rewrite <- Ecf. exact Hinj.
    + rewrite <- Ecf. exact Hab.
    + rewrite app_length. cbn. lia.
    + intros q Hq. destruct (Hbk q Hq) as [p [news [Hpp [Hn Hqn]]]].
      destruct (proj2 (fold_right_bind_cons (fun z => union p [z]) k EAssert _ _ Hn) q Hqn)
        as [z [Hz ->]].
      destruct (Hnew p z Hpp Hz) as [Hnp _]. destruct (Hp p Hpp) as [HF HpN].
      apply those_over_In in Hz. rewrite (union_single_app p z Hnp). split.
      * apply Forall2_app_single; [exact HF | exact Hz].
      * apply NoDup_app_disjoint; [exact HpN | constructor; [intros []|constructor]|].
        intros b Hb [<-|[]]. apply Hnp, Hb.
    + exists r. split; [exact Hr|]. split.
      * intros Hpne. apply Hne. destruct partials as [|p0 ps]; [contradiction|].
        destruct (Hfw p0 (or_introl eq_refl)) as [news [Hn Hinc]].
        pose proof (proj1 (fold_right_bind_cons (fun z => union p0 [z]) k EAssert _ _ Hn) y0 Hsucc0)
          as Hin0.
        intros En. specialize (Hinc _ Hin0). rewrite En in Hinc. destruct Hinc.
      * intros q Hqr. rewrite Ecf. apply Hq, Hqr.
Qed.

Lemma enumerate_unfloor_total cf :
  cf <> [] -> NoDup cf -> injective_above cf ->
  (forall f, In f cf -> exists y, In y Y /\ box_le f y) ->
  exists r, enumerate_unfloor cf Y = inl r /\ r <> [] /\
            forall q, In q r ->
              NoDup q /\ incl q Y /\ length q = length cf /\
              Forall2 (fun f y => box_le f y) cf q.
Proof.
  intros Hne Hnd Hinj Hab. unfold enumerate_unfloor.
  assert (E2 : Nat.leb 1 (length cf) = true) by (destruct cf; [contradiction | reflexivity]).
  rewrite E2. cbn [check].
  destruct (unfloor_levels_total cf [] 1%nat [[]]) as [r [Hr [Hrne Hq]]];
    try assumption; try reflexivity.
  { intros p [<-|[]]. split; constructor. }
  cbn [app] in *. rewrite Hr. cbn [bind]. cbv zeta.
  assert (Hne' : union_fam [] r <> []).
  { intros En. assert (Hr0 : r <> []) by (apply Hrne; discriminate).
    destruct r as [|q0 r']; [contradiction|].
    destruct (union_fam_has_r (q0 :: r') [] q0 (or_introl eq_refl)) as [d [Hd _]].
    rewrite En in Hd. destruct Hd. }
  assert (E3 : negb (is_nil (union_fam [] r)) = true)
    by (destruct (union_fam [] r); [contradiction | reflexivity]).
  rewrite E3. cbn [check]. exists (union_fam [] r). split; [reflexivity|]. split; [exact Hne'|].
  intros q Hq'. destruct (union_fam_In _ _ _ Hq') as [[]|Hqr].
  destruct (Hq q Hqr) as [HF HqN].
  split; [exact HqN|]. split; [|split].
  - intros z Hz. destruct (Forall2_In_r _ _ _ _ HF Hz) as [m [_ [HzY _]]]. exact HzY.
  - clear -HF. induction HF; cbn; congruence.
  - clear -HF. induction HF; constructor; [apply H | assumption].
Qed.
End Enumerations.
