"""C18 — priming, renaming and type-hint predicates are exact."""
import itertools
import json
import os

from vlib import core, bits_gen, prime_gen, bits_ctx as bc, coqlit as cl
from vlib.core import Broken, Mismatch, Failing

ID = 'C18'
LEVEL = 'proof'
THEORIES = ['theories/L0Bits/BitsFacts.vo', 'theories/L3Context/PrimeFacts.vo',
            'theories/L3Context/NamingFacts.vo',
            'theories/L3Context/PyPrims.vo']

HEADER = '''From Coq Require Import ZArith List Bool String.
Import ListNotations.
From Omega Require Import L0Bits.Bits L3Context.Ctx L3Context.Prime L3Context.Naming.
From OmegaGen Require Import BitsGen.
From OmegaGen Require PrimeGen.
Open Scope string_scope.
Open Scope Z_scope.
'''

ERRORS = (AssertionError, KeyError, ValueError, TypeError, IndexError)


def prove(ctx):
    with ctx.coq_lock():
        bits_gen.ensure_bits(ctx)
        # prime.py and the identifier helpers of syntax.py, translated from
        # the current sources; the bridge proves them equal to the model
        prime_gen.ensure_prime(ctx)
        ctx.prove('GenProofs/BitsProofs.v')
        ctx.prove('GenProofs/PrimeBridge.v')
        ctx.prove('Properties/C18.v')
    ctx.trusted.append(
        'translator tie T: bitvector.dom_to_width, '
        '_type_hints._bitfield_limits -> gen/BitsGen.v (declared_hint is '
        'hand-written glue for the table update in bitblast_table)')
    ctx.trusted.append(
        'translator tie T: omega/symbolic/prime.py (17 functions) and '
        'syntax.isprimed/prime/unprime/prime_vars/unprime_vars -> '
        'gen/PrimeGen.v by tools/py2coq_prime.py (fail-closed); '
        'GenProofs/PrimeBridge.v proves generated = hand-written model on '
        'every run. Trusted there: the representation of '
        'theories/L3Context/PyPrims.v (sets/dicts as duplicate-free lists, '
        'exceptions as None, `u.support` read at identifier level, '
        '`s[-1] == c` false on the empty string, aut.vars_of_players an '
        'uninterpreted parameter) and the primitives fol.support / fol.let '
        '/ fol.vars = ctx_support / ctx_let_vars / declared of the L3 model '
        '(tied by the C07/C18 correspondence). Not translated: '
        'print_support (output), pairwise_disjoint, pick (generic container '
        'helpers)')
    ctx.trusted.append(
        'L3 model identifies a bit with (variable, index); the printing of '
        'these pairs as dd variable names ("x_0", "x_0\'"; modelled in '
        'L3Context/Naming.v) is compared with the real names and checked '
        'injective on every generated context (see C07_naming_injective and '
        'finding F15)')
    ctx.trusted.append(
        'type-hint formulas are modelled by the predicate the formula text '
        'denotes; the text -> BDD path (parser, bitblaster) is C06 and is '
        'covered here by correspondence only')


# =========================================================================
# Part A: declarations (exhaustive over a window of hints)
# =========================================================================
def _imports():
    import omega.logic.bitvector as bv
    import omega.symbolic.fol as _fol
    import omega.symbolic._type_hints as tyh
    return bv, _fol, tyh


def run_decl(lo, hi, vectors, values):
    """Run the real declaration code for hint (lo, hi).

    vectors: list of bit tuples (len = width) or None for all;
    values: integers to store with _int_to_bit_assignment."""
    bv, _fol, tyh = _imports()
    ctx = _fol.Context()
    ctx.declare(x=(lo, hi))
    d = ctx.vars['x']
    out = dict(lo=lo, hi=hi, width=d['width'], signed=d['signed'],
               dom=list(d['dom']), bitnames=list(d['bitnames']))
    out['dom_to_width'] = list(bv.dom_to_width((lo, hi)))
    out['limits'] = list(tyh._bitfield_limits(d))
    out['naming_ok'] = bc.naming_ok(ctx)
    vb = bv.var_to_twos_complement('x', ctx.vars)
    out['var_bits'] = vb
    w = d['width']
    if vectors is None:
        vectors = list(itertools.product([False, True], repeat=w))
    out['vectors'] = [list(v) for v in vectors]
    dec = []
    for v in vectors:
        st = dict(zip(d['bitnames'], v))
        dec.append(bv.bitfields_to_ints(st, ctx.vars)['x'])
    out['decoded'] = dec
    enc = []
    for z in values:
        try:
            r = _fol._int_to_bit_assignment('x', z, ctx.vars)
            enc.append([[d['bitnames'].index(k), bool(b)]
                        for k, b in r.items()])
        except ERRORS:
            enc.append(None)
    out['values'] = list(values)
    out['encoded'] = enc
    return out


def decl_oracle(r):
    """The property's own statements, on the implementation's results
    (explicit integers; used by the search and cross-checked on every run)."""
    lo, hi, w = r['lo'], r['hi'], r['width']
    L, H = r['limits']
    bad = []
    if not (L <= lo and hi <= H):
        bad.append(f'hint {lo}..{hi} not inside limits {L}..{H}')
    if len(r['vectors']) == 2 ** w:
        img = sorted(r['decoded'])
        if img != list(range(L, H + 1)):
            bad.append(f'values of all {w}-bit fields are not exactly '
                       f'{L}..{H}')
    else:
        if any(not (L <= v <= H) for v in r['decoded']):
            bad.append('a bit field has a value outside the limits')
    crossing = lo < 0 <= hi
    if r['signed'] != crossing:
        bad.append(f'signed={r["signed"]} but sign-crossing={crossing}')
    stored_sign = len(r['var_bits']) == w      # no constant appended
    if stored_sign != crossing:
        bad.append('sign bit appended/omitted for the wrong shape')
    if (lo, hi) == (0, 0) and w != 1:
        bad.append('0..0 does not get width 1')
    if r['dom_to_width'] != [r['signed'], w]:
        bad.append('table entry differs from dom_to_width')
    # in-range stores read back
    for z, e in zip(r['values'], r['encoded']):
        if L <= z <= H:
            if e is None:
                bad.append(f'value {z} inside limits rejected')
                continue
            dd = dict((i, b) for i, b in e)
            if sorted(dd) != list(range(w)):
                bad.append(f'value {z}: assigned bits {sorted(dd)}')
                continue
            bits = [dd[i] for i in range(w)]
            fake = dict(type='int', width=w, signed=r['signed'],
                        dom=tuple(r['dom']))
            if bc.own_decode(fake, bits) != z:
                bad.append(f'value {z} stored as bits of '
                           f'{bc.own_decode(fake, bits)}')
    if not r['naming_ok']:
        bad.append('bit names are not the expected injective printing')
    return bad


def decl_terms(r):
    """Gallina bool terms comparing the model with the real results."""
    lo, hi, w, s = r['lo'], r['hi'], r['width'], r['signed']
    h = f'(mkHint {cl.z(w)} {cl.b(s)} ({cl.z(lo)}, {cl.z(hi)}))'
    L, H = r['limits']
    vb = []
    for x in r['var_bits']:
        if x in r['bitnames']:
            vb.append(f'VName {r["bitnames"].index(x)}%nat')
        else:
            vb.append(f'VConst {cl.b(x == "1")}')
    t1 = (f'opt_eqb hint_eqb (declared_hint {cl.z(lo)} {cl.z(hi)}) (Some {h}) && '
          f'match bitfield_limits {h} with Some (l, u) => (l =? {cl.z(L)}) && '
          f'(u =? {cl.z(H)}) | None => false end && '
          f'opt_eqb (list_eqb vbit_eqb) (var_to_twos_complement {h}) '
          f'(Some {cl.lst(vb)})')
    vecs = cl.lst([cl.bools(v) for v in r['vectors']])
    decs = cl.lst([f'Some {cl.z(v)}' for v in r['decoded']])
    t2 = (f'list_eqb (opt_eqb Z.eqb) (map (decode_val {h}) {vecs}) {decs}')
    inr = [(z, e) for z, e in zip(r['values'], r['encoded']) if L <= z <= H]
    vals = cl.zs([z for z, _ in inr])
    encs = cl.lst([cl.opt(e, lambda e: cl.lst(
        [f'({i}%nat, {cl.b(b)})' for i, b in e])) for _, e in inr])
    t3 = (f'list_eqb (opt_eqb natdict_eqb) '
          f'(map (int_to_bit_assignment {h}) {vals}) {encs}')
    return [t1, t2, t3]


def decl_obs_terms(r):
    """Out-of-limit stores (outside the quantifier): observation only."""
    lo, hi, w, s = r['lo'], r['hi'], r['width'], r['signed']
    h = f'(mkHint {cl.z(w)} {cl.b(s)} ({cl.z(lo)}, {cl.z(hi)}))'
    L, H = r['limits']
    out = [(z, e) for z, e in zip(r['values'], r['encoded'])
           if not (L <= z <= H)]
    vals = cl.zs([z for z, _ in out])
    encs = cl.lst([cl.opt(e, lambda e: cl.lst(
        [f'({i}%nat, {cl.b(b)})' for i, b in e])) for _, e in out])
    return (f'list_eqb (opt_eqb natdict_eqb) '
            f'(map (int_to_bit_assignment {h}) {vals}) {encs}')


def correspond_decl(ctx, mism):
    rng = ctx.rng
    full = 20
    window = 70 if ctx.thorough else 20
    hints = [(lo, hi) for lo in range(-window, window + 1)
             for hi in range(lo, window + 1)]
    results = []
    for lo, hi in hints:
        w = bc.kind_width((lo, hi))
        small = abs(lo) <= full and abs(hi) <= full
        if small or w <= 5:
            vectors = None
        else:
            vs = {tuple([False] * w), tuple([True] * w)}
            for i in range(w):
                vs.add(tuple(j == i for j in range(w)))
                vs.add(tuple(j != i for j in range(w)))
            while len(vs) < 2 * w + 10:
                vs.add(tuple(rng.random() < 0.5 for _ in range(w)))
            vectors = sorted(vs)
        lim_lo = -(2 ** w)
        lim_hi = 2 ** w
        if small or w <= 5:
            values = list(range(lim_lo - 3, lim_hi + 3))
        else:
            values = sorted({lim_lo - 1, lim_lo, lim_lo + 1, -1, 0, 1, lo, hi,
                             lim_hi - 1, lim_hi, lim_hi // 2, -lim_hi // 2,
                             lim_hi // 2 - 1, -lim_hi // 2 - 1}
                            | {rng.randint(lim_lo - 2, lim_hi + 2)
                               for _ in range(8)})
        try:
            r = run_decl(lo, hi, vectors, values)
        except Exception as e:  # declarations lo <= hi must be accepted
            mism.append(Mismatch('declaration raised', dict(kind='decl', lo=lo, hi=hi),
                                 impl=repr(e), property_fails=True))
            continue
        results.append(r)
        bad = decl_oracle(r)
        if bad:
            mism.append(Mismatch('declaration facts: ' + bad[0],
                                 dict(kind='decl', lo=lo, hi=hi), impl=r,
                                 property_fails=True))
    ctx.log(f'declarations: ran {len(results)} hints on the real code')
    groups = [('', decl_terms(r)) for r in results]
    res = ctx.eval_groups('decl', HEADER, groups, shard=360)
    ctx.log('declarations: model evaluated')
    names = ['width/sign/limits/sign-bit', 'values of bit fields',
             'stores of in-limit values']
    for k, ok in enumerate(res):
        if not ok:
            r = results[k // 3]
            mism.append(Mismatch(
                f'declaration {r["lo"]}..{r["hi"]}: {names[k % 3]} differ from '
                'the model', dict(kind='decl', lo=r['lo'], hi=r['hi']),
                impl=r))
    # observation: out-of-limit stores (wrap for signed, rejected otherwise)
    obs = ctx.eval_groups('declobs', HEADER,
                          [('', [decl_obs_terms(r)]) for r in results],
                          shard=400)
    wraps = sum(1 for r in results for z, e in zip(r['values'], r['encoded'])
                if not (r['limits'][0] <= z <= r['limits'][1])
                and e is not None)
    rejects = sum(1 for r in results for z, e in zip(r['values'], r['encoded'])
                  if not (r['limits'][0] <= z <= r['limits'][1]) and e is None)
    ctx.extra['out_of_limit_stores_observation'] = dict(
        note='outside the quantifier of C18/C07: a value outside the limits '
             'wraps for sign-crossing hints and is rejected (AssertionError) '
             'for sign-definite hints; the model reproduces both',
        wrapped=wraps, rejected=rejects,
        model_agrees=sum(obs), model_differs=len(obs) - sum(obs))
    if len(obs) != sum(obs):
        ctx.notes.append('model and code differ on some out-of-limit store '
                         '(outside the quantifier; not a violation)')
    ctx.cov['evaluations'] += len(res) + len(obs)
    ctx.cov['distinct_nontrivial'] += len(results)
    # direct ties of the two conversion functions
    bv, _fol, tyh = _imports()
    zs = list(range(-300, 301)) + [rng.randint(-10 ** 6, 10 ** 6)
                                   for _ in range(60)]
    terms = []
    for i in range(0, len(zs), 40):
        chunk = zs[i:i + 40]
        real = [[b == '1' for b in bv.int_to_twos_complement(z)]
                for z in chunk]
        terms.append(f'list_eqb (list_eqb Bool.eqb) (map int_to_twos_complement '
                     f'{cl.zs(chunk)}) {cl.lst([cl.bools(x) for x in real])}')
    vecs = [[rng.random() < 0.5 for _ in range(rng.randint(1, 12))]
            for _ in range(200)]
    for i in range(0, len(vecs), 40):
        chunk = vecs[i:i + 40]
        real = [bv.twos_complement_to_int(['1' if b else '0' for b in v])
                for v in chunk]
        terms.append(f'list_eqb Z.eqb (map twos_complement_to_int '
                     f'{cl.lst([cl.bools(x) for x in chunk])}) {cl.zs(real)}')
    res2 = ctx.eval_bools('conv', HEADER, terms)
    for k, ok in enumerate(res2):
        if not ok:
            mism.append(Mismatch('int_to_twos_complement / '
                                 'twos_complement_to_int differ from the model',
                                 dict(kind='conv', chunk=k)))
    ctx.cov['evaluations'] += len(res2)
    return dict(hints=len(results), window=window,
                all_bit_fields_for=f'|lo|,|hi| <= {full} or width <= 5',
                conversions=len(zs) + len(vecs))


# =========================================================================
# Part B: priming, renaming, support classification, type-hint predicates
# =========================================================================
FLEX_KINDS = ['bool', (0, 1), (0, 2), (-1, 1), (-2, -1), (0, 3), (-2, 1),
              (1, 1), (0, 0), (-3, -3)]


def random_aut_decl(rng, max_bits):
    while True:
        nf = rng.choice([1, 2, 2, 3])
        nr = rng.choice([0, 0, 1, 1, 2])
        same = rng.random() < 0.5      # same-kind variables allow renaming
        k0 = rng.choice(FLEX_KINDS)
        flex = [(n, k0 if same else rng.choice(FLEX_KINDS))
                for n in ['x', 'y', 'z'][:nf]]
        rigid = [(n, rng.choice(FLEX_KINDS)) for n in ['k', 'm'][:nr]]
        bits = (2 * sum(bc.kind_width(k) for _, k in flex)
                + sum(bc.kind_width(k) for _, k in rigid))
        if bits <= max_bits:
            return flex, rigid


def call(f, *a, **kw):
    try:
        return ('ok', f(*a, **kw))
    except Exception as e:   # noqa: the model says None for any rejection
        return ('err', type(e).__name__)


class Inst:
    """One automaton with a few predicates; collects operations."""

    def __init__(self, flex, rigid, backend):
        self.flex, self.rigid, self.backend = flex, rigid, backend
        self.aut = bc.make_automaton(flex, rigid, backend)
        self.pairs = bc.bit_pairs(self.aut)
        self.bitnames = [b for b, _ in self.pairs]
        self.n = len(self.pairs)
        self.idx = {p: i for i, (_, p) in enumerate(self.pairs)}
        self.preds = {}     # name -> tree
        self.ops = []       # dict(op=..., args=..., result=...)

    def bdd(self, tree):
        return bc.bdd_of_tree(tree, self.aut.bdd, self.bitnames)

    def tree(self, u):
        return bc.tt_tree(u, self.aut.bdd, self.bitnames)

    def case(self):
        return dict(kind='prime', flex=self.flex, rigid=self.rigid,
                    backend=self.backend)


def unprimed_bit_indices(inst, names):
    return [i for i, (_, (v, _)) in enumerate(inst.pairs) if v in names]


def nonconst(rng, n, dens, dep):
    for _ in range(8):
        t = bc.random_tree(rng, n, dens, dep)
        if not isinstance(t, bool):
            return t
    return t


def make_preds(rng, inst):
    """Random predicates: a state predicate, an action, a primed-only one."""
    flex = [n for n, _ in inst.flex]
    rigid = [n for n, _ in inst.rigid]
    dens = rng.choice([0.3, 0.5, 0.7])
    sub = [v for v in flex + rigid if rng.random() < 0.8] or flex[:1]
    st = nonconst(rng, inst.n, dens, unprimed_bit_indices(inst, set(sub)))
    allv = flex + rigid + [v + "'" for v in flex]
    sub2 = [v for v in allv if rng.random() < 0.7] or allv[:1]
    act = nonconst(rng, inst.n, dens, unprimed_bit_indices(inst, set(sub2)))
    sub3 = ([v + "'" for v in flex if rng.random() < 0.8] or [flex[0] + "'"]) \
        + [v for v in rigid if rng.random() < 0.5]
    pst = nonconst(rng, inst.n, dens, unprimed_bit_indices(inst, set(sub3)))
    preds = dict(st=st, act=act, pst=pst)
    # a formula-built predicate (exercises the parser path too)
    ints = [n for n, k in inst.flex if k != 'bool']
    if ints:
        x = rng.choice(ints)
        c = rng.randint(-3, 3)
        f = rng.choice([f"{x} <= {c}", f"{x}' = {x}", f"{x}' > {c} \\/ {x} = {c}",
                        f"{x} # {c}"])
        try:
            preds['fm'] = inst.tree(inst.aut.add_expr(f))
        except ERRORS:
            pass
    return preds


def subsets(xs, rng, limit):
    all_ = [list(c) for k in range(len(xs) + 1)
            for c in itertools.combinations(xs, k)]
    if len(all_) <= limit:
        return all_
    return [all_[0], all_[-1]] + rng.sample(all_[1:-1], limit - 2)


def run_prime_ops(rng, inst):
    """Apply the real prime.py / temporal.py functions; record results."""
    import omega.symbolic.prime as prm
    import omega.symbolic._type_hints as tyh
    import omega.logic.bitvector as bv
    aut = inst.aut
    flex = [n for n, _ in inst.flex]
    rigid = [n for n, _ in inst.rigid]
    ops = []

    def rec(op, pred, args, res):
        kind, val = res
        if kind != 'ok':
            val = ('err', val)
        elif isinstance(val, bool):
            val = ('bool', val)
        elif isinstance(val, (set, frozenset)):
            val = ('set', sorted(val))
        elif isinstance(val, tuple):
            val = ('pair', [sorted(x) for x in val])
        else:
            val = ('tree', inst.tree(val))
        ops.append(dict(op=op, pred=pred, args=args, res=val))

    for name, tree in inst.preds.items():
        u = inst.bdd(tree)
        r = call(prm.prime, u, aut)
        rec('prime', name, None, r)
        if r[0] == 'ok':
            back = call(prm.unprime, r[1], aut)
            rec('unprime_prime', name, None, back)
        rec('unprime', name, None, call(prm.unprime, u, aut))
        for fn in ('unprimed_support', 'primed_support', 'rigid_support',
                   'flexible_support', 'vars_in_support', 'split_support',
                   'is_primed_state_predicate'):
            rec(fn, name, None, call(getattr(prm, fn), u, aut))
        rec('support', name, None, call(aut.support, u))
        rec('is_state_predicate', name, None,
            call(prm.is_state_predicate, u))
        rec('is_proper_action', name, None, call(prm.is_proper_action, u))
        cand = flex + rigid
        for vrs in subsets(cand, rng, 5):
            rec('replace_with_primed', name, vrs,
                call(aut.replace_with_primed, vrs, u))
            rec('replace_with_unprimed', name, vrs,
                call(aut.replace_with_unprimed, vrs, u))
            rec('support_issubset', name, vrs,
                call(prm.support_issubset, u, set(vrs), aut))
            if all(v in flex for v in vrs):
                aut.varlist['p'] = list(vrs)
                rec('is_action_of_player', name, vrs,
                    call(prm.is_action_of_player, u, 'p', aut))
        # renamings among flexible variables (and one involving a constant)
        rens = []
        for a in flex:
            for b in flex + rigid[:1]:
                if a != b:
                    rens.append({a: b})
        if len(flex) >= 2:
            rens.append({flex[0]: flex[1], flex[1]: flex[0]})
        if len(flex) >= 3:
            rens.append({flex[0]: flex[1], flex[1]: flex[2]})
        for ren in rens[:6]:
            rec('rename_variables', name, [[k, v] for k, v in ren.items()],
                call(prm.rename_variables, dict(ren), u, aut))
        # implication of type hints
        for vrs in [None] + subsets(flex + rigid, rng, 3):
            rec('implies_type_hints', name, vrs,
                call(aut.implies_type_hints, u, vrs))
    # joint_support over all predicates of the instance, and over two of them
    names = list(inst.preds)
    for grp in ([names, names[:2], names[-1:]] if names else []):
        rec('joint_support', None, list(grp),
            call(prm.joint_support,
                 [inst.bdd(inst.preds[n]) for n in grp], aut))
    # type-hint formulas (independent of a predicate)
    allv = flex + rigid + [v + "'" for v in flex]
    for vrs in subsets(allv, rng, 6):
        rec('type_hint_for', None, vrs,
            call(lambda: aut.add_expr(aut.type_hint_for(vrs))))
        rec('conjoin_type_hints', None, vrs,
            call(tyh._conjoin_type_hints, vrs, aut))
    for vrs in subsets(flex + rigid, rng, 5):
        rec('type_action_for', None, vrs,
            call(lambda: aut.add_expr(aut.type_action_for(vrs))))
    # bitvector.type_invariants on the unprimed part of the table
    unp = {k: v for k, v in aut.vars.items() if not k.endswith("'")}
    init, safety = bv.type_invariants(unp)
    for v in flex + rigid:
        if init[v]:
            rec('type_invariants_init', None, [v],
                call(lambda: aut.add_expr(' /\\ '.join(
                    f'({s})' for s in init[v]))))
        if safety[v] and v in flex:
            rec('type_invariants_safety', None, [v],
                call(lambda: aut.add_expr(' /\\ '.join(
                    f'({s})' for s in safety[v]))))
    return ops


def coq_res_tree(res):
    kind, val = res
    if kind == 'tree':
        return f'(Some ({bc.coq_tree(val)}))'
    assert kind == 'err', res
    return 'None'


def prime_term(p, o):
    """Gallina bool term: model result == implementation result."""
    op, args, res = o['op'], o['args'], o['res']
    T, B = f'{p}t', f'{p}bits'
    u = f'{p}u_{o["pred"]}' if o['pred'] else None

    def tt(model):
        return f'eq_opt_tt {B} ({model}) {coq_res_tree(res)}'

    def st(model):
        if res[0] == 'err':
            exp = 'None'
        else:
            exp = f'(Some {bc.coq_idents(res[1])})'
        return f'eq_opt (set_eqb String.eqb) ({model}) {exp}'

    def bl(model):
        exp = 'None' if res[0] == 'err' else f'(Some {cl.b(res[1])})'
        return f'eq_opt Bool.eqb ({model}) {exp}'
    if op == 'prime':
        return tt(f'prime_pred {T} {u}')
    if op == 'unprime':
        return tt(f'unprime_pred {T} {u}')
    if op == 'unprime_prime':
        return tt(f'match prime_pred {T} {u} with Some v => unprime_pred {T} v '
                  '| None => None end')
    if op in ('unprimed_support', 'primed_support', 'rigid_support',
              'flexible_support', 'vars_in_support'):
        return st(f'{op} {T} {u}')
    if op == 'support':
        return st(f'ctx_support {T} {u}')
    if op == 'joint_support':
        # no hand-written model: the GENERATED function is evaluated
        nodes = '; '.join(f'{p}u_{n}' for n in args)
        return st(f'PrimeGen.joint_support {T} [{nodes}]')
    if op == 'split_support':
        if res[0] == 'err':
            return (f'match split_support {T} {u} with None => true '
                    '| _ => false end')
        a, b = res[1]
        return (f'match split_support {T} {u} with Some (a, b) => '
                f'set_eqb String.eqb a {bc.coq_idents(a)} && '
                f'set_eqb String.eqb b {bc.coq_idents(b)} | None => false end')
    if op in ('is_primed_state_predicate', 'is_state_predicate',
              'is_proper_action'):
        return bl(f'{op} {T} {u}')
    if op in ('replace_with_primed', 'replace_with_unprimed'):
        return tt(f'{op} {T} {bc.coq_idents(args)} {u}')
    if op in ('support_issubset', 'is_action_of_player'):
        return bl(f'{op} {T} {u} {bc.coq_idents(args)}')
    if op == 'rename_variables':
        return tt(f'rename_variables {T} {bc.coq_ren(dict(args))} {u}')
    if op == 'implies_type_hints':
        a = 'None' if args is None else f'(Some {bc.coq_idents(args)})'
        return bl(f'implies_type_hints {T} {u} {a}')
    if op in ('type_hint_for', 'conjoin_type_hints', 'type_invariants_init'):
        return tt(f'type_hint_for {T} {bc.coq_idents(args)}')
    if op in ('type_action_for', 'type_invariants_safety'):
        return tt(f'type_action_for {T} {bc.coq_idents(args)}')
    raise ValueError(op)


def prime_group(i, inst):
    p = f'i{i}_'
    defs = [f'Definition {p}t : tbl := {bc.coq_tbl(inst.aut)}.',
            f'Definition {p}bits : list bit := all_bits {p}t.']
    for name, tree in inst.preds.items():
        defs.append(f'Definition {p}u_{name} : pred := '
                    f'of_tt {p}bits ({bc.coq_tree(tree)}).')
    terms = [f'list_eqb bit_eqb {p}bits '
             f'{bc.coq_bits([q for _, q in inst.pairs])} && '
             f'list_eqb String.eqb (bit_names {p}t) '
             f'{bc.coq_idents(inst.bitnames)} && naming_injective {p}t']
    terms += [prime_term(p, o) for o in inst.ops]
    return ('\n'.join(defs), terms)


# ---- independent oracle on explicit truth tables -------------------------------
def prime_oracle(inst):
    """Evaluate the property's statements on the implementation's results,
    over explicit bit-level truth tables (own encoding)."""
    aut = inst.aut
    flex = [n for n, _ in inst.flex]
    n = inst.n
    pairs = [q for _, q in inst.pairs]
    idx = inst.idx
    bad = []
    tables = {k: bc.tree_table(t, n) for k, t in inst.preds.items()}
    rows = list(itertools.product([False, True], repeat=n))
    rowidx = {r: i for i, r in enumerate(rows)}

    def renamed_table(tab, mp):
        """result(a) = tab(a') with a'[bit] = a[mp(bit)] (simultaneous)."""
        out = []
        for r in rows:
            r2 = tuple(r[idx[mp.get(q, q)]] for q in pairs)
            out.append(tab[rowidx[r2]])
        return out

    def bits_of(v):
        return [q for q in pairs if q[0] == v]

    def depends(tab, var):
        for q in bits_of(var):
            j = idx[q]
            for r in rows:
                if not r[j]:
                    r2 = r[:j] + (True,) + r[j + 1:]
                    if tab[rowidx[r]] != tab[rowidx[r2]]:
                        return True
        return False

    def semsupport(tab):
        return sorted(v for v in aut.vars if depends(tab, v))

    def hint_table(vrs, action):
        out = []
        for r in rows:
            ok = True
            for v in vrs:
                d = aut.vars[v]
                if d['type'] == 'bool':
                    continue
                for name in ([v, v + "'"] if action else [v]):
                    dd = aut.vars[name]
                    val = bc.own_decode(dd, [r[idx[q]] for q in bits_of(name)])
                    ok = ok and d['dom'][0] <= val <= d['dom'][1]
            out.append(ok)
        return out
    for o in inst.ops:
        op, args, res = o['op'], o['args'], o['res']
        tab = tables.get(o['pred'])
        exp = None
        if res[0] == 'tree':
            got = bc.tree_table(res[1], n)
        if op == 'support':
            exp = ('set', semsupport(tab))
        elif op == 'unprimed_support':
            exp = ('set', [v for v in semsupport(tab) if not v.endswith("'")])
        elif op == 'primed_support':
            exp = ('set', [v for v in semsupport(tab) if v.endswith("'")])
        elif op == 'rigid_support':
            exp = ('set', [v for v in semsupport(tab) if not v.endswith("'")
                           and v + "'" not in aut.vars])
        elif op == 'flexible_support':
            exp = ('set', [v for v in semsupport(tab) if not v.endswith("'")
                           and v + "'" in aut.vars])
        elif op == 'vars_in_support':
            exp = ('set', sorted({v.rstrip("'") for v in semsupport(tab)
                                  if v.rstrip("'") + "'" in aut.vars}))
        elif op == 'is_state_predicate':
            exp = ('bool', not any(v.endswith("'") for v in semsupport(tab)))
        elif op == 'is_proper_action':
            sup = semsupport(tab)
            exp = ('bool', any(v.endswith("'") for v in sup)
                   and any(not v.endswith("'") for v in sup))
        elif op == 'is_primed_state_predicate':
            exp = ('bool', not any(not v.endswith("'") and v + "'" in aut.vars
                                   for v in semsupport(tab)))
        elif op == 'split_support':
            sup = semsupport(tab)
            exp = ('pair', [[v for v in sup if not v.endswith("'")],
                            [v for v in sup if v.endswith("'")]])
        elif op == 'support_issubset':
            exp = ('bool', set(semsupport(tab)) <= set(args))
        elif op == 'is_action_of_player':
            exp = ('bool', {v for v in semsupport(tab) if v.endswith("'")}
                   <= {a + "'" for a in args})
        elif op == 'joint_support':
            exp = ('set', sorted(set().union(
                *[semsupport(tables[n]) for n in args])))
        elif op == 'prime':
            sup = semsupport(tab)
            if any(v.endswith("'") for v in sup):
                exp = 'reject'
            else:
                mp = {q: (q[0] + "'", q[1]) for q in pairs if q[0] in flex}
                exp = ('tree', renamed_table(tab, mp))
        elif op == 'unprime_prime':
            exp = ('tree', tab)
        elif op == 'unprime':
            mp = {q: (q[0][:-1], q[1]) for q in pairs if q[0].endswith("'")}
            exp = ('tree', renamed_table(tab, mp))
        elif op == 'replace_with_primed':
            if all(v in flex for v in args):
                mp = {q: (q[0] + "'", q[1]) for q in pairs if q[0] in args}
                exp = ('tree', renamed_table(tab, mp))
            else:
                exp = 'reject'
        elif op == 'replace_with_unprimed':
            if all(v in flex for v in args):
                mp = {(q[0] + "'", q[1]): q for q in pairs if q[0] in args}
                exp = ('tree', renamed_table(tab, mp))
            else:
                exp = 'reject'
        elif op in ('type_hint_for', 'conjoin_type_hints',
                    'type_invariants_init'):
            exp = ('tree', hint_table(args, False))
        elif op in ('type_action_for', 'type_invariants_safety'):
            if all(v in flex or aut.vars[v]['type'] == 'bool' for v in args):
                exp = ('tree', hint_table(args, True))
        elif op == 'implies_type_hints':
            vrs = args if args is not None else [
                v for v in aut.vars if not v.endswith("'")]
            ht = hint_table(vrs, False)
            exp = ('bool', all(h or not t for h, t in zip(ht, tab)))
        if exp is None:
            continue
        if exp == 'reject':
            ok = res[0] == 'err'
        elif exp[0] == 'tree':
            ok = res[0] == 'tree' and got == exp[1]
        else:
            ok = res[0] == exp[0] and res[1] == exp[1]
        if not ok:
            bad.append((o, exp if exp == 'reject' or exp[0] != 'tree'
                        else ('tree', bc.table_tree(exp[1]))))
    return bad


def build_instance(rng, backend, max_bits):
    # the width is the real code's; instances wider than intended (possible
    # only if the declaration code changed) are redrawn to bound the cost
    for _ in range(50):
        flex, rigid = random_aut_decl(rng, max_bits)
        inst = Inst(flex, rigid, backend)
        if inst.n <= max_bits:
            break
    inst.preds = make_preds(rng, inst)
    return inst


def inst_case(inst, o=None):
    c = inst.case()
    c['preds'] = {k: v for k, v in inst.preds.items()}
    if o is not None:
        c['op'] = o
    return c


def correspond_prime(ctx, mism):
    n_inst = 120 if ctx.thorough else 14
    max_bits = 11 if ctx.thorough else 9
    insts = []
    for i in range(n_inst):
        backend = 'cudd' if i % 2 else 'autoref'
        inst = build_instance(ctx.rng, backend, max_bits)
        if not bc.naming_ok(inst.aut):
            mism.append(Mismatch('bit naming not injective', inst.case(),
                                 property_fails=True))
            continue
        try:
            inst.ops = run_prime_ops(ctx.rng, inst)
        except Exception as e:
            mism.append(Mismatch('implementation raised unexpectedly',
                                 inst_case(inst), impl=repr(e)))
            continue
        insts.append(inst)
    ctx.log(f'priming: ran {len(insts)} automata on the real code')
    groups = [prime_group(i, inst) for i, inst in enumerate(insts)]
    res = ctx.eval_groups('prime', HEADER, groups, shard=150)
    ctx.log('priming: model evaluated')
    k = 0
    hist, nontriv, rejected = {}, 0, 0
    for i, inst in enumerate(insts):
        if not res[k]:
            mism.append(Mismatch('bit order of the model differs',
                                 inst_case(inst)))
        k += 1
        for o in inst.ops:
            hist[o['op']] = hist.get(o['op'], 0) + 1
            if o['res'][0] == 'err':
                rejected += 1
            elif o['res'][0] == 'tree' and not isinstance(o['res'][1], bool):
                nontriv += 1
            elif o['res'][0] in ('set', 'pair') and o['res'][1]:
                nontriv += 1
            if not res[k]:
                mism.append(Mismatch(
                    f'{o["op"]} differs from the model',
                    inst_case(inst, o), impl=o['res']))
            k += 1
    ctx.cov['evaluations'] += len(res)
    ctx.cov['distinct_nontrivial'] += nontriv
    # the explicit oracle is exercised on every run on some instances
    orc = 0
    for inst in insts[:(30 if ctx.thorough else 6)]:
        orc += 1
        for o, exp in prime_oracle(inst)[:1]:
            mism.append(Mismatch(
                f'{o["op"]}: explicit truth-table oracle disagrees',
                inst_case(inst, o), impl=o['res'], model=exp,
                property_fails=True))
    ctx.cov['samples'].append(dict(
        automaton=insts[0].case(), ops=[
            dict(op=o['op'], pred=o['pred'], args=o['args'],
                 result=(o['res'][0], str(o['res'][1])[:80]))
            for o in insts[0].ops[:6]]) if insts else '(none)')
    return dict(automata=len(insts), operations=len(res) - len(insts),
                by_operation=hist, rejected_by_assertion=rejected,
                oracle_crosschecked_instances=orc,
                backends=['autoref', 'cudd'], max_bits=max_bits)


def late_clash_probe(backend, order):
    """Identifiers declared in SEPARATE calls of an Automaton whose names are
    a bit of one another (an integer x and a Boolean x_0, one of them a
    constant): either the later declaration is refused, or the identifiers
    are independent for priming and classification.  Returns None or what is
    wrong."""
    import omega.symbolic.temporal as trl
    import omega.symbolic.prime as prm
    aut = trl.Automaton()
    bc.set_backend(aut, backend)
    try:
        if order == 'var_then_const':
            aut.declare_variables(x=(0, 3))
            aut.declare_constants(x_0='bool')
        elif order == 'const_then_var':
            aut.declare_constants(x_0='bool')
            aut.declare_variables(x=(0, 3))
        elif order == 'const_then_const':
            aut.declare_constants(x=(0, 3))
            aut.declare_constants(x_0='bool')
        else:
            aut.declare_variables(x=(0, 3))
            aut.declare_variables(x_0='bool')
    except ValueError:
        return None             # refused: nothing to alias
    bad = []
    if not bc.naming_ok(aut):
        bad.append('two identifiers share a bit name')
    u = aut.add_expr('x = 1')
    sup = sorted(aut.support(u))
    if sup != ['x']:
        bad.append(f'support(x = 1) = {sup}')
    v = aut.add_expr('x_0')
    if aut.add_expr('(x = 1) => x_0') == aut.true:
        bad.append('(x = 1) => x_0 is valid: x_0 is a bit of x')
    try:
        w = prm.prime(aut.add_expr(r'(x = 2) \/ x_0'), aut)
        sw = sorted(aut.support(w))
        flex_x = prm.is_variable('x', aut)
        flex_b = prm.is_variable('x_0', aut)
        exp = sorted([("x'" if flex_x else 'x'),
                      ("x_0'" if flex_b else 'x_0')])
        if sw != exp:
            bad.append(f'support(prime((x = 2) \\/ x_0)) = {sw}, '
                       f'expected {exp}')
    except Exception as e:
        bad.append(f'prime raised {e!r}')
    del u, v
    return bad or None


def correspond(ctx):
    mism = []
    ctx.cov['samples'] = []
    for backend in ('autoref', 'cudd'):
        for order in ('var_then_const', 'const_then_var', 'const_then_const',
                      'var_then_var'):
            try:
                r = late_clash_probe(backend, order)
            except Exception as e:
                r = [f'raised {e!r}']
            if r:
                mism.append(Mismatch(
                    'an integer x and a Boolean x_0 declared in separate '
                    'calls are neither refused nor independent: '
                    + '; '.join(r[:3]),
                    dict(kind='late_clash', backend=backend, order=order),
                    impl=r, property_fails=True))
    a = correspond_decl(ctx, mism)
    b = correspond_prime(ctx, mism)
    ctx.cov['exhaustive'] = (
        f'declaration facts: all hints lo <= hi in [-{a["window"]},'
        f'{a["window"]}]^2 ({a["hints"]})')
    ctx.cov['rule'] = (
        'A: every hint of the window is declared in a real fol.Context; '
        'dom_to_width, the table entry, _bitfield_limits, '
        'var_to_twos_complement (sign-bit shape), bitfields_to_ints on all '
        '(small hints) or edge+random bit fields, _int_to_bit_assignment on '
        'all/edge values are compared with the generated + hand model inside '
        'Coq and with explicit integer arithmetic. B: random '
        'temporal.Automaton declarations (1-3 flexible, 0-2 rigid, Boolean / '
        'unsigned / signed / all-negative / singleton kinds), random state '
        'predicates, actions, primed-only predicates (truth tables) and a '
        'parsed formula; prime, unprime, unprime(prime), replace_with_primed/'
        'unprimed on subsets (incl. constants -> rejected), rename_variables '
        '(single, swap, chain, to constant), all support classifiers, type '
        'joint_support (against the GENERATED function), type '
        'hint/action formulas, _conjoin_type_hints, type_invariants, '
        'implies_type_hints; results compared as truth tables over ALL bit '
        'assignments / as sets with the model evaluated by vm_compute; '
        'alternating back ends. non-trivial = non-constant result / non-empty '
        'set')
    ctx.extra['correspondence'] = dict(declarations=a, priming=b,
                                       mismatches=len(mism))
    return mism


# =========================================================================
# search / replay
# =========================================================================
def check_case(case):
    """Re-run one recorded case with the explicit oracles; Failing or None."""
    if case.get('kind') == 'decl':
        lo, hi = case['lo'], case['hi']
        w = bc.kind_width((lo, hi))
        try:
            r = run_decl(lo, hi, None if w <= 10 else [],
                         list(range(-(2 ** w) - 2, 2 ** w + 3)) if w <= 10
                         else [lo, hi])
        except Exception as e:
            return Failing(f'declaring {lo}..{hi} raised {e!r}', case)
        bad = decl_oracle(r)
        if bad:
            return Failing(f'hint {lo}..{hi}: {bad[0]}', case,
                           expected=bad, got={k: r[k] for k in
                                              ('width', 'signed', 'limits',
                                               'var_bits')},
                           replay_cmd='./check C18 --replay <this file>')
        return None
    if case.get('kind') == 'late_clash':
        try:
            r = late_clash_probe(case['backend'], case['order'])
        except Exception as e:
            r = [f'raised {e!r}']
        if r:
            return Failing(
                'an integer x and a Boolean x_0 declared in separate calls '
                f'({case["order"]}) are neither refused nor independent: '
                + '; '.join(r), case, got=r,
                replay_cmd='./check C18 --replay <this file>')
        return None
    if case.get('kind') == 'prime':
        kd = lambda x: (x[0], x[1] if x[1] == 'bool' else tuple(x[1]))
        inst = Inst([kd(x) for x in case['flex']],
                    [kd(x) for x in case['rigid']], case['backend'])
        inst.preds = {k: _detuple(v) for k, v in case['preds'].items()}
        import random
        inst.ops = run_prime_ops(random.Random(0), inst)
        bad = prime_oracle(inst)
        if bad:
            o, exp = bad[0]
            return Failing(
                f'{o["op"]}({o["pred"]}, {o["args"]}) is not the exact '
                'result on explicit truth tables', inst_case(inst, o),
                expected=exp, got=o['res'],
                replay_cmd='./check C18 --replay <this file>')
        return None
    return None


def _detuple(t):
    if isinstance(t, bool):
        return t
    return tuple(_detuple(x) if not isinstance(x, str) else x for x in t)


def search(ctx, broken, mismatches):
    out = []
    for m in mismatches:
        if m.case is None:
            continue
        try:
            f = check_case(m.case)
        except Exception as e:
            f = Failing('implementation raised ' + repr(e), m.case)
        if f:
            return [f]
    # fresh inputs: declarations on a wider window, then automata
    rng = ctx.rng
    win = 150 if ctx.thorough else 90
    for _ in range(3000 if ctx.thorough else 800):
        lo = rng.randint(-win, win)
        hi = rng.randint(lo, win)
        f = check_case(dict(kind='decl', lo=lo, hi=hi))
        if f:
            return [f]
    for i in range(60 if ctx.thorough else 20):
        inst = build_instance(rng, 'cudd' if i % 2 else 'autoref', 9)
        try:
            inst.ops = run_prime_ops(rng, inst)
            bad = prime_oracle(inst)
        except Exception as e:
            return [Failing('implementation raised ' + repr(e),
                            inst_case(inst))]
        if bad:
            o, exp = bad[0]
            return [Failing(
                f'{o["op"]}({o["pred"]}, {o["args"]}) is not the exact '
                'result on explicit truth tables', inst_case(inst, o),
                expected=exp, got=o['res'],
                replay_cmd='./check C18 --replay <this file>')]
    return out


def replay(path):
    d = json.load(open(path))
    case = d.get('input') or d.get('case')
    if case is None:
        print('no input recorded (broken obligation):', d.get('broken'))
        return 1
    f = check_case(case)
    if f:
        print('still fails:', f.what)
        return 1
    print('passes')
    return 0
