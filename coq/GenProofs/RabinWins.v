(* The synthesized Rabin(1) implementation, read as a strategy, in game terms
   (theories/L4/Plays.v).  Setting: the TRANSLATED construction's action
   composed with the GENERATED solver, as in RabinLive2.v / RabinNB3.v.

   The strategy.  Plays are the infinite plays of L4/Plays.v over the BASE
   arena (states (x, y)); the implementation's memory (_hold, _goal), a
   number m = _hold * G + _goal, is a function of the history ([memof]), as
   the goal counter is for Streett (StreettWins.v).  At every step the
   component takes the first pair (y', m') - next component value, next
   memory - that the action allows, for the next environment value of the
   play (Mealy) or for all of them (Moore).  The initial memory is any memory
   in range (h0 <= number of persistence sets, j0 < number of goals); the
   construction's own initial memory is h0 = none, j0 = 0.

   Blocking.  Known finding F12: the action may allow no step.  L4/Plays.v
   has infinite plays only, and a strategy is a total function, so where the
   action allows nothing the strategy returns an arbitrary value (0) and the
   play goes on; what we record is the predicate
       [blocked_at p i]: at position i of the play, with the memory the
       history gives, NO pair (y', m') is allowed (Mealy: for the next
       environment value the play takes; Moore: for all next environment
       values at once).
   Nothing is claimed about a play after its first blocked position.

   [impl_play_wins_or_blocks]: EVERY play from a state of the winning region
   that is consistent with the strategy EITHER
     (a) is never blocked while the environment keeps its action, is won -
         win_rabin: the component keeps its action as the mode obliges and,
         if the environment keeps its action forever, some persistence
         predicate holds from some point on AND every recurrence predicate
         holds infinitely often - and stays in the winning region for as
         long as the environment has kept its action, OR
     (b) reaches, the environment having kept its action so far and through
         allowed steps only, a position at which it is blocked; that state is
         in the winning region, its memory is in range, and it is in the
         stale-hold class of finding F12 (RabinNB3.class_F12: _hold = i <
         number of persistence sets, state outside y_{k,i} of its own level).
   Corollaries: if no position of a play consistent with the strategy is in
   that class ([no_stale_on_plays]), or if no state of the region is in it
   for any persistence index ([no_stale_states]), the implementation WINS
   the game from every state of the region ([impl_wins_from]: impl_strategy,
   named, is a valid strategy and every play consistent with it is won).  The
   second condition holds in particular when every winning state lies in
   y_{k,i} of its level for every i ([implementation_wins_if_traps_cover]) -
   and ALWAYS when there is exactly one persistence predicate
   ([implementation_wins_one_persistence]: a winning state lies in some trap
   of its own level, RabinSucceeds.winning_has_trap): the stale-hold class
   needs two persistence sets.

   Combines closure, memory ranges, refinement, liveness and the extent of
   blocking (C05 (a), (c), (d), (e), (f)).  Depends on
   Classical_Prop.classic (liveness; and the choice between "some position
   is blocked" and "none is"). *)
From Coq Require Import List Bool Arith Lia Classical_Prop.
Import ListNotations.
From Omega Require Import L4.Arena L4.ArenaFacts L4.Kleene L4.GameSpec L4.Plays L4.RabinStrategy.
From OmegaGen Require Import FixpointGen Gr1Gen.
From OmegaGP Require Import FixpointProofs TransducerModel StreettTProofs RabinTProofs
  RabinTProofs2 StreettNB2 StreettClosure1 RabinClosure1 RabinIter1 RabinClosure2 RabinLive1
  RabinLive2 RabinNB1 RabinNB2 RabinNB3 RabinSucceeds.

(* the least position with a (classically decidable) property *)
Lemma least_position (P : nat -> Prop) n :
  P n -> exists m, m <= n /\ P m /\ forall k, k < m -> ~ P k.
Proof.
  induction n as [n IH] using lt_wf_ind. intros Hn.
  destruct (classic (exists k, k < n /\ P k)) as [[k [Hk HP]]|Hno].
  - destruct (IH k Hk HP) as [m [Hm [HPm Hleast]]]. exists m. split; [lia|]. auto.
  - exists n. split; [lia|]. split; [exact Hn|]. intros k Hk HP. apply Hno. exists k. auto.
Qed.

Section Wins.
Variables nc nx ny : nat.
Variables E S : bdd.
Variables holds goals : list bdd.
Variables moore plus_one : bool.
Variable fuel : nat.
Hypothesis Hfuel : NV nc nx ny <= fuel.
Hypothesis Sh : Forall spred holds.
Hypothesis Sg : Forall spred goals.
Variables H G : nat.
Hypothesis HnG : length goals <= G.
Hypothesis HnH : length holds < H.
Hypothesis Hgoals : 0 < length goals.
Variable c : nat.
Hypothesis Hc : c < nc.
(* the initial memory: _hold = h0, _goal = j0 *)
Variables h0 j0 : nat.
Hypothesis Hh0 : h0 <= length holds.
Hypothesis Hj0 : j0 < length goals.

Local Notation M := (H * G).
Local Notation L := (lift nc nx ny M).
Local Notation sol := (Gr1Gen.solve_rabin_game nc nx ny E S holds goals moore plus_one fuel).
Local Notation zk := (fst (fst sol)).
Local Notation yki := (snd (fst sol)).
Local Notation win := (last zk bfalse).
Local Notation A := (rabin_action nc nx ny H G (L E) (L S) (map L holds) (map L goals)
                       moore plus_one (map L zk) (map (map L) yki)
                       (map (map (map (map L))) (snd sol))).
Local Notation n := (length goals).
Local Notation none := (length holds).
Local Notation ev := (ev M).
Local Notation stv := (stv c).
Local Notation stepv := (stepv c).
Local Notation stale := (class_F12 holds c).

Lemma HG0 : 0 < G. Proof. lia. Qed.
Lemma HH0 : 0 < H. Proof. lia. Qed.
Lemma HM0 : 0 < M. Proof. pose proof HG0. pose proof HH0. nia. Qed.

(* a memory, split into its two fields *)
Lemma mem_split m : m = (m / G) * G + m mod G.
Proof. pose proof HG0. rewrite Nat.mul_comm. apply Nat.div_mod. lia. Qed.

Lemma mem_in_M m : m / G <= none -> m mod G < n -> m < M.
Proof. intros Hh Hj. rewrite (mem_split m). nia. Qed.

Lemma mem_fields h j : j < G -> (h * G + j) / G = h /\ (h * G + j) mod G = j.
Proof.
  intros Hj. split.
  - rewrite Nat.div_add_l by lia. rewrite Nat.div_small by lia. lia.
  - rewrite Nat.add_comm, Nat.mod_add by lia. apply Nat.mod_small, Hj.
Qed.

(* ---- the implementation as a function of the history ------------------- *)
Definition m0 : nat := h0 * G + j0.

Definition pairs : list (nat * nat) := list_prod (seq 0 ny) (seq 0 M).

Definition okp (x yb m x' : nat) (p : nat * nat) : bool :=
  if moore
  then forallb (fun x'' => A (ev c x yb m x'' (fst p) (snd p))) (seq 0 nx)
  else A (ev c x yb m x' (fst p) (snd p)).

Definition ch (x yb m x' : nat) : nat * nat :=
  match find (okp x yb m x') pairs with Some p => p | None => (0, 0) end.

Fixpoint memof (h : list st) : nat :=
  match h with
  | [] => m0
  | s :: h' =>
    match h' with
    | [] => m0
    | sp :: _ => snd (ch (fst sp) (snd sp) (memof h') (fst s))
    end
  end.

Definition impl_strategy : strat :=
  fun h x' => let s := hd (0, 0) h in
              clampy ny (fst (ch (fst s) (snd s) (memof h) x')).

(* no step is allowed from state (x, yb) with memory m (Mealy: for the next
   environment value x'; Moore: whatever x') *)
Definition blocked_here (x yb m x' : nat) : Prop :=
  forall p, In p pairs -> okp x yb m x' p = false.

Lemma okp_moore x yb m x1 x2 p : moore = true -> okp x yb m x1 p = okp x yb m x2 p.
Proof. intros Hm. unfold okp. rewrite Hm. reflexivity. Qed.

Lemma ch_moore x yb m x1 x2 : moore = true -> ch x yb m x1 = ch x yb m x2.
Proof.
  intros Hm. unfold ch.
  assert (Hf : find (okp x yb m x1) pairs = find (okp x yb m x2) pairs).
  { induction pairs as [|p l IH]; cbn [find]; [reflexivity|].
    rewrite (okp_moore x yb m x1 x2 p Hm). destruct (okp x yb m x2 p); [reflexivity|exact IH]. }
  rewrite Hf. reflexivity.
Qed.

Lemma impl_strategy_valid : 0 < ny -> cvalid ny moore impl_strategy.
Proof.
  intros Hny. split.
  - intros h x'. unfold impl_strategy, clampy.
    destruct (_ <? ny) eqn:El; [apply Nat.ltb_lt, El|exact Hny].
  - intros Hm h x1 x2. unfold impl_strategy. cbv zeta.
    rewrite (ch_moore _ _ _ x1 x2 Hm). reflexivity.
Qed.

(* blocked or not, decided by the search of the chooser *)
Lemma blocked_iff x yb m x' :
  blocked_here x yb m x' <-> find (okp x yb m x') pairs = None.
Proof.
  split.
  - intros Hb. destruct (find (okp x yb m x') pairs) as [p|] eqn:Ef; [|reflexivity].
    apply find_some in Ef. destruct Ef as [Hin Hok]. rewrite (Hb p Hin) in Hok. discriminate.
  - intros Ef p Hin. apply (find_none _ _ Ef p Hin).
Qed.

(* spelled out: no next component value yb' and next memory m' is allowed *)
Lemma blocked_here_spec x yb m x' :
  blocked_here x yb m x' <->
  forall yb' m', yb' < ny -> m' < M ->
    (if moore
     then forallb (fun x'' => A (ev c x yb m x'' yb' m')) (seq 0 nx)
     else A (ev c x yb m x' yb' m')) = false.
Proof.
  (* keep the arithmetic hypotheses of the section out of the proof term *)
  clear Hfuel HnG HnH Hgoals Hc Hh0 Hj0 h0 j0.
  unfold blocked_here, pairs. split.
  - intros Hb yb' m' Hy Hm. apply (Hb (yb', m')). apply in_prod; apply in_seq; lia.
  - intros Hb [yb' m'] Hin. apply in_prod_iff in Hin. destruct Hin as [H1 H2].
    apply in_seq in H1, H2. apply (Hb yb' m'); lia.
Qed.

Lemma blocked_dec x yb m x' : blocked_here x yb m x' \/ ~ blocked_here x yb m x'.
Proof.
  destruct (find (okp x yb m x') pairs) as [p|] eqn:Ef.
  - right. intros Hb. apply blocked_iff in Hb. congruence.
  - left. apply blocked_iff, Ef.
Qed.

(* where it is not blocked, the chooser returns an allowed step *)
Lemma ch_spec x yb m x' :
  x' < nx -> ~ blocked_here x yb m x' ->
  let p := ch x yb m x' in
  fst p < ny /\ snd p < M /\ A (ev c x yb m x' (fst p) (snd p)) = true.
Proof.
  intros Hx' Hnb. cbv zeta. unfold ch.
  destruct (find (okp x yb m x') pairs) as [p|] eqn:Ef.
  - apply find_some in Ef. destruct Ef as [Hin Hok].
    destruct p as [yb' mm]. unfold pairs in Hin. apply in_prod_iff in Hin.
    destruct Hin as [H1 H2]. apply in_seq in H1, H2. cbn [fst snd].
    split; [lia|]. split; [lia|].
    unfold okp in Hok. cbn [fst snd] in Hok. destruct moore; [|exact Hok].
    rewrite forallb_forall in Hok. apply Hok. apply in_seq. lia.
  - exfalso. apply Hnb. apply blocked_iff, Ef.
Qed.

(* a winning state with the memory in range at which it is blocked is in the
   stale-hold class (extent of blocking, RabinNB3) *)
Lemma blocked_is_stale x yb m x' :
  x < nx -> yb < ny -> x' < nx -> m / G <= none -> m mod G < n ->
  win (sv c x yb) = true -> blocked_here x yb m x' ->
  stale x yb (m / G) zk yki.
Proof.
  intros Hx Hyb Hx' Hh Hj Hw Hb.
  set (h := m / G) in *. set (j := m mod G) in *.
  assert (Hdec : stale x yb h zk yki \/ ~ stale x yb h zk yki).
  { unfold class_F12.
    destruct (lt_dec h none) as [Hlt|Hge];
      [|right; intros [Hlt _]; exact (Hge Hlt)].
    destruct (nth h (nth (fidx zk (sv c x yb)) yki []) bfalse (sv c x yb)) eqn:Ey.
    - right. intros [_ Hf]. congruence.
    - left. split; [exact Hlt|reflexivity]. }
  destruct Hdec as [Hst|Hns]; [exact Hst|]. exfalso.
  destruct (rabin_impl_blocks_only_stale_hold nc nx ny E S holds goals moore plus_one H G fuel
              Hfuel Sh Sg HnG HnH c x yb h j Hc Hx Hyb Hj Hh Hw Hns)
    as [h' [j' [Hh' [Hj' Hstep]]]].
  unfold NBm, mem in Hstep. fold h j in Hstep.
  replace (h * G + j) with m in Hstep by (unfold h, j; apply mem_split).
  assert (Hm' : h' * G + j' < M) by nia.
  assert (Hex : exists p, In p pairs /\ okp x yb m x' p = true).
  { unfold okp. destruct moore.
    - destruct Hstep as [yb' [Hyb' Hall]]. exists (yb', h' * G + j'). split.
      + unfold pairs. apply in_prod; apply in_seq; lia.
      + cbn [fst snd]. apply forallb_forall. intros x'' Hin. apply in_seq in Hin.
        apply Hall. lia.
    - destruct (Hstep x' Hx') as [yb' [Hyb' Hs]]. exists (yb', h' * G + j'). split.
      + unfold pairs. apply in_prod; apply in_seq; lia.
      + exact Hs. }
  destruct Hex as [p [Hin Hok]]. rewrite (Hb p Hin) in Hok. discriminate.
Qed.

Lemma yki_lengths : Forall (fun yi => length yi <= length (map L holds)) (map (map L) yki).
Proof.
  pose proof (solve_rounds_ok nc nx ny E S holds goals moore plus_one fuel Hfuel Sh Sg) as Hro.
  rewrite map_length.
  induction Hro as [zp|zp z zs yi yis xijr xs Hr Ho IH]; cbn [map]; constructor; [|exact IH].
  rewrite map_length. destruct Hr as [_ [_ [Hl _]]]. lia.
Qed.

(* ---- one play ----------------------------------------------------------- *)
Section OnePlay.
Variable p : play.
Hypothesis Hr : inrange nx ny p.
Hypothesis Hcons : cconsistent impl_strategy p.
Hypothesis Hw0 : win (stv (p 0)) = true.

Definition mseq (i : nat) : nat := memof (hist p i).

(* the implementation allows no step at position i of the play *)
Definition blocked_at (i : nat) : Prop :=
  blocked_here (fst (p i)) (snd (p i)) (mseq i) (fst (p (Datatypes.S i))).

(* position i is in the stale-hold class of finding F12 *)
Definition stale_at (i : nat) : Prop :=
  stale (fst (p i)) (snd (p i)) (mseq i / G) zk yki.

(* the environment has kept its action, and the play has not been blocked,
   before position i *)
Definition sofar (i : nat) : Prop := forall t, t < i -> Eat c E p t /\ ~ blocked_at t.

Lemma hist_cons i : exists t, hist p i = p i :: t.
Proof. destruct i; cbn [hist]; eexists; reflexivity. Qed.

Lemma mseq_0 : mseq 0 = m0.
Proof. reflexivity. Qed.

Lemma mseq_S i :
  mseq (Datatypes.S i) =
  snd (ch (fst (p i)) (snd (p i)) (mseq i) (fst (p (Datatypes.S i)))).
Proof.
  unfold mseq. cbn [hist memof]. destruct (hist_cons i) as [t Ht]. rewrite Ht. reflexivity.
Qed.

Definition sigma (i : nat) : V :=
  ev c (fst (p i)) (snd (p i)) (mseq i)
       (fst (p (Datatypes.S i))) (snd (p (Datatypes.S i))) (mseq (Datatypes.S i)).

(* winning state, memory in range *)
Definition Inv (i : nat) : Prop :=
  win (stv (p i)) = true /\ mseq i / G <= none /\ mseq i mod G < n.

Lemma Inv_mem i : Inv i -> mseq i < M.
Proof. intros [_ [Hh Hj]]. apply mem_in_M; assumption. Qed.

(* an unblocked step of the play is the chooser's, and the action allows it *)
Lemma play_step i :
  Inv i -> ~ blocked_at i ->
  snd (p (Datatypes.S i)) < ny /\ mseq (Datatypes.S i) < M /\ A (sigma i) = true.
Proof.
  intros HI Hnb. destruct (Hr (Datatypes.S i)) as [Hx' Hy'].
  destruct (ch_spec (fst (p i)) (snd (p i)) (mseq i) (fst (p (Datatypes.S i))) Hx' Hnb)
    as [H1 [H2 H3]].
  assert (Hsnd : snd (p (Datatypes.S i)) =
                 fst (ch (fst (p i)) (snd (p i)) (mseq i) (fst (p (Datatypes.S i))))).
  { rewrite (Hcons i). unfold impl_strategy. rewrite hist_hd. fold (mseq i).
    unfold clampy. apply Nat.ltb_lt in H1. rewrite H1. reflexivity. }
  split; [exact Hy'|]. rewrite mseq_S. split; [exact H2|].
  unfold sigma. rewrite mseq_S, Hsnd. exact H3.
Qed.

Lemma sigma_inr i : Inv i -> ~ blocked_at i -> inr nc nx (ny * M) (sigma i).
Proof.
  intros HI Hnb. destruct (play_step i HI Hnb) as [Hy' [Hm' _]].
  pose proof (Inv_mem i HI) as Hm.
  destruct (Hr i) as [Hx Hy]. destruct (Hr (Datatypes.S i)) as [Hx' _].
  unfold sigma. apply (ev_range nc nx ny M HM0); assumption.
Qed.

Lemma bv_sigma i : Inv i -> ~ blocked_at i ->
  bv M (sigma i) = stepv (p i) (p (Datatypes.S i)).
Proof.
  intros HI Hnb. destruct (play_step i HI Hnb) as [_ [Hm' _]].
  unfold sigma. rewrite (bv_ev M HM0); [reflexivity|apply (Inv_mem i HI)|exact Hm'].
Qed.

Lemma E_sigma i : Inv i -> ~ blocked_at i ->
  L E (sigma i) = E (stepv (p i) (p (Datatypes.S i))).
Proof. intros HI Hnb. rewrite (lift_spec nc nx ny M), (bv_sigma i HI Hnb). reflexivity. Qed.

Lemma S_sigma i : Inv i -> ~ blocked_at i ->
  L S (sigma i) = S (stepv (p i) (p (Datatypes.S i))).
Proof. intros HI Hnb. rewrite (lift_spec nc nx ny M), (bv_sigma i HI Hnb). reflexivity. Qed.

(* closure of the winning region and of the memory ranges *)
Lemma inv_next i : Inv i -> ~ blocked_at i -> Eat c E p i -> Inv (Datatypes.S i).
Proof.
  intros HI Hnb He. destruct (play_step i HI Hnb) as [Hy' [Hm' HA]].
  pose proof (sigma_inr i HI Hnb) as Hin.
  pose proof (Inv_mem i HI) as Hm.
  assert (HE : L E (sigma i) = true) by (rewrite (E_sigma i HI Hnb); exact He).
  split.
  - pose proof (rabin_impl_closed nc nx ny E S holds goals moore plus_one H G fuel Hfuel Sh Sg
                  (sigma i) Hin HA HE) as Hcl.
    unfold nextpt in Hcl. unfold sigma at 1 2 3 4 5 in Hcl. unfold StreettNB2.ev in Hcl.
    cbn [vc vxp vyp] in Hcl. unfold StreettNB2.bv in Hcl. cbn [vc vx vy vxp vyp] in Hcl.
    pose proof HM0 as HM0'.
    rewrite Nat.div_add_l in Hcl by lia. rewrite Nat.div_small in Hcl by lia.
    rewrite Nat.add_0_r in Hcl. exact Hcl.
  - destruct (rabin_memory_range nc nx ny H G (L E) (L S) (map L holds) (map L goals)
                moore plus_one (map L zk) (map (map L) yki) (map (map (map (map L))) (snd sol))
                yki_lengths (sigma i) Hin HA) as [Hr1 _].
    destruct (Hr1 HE) as [_ [_ [Hhp Hgp]]]. rewrite !map_length in *.
    unfold TransducerModel.rhp, TransducerModel.rgp in Hhp, Hgp.
    change (vyp (sigma i) mod M) with (cntp M (sigma i)) in Hhp, Hgp.
    unfold sigma in Hhp, Hgp. rewrite (cntp_ev M HM0) in Hhp, Hgp by exact Hm'.
    split; [exact Hhp|lia].
Qed.

Lemma inv_0 : Inv 0.
Proof.
  split; [exact Hw0|]. rewrite mseq_0. unfold m0.
  destruct (mem_fields h0 j0 ltac:(lia)) as [E1 E2]. rewrite E1, E2. split; assumption.
Qed.

Lemma inv_all i : sofar i -> Inv i.
Proof.
  induction i as [|i IH]; intros Hs; [exact inv_0|].
  destruct (Hs i ltac:(lia)) as [He Hnb].
  apply inv_next; [apply IH; intros t Ht; apply Hs; lia|exact Hnb|exact He].
Qed.

(* ---- (b): the first blocked position --------------------------------------- *)
Theorem first_block_is_stale i :
  sofar i -> blocked_at i ->
  win (stv (p i)) = true /\ mseq i / G <= none /\ mseq i mod G < n /\ stale_at i.
Proof.
  intros Hs Hb. destruct (inv_all i Hs) as [Hw [Hh Hj]].
  split; [exact Hw|]. split; [exact Hh|]. split; [exact Hj|].
  destruct (Hr i) as [Hx Hy]. destruct (Hr (Datatypes.S i)) as [Hx' _].
  apply (blocked_is_stale _ _ _ _ Hx Hy Hx' Hh Hj Hw Hb).
Qed.

(* ---- (a): a play that is never blocked while the environment keeps its
        action is won ------------------------------------------------------- *)
Section NeverBlocked.
Hypothesis Hnever : forall i, (forall t, t < i -> Eat c E p t) -> ~ blocked_at i.

Lemma sofar_of_env i : (forall t, t < i -> Eat c E p t) -> sofar i.
Proof.
  intros He t Ht. split; [apply He, Ht|]. apply Hnever. intros u Hu. apply He. lia.
Qed.

Lemma stays_winning i : (forall t, t < i -> Eat c E p t) -> win (stv (p i)) = true.
Proof. intros He. apply (inv_all i (sofar_of_env i He)). Qed.

Lemma play_safe : safe_comp c E S plus_one p.
Proof.
  intros k He Hns.
  pose proof (inv_all k (sofar_of_env k He)) as HI.
  pose proof (Hnever k He) as Hnb.
  destruct (play_step k HI Hnb) as [_ [_ HA]].
  pose proof (sigma_inr k HI Hnb) as Hin.
  pose proof (rabin_action_refines nc nx ny H G (L E) (L S) (map L holds) (map L goals)
                moore plus_one (map L zk) (map (map L) yki) (map (map (map (map L))) (snd sol))
                (sigma k) HA) as Hob.
  apply (oblig_mode_oblig nc nx ny M (L E) (L S) moore plus_one (sigma k) Hin) in Hob.
  unfold oblig in Hob. unfold Sat. rewrite <- (S_sigma k HI Hnb).
  destruct plus_one; [exact Hob|].
  specialize (Hns eq_refl). unfold Eat in Hns. rewrite <- (E_sigma k HI Hnb) in Hns.
  rewrite Hns in Hob. exact Hob.
Qed.

Lemma play_live :
  (forall i, Eat c E p i) -> persist c holds p /\ recur c goals p.
Proof.
  intros HE.
  assert (Hnb : forall i, ~ blocked_at i) by (intros i; apply Hnever; intros t _; apply HE).
  assert (HI : forall i, Inv i)
    by (intros i; apply inv_all, sofar_of_env; intros t _; apply HE).
  assert (Hb : rbehaviour nc nx ny E S holds goals moore plus_one H G fuel sigma).
  { constructor.
    - intros i. apply sigma_inr; [apply HI|apply Hnb].
    - intros i. apply (play_step i (HI i) (Hnb i)).
    - intros i. rewrite (E_sigma i (HI i) (Hnb i)). apply HE.
    - intros i. unfold sigma, StreettNB2.ev. cbn [vc vx vy vxp vyp]. auto. }
  destruct (rabin_impl_live nc nx ny E S holds goals moore plus_one H G Sh fuel Hfuel Sg
              sigma Hb) as [[P [HP [N HN]]] Hrec].
  split.
  - exists P. split; [exact HP|]. exists N. intros i Hi.
    specialize (HN i Hi). rewrite (bv_sigma i (HI i) (Hnb i)) in HN.
    rewrite Forall_forall in Sh. rewrite (Sh P HP) in HN. exact HN.
  - intros R HR N'.
    destruct (In_nth_error _ _ HR) as [j Hj].
    destruct (Hrec j R Hj N') as [i [Hi Hv]]. exists i. split; [exact Hi|].
    rewrite (bv_sigma i (HI i) (Hnb i)) in Hv.
    rewrite Forall_forall in Sg. rewrite (Sg R HR) in Hv. exact Hv.
Qed.

Lemma play_won : win_rabin c E S holds goals plus_one p.
Proof. split; [exact play_safe|exact play_live]. Qed.

End NeverBlocked.

(* ---- the dichotomy --------------------------------------------------------- *)
Theorem impl_play_wins_or_blocks :
  (* (a) never blocked while the environment keeps its action: the play is
         won and stays in the winning region *)
  ((forall i, (forall t, t < i -> Eat c E p t) -> ~ blocked_at i) /\
   win_rabin c E S holds goals plus_one p /\
   (forall i, (forall t, t < i -> Eat c E p t) -> win (stv (p i)) = true))
  \/
  (* (b) a first blocked position, reached through allowed steps in which
         the environment kept its action: winning, memory in range, and in
         the stale-hold class of finding F12 *)
  (exists i, sofar i /\ blocked_at i /\
             win (stv (p i)) = true /\ mseq i / G <= none /\ mseq i mod G < n /\ stale_at i).
Proof.
  destruct (classic (exists i, (forall t, t < i -> Eat c E p t) /\ blocked_at i))
    as [[i0 Hi0]|Hno].
  - right.
    destruct (least_position (fun i => (forall t, t < i -> Eat c E p t) /\ blocked_at i) i0 Hi0)
      as [i [_ [[He Hb] Hleast]]].
    assert (Hs : sofar i).
    { intros t Ht. split; [apply He, Ht|]. intros Hbt. apply (Hleast t Ht).
      split; [intros u Hu; apply He; lia|exact Hbt]. }
    exists i. split; [exact Hs|]. split; [exact Hb|]. apply (first_block_is_stale i Hs Hb).
  - left.
    assert (Hnever : forall i, (forall t, t < i -> Eat c E p t) -> ~ blocked_at i).
    { intros i He Hb. apply Hno. exists i. auto. }
    split; [exact Hnever|]. split; [apply (play_won Hnever)|apply (stays_winning Hnever)].
Qed.

(* no position of the play that the implementation reaches (through allowed
   steps, the environment keeping its action) is in the stale-hold class *)
Definition never_stale : Prop := forall i, sofar i -> ~ stale_at i.

Theorem impl_play_won_unless_stale : never_stale -> win_rabin c E S holds goals plus_one p.
Proof.
  intros Hns.
  destruct impl_play_wins_or_blocks as [[_ [Hw _]]|[i [Hs [_ [_ [_ [_ Hst]]]]]]]; [exact Hw|].
  exfalso. apply (Hns i Hs Hst).
Qed.

End OnePlay.

(* ---- the game ------------------------------------------------------------- *)
(* no play from s consistent with the implementation reaches a position of
   the stale-hold class *)
Definition no_stale_on_plays (s : st) : Prop :=
  forall p, inrange nx ny p -> p 0 = s -> cconsistent impl_strategy p -> never_stale p.

(* sufficient: no state of the winning region is in the class, whatever the
   persistence index *)
Definition no_stale_states : Prop :=
  forall x yb h, x < nx -> yb < ny -> win (sv c x yb) = true -> ~ stale x yb h zk yki.

(* The theorems below NAME the implementation: [impl_strategy] is a valid
   strategy of the mode and every play from s consistent with IT is won.  The
   forms that only say that SOME strategy wins (comp_wins; they would also
   follow from the exactness of the region, C04) are the [_exists]
   corollaries. *)
Definition impl_wins_from (s : st) : Prop :=
  cvalid ny moore impl_strategy /\
  forall p, inrange nx ny p -> p 0 = s -> cconsistent impl_strategy p ->
            win_rabin c E S holds goals plus_one p.

Lemma impl_wins_from_exists s :
  impl_wins_from s -> comp_wins nx ny moore (win_rabin c E S holds goals plus_one) s.
Proof. intros Hw. exists impl_strategy. exact Hw. Qed.

Theorem implementation_wins_unless_stale s :
  fst s < nx -> snd s < ny -> win (stv s) = true ->
  no_stale_on_plays s -> impl_wins_from s.
Proof.
  intros H1 H2 Hz Hns. split; [apply impl_strategy_valid; lia|].
  intros p Hr Hp0 Hcons. apply (impl_play_won_unless_stale p Hr Hcons).
  - rewrite Hp0. exact Hz.
  - apply (Hns p Hr Hp0 Hcons).
Qed.

Lemma no_stale_states_on_plays s :
  win (stv s) = true -> no_stale_states -> no_stale_on_plays s.
Proof.
  intros Hz Hns p Hr Hp0 Hcons i Hs Hst.
  assert (Hw0 : win (stv (p 0)) = true) by (rewrite Hp0; exact Hz).
  destruct (inv_all p Hr Hcons Hw0 i Hs) as [Hw _].
  destruct (Hr i) as [Hx Hy].
  apply (Hns (fst (p i)) (snd (p i)) (mseq p i / G) Hx Hy Hw Hst).
Qed.

Theorem implementation_wins_if_no_stale_states s :
  fst s < nx -> snd s < ny -> win (stv s) = true ->
  no_stale_states -> impl_wins_from s.
Proof.
  intros H1 H2 Hz Hns.
  apply (implementation_wins_unless_stale s H1 H2 Hz).
  apply (no_stale_states_on_plays s Hz Hns).
Qed.

(* every winning state lies in the trap y_{k,i} of its level k, for every
   persistence index i: nothing can go stale *)
Theorem implementation_wins_if_traps_cover s :
  fst s < nx -> snd s < ny -> win (stv s) = true ->
  (forall x yb h, x < nx -> yb < ny -> h < none -> win (sv c x yb) = true ->
     nth h (nth (fidx zk (sv c x yb)) yki []) bfalse (sv c x yb) = true) ->
  impl_wins_from s.
Proof.
  intros H1 H2 Hz Hcov. apply (implementation_wins_if_no_stale_states s H1 H2 Hz).
  intros x yb h Hx Hyb Hw [Hlt Hf]. rewrite (Hcov x yb h Hx Hyb Hlt Hw) in Hf. discriminate.
Qed.

(* with ONE persistence predicate the implementation wins, unconditionally *)
Theorem implementation_wins_one_persistence s :
  none = 1 ->
  fst s < nx -> snd s < ny -> win (stv s) = true ->
  impl_wins_from s.
Proof.
  intros H1p H1 H2 Hz. apply (implementation_wins_if_traps_cover s H1 H2 Hz).
  intros x yb h Hx Hyb Hlt Hw.
  destruct (winning_has_trap nc nx ny E S holds goals moore plus_one fuel Hfuel Sh Sg
              c x yb Hw) as [h' [Hh' Htrap]].
  assert (h = 0) by lia. assert (h' = 0) by lia. subst h h'. exact Htrap.
Qed.

End Wins.
