"""Fail-closed translator for the two prefix ("slugsin") translators
(tie T for C17):

    omega/symbolic/bdd_iterative.py : Parser.parse, Parser._increase,
                                      Parser._push, Parser._reduce, add_expr
    omega/symbolic/bdd.py           : the literal token rules of class Lexer
                                      (table `lexer_table`)
                                                      -> coq/gen/PrefixGen.v
    omega/symbolic/bdd.py           : Parser.parse, Parser._recurse, add_expr,
                                      the `flatten` methods of the node
                                      classes built by Parser(nodes=BDDNodes())
    omega/logic/ast.py              : the constructors those classes inherit
                                                      -> coq/gen/PrefixRecGen.v
      (class RecTranslator below: node classes as constructors of `pnode`,
       `x.flatten(...)` as dynamic dispatch with the keyword / default / **kw
       protocol as a record of optional slots, list comprehensions as loops,
       the block ending in bdd.rename matched literally)

Like py2coq.py it reads the CURRENT source text with `ast` (never imports
omega), compiles statements in continuation style and raises `Refuse` on
anything outside the subset below.  Output: coq/gen/PrefixGen.v and
coq/gen/PrefixRecGen.v, related to the hand-written models
(theories/L3History/Prefix.v) in coq/GenProofs/PrefixBridge.v and
coq/GenProofs/PrefixRecBridge.v on every run.

Values and their Gallina types (a kind error is a refusal)

  int        Python int                                   Z
  bool       Python bool                                  bool
  str        Python str                                   string
  node       a BDD node returned by the manager           D (Section variable)
  item       a str or a node (what the stack and the memory buffers hold;
             Python is untyped, nothing in the code excludes a string in a
             buffer)                                      item = IStr | IVal
  tok        a LexToken: attributes .type and .value      ptok (two strings)
  otok       what `lexer.token()` returns: a token or None   option ptok
  list k     Python list                                  list
  olist k    a list or None (`mem`)                       option (list _)
  strset     a module-level / `self.` constant set of string literals, used
             only through `in`                            list string
  mgr        the BDD manager `bdd`: not a value; its methods are the Section
             variables var / node / ap1 / ap2 (signature of the model), through
             `bdd_apply` for `bdd.apply(op, *operands)`

Effects.  Every function body is a term of `option (...)`: None is ANY
exception (failed `assert`, `raise`, IndexError, ValueError of `int()` /
unpacking, AttributeError on None, UnboundLocalError, an exception of the
manager, out of fuel).  The lexer is the list of tokens not yet read
(`lexer.input(data)` sets it, `lexer.token()` takes the head or returns None);
every function that reads tokens takes that list and returns the rest.

Lists are mutated in place in Python; here a function returns the final
value of every list parameter that it (or a callee) may change while the
parameter name still denotes the caller's list (found by iterating the
translation to a fixed point), and the caller re-binds its variable.  This is
exact without aliasing, which is enforced: a list is bound to one name only
(`a = b` on lists, lists in lists, returning a list are refused), the same
variable is not passed twice, a list is not changed while iterated.  A
parameter that is re-bound (`mem = list()`) keeps, for the caller, the value
it had at that moment.

`if` duplicates the rest of the block into both branches, so kinds may
differ between branches (`r` is a node in one, a string in another).
Tests `x is None`, `not tok`, `isinstance(x, str)`, `x in STRSET` on a
variable refine its kind in the branches (`match`).  A block that ends in an
unconditional `raise` and cannot return is None as a whole.

Loops.  `for` is `for_list` over the list of the iterable (break/continue
supported); `while` becomes an auxiliary Fixpoint on fuel.  The state of a
loop is the tuple of names assigned in it and live at its head (backward
liveness analysis), in the order of first binding in the function; a name
that may be unbound there is carried as an option (reading it when None is
Python's UnboundLocalError).  Recursion (and every `while`) is structural on
an extra first argument `fuel : nat`; the bridge proves the results for
EVERY sufficient fuel.

Nothing is dropped silently: every skipped statement/expression is a note.
"""
import ast
import os
import re

from py2coq import Refuse, _src, _dotted

ITER_SRC = 'omega/symbolic/bdd_iterative.py'
LEX_SRC = 'omega/symbolic/bdd.py'

IMMUTABLE = ('int', 'bool', 'str', 'node', 'item', 'tok', 'otok', 'none',
             'pnode')
TOKENS = ('list', 'tok')


def _comment(s):
    return (s.replace('"', "'").replace('(*', '( *').replace('*)', '* )')
            .replace('\n', ' '))


def is_list(k):
    return isinstance(k, tuple) and k[0] in ('list', 'olist')


LENIENT = [False]      # True while the effect sets are still growing


def coq_type(k):
    if isinstance(k, tuple):
        if k[1] is None:
            if LENIENT[0]:
                return '_'
            raise Refuse('a list whose element kind is never determined')
        if k[0] == 'list':
            return f'(list {coq_type(k[1])})'
        if k[0] == 'olist':
            return f'(option (list {coq_type(k[1])}))'
        if k[0] == 'opt':
            return f'(option {coq_type(k[1])})'
        if k[0] == 'pair':
            return f'({coq_type(k[1])} * {coq_type(k[2])})'
    try:
        return {'int': 'Z', 'bool': 'bool', 'str': 'string', 'node': 'D',
                'item': 'item', 'tok': 'ptok', 'otok': '(option ptok)',
                'pnode': 'pnode'}[k]
    except (KeyError, TypeError):
        raise Refuse(f'no Gallina type for kind {k}')


def zlit(n):
    return str(n) if n >= 0 else f'({n})'


def strlit(s):
    for c in s:
        if ord(c) < 32 or ord(c) > 126:
            raise Refuse(f'string literal {s!r} outside printable ASCII')
    return '"' + s.replace('"', '""') + '"%string'


def lub(a, b):
    """Least kind that holds values of both kinds (None: no such kind)."""
    if a == b:
        return a
    if a is None or b is None:
        return None
    s = {a, b} if not (isinstance(a, tuple) or isinstance(b, tuple)) else None
    if s is not None:
        if s <= {'node', 'str', 'item'}:
            return 'item'
        if s == {'tok', 'otok'}:
            return 'otok'
        return None
    if is_list(a) and is_list(b):
        if a[1] is None:
            e = b[1]
        elif b[1] is None or a[1] == b[1]:
            e = a[1]
        else:
            return None      # no element-wise coercion
        return ('olist' if 'olist' in (a[0], b[0]) else 'list', e)
    if a == 'none' and is_list(b):
        return ('olist', b[1])
    if b == 'none' and is_list(a):
        return ('olist', a[1])
    if {a, b} == {'none', 'tok'} or {a, b} == {'none', 'otok'}:
        return 'otok'
    return None


class Val:
    def __init__(self, kind, code):
        self.kind, self.code = kind, code


class Bind:
    """A Python local: kind, the Coq variable holding it; maybe = the Coq
    variable is an option, None when the Python name is unbound."""

    def __init__(self, kind, coq, maybe=False):
        self.kind, self.coq, self.maybe = kind, coq, maybe

    def key(self):
        return (self.kind, self.maybe)


class Env:
    def __init__(self):
        self.vars = {}          # name -> Bind (insertion ordered)
        self.alias = set()      # list parameters still denoting the caller's list
        self.frozen = {}        # re-bound list parameters: value for the caller

    def copy(self):
        e = Env()
        e.vars = dict(self.vars)
        e.alias = set(self.alias)
        e.frozen = dict(self.frozen)
        return e

    def shape(self):
        return (frozenset(self.alias), tuple(sorted(self.frozen)))


def coerce(v, kind, what='value'):
    """Coq term for v seen as a value of `kind`."""
    k = v.kind
    if k == kind:
        return v.code
    if kind == 'item' and k == 'node':
        return f'(IVal {v.code})'
    if kind == 'item' and k == 'str':
        return f'(IStr {v.code})'
    if kind == 'otok' and k == 'tok':
        return f'(Some {v.code})'
    if kind == 'otok' and k == 'none':
        return 'None'
    if is_list(kind):
        if k == 'none' and kind[0] == 'olist':
            return 'None'
        if is_list(k) and (k[1] is None or k[1] == kind[1]):
            if k[0] == kind[0]:
                return v.code
            if k[0] == 'list' and kind[0] == 'olist':
                return f'(Some {v.code})'
    raise Refuse(f'kind error: {what} of kind {k} where {kind} is needed')


def tuple_of(parts):
    if not parts:
        return 'tt'
    if len(parts) == 1:
        return parts[0]
    return '(' + ', '.join(parts) + ')'


def pat_of(parts):
    if not parts:
        return '_'
    if len(parts) == 1:
        return parts[0]
    return "'(" + ', '.join(parts) + ')'


def indent(code, n=2):
    pad = ' ' * n
    return '\n'.join(pad + l if l else l for l in code.split('\n'))


def bind(term, pat, body):
    return f'obind {term} (fun {pat} =>\n{body})'


def let(pat, term, body):
    return f'let {pat} := {term} in\n{body}'


def ite(c, a, b):
    return f'if {c} then\n{indent(a)}\nelse\n{indent(b)}'


def match(term, branches):
    out = [f'match {term} with']
    for p, b in branches:
        out.append(f'| {p} =>\n{indent(b, 4)}')
    out.append('end')
    return '\n'.join(out)


# ------------------------------------------------------------------ liveness
def reads(e):
    if e is None:
        return set()
    return {n.id for n in ast.walk(e)
            if isinstance(n, ast.Name) and isinstance(n.ctx, ast.Load)}


def target_names(t):
    if isinstance(t, ast.Name):
        return [t.id]
    if isinstance(t, (ast.Tuple, ast.List)):
        out = []
        for x in t.elts:
            out += target_names(x)
        return out
    raise Refuse(f'assignment target `{_src(t)}`')


def live_block(stmts, out, brk, cont):
    for st in reversed(stmts):
        out = live_stmt(st, out, brk, cont)
    return out


def live_stmt(st, out, brk, cont):
    st._live_out = set(out)
    if isinstance(st, ast.Assign):
        o = set(out)
        for t in st.targets:
            o -= set(target_names(t))
        return o | reads(st.value)
    if isinstance(st, ast.AugAssign):
        return out | reads(st.value) | set(target_names(st.target))
    if isinstance(st, ast.Expr):
        return out | reads(st.value)
    if isinstance(st, ast.Return):
        return reads(st.value)
    if isinstance(st, ast.Raise):
        return set()
    if isinstance(st, ast.Assert):
        return out | reads(st.test)
    if isinstance(st, ast.Pass):
        return out
    if isinstance(st, ast.Break):
        if brk is None:
            raise Refuse('break outside a loop')
        return set(brk)
    if isinstance(st, ast.Continue):
        if cont is None:
            raise Refuse('continue outside a loop')
        return set(cont)
    if isinstance(st, ast.If):
        return (reads(st.test) | live_block(st.body, out, brk, cont)
                | live_block(st.orelse, out, brk, cont))
    if isinstance(st, ast.While):
        if st.orelse:
            raise Refuse('while ... else')
        head = set(out) | reads(st.test)
        while True:
            new = head | live_block(st.body, head, out, head)
            if new == head:
                return head
            head = new
    if isinstance(st, ast.For):
        if st.orelse:
            raise Refuse('for ... else')
        tg = set(target_names(st.target))
        head = set(out)
        while True:
            new = head | (live_block(st.body, head, out, head) - tg)
            if new == head:
                return head | reads(st.iter)
            head = new
    raise Refuse(f'statement `{type(st).__name__}` (line {st.lineno})')


def loop_head_live(st, out):
    """Names live at the head of loop st (before an iteration), given the
    names live after it."""
    if isinstance(st, ast.While):
        return live_stmt(st, out, None, None)
    tg = set(target_names(st.target))
    head = set(out)
    while True:
        new = head | (live_block(st.body, head, out, head) - tg)
        if new == head:
            return head
        head = new


def contains(stmts, types, stop=()):
    """Does a statement of one of `types` occur in stmts (not descending into
    statements of the kinds in `stop`)?"""
    for st in stmts:
        if isinstance(st, types):
            return True
        if isinstance(st, stop):
            continue
        for f in ('body', 'orelse'):
            if contains(getattr(st, f, []) or [], types, stop):
                return True
    return False


# ---------------------------------------------------------------- functions
class Func:
    def __init__(self, name, node, params, ret, coq, is_method):
        self.name, self.node, self.coq = name, node, coq
        self.params = params        # [(python name, kind)] without self
        self.ret = ret
        self.is_method = is_method
        self.inout = set()          # names of list parameters returned
        self.lexer = False          # reads tokens
        self.calls = set()
        self.order = []             # names in order of first binding


class Loop:
    def __init__(self, brk, cont):
        self.brk, self.cont = brk, cont


class Translator:
    def __init__(self, tree, sigs, coq_prefix, cls='Parser'):
        self.tree = tree
        self.sigs = sigs
        self.prefix = coq_prefix
        self.cls = cls
        self.notes = []
        self.consts = {}            # python name / 'self.x' -> (coq, [str])
        self.used_consts = []
        self.funcs = {}
        self.instances = {}         # module-level name bound to cls()
        self.imports = {}           # alias -> module
        self._collect()

    def note(self, s):
        s = _comment(s)
        if s not in self.notes:
            self.notes.append(s)

    # ------------------------------------------------------------ collection
    def _strset(self, node):
        if isinstance(node, (ast.Set, ast.List, ast.Tuple)) and node.elts and \
                all(isinstance(x, ast.Constant) and isinstance(x.value, str)
                    for x in node.elts):
            return [x.value for x in node.elts]
        return None

    def _collect(self):
        cls = None
        for st in self.tree.body:
            if isinstance(st, ast.Import):
                for a in st.names:
                    self.imports[a.asname or a.name] = a.name
            elif isinstance(st, ast.ImportFrom):
                for a in st.names:
                    self.imports[a.asname or a.name] = \
                        f'{st.module}.{a.name}'
            elif isinstance(st, ast.Assign) and len(st.targets) == 1 and \
                    isinstance(st.targets[0], ast.Name):
                n = st.targets[0].id
                ss = self._strset(st.value)
                if ss is not None:
                    self.consts[n] = ('c_' + n, ss)
                elif isinstance(st.value, ast.Call) and \
                        isinstance(st.value.func, ast.Name) and \
                        st.value.func.id == self.cls and \
                        self.instance_ok(st.value):
                    self.instances[n] = self.cls
            elif isinstance(st, ast.ClassDef) and st.name == self.cls:
                cls = st
        if cls is None:
            raise Refuse(f'class {self.cls} not found')
        # a module-level constant must be assigned once
        for n in list(self.consts) + list(self.instances):
            k = sum(1 for x in ast.walk(self.tree)
                    if isinstance(x, ast.Name) and x.id == n
                    and isinstance(x.ctx, (ast.Store, ast.Del)))
            if k != 1:
                raise Refuse(f'module-level name {n} is assigned {k} times')
        methods = {m.name: m for m in cls.body
                   if isinstance(m, ast.FunctionDef)}
        for st in cls.body:
            if isinstance(st, ast.FunctionDef):
                continue
            if isinstance(st, ast.Expr) and isinstance(st.value, ast.Constant):
                continue
            raise Refuse(f'class {self.cls}: statement at line {st.lineno}')
        self._init(methods.get('__init__'))
        # self.<x> may be assigned in __init__ only
        for m in methods.values():
            if m.name == '__init__':
                continue
            for x in ast.walk(m):
                if isinstance(x, ast.Attribute) and \
                        isinstance(x.ctx, (ast.Store, ast.Del)):
                    raise Refuse(f'{m.name}: assignment to `{_src(x)}`')
        mod_funcs = {f.name: f for f in self.tree.body
                     if isinstance(f, ast.FunctionDef)}
        for name, sig in self.sigs.items():
            if sig.get('module'):
                node = mod_funcs.get(name)
            else:
                node = methods.get(name)
            if node is None:
                raise Refuse(f'function {name} not found')
            a = node.args
            if a.vararg or a.kwarg or a.kwonlyargs or a.defaults or \
                    a.posonlyargs or node.decorator_list:
                raise Refuse(f'{name}: signature outside the subset')
            names = [x.arg for x in a.args]
            if not sig.get('module'):
                if not names or names[0] != 'self':
                    raise Refuse(f'{name}: first parameter is not self')
                names = names[1:]
            if len(names) != len(sig['params']):
                raise Refuse(f'{name}: {len(names)} parameters, '
                             f'{len(sig["params"])} expected')
            f = Func(name, node, list(zip(names, sig['params'])), sig['ret'],
                     self.prefix + name.lstrip('_'), not sig.get('module'))
            f.order = self._order(node, names)
            self.funcs[name] = f

    def instance_ok(self, call):
        return not call.args and not call.keywords

    def init_stmt(self, st):
        """Hook: further statements accepted in __init__."""
        return False

    def _init(self, node):
        """Parser.__init__ is not translated; it may only build the lexer and
        constant sets."""
        self.lexer_module = None
        if node is None:
            raise Refuse('Parser.__init__ not found')
        for st in node.body:
            if isinstance(st, ast.Expr) and isinstance(st.value, ast.Constant):
                continue
            ok = False
            if isinstance(st, ast.Assign) and len(st.targets) == 1:
                d = _dotted(st.targets[0])
                v = st.value
                if d == 'self.lexer' and isinstance(v, ast.Call) and \
                        not v.args and not v.keywords:
                    fd = _dotted(v.func) or ''
                    if fd == 'Lexer':
                        self.lexer_module, ok = '', True
                    elif fd.endswith('.Lexer') and \
                            fd[:-6] in self.imports:
                        self.lexer_module, ok = self.imports[fd[:-6]], True
                elif d == 'self.tokens' and _dotted(v) == 'self.lexer.tokens':
                    ok = True
                elif d and d.startswith('self.') and d.count('.') == 1:
                    ss = self._strset(v)
                    if ss is not None and d not in self.consts:
                        self.consts[d] = ('c' + d[5:] if d[5] == '_'
                                          else 'c_' + d[5:], ss)
                        ok = True
            if not ok and not self.init_stmt(st):
                raise Refuse(f'__init__: `{_src(st)}`')
        if self.lexer_module is None:
            raise Refuse('__init__ does not build self.lexer = Lexer()')
        self.note(f'{self.cls}.__init__ is not translated: it builds the PLY '
                  'lexer (outside the model: the token stream is a list of '
                  'tokens) and constant sets')

    def _order(self, node, params):
        order = list(params)
        stores = [x for x in ast.walk(node)
                  if isinstance(x, ast.Name) and isinstance(x.ctx, ast.Store)]
        stores.sort(key=lambda x: (x.lineno, x.col_offset))
        for x in stores:
            if x.id not in order:
                order.append(x.id)
        for x in ast.walk(node):
            if isinstance(x, (ast.Global, ast.Nonlocal, ast.Lambda,
                              ast.FunctionDef, ast.ClassDef, ast.Try,
                              ast.With, ast.Yield, ast.YieldFrom, ast.Await,
                              ast.ListComp, ast.SetComp, ast.DictComp,
                              ast.GeneratorExp, ast.NamedExpr, ast.Delete)) \
                    and x is not node:
                raise Refuse(f'{node.name}: `{type(x).__name__}` '
                             f'(line {x.lineno})')
        return order

    # ------------------------------------------------------------ driver
    def translate(self):
        """Iterate to a fixed point of the effect sets, then emit."""
        final = False
        for _ in range(12):
            changed = False
            LENIENT[0] = not final
            self.out = {}
            self.used_consts = []
            for f in self.funcs.values():
                self.new_inout, self.new_lexer = set(f.inout), f.lexer
                self.cur = f
                f.calls = set()
                self.aux = []
                self.ntmp = 0
                self.nwhile = 0
                body = self.function(f)
                self.out[f.name] = (body, self.aux)
                if self.new_inout != f.inout or self.new_lexer != f.lexer:
                    f.inout, f.lexer = self.new_inout, self.new_lexer
                    changed = True
            if not changed and final:
                return self.emit()
            final = not changed
        raise Refuse('effect analysis does not converge')

    def ret_parts(self, f):
        ps = [f'{coq_type(f.ret)}']
        for n, k in f.params:
            if n in f.inout:
                ps.append(coq_type(k))
        if f.lexer:
            ps.append('(list ptok)')
        return ps

    def header(self, f):
        ps = ['(fuel : nat)']
        for n, k in f.params:
            if k == 'mgr':
                continue
            ps.append(f'(v_{n} : {coq_type(k)})')
        if f.lexer:
            ps.append('(toks : list ptok)')
        return (f'{f.coq} ' + ' '.join(ps),
                f'option ({" * ".join(self.ret_parts(f))})')

    def function(self, f):
        env = Env()
        for n, k in f.params:
            env.vars[n] = Bind(k, f'v_{n}')
            if is_list(k):
                env.alias.add(n)
        live_block(f.node.body, set(), None, None)

        def fall(env):
            raise Refuse(f'{f.name}: control may reach the end of the '
                         'function without return')
        return self.block(f.node.body, 0, env, fall, None)

    # ------------------------------------------------------------ statements
    def tmp(self):
        self.ntmp += 1
        return f't{self.ntmp}'

    def dead_end(self, stmts):
        """Ends in an unconditional raise and can neither return nor leave
        through break/continue of an enclosing loop."""
        if len(stmts) < 2 or not isinstance(stmts[-1], ast.Raise):
            return False
        if contains(stmts, (ast.Return,)):
            return False
        if contains(stmts, (ast.Break, ast.Continue),
                    stop=(ast.While, ast.For)):
            return False
        return True

    def block(self, stmts, i, env, k, loop):
        if i >= len(stmts):
            return k(env)
        if self.dead_end(stmts[i:]):
            self.note(
                f'{self.cur.name}: lines {stmts[i].lineno}-'
                f'{stmts[-1].lineno} end in an unconditional `raise` and '
                'cannot return: the whole block is None (the statements '
                'before the raise only build its message; that the loop '
                'among them terminates - it reads tokens until the lexer '
                'returns None - is not checked)'
                if contains(stmts[i:], (ast.While, ast.For)) else
                f'{self.cur.name}: lines {stmts[i].lineno}-'
                f'{stmts[-1].lineno} end in an unconditional `raise` and '
                'cannot return: the whole block is None')
            return 'None'
        st = stmts[i]
        nxt = lambda e: self.block(stmts, i + 1, e, k, loop)
        return self.stmt(st, env, nxt, loop)

    def stmt(self, st, env, k, loop):
        f = self.cur
        if isinstance(st, ast.Pass):
            return k(env)
        if isinstance(st, ast.Expr):
            v = st.value
            if isinstance(v, ast.Constant) and isinstance(v.value, str):
                return k(env)
            if isinstance(v, ast.Call):
                return self.ev(v, env, lambda val, e: k(e), stmt=True)
            raise Refuse(f'{f.name}: expression statement `{_src(st)}`')
        if isinstance(st, ast.Assign):
            if len(st.targets) != 1:
                raise Refuse(f'{f.name}: chained assignment `{_src(st)}`')
            return self.assign(st.targets[0], st.value, env, k)
        if isinstance(st, ast.AugAssign):
            if not isinstance(st.target, ast.Name) or \
                    not isinstance(st.op, (ast.Add, ast.Sub)):
                raise Refuse(f'{f.name}: `{_src(st)}`')
            e = ast.BinOp(left=ast.Name(id=st.target.id, ctx=ast.Load()),
                          op=st.op, right=st.value)
            ast.copy_location(e, st)
            ast.fix_missing_locations(e)
            return self.assign(st.target, e, env, k)
        if isinstance(st, ast.If):
            return self.cond(
                st.test, env,
                lambda e: self.block(st.body, 0, e, k, loop),
                lambda e: self.block(st.orelse, 0, e, k, loop))
        if isinstance(st, ast.Assert):
            if st.msg is not None:
                self.note(f'{f.name}: message of `assert {_src(st.test)}` '
                          'skipped')
            return self.cond(st.test, env, k, lambda e: 'None')
        if isinstance(st, ast.Raise):
            self.note(f'{f.name}: line {st.lineno}: `raise` is None '
                      '(exception type and message skipped)')
            return 'None'
        if isinstance(st, ast.Return):
            if loop is not None:
                raise Refuse(f'{f.name}: return inside a loop')
            if st.value is None:
                raise Refuse(f'{f.name}: return without a value')
            return self.ev(st.value, env,
                           lambda v, e: self.ret(v, e))
        if isinstance(st, ast.Break):
            return loop.brk(env)
        if isinstance(st, ast.Continue):
            return loop.cont(env)
        if isinstance(st, ast.For):
            return self.for_loop(st, env, k, loop)
        if isinstance(st, ast.While):
            return self.while_loop(st, env, k, loop)
        raise Refuse(f'{f.name}: statement `{type(st).__name__}` '
                     f'(line {st.lineno})')

    def ret(self, v, env):
        f = self.cur
        if is_list(v.kind):
            raise Refuse(f'{f.name}: returns a list (aliasing)')
        parts = [coerce(v, f.ret, 'returned value')]
        for n, kd in f.params:
            if n in f.inout:
                b = env.frozen.get(n) or env.vars.get(n)
                if b is None or b.maybe:
                    raise Refuse(f'{f.name}: parameter {n} lost')
                parts.append(coerce(Val(b.kind, b.coq), kd, f'parameter {n}'))
        if f.lexer:
            parts.append('toks')
        return f'Some {tuple_of(parts)}'

    def set_var(self, env, name, kind, coq):
        """Bind a Python name (assignment): env is modified; returns the
        lets to put in front (the value a re-bound list parameter keeps for
        the caller is saved under a name that is never shadowed)."""
        pre = ''
        if name in env.alias:
            b = env.vars[name]
            env.frozen[name] = Bind(b.kind, f'p_{name}')
            env.alias.discard(name)
            pre = f'let p_{name} := {b.coq} in\n'
        if kind in ('mgr', 'strset'):
            raise Refuse(f'{self.cur.name}: assignment of a {kind} to {name}')
        env.vars[name] = Bind(kind, coq)
        return pre

    def assign(self, target, value, env, k):
        f = self.cur
        if isinstance(target, ast.Name):
            if isinstance(value, ast.Name) and value.id in env.vars and \
                    is_list(env.vars[value.id].kind):
                raise Refuse(f'{f.name}: `{target.id} = {value.id}` makes two '
                             'names for one list (aliasing)')

            def after(v, e):
                e = e.copy()
                name = f'v_{target.id}'
                if v.kind == 'none':       # no Gallina type of its own
                    return self.set_var(e, target.id, 'none', 'None') + k(e)
                pre = self.set_var(e, target.id, v.kind, name)
                if v.code == name:
                    return pre + k(e)
                return pre + let(name, v.code, k(e))
            return self.ev(value, env, after)
        if isinstance(target, (ast.Tuple, ast.List)) and \
                all(isinstance(x, ast.Name) for x in target.elts):
            names = [x.id for x in target.elts]
            if len(set(names)) != len(names):
                raise Refuse(f'{f.name}: `{_src(target)}`')

            def after(v, e):
                if not (isinstance(v.kind, tuple) and v.kind[0] == 'list'
                        and v.kind[1] in IMMUTABLE):
                    raise Refuse(f'{f.name}: unpacking a value of kind '
                                 f'{v.kind}')
                e = e.copy()
                pre = ''
                for n in names:
                    pre += self.set_var(e, n, v.kind[1], f'v_{n}')
                pat = '[' + '; '.join(f'v_{n}' for n in names) + ']'
                return pre + match(v.code, [(pat, k(e)), ('_', 'None')])
            return self.ev(value, env, after)
        raise Refuse(f'{f.name}: assignment target `{_src(target)}`')

    # ------------------------------------------------------------ conditions
    def is_pure(self, e, env):
        """Syntactic: evaluation cannot fail and has no effect."""
        if isinstance(e, ast.Constant):
            return True
        if isinstance(e, ast.Name):
            b = env.vars.get(e.id)
            return (b is not None and not b.maybe) or \
                (b is None and e.id in self.consts)
        if isinstance(e, ast.Attribute):
            if isinstance(e.value, ast.Name):
                b = env.vars.get(e.value.id)
                if b is not None and not b.maybe:
                    return (b.kind == 'tok' and e.attr in ('type', 'value')) \
                        or (b.kind == 'mgr' and e.attr in ('true', 'false'))
            return _dotted(e) in self.consts
        if isinstance(e, ast.UnaryOp):
            return self.is_pure(e.operand, env)
        if isinstance(e, ast.BinOp):
            return isinstance(e.op, (ast.Add, ast.Sub, ast.Mult)) and \
                self.is_pure(e.left, env) and self.is_pure(e.right, env)
        if isinstance(e, ast.BoolOp):
            return all(self.is_pure(x, env) for x in e.values)
        if isinstance(e, ast.Compare):
            return self.is_pure(e.left, env) and \
                all(self.is_pure(x, env) for x in e.comparators)
        if isinstance(e, ast.Call) and isinstance(e.func, ast.Name) and \
                not e.keywords and len(e.args) >= 1:
            if e.func.id == 'len' and isinstance(e.args[0], ast.Name):
                b = env.vars.get(e.args[0].id)
                return b is not None and not b.maybe and \
                    isinstance(b.kind, tuple) and b.kind[0] == 'list'
            if e.func.id == 'isinstance':
                return self.is_pure(e.args[0], env)
        return False

    def const_of(self, e):
        d = _dotted(e)
        if d in self.consts:
            if d not in self.used_consts:
                self.used_consts.append(d)
            return self.consts[d][0]
        return None

    def cond(self, test, env, kt, kf):
        f = self.cur
        if isinstance(test, ast.UnaryOp) and isinstance(test.op, ast.Not):
            return self.cond(test.operand, env, kf, kt)
        if isinstance(test, ast.BoolOp):
            first, rest = test.values[0], test.values[1:]
            rest = rest[0] if len(rest) == 1 else \
                ast.copy_location(ast.BoolOp(op=test.op, values=rest), test)
            if isinstance(test.op, ast.And):
                return self.cond(first, env,
                                 lambda e: self.cond(rest, e, kt, kf), kf)
            return self.cond(first, env, kt,
                             lambda e: self.cond(rest, e, kt, kf))
        if isinstance(test, ast.Name) and test.id in env.vars and \
                env.vars[test.id].kind in ('otok', 'tok', 'none'):
            return self.none_test(test.id, env, kf, kt)
        if isinstance(test, ast.Compare) and len(test.ops) == 1:
            op, l, r = test.ops[0], test.left, test.comparators[0]
            if isinstance(op, (ast.Is, ast.IsNot)):
                if not (isinstance(r, ast.Constant) and r.value is None
                        and isinstance(l, ast.Name)):
                    raise Refuse(f'{f.name}: `{_src(test)}`')
                if isinstance(op, ast.Is):
                    return self.none_test(l.id, env, kt, kf)
                return self.none_test(l.id, env, kf, kt)
            if isinstance(op, (ast.In, ast.NotIn)) and \
                    isinstance(l, ast.Name) and l.id in env.vars:
                c = self.const_of(r)
                if c is None:
                    raise Refuse(f'{f.name}: `{_src(test)}`: not a constant '
                                 'set of strings')
                if isinstance(op, ast.In):
                    return self.in_test(l.id, c, env, kt, kf)
                return self.in_test(l.id, c, env, kf, kt)
        if isinstance(test, ast.Compare) and len(test.ops) > 1 and \
                not self.is_pure(test, env):
            # a < b < c: c is evaluated only if a < b
            def k1(va, e1):
                def k2(vb, e2):
                    c1 = self.cmp(test.ops[0], va, vb, test)
                    tail = ast.copy_location(ast.Compare(
                        left=ast.Name(id='%chain', ctx=ast.Load()),
                        ops=test.ops[1:], comparators=test.comparators[1:]),
                        test)
                    e3 = e2.copy()
                    e3.vars['%chain'] = Bind(vb.kind, vb.code)

                    def drop(kk):
                        def g(e):
                            e = e.copy()
                            e.vars.pop('%chain', None)
                            return kk(e)
                        return g
                    return ite(c1, self.cond(tail, e3, drop(kt), drop(kf)),
                               kf(e2))
                return self.ev(test.comparators[0], e1, k2)
            return self.ev(test.left, env, k1)
        if isinstance(test, ast.Call) and isinstance(test.func, ast.Name) \
                and test.func.id == 'isinstance' and len(test.args) == 2 \
                and isinstance(test.args[0], ast.Name) \
                and isinstance(test.args[1], ast.Name) \
                and test.args[1].id == 'str' and not test.keywords:
            return self.str_test(test.args[0].id, env, kt, kf)

        def after(v, e):
            if v.kind != 'bool':
                raise Refuse(f'{f.name}: truth value of `{_src(test)}` '
                             f'(kind {v.kind})')
            if v.code == 'true':
                return kt(e)
            if v.code == 'false':
                return kf(e)
            return ite(v.code, kt(e), kf(e))
        return self.ev(test, env, after)

    def rebound(self, env, name, kind, coq):
        """Refinement of a variable's kind (not an assignment)."""
        e = env.copy()
        e.vars[name] = Bind(kind, coq)
        return e

    def none_test(self, name, env, k_none, k_some):
        def after(v, e):
            if v.kind == 'none':
                return k_none(self.rebound(e, name, v.kind, v.code))
            if v.kind in ('otok',) or \
                    (isinstance(v.kind, tuple) and v.kind[0] == 'olist'):
                t = self.tmp()
                some = 'tok' if v.kind == 'otok' else ('list', v.kind[1])
                return match(v.code, [
                    ('None', k_none(self.rebound(e, name, v.kind, v.code))),
                    (f'Some {t}', k_some(self.rebound(e, name, some, t)))])
            if v.kind in ('mgr', 'strset'):
                raise Refuse(f'{self.cur.name}: `{name}` tested for None')
            return k_some(self.rebound(e, name, v.kind, v.code))
        return self.ev(ast.Name(id=name, ctx=ast.Load()), env, after)

    def in_test(self, name, cset, env, kt, kf):
        def after(v, e):
            if v.kind == 'str':
                e1 = self.rebound(e, name, 'str', v.code)
                return ite(f'str_in {v.code} {cset}', kt(e1), kf(e1))
            if v.kind == 'item':
                s = self.tmp()
                e1 = self.rebound(e, name, 'str', s)
                e2 = self.rebound(e, name, 'item', v.code)
                return match(v.code, [
                    (f'IStr {s}', ite(f'str_in {s} {cset}', kt(e1), kf(e2))),
                    ('IVal _', kf(e2))])
            if v.kind == 'node':
                return kf(self.rebound(e, name, 'node', v.code))
            raise Refuse(f'{self.cur.name}: `{name} in ...` on kind {v.kind}')
        return self.ev(ast.Name(id=name, ctx=ast.Load()), env, after)

    def str_test(self, name, env, kt, kf):
        def after(v, e):
            if v.kind == 'str':
                return kt(self.rebound(e, name, 'str', v.code))
            if v.kind == 'node':
                return kf(self.rebound(e, name, 'node', v.code))
            if v.kind == 'item':
                s, d = self.tmp(), self.tmp()
                return match(v.code, [
                    (f'IStr {s}', kt(self.rebound(e, name, 'str', s))),
                    (f'IVal {d}', kf(self.rebound(e, name, 'node', d)))])
            raise Refuse(f'{self.cur.name}: isinstance({name}, str) on kind '
                         f'{v.kind}')
        return self.ev(ast.Name(id=name, ctx=ast.Load()), env, after)

    def cmp(self, op, a, b, node):
        f = self.cur
        ka, kb = a.kind, b.kind
        if ka == 'int' and kb == 'int':
            sym = {ast.Eq: '=?', ast.Lt: '<?', ast.LtE: '<=?',
                   ast.Gt: '>?', ast.GtE: '>=?'}.get(type(op))
            if sym:
                return f'({a.code} {sym} {b.code})'
            if isinstance(op, ast.NotEq):
                return f'(negb ({a.code} =? {b.code}))'
        if isinstance(op, (ast.Eq, ast.NotEq)):
            t = None
            if ka == 'str' and kb == 'str':
                t = f'(String.eqb {a.code} {b.code})'
            elif ka == 'item' and kb == 'str':
                t = f'(item_eq_str {a.code} {b.code})'
            elif ka == 'str' and kb == 'item':
                t = f'(item_eq_str {b.code} {a.code})'
            elif ka == 'bool' and kb == 'bool':
                t = f'(Bool.eqb {a.code} {b.code})'
            if t:
                return t if isinstance(op, ast.Eq) else f'(negb {t})'
        if isinstance(op, (ast.In, ast.NotIn)) and kb == 'strset':
            t = None
            if ka == 'str':
                t = f'(str_in {a.code} {b.code})'
            elif ka == 'item':
                t = f'(item_in {a.code} {b.code})'
            elif ka == 'node':
                t = 'false'
            if t:
                return t if isinstance(op, ast.In) else f'(negb {t})'
        raise Refuse(f'{f.name}: comparison `{_src(node)}` on kinds '
                     f'{ka}, {kb}')

    # ------------------------------------------------------------ expressions
    def evs(self, exprs, env, k):
        """Evaluate a list of expressions left to right."""
        def go(i, acc, e):
            if i == len(exprs):
                return k(acc, e)
            return self.ev(exprs[i], e,
                           lambda v, e2: go(i + 1, acc + [v], e2))
        return go(0, [], env)

    def ev(self, x, env, k, stmt=False):
        f = self.cur
        if isinstance(x, ast.Constant):
            v = x.value
            if v is None:
                return k(Val('none', 'None'), env)
            if v is True or v is False:
                return k(Val('bool', 'true' if v else 'false'), env)
            if isinstance(v, int):
                return k(Val('int', zlit(v)), env)
            if isinstance(v, str):
                return k(Val('str', strlit(v)), env)
            raise Refuse(f'{f.name}: constant {v!r}')
        if isinstance(x, ast.Name):
            b = env.vars.get(x.id)
            if b is None:
                c = self.const_of(x)
                if c is not None:
                    return k(Val('strset', c), env)
                raise Refuse(f'{f.name}: name `{x.id}` is not bound here '
                             f'(line {getattr(x, "lineno", "?")})')
            if b.maybe:
                t = self.tmp()
                e = self.rebound(env, x.id, b.kind, t)
                return bind(b.coq, t, k(Val(b.kind, t), e))
            return k(Val(b.kind, b.coq), env)
        if isinstance(x, ast.Attribute):
            c = self.const_of(x)
            if c is not None:
                return k(Val('strset', c), env)

            def after(v, e):
                if v.kind == 'mgr' and x.attr in ('true', 'false'):
                    return k(Val('node', 'd' + x.attr), e)
                if x.attr in ('type', 'value'):
                    if v.kind == 'tok':
                        return k(Val('str', f'(p_{x.attr} {v.code})'), e)
                    if v.kind == 'otok':       # AttributeError on None
                        t = self.tmp()
                        return bind(v.code, t,
                                    k(Val('str', f'(p_{x.attr} {t})'), e))
                    if v.kind == 'none':
                        return 'None'
                raise Refuse(f'{f.name}: attribute `{_src(x)}` '
                             f'(kind {v.kind})')
            return self.ev(x.value, env, after)
        if isinstance(x, ast.UnaryOp):
            def after(v, e):
                if isinstance(x.op, ast.USub) and v.kind == 'int':
                    return k(Val('int', f'(- {v.code})'), e)
                if isinstance(x.op, ast.Not) and v.kind == 'bool':
                    return k(Val('bool', f'(negb {v.code})'), e)
                raise Refuse(f'{f.name}: `{_src(x)}`')
            if isinstance(x.op, ast.USub) and \
                    isinstance(x.operand, ast.Constant) and \
                    isinstance(x.operand.value, int) and \
                    not isinstance(x.operand.value, bool):
                return k(Val('int', zlit(-x.operand.value)), env)
            return self.ev(x.operand, env, after)
        if isinstance(x, ast.BinOp):
            sym = {ast.Add: '+', ast.Sub: '-', ast.Mult: '*'}.get(type(x.op))

            def after(vs, e):
                a, b = vs
                if sym and a.kind == 'int' and b.kind == 'int':
                    return k(Val('int', f'({a.code} {sym} {b.code})'), e)
                raise Refuse(f'{f.name}: `{_src(x)}` on kinds {a.kind}, '
                             f'{b.kind}')
            return self.evs([x.left, x.right], env, after)
        if isinstance(x, ast.BoolOp):
            if not self.is_pure(x, env):
                raise Refuse(f'{f.name}: `{_src(x)}` as a value with an '
                             'operand that can fail')
            sym = '&&' if isinstance(x.op, ast.And) else '||'

            def after(vs, e):
                if any(v.kind != 'bool' for v in vs):
                    raise Refuse(f'{f.name}: `{_src(x)}` on non-Booleans')
                return k(Val('bool', '(' + f' {sym} '.join(v.code for v in vs)
                             + ')'), e)
            return self.evs(x.values, env, after)
        if isinstance(x, ast.Compare):
            if len(x.ops) > 1 and not self.is_pure(x, env):
                raise Refuse(f'{f.name}: chained comparison `{_src(x)}` as a '
                             'value with an operand that can fail')
            if any(isinstance(o, (ast.Is, ast.IsNot)) for o in x.ops):
                if len(x.ops) != 1 or not (
                        isinstance(x.comparators[0], ast.Constant)
                        and x.comparators[0].value is None):
                    raise Refuse(f'{f.name}: `{_src(x)}`')

                def after(v, e):
                    if v.kind == 'otok' or (isinstance(v.kind, tuple)
                                            and v.kind[0] == 'olist'):
                        t = f'(is_none {v.code})'
                    elif v.kind == 'none':
                        t = 'true'
                    elif v.kind in ('mgr', 'strset'):
                        raise Refuse(f'{f.name}: `{_src(x)}`')
                    else:
                        t = 'false'
                    if isinstance(x.ops[0], ast.IsNot):
                        t = f'(negb {t})'
                    return k(Val('bool', t), e)
                return self.ev(x.left, env, after)

            def after(vs, e):
                ts = [self.cmp(op, vs[i], vs[i + 1], x)
                      for i, op in enumerate(x.ops)]
                return k(Val('bool', ts[0] if len(ts) == 1 else
                             '(' + ' && '.join(ts) + ')'), e)
            return self.evs([x.left] + x.comparators, env, after)
        if isinstance(x, ast.Subscript):
            return self.subscript(x, env, k)
        if isinstance(x, (ast.List,)) and not x.elts:
            return k(Val(('list', None), '[]'), env)
        if isinstance(x, ast.Call):
            return self.call(x, env, k, stmt)
        raise Refuse(f'{f.name}: expression `{_src(x)}`')

    def as_list(self, v, e, k, what):
        """Continue with the list held by v (a list, or a list-or-None:
        TypeError / AttributeError on None)."""
        if isinstance(v.kind, tuple) and v.kind[0] == 'list':
            return k(v, e)
        if isinstance(v.kind, tuple) and v.kind[0] == 'olist':
            t = self.tmp()
            return bind(v.code, t, k(Val(('list', v.kind[1]), t), e))
        if v.kind == 'none':
            return 'None'
        raise Refuse(f'{self.cur.name}: {what} on kind {v.kind}')

    def subscript(self, x, env, k):
        f = self.cur

        def after(v, e):
            def on_list(l, e1):
                if l.kind[1] is None:
                    raise Refuse(f'{f.name}: `{_src(x)}`: element kind of '
                                 'the list is not known')
                if isinstance(x.slice, ast.Slice):
                    if x.slice.step is not None or x.slice.lower is None \
                            or x.slice.upper is None:
                        raise Refuse(f'{f.name}: slice `{_src(x)}`')

                    def sl(vs, e2):
                        if any(z.kind != 'int' for z in vs):
                            raise Refuse(f'{f.name}: slice `{_src(x)}`')
                        return k(Val(l.kind, f'(py_slice {l.code} '
                                     f'{vs[0].code} {vs[1].code})'), e2)
                    return self.evs([x.slice.lower, x.slice.upper], e1, sl)

                def ix(i, e2):
                    if i.kind != 'int':
                        raise Refuse(f'{f.name}: index `{_src(x)}`')
                    t = self.tmp()
                    return bind(f'(py_index {l.code} {i.code})', t,
                                k(Val(l.kind[1], t), e2))
                return self.ev(x.slice, e1, ix)
            return self.as_list(v, e, on_list, f'`{_src(x)}`')
        return self.ev(x.value, env, after)

    # ------------------------------------------------------------ calls
    def mutate(self, name, env, what, none_ok=False):
        """The list held by variable `name` is about to be changed in
        place; returns its binding."""
        f = self.cur
        b = env.vars.get(name)
        if b is None or b.maybe:
            raise Refuse(f'{f.name}: {what}: `{name}` is not definitely '
                         'bound')
        if not is_list(b.kind) and not (none_ok and b.kind == 'none'):
            raise Refuse(f'{f.name}: {what} on kind {b.kind}')
        if name in getattr(self, 'iterating', ()):
            raise Refuse(f'{f.name}: {what}: `{name}` is changed while it '
                         'is iterated')
        if name in env.alias:
            self.new_inout.add(name)
        return b

    def callee(self, x):
        """Translated function called by x, or None."""
        d = _dotted(x.func)
        if d is None:
            return None
        if d.startswith('self.') and d[5:] in self.funcs and \
                self.funcs[d[5:]].is_method and self.cur.is_method:
            return self.funcs[d[5:]]
        if '.' in d:
            inst, m = d.split('.', 1)
            if inst in self.instances and m in self.funcs and \
                    self.funcs[m].is_method:
                return self.funcs[m]
        return None

    def call(self, x, env, k, stmt):
        f = self.cur
        d = _dotted(x.func) or ''
        if x.keywords:
            raise Refuse(f'{f.name}: keyword arguments in `{_src(x)}`')
        g = self.callee(x)
        if g is not None:
            return self.call_fn(g, x, env, k)
        if d == 'self.lexer.lexer.token' and not x.args and f.is_method:
            self.new_lexer = True
            t = self.tmp()
            return let(f"'({t}, toks)", 'next_token toks',
                       k(Val('otok', t), env))
        if d == 'self.lexer.lexer.input' and len(x.args) == 1 and stmt \
                and f.is_method:
            self.new_lexer = True

            def after(v, e):
                if v.kind != TOKENS:
                    raise Refuse(f'{f.name}: `{_src(x)}`: kind {v.kind}')
                if not self.cur_takes_toks():
                    return let('toks', v.code, k(Val('none', 'None'), e))
                return let('toks', v.code, k(Val('none', 'None'), e))
            return self.ev(x.args[0], env, after)
        # methods of a list variable
        if isinstance(x.func, ast.Attribute) and \
                isinstance(x.func.value, ast.Name) and \
                x.func.value.id in env.vars and \
                (is_list(env.vars[x.func.value.id].kind)
                 or env.vars[x.func.value.id].kind == 'none') and \
                x.func.attr in ('append', 'pop', 'insert'):
            return self.list_method(x, env, k, stmt)
        # the manager
        if isinstance(x.func, ast.Attribute) and \
                isinstance(x.func.value, ast.Name) and \
                x.func.value.id in env.vars and \
                env.vars[x.func.value.id].kind == 'mgr':
            return self.mgr_call(x, env, k)
        if isinstance(x.func, ast.Name) and x.func.id not in env.vars:
            n = x.func.id
            if n == 'int' and len(x.args) == 1:
                def after(v, e):
                    if v.kind == 'int':
                        return k(v, e)
                    if v.kind == 'str':
                        t = self.tmp()
                        return bind(f'(py_int {v.code})', t,
                                    k(Val('int', t), e))
                    raise Refuse(f'{f.name}: int() of kind {v.kind}')
                return self.ev(x.args[0], env, after)
            if n == 'len' and len(x.args) == 1:
                def after(v, e):
                    return self.as_list(
                        v, e, lambda l, e1: k(
                            Val('int', f'(py_len {l.code})'), e1), 'len()')
                return self.ev(x.args[0], env, after)
            if n == 'list' and not x.args:
                return k(Val(('list', None), '[]'), env)
            if n == 'isinstance' and len(x.args) == 2 and \
                    isinstance(x.args[1], ast.Name) and \
                    x.args[1].id == 'str' and 'str' not in env.vars:
                def after(v, e):
                    t = {'item': f'(is_str {v.code})', 'str': 'true',
                         'node': 'false', 'int': 'false',
                         'bool': 'false'}.get(v.kind)
                    if t is None:
                        raise Refuse(f'{f.name}: `{_src(x)}` on kind '
                                     f'{v.kind}')
                    return k(Val('bool', t), e)
                return self.ev(x.args[0], env, after)
        raise Refuse(f'{f.name}: call `{_src(x)}`')

    def cur_takes_toks(self):
        return True

    def mgr_call(self, x, env, k):
        f = self.cur
        m = x.func.attr
        if m == 'var' and len(x.args) == 1:
            def after(v, e):
                if v.kind != 'str':
                    raise Refuse(f'{f.name}: `{_src(x)}`: kind {v.kind}')
                t = self.tmp()
                return bind(f'(var {v.code})', t, k(Val('node', t), e))
            return self.ev(x.args[0], env, after)
        if m == '_add_int' and len(x.args) == 1:
            def after(v, e):
                if v.kind != 'int':
                    raise Refuse(f'{f.name}: `{_src(x)}`: kind {v.kind}')
                t = self.tmp()
                return bind(f'(node {v.code})', t, k(Val('node', t), e))
            return self.ev(x.args[0], env, after)
        if m == 'apply' and len(x.args) >= 1:
            star = [a for a in x.args[1:] if isinstance(a, ast.Starred)]
            if star and len(x.args) != 2:
                raise Refuse(f'{f.name}: `{_src(x)}`')
            rest = [star[0].value] if star else x.args[1:]

            def after(vs, e):
                op = vs[0]
                if op.kind != 'str':
                    raise Refuse(f'{f.name}: `{_src(x)}`: operator of kind '
                                 f'{op.kind}')
                if star:
                    if vs[1].kind not in (('list', 'item'), ('list', None)):
                        raise Refuse(f'{f.name}: `{_src(x)}`: operands of '
                                     f'kind {vs[1].kind}')
                    args = vs[1].code
                else:
                    args = '[' + '; '.join(
                        coerce(v, 'item', 'operand') for v in vs[1:]) + ']'
                t = self.tmp()
                return bind(f'(bdd_apply {op.code} {args})', t,
                            k(Val('node', t), e))
            return self.evs([x.args[0]] + rest, env, after)
        raise Refuse(f'{f.name}: manager call `{_src(x)}`')

    def list_method(self, x, env, k, stmt):
        f = self.cur
        name, m = x.func.value.id, x.func.attr
        if any(isinstance(a, ast.Starred) for a in x.args):
            raise Refuse(f'{f.name}: `{_src(x)}`')

        def after(vs, e):
            b = e.vars.get(name)
            if b is not None and b.kind == 'none' and not b.maybe:
                return 'None'            # AttributeError
            b = self.mutate(name, e, f'`{_src(x)}`')
            cname = f'v_{name}'

            def on_list(l, e1):
                e1 = e1.copy()
                ek = l.kind[1]
                if m == 'append' and len(vs) == 1:
                    if not stmt:
                        raise Refuse(f'{f.name}: value of `{_src(x)}`')
                    v = vs[0]
                    if v.kind not in IMMUTABLE or v.kind == 'none':
                        raise Refuse(f'{f.name}: `{_src(x)}` stores a value '
                                     f'of kind {v.kind} in a list')
                    if ek is None:
                        ek = v.kind
                    e1.vars[name] = Bind((b.kind[0], ek), cname)
                    new = f'({l.code} ++ [{coerce(v, ek, "element")}])'
                    if b.kind[0] == 'olist':
                        new = f'(Some {new})'
                    return let(cname, new, k(Val('none', 'None'), e1))
                if ek is None:
                    raise Refuse(f'{f.name}: `{_src(x)}`: element kind of '
                                 'the list is not known')
                if m == 'pop' and len(vs) == 1 and vs[0].kind == 'int':
                    t = self.tmp()
                    e1.vars[name] = Bind(b.kind, cname)
                    new = cname if b.kind[0] == 'list' else self.tmp()
                    body = k(Val(ek, t), e1)
                    if b.kind[0] == 'olist':
                        body = let(cname, f'(Some {new})', body)
                    return bind(f'(py_pop {l.code} {vs[0].code})',
                                f"'({new}, {t})", body)
                if m == 'insert' and len(vs) == 2 and vs[0].kind == 'int':
                    if not stmt:
                        raise Refuse(f'{f.name}: value of `{_src(x)}`')
                    v = vs[1]
                    if v.kind not in IMMUTABLE or v.kind == 'none':
                        raise Refuse(f'{f.name}: `{_src(x)}` stores a value '
                                     f'of kind {v.kind} in a list')
                    e1.vars[name] = Bind(b.kind, cname)
                    new = (f'(py_insert {l.code} {vs[0].code} '
                           f'{coerce(v, ek, "element")})')
                    if b.kind[0] == 'olist':
                        new = f'(Some {new})'
                    return let(cname, new, k(Val('none', 'None'), e1))
                raise Refuse(f'{f.name}: `{_src(x)}`')
            return self.as_list(Val(b.kind, b.coq), e, on_list,
                                f'`{_src(x)}`')
        return self.evs(list(x.args), env, after)

    def call_fn(self, g, x, env, k):
        f = self.cur
        f.calls.add(g.name)
        if any(isinstance(a, ast.Starred) for a in x.args):
            raise Refuse(f'{f.name}: `{_src(x)}`')
        if len(x.args) != len(g.params):
            raise Refuse(f'{f.name}: `{_src(x)}`: {len(g.params)} arguments '
                         'expected')
        if g.lexer:
            self.new_lexer = True
        vals_needed = [(a, p) for a, p in zip(x.args, g.params)
                       if p[1] != 'mgr']
        for a, p in zip(x.args, g.params):
            if p[1] == 'mgr':
                if not (isinstance(a, ast.Name) and a.id in env.vars
                        and env.vars[a.id].kind == 'mgr'):
                    raise Refuse(f'{f.name}: `{_src(x)}`: `{_src(a)}` is not '
                                 'the manager')
        lists = [a.id for a, p in vals_needed
                 if isinstance(a, ast.Name) and a.id in env.vars
                 and is_list(env.vars[a.id].kind)]
        if len(set(lists)) != len(lists):
            raise Refuse(f'{f.name}: `{_src(x)}` passes one list twice')
        for a, p in vals_needed:
            if is_list(p[1]) and not isinstance(a, ast.Name):
                raise Refuse(f'{f.name}: `{_src(x)}`: list argument '
                             f'`{_src(a)}` is not a variable')

        def after(vs, e):
            e = e.copy()
            args = ['fuel']
            outs = [self.tmp()]
            rebind = []
            for (a, (pn, pk)), v in zip(vals_needed, vs):
                args.append(coerce(v, pk, f'argument {pn} of {g.name}'))
                if pn in g.inout:
                    self.mutate(a.id, e, f'`{_src(x)}`',
                                none_ok=pk[0] == 'olist')
                    outs.append(f'v_{a.id}')
                    rebind.append((a.id, pk))
            if g.lexer:
                args.append('toks')
                outs.append('toks')
            for n, pk in rebind:
                e.vars[n] = Bind(pk, f'v_{n}')
            return bind(f'({g.coq} {" ".join(args)})', pat_of(outs),
                        k(Val(g.ret, outs[0]), e))
        return self.evs([a for a, p in vals_needed], env, after)

    # ------------------------------------------------------------ loops
    def uses_lexer(self, node):
        for x in ast.walk(node):
            if isinstance(x, ast.Call):
                d = _dotted(x.func) or ''
                if d.startswith('self.lexer.lexer.'):
                    return True
                g = self.callee(x)
                if g is not None and g.lexer:
                    return True
        return False

    def assigned_in(self, st):
        out = set()
        for x in ast.walk(st):
            if isinstance(x, ast.Name) and isinstance(x.ctx, ast.Store):
                out.add(x.id)
            elif isinstance(x, ast.AugAssign):
                out |= set(target_names(x.target))
            elif isinstance(x, ast.Call):
                if isinstance(x.func, ast.Attribute) and \
                        isinstance(x.func.value, ast.Name) and \
                        x.func.attr in ('append', 'pop', 'insert'):
                    out.add(x.func.value.id)
                g = self.callee(x)
                if g is not None:
                    for a, (pn, pk) in zip(x.args, g.params):
                        if pn in g.inout and isinstance(a, ast.Name):
                            out.add(a.id)
        return out

    def carried(self, st, env):
        f = self.cur
        head = loop_head_live(st, st._live_out)
        asg = self.assigned_in(st)
        names = [n for n in f.order if n in asg and n in head]
        for n in asg & head:
            if n not in f.order:
                raise Refuse(f'{f.name}: loop variable {n}')
        return names

    def snapshot(self):
        return (self.ntmp, self.nwhile, len(self.aux), list(self.notes))

    def restore(self, s):
        self.ntmp, self.nwhile = s[0], s[1]
        del self.aux[s[2]:]
        self.notes[:] = s[3]

    def loop_slots(self, st, names, env, body_env, run_body):
        """Kinds of the loop state: [(name, kind, maybe)].  run_body(env,
        k_end, loop) compiles the loop once with the given exits."""
        f = self.cur
        slots = []
        for n in names:
            b = env.vars.get(n)
            slots.append((n, b.kind if b else None,
                          True if b is None else b.maybe))
        for _ in range(6):
            snap = self.snapshot()
            seen = []

            def rec(e):
                seen.append(e)
                return '_'
            run_body(body_env(slots), rec, Loop(rec, rec))
            self.restore(snap)
            new = []
            for (n, kd, mb) in slots:
                for e in seen:
                    b = e.vars.get(n)
                    if b is None:
                        mb = True
                        continue
                    mb = mb or b.maybe
                    if kd is None:
                        kd = b.kind
                    else:
                        j = lub(kd, b.kind)
                        if j is None:
                            raise Refuse(
                                f'{f.name}: loop at line {st.lineno}: '
                                f'`{n}` has kinds {kd} and {b.kind}')
                        kd = j
                new.append((n, kd, mb))
            for e in seen:
                if e.shape() != env.shape():
                    raise Refuse(f'{f.name}: loop at line {st.lineno} '
                                 're-binds a list parameter')
            if new == slots:
                for (n, kd, mb) in slots:
                    if kd is None:
                        raise Refuse(f'{f.name}: loop at line {st.lineno}: '
                                     f'kind of `{n}` unknown')
                return slots
            slots = new
        raise Refuse(f'{f.name}: loop at line {st.lineno}: kinds of the '
                     'state do not settle')

    def slot_env(self, env, slots, lexer):
        e = env.copy()
        for (n, kd, mb) in slots:
            if kd is None:
                e.vars.pop(n, None)
            else:
                e.vars[n] = Bind(kd, f'v_{n}', mb)
        return e

    def pack(self, env, slots, lexer):
        f = self.cur
        parts = []
        for (n, kd, mb) in slots:
            b = env.vars.get(n)
            if mb:
                if b is None:
                    parts.append('None')
                elif b.maybe:
                    if b.kind != kd:
                        c = coerce(Val(b.kind, 'x_'), kd, n)
                        parts.append(f'(option_map (fun x_ => {c}) {b.coq})')
                    else:
                        parts.append(b.coq)
                else:
                    parts.append(
                        f'(Some {coerce(Val(b.kind, b.coq), kd, n)})')
            else:
                if b is None or b.maybe:
                    raise Refuse(f'{f.name}: loop state `{n}` may be '
                                 'unbound')
                parts.append(coerce(Val(b.kind, b.coq), kd, n))
        if lexer:
            parts.append('toks')
        return tuple_of(parts)

    def state_pat(self, slots, lexer):
        return pat_of([f'v_{n}' for (n, kd, mb) in slots]
                      + (['toks'] if lexer else []))

    def state_type(self, slots, lexer):
        ts = [coq_type(('opt', kd) if mb else kd) for (n, kd, mb) in slots]
        if lexer:
            ts.append('(list ptok)')
        return ' * '.join(ts) if ts else 'unit'

    def iterable(self, it, env, k):
        """k(Val of list kind, env, name of the iterated list variable)."""
        f = self.cur
        if isinstance(it, ast.Call) and isinstance(it.func, ast.Name) and \
                not it.keywords and len(it.args) == 1 and \
                it.func.id not in env.vars:
            n, a = it.func.id, it.args[0]
            if n == 'range':
                def after(v, e):
                    if v.kind != 'int':
                        raise Refuse(f'{f.name}: `{_src(it)}`')
                    return k(Val(('list', 'int'), f'(py_range {v.code})'),
                             e, None)
                return self.ev(a, env, after)
            if n == 'reversed':
                return self.iterable(a, env, lambda v, e, src: k(
                    Val(v.kind, f'(rev {v.code})'), e, src))
            if n == 'enumerate':
                return self.iterable(a, env, lambda v, e, src: k(
                    Val(('list', ('pair', 'int', v.kind[1])),
                        f'(py_enumerate {v.code})'), e, src))
        if isinstance(it, ast.Name):
            def after(v, e):
                return self.as_list(
                    v, e, lambda l, e1: k(l, e1, it.id), 'iteration')
            return self.ev(it, env, after)
        raise Refuse(f'{f.name}: iteration over `{_src(it)}`')

    def for_loop(self, st, env, k, outer):
        f = self.cur
        lexer = self.uses_lexer(st)
        if lexer:
            self.new_lexer = True
        names = self.carried(st, env)
        tnames = target_names(st.target)

        def with_iter(lv, env1, src):
            ek = lv.kind[1]
            if ek is None:
                raise Refuse(f'{f.name}: line {st.lineno}: element kind of '
                             'the iterated list is not known')
            if isinstance(st.target, ast.Name):
                tk = [ek]
            elif isinstance(ek, tuple) and ek[0] == 'pair' and \
                    len(tnames) == 2 and \
                    all(isinstance(x, ast.Name) for x in st.target.elts):
                tk = [ek[1], ek[2]]
            else:
                raise Refuse(f'{f.name}: line {st.lineno}: loop target '
                             f'`{_src(st.target)}` for elements of kind {ek}')
            if any(isinstance(z, tuple) for z in tk):
                raise Refuse(f'{f.name}: line {st.lineno}: loop target kind')

            def body_env(slots):
                e = self.slot_env(env1, slots, lexer)
                for n, kd in zip(tnames, tk):
                    e.vars[n] = Bind(kd, f'v_{n}')
                return e

            def run_body(e, k_end, loop):
                old = getattr(self, 'iterating', ())
                self.iterating = tuple(old) + ((src,) if src else ())
                try:
                    return self.block(st.body, 0, e, k_end, loop)
                finally:
                    self.iterating = old
            slots = self.loop_slots(st, names, env1, body_env, run_body)
            nxt = lambda e: f'Some ({self.pack(e, slots, lexer)}, false)'
            brk = lambda e: f'Some ({self.pack(e, slots, lexer)}, true)'
            body = run_body(body_env(slots), nxt, Loop(brk, nxt))
            spat = self.state_pat(slots, lexer)
            tpat = pat_of([f'v_{n}' for n in tnames])
            fn = (f'(fun x_ st_ =>\n' + indent(
                let(spat, 'st_', let(tpat, 'x_', body))) + ')')
            init = self.pack(env1, slots, lexer)
            after = self.slot_env(env1, slots, lexer)
            dead = (self.assigned_in(st) - set(names))
            for n in dead:
                if n in after.vars and n not in env1.alias:
                    pass
            for n in self.assigned_in(st):
                if n not in names:
                    after.vars.pop(n, None)
            return bind(f'(for_list {fn}\n  {lv.code} {init})', spat,
                        k(after))
        return self.iterable(st.iter, env, with_iter)

    def while_loop(self, st, env, k, outer):
        f = self.cur
        lexer = self.uses_lexer(st)
        if lexer:
            self.new_lexer = True
        names = self.carried(st, env)
        self.nwhile += 1
        wname = f'{f.coq}_while{self.nwhile}'
        # read-only variables of the loop
        rd = set()
        for s in [st.test] + st.body:
            rd |= reads(s)
        ro = [n for n in env.vars if n in rd and n not in names
              and env.vars[n].kind not in ('mgr', 'strset')]

        def body_env(slots):
            return self.slot_env(env, slots, lexer)

        def run_body(e, k_end, loop):
            return self.cond(
                st.test, e,
                lambda e1: self.block(st.body, 0, e1, loop.cont, loop),
                k_end)
        slots = self.loop_slots(st, names, env, body_env, run_body)
        roargs = ' '.join(env.vars[n].coq for n in ro)
        call = f'{wname} fuel' + (' ' + roargs if roargs else '')
        stop = lambda e: f'Some {self.pack(e, slots, lexer)}'
        again = lambda e: f'{call} {self.pack(e, slots, lexer)}'
        body = run_body(body_env(slots), stop, Loop(stop, again))
        spat = self.state_pat(slots, lexer)
        sty = self.state_type(slots, lexer)
        params = ' '.join(
            f'({env.vars[n].coq} : '
            f'{coq_type(("opt", env.vars[n].kind) if env.vars[n].maybe else env.vars[n].kind)})'
            for n in ro)
        head = (f'{wname} (fuel : nat)' + (' ' + params if params else '')
                + f' (st_ : {sty}) {{struct fuel}} : option ({sty})')
        text = (head + ' :=\n  match fuel with\n  | O => None\n'
                '  | S fuel =>\n' + indent(let(spat, 'st_', body), 4)
                + '\n  end')
        self.aux.append((wname, text))
        for n in ro:
            if env.vars[n].coq != f'v_{n}':
                raise Refuse(f'{f.name}: while at line {st.lineno}: '
                             f'read-only variable {n} is held in '
                             f'{env.vars[n].coq}')
        after = self.slot_env(env, slots, lexer)
        for n in self.assigned_in(st):
            if n not in names:
                after.vars.pop(n, None)
        return bind(f'({call} {self.pack(env, slots, lexer)})', spat,
                    k(after))

    # ------------------------------------------------------------ output
    def emit(self):
        # strongly connected components of the call graph, callees first
        names = list(self.funcs)
        reach = {n: set(self.funcs[n].calls) for n in names}
        for _ in names:
            for n in names:
                for m in list(reach[n]):
                    reach[n] |= reach[m]
        done, out = [], []
        while len(done) < len(names):
            for n in names:
                if n in done:
                    continue
                scc = [m for m in names
                       if m == n or (m in reach[n] and n in reach[m])]
                if all(c in done or c in scc for m in scc for c in reach[m]):
                    break
            else:
                raise Refuse('call graph')
            rec = n in reach[n]
            if rec:
                parts = []
                for m in scc:
                    fn = self.funcs[m]
                    h, ty = self.header(fn)
                    body, aux = self.out[m]
                    parts.append(
                        f'{h} {{struct fuel}} : {ty} :=\n  match fuel with\n'
                        f'  | O => None\n  | S fuel =>\n{indent(body, 4)}\n'
                        '  end')
                    parts += [t for (_, t) in aux]
                out.append('Fixpoint ' + '\nwith '.join(parts) + '.')
            else:
                fn = self.funcs[n]
                h, ty = self.header(fn)
                body, aux = self.out[n]
                for (_, t) in aux:
                    out.append('Fixpoint ' + t + '.')
                out.append(f'Definition {h} : {ty} :=\n{indent(body)}.')
            done += scc
        consts = []
        for d in self.used_consts:
            c, ss = self.consts[d]
            consts.append(f'Definition {c} : list string := ['
                          + '; '.join(strlit(s) for s in ss) + '].')
        return '\n'.join(consts) + '\n\n' + '\n\n'.join(out) + '\n'


# ---------------------------------------------------------------- the lexer
LEX_NAMES = ['AT', 'NUMBER', 'NAME', 'FORALL', 'EXISTS', 'RENAME', 'DIV',
             'NOT', 'AND', 'OR', 'XOR', 'DOLLAR', 'QUESTION']


def lexer_table(tree):
    """[(token type, regular expression without the verbose-mode blanks)] of
    the string rules `t_X = r'...'` of class Lexer, in source order."""
    cls = [c for c in tree.body
           if isinstance(c, ast.ClassDef) and c.name == 'Lexer']
    if len(cls) != 1:
        raise Refuse('class Lexer not found')
    rows = []
    for st in cls[0].body:
        if isinstance(st, ast.Assign) and len(st.targets) == 1 and \
                isinstance(st.targets[0], ast.Name) and \
                st.targets[0].id.startswith('t_'):
            n = st.targets[0].id[2:]
            if n == 'ignore':
                continue
            if not (isinstance(st.value, ast.Constant)
                    and isinstance(st.value.value, str)):
                raise Refuse(f'Lexer.t_{n} is not a string literal')
            rows.append((n, re.sub(r'\s+', '', st.value.value)))
        elif isinstance(st, ast.FunctionDef) and st.name.startswith('t_') \
                and st.name != 't_error':
            raise Refuse(f'Lexer.{st.name}: function token rule')
    return rows


SIGS_ITER = {
    'parse': dict(params=[TOKENS, 'mgr'], ret='item'),
    '_increase': dict(params=[('olist', 'item'), 'mgr'], ret='item'),
    '_push': dict(params=[('list', 'item'), ('olist', 'item'), 'int', 'mgr'],
                  ret='int'),
    '_reduce': dict(params=[('list', 'item'), 'mgr'], ret='item'),
    'add_expr': dict(params=[TOKENS, 'mgr'], ret='item', module=True),
}


def translate(repo):
    """(Gallina text of the Section body, lexer table text, notes)."""
    with open(os.path.join(repo, ITER_SRC)) as fh:
        tree = ast.parse(fh.read())
    with open(os.path.join(repo, LEX_SRC)) as fh:
        ltree = ast.parse(fh.read())
    tr = Translator(tree, SIGS_ITER, 'it_')
    if tr.lexer_module != 'omega.symbolic.bdd':
        raise Refuse('the lexer of bdd_iterative.Parser is not '
                     f'omega.symbolic.bdd.Lexer ({tr.lexer_module!r})')
    body = tr.translate()
    rows = lexer_table(ltree)
    table = ('Definition lexer_table : list (string * string) :=\n  ['
             + ';\n   '.join(f'({strlit(a)}, {strlit(b)})' for a, b in rows)
             + '].\n')
    notes = list(tr.notes)
    notes.append('bdd.py class Lexer: only the string rules t_X are read '
                 '(lexer_table); t_ignore, t_error, the PLY machinery and '
                 'that `lexer.input(s)` / `lexer.token()` deliver the tokens '
                 'of s in order and then None are outside the model')
    return body, table, notes


# ====================================================== recursive translator
REC_SRC = 'omega/symbolic/bdd.py'
AST_SRC = 'omega/logic/ast.py'
# keyword arguments of the `flatten` methods: name -> kind
KW_SLOTS = [('bdd', 'mgr'), ('mem', ('olist', 'node')), ('same_mem', 'bool')]
FIELD_KINDS = {'type': 'str', 'operator': 'str', 'value': 'str',
               'operands': ('list', 'pnode'), 'memory': ('list', 'pnode')}
# the two external base classes (package astutils): what __init__ stores
EXTERNAL_INIT = {
    'object': ([], {}, None, []),
    'astutils.Terminal': (['value', 'dtype'], {'dtype': ('const', 'terminal')},
                          None, [('type', 'dtype'), ('value', 'value')]),
    'astutils.Operator': (['operator'], {}, 'operands',
                          [('type', ('const', 'operator')),
                           ('operator', 'operator'),
                           ('operands', 'operands')]),
}
RENAME_BLOCK = """
MV_m = [MV_bdd.support(MV_u).pop() for MV_u in MV_m]
MV_rn = {MV_a: MV_b for MV_a, MV_b in zip(MV_m[1::2], MV_m[0::2])}
assert 2 * len(MV_rn) == len(MV_pairs.memory), (MV_rn, MV_pairs.memory)
MV_r = MV_bdd.rename(MV_operand, MV_rn)
"""


def unify(t, x, b):
    """Match AST x against template t; names MV_* are metavariables."""
    if isinstance(t, ast.Name) and t.id.startswith('MV_'):
        if not isinstance(x, ast.Name):
            return False
        if t.id in b:
            return b[t.id] == x.id
        b[t.id] = x.id
        return True
    if type(t) is not type(x):
        return False
    if isinstance(t, ast.AST):
        for f in t._fields:
            if f in ('ctx', 'type_comment', 'kind'):
                continue
            if not unify(getattr(t, f, None), getattr(x, f, None), b):
                return False
        return True
    if isinstance(t, list):
        return len(t) == len(x) and all(unify(a, c, b) for a, c in zip(t, x))
    return t == x


class RecTranslator(Translator):
    def __init__(self, tree, ast_tree, sigs, coq_prefix):
        self.ast_tree = ast_tree
        self.nodes_class = None
        self.nlc = 0
        self.pre_notes = []
        for fn in ast.walk(tree):
            if isinstance(fn, ast.FunctionDef):
                self.rename_block(fn)
                self.desugar(fn)
        super().__init__(tree, sigs, coq_prefix)
        self.notes += self.pre_notes
        self.node_classes()

    # -------------------------------------------------------- preprocessing
    def rename_block(self, fn):
        tmpl = ast.parse(RENAME_BLOCK).body

        def walk(body):
            for i in range(len(body)):
                b = {}
                if i + len(tmpl) <= len(body) and \
                        unify(tmpl, body[i:i + len(tmpl)], b):
                    new = ast.parse(
                        f'{b["MV_r"]} = {b["MV_bdd"]}.__rename_pairs__('
                        f'{b["MV_m"]}, {b["MV_pairs"]}.memory, '
                        f'{b["MV_operand"]})').body[0]
                    ast.copy_location(new, body[i])
                    for n in ast.walk(new):
                        ast.copy_location(n, body[i])
                    self.pre_notes.append(
                        f'{fn.name}: lines {body[i].lineno}-'
                        f'{body[i + len(tmpl) - 1].lineno} (support of each '
                        'node popped, dict of pairs, assert on the number of '
                        'pairs, bdd.rename) matched literally: the abstract '
                        'operation ren_pairs of the memory, the number of '
                        'cells of the buffer and the operand')
                    body[i:i + len(tmpl)] = [new]
                    return walk(body)
            for st in body:
                for f in ('body', 'orelse'):
                    if isinstance(getattr(st, f, None), list):
                        walk(getattr(st, f))
        walk(fn.body)

    def desugar(self, fn):
        """x = [E for v in IT]  ->  x = list(); for v' in IT: x.append(E')."""
        def walk(body):
            i = 0
            while i < len(body):
                st = body[i]
                if isinstance(st, ast.Assign) and len(st.targets) == 1 and \
                        isinstance(st.targets[0], ast.Name) and \
                        isinstance(st.value, ast.ListComp):
                    lc = st.value
                    tgt = st.targets[0].id
                    if len(lc.generators) != 1 or lc.generators[0].ifs or \
                            lc.generators[0].is_async or \
                            not isinstance(lc.generators[0].target, ast.Name):
                        raise Refuse(f'{fn.name}: `{_src(st)}`')
                    g = lc.generators[0]
                    if tgt in reads(g.iter) | reads(lc.elt):
                        raise Refuse(f'{fn.name}: `{_src(st)}` reads its '
                                     'own target')
                    self.nlc += 1
                    v = f'{g.target.id}__lc{self.nlc}'

                    class Ren(ast.NodeTransformer):
                        def visit_Name(s2, n):
                            if n.id == g.target.id:
                                return ast.copy_location(
                                    ast.Name(id=v, ctx=n.ctx), n)
                            return n
                    elt = Ren().visit(lc.elt)
                    src = (f'{tgt} = list()\nfor {v} in {_src(g.iter)}:\n'
                           f'    {tgt}.append({_src(elt)})\n')
                    new = ast.parse(src).body
                    for n2 in new:
                        for n in ast.walk(n2):
                            ast.copy_location(n, st)
                    body[i:i + 1] = new
                    i += 2
                    continue
                for f in ('body', 'orelse'):
                    if isinstance(getattr(st, f, None), list):
                        walk(getattr(st, f))
                i += 1
        walk(fn.body)

    # ------------------------------------------------------------ collection
    def instance_ok(self, call):
        if call.args or len(call.keywords) != 1:
            return False
        kw = call.keywords[0]
        if kw.arg == 'nodes' and isinstance(kw.value, ast.Call) and \
                isinstance(kw.value.func, ast.Name) and \
                not kw.value.args and not kw.value.keywords:
            self.nodes_class = kw.value.func.id
            return True
        return False

    def init_stmt(self, st):
        if isinstance(st, ast.If) and not st.orelse and \
                _src(st.test) == 'nodes is None' and len(st.body) == 1 and \
                re.fullmatch(r'nodes = \w+\(\)', _src(st.body[0])):
            return True
        return isinstance(st, ast.Assign) and _src(st) == 'self.nodes = nodes'

    def containers(self):
        out = {c.name: c for c in self.tree.body
               if isinstance(c, ast.ClassDef)}
        for alias, full in self.imports.items():
            if full == 'omega.logic.ast.Nodes':
                for c in self.ast_tree.body:
                    if isinstance(c, ast.ClassDef) and c.name == 'Nodes':
                        out[alias] = c
        return out

    def container_chain(self, name, cs):
        chain = []
        while True:
            c = cs.get(name)
            if c is None:
                raise Refuse(f'class {name} not found')
            chain.append((name, c))
            if not c.bases:
                return chain
            if len(c.bases) != 1 or not isinstance(c.bases[0], ast.Name):
                raise Refuse(f'class {name}: bases')
            name = c.bases[0].id

    def inner_chain(self, container, cname, cs):
        """Linearised single-inheritance chain of the node class
        `container.cname`: [(where, ClassDef)] ending with an external
        'astutils.X'."""
        chain = []
        where, name = container, cname
        for _ in range(10):
            found = None
            for (cn, c) in self.container_chain(where, cs):
                for st in c.body:
                    if isinstance(st, ast.ClassDef) and st.name == name:
                        found = (cn, st)
                        break
                    if isinstance(st, ast.Assign) and \
                            _src(st.targets[0]) == name and \
                            (_dotted(st.value) or '').startswith('astutils.'):
                        return chain + [(_dotted(st.value), None)]
                if found:
                    break
            if not found:
                raise Refuse(f'node class {where}.{name} not found')
            chain.append(found)
            bases = found[1].bases
            if not bases:
                return chain + [('object', None)]
            if len(bases) != 1:
                raise Refuse(f'node class {found[0]}.{name}: bases')
            d = _dotted(bases[0]) or ''
            if d.startswith('astutils.'):
                return chain + [(d, None)]
            if d.count('.') != 1:
                raise Refuse(f'node class {found[0]}.{name}: base `{d}`')
            where, name = d.split('.')
        raise Refuse(f'node class {container}.{cname}: inheritance too deep')

    def init_fields(self, chain, k, args):
        """Fields stored by the __init__ found from position k of the chain,
        called with symbolic positional arguments args; a symbolic value is
        ('arg', i) | ('const', s) | ('varargs', i)."""
        while True:
            where, c = chain[k]
            if c is None:
                if where not in EXTERNAL_INIT:
                    raise Refuse(f'external class {where}')
                params, defaults, vararg, stores = EXTERNAL_INIT[where]
                env = {}
                for j, pn in enumerate(params):
                    if j < len(args) and args[j][0] != 'varargs':
                        env[pn] = args[j]
                    elif pn in defaults:
                        env[pn] = defaults[pn]
                    else:
                        raise Refuse(f'{where}.__init__: argument {pn}')
                if vararg:
                    rest = args[len(params):]
                    if len(rest) != 1 or rest[0][0] != 'varargs':
                        raise Refuse(f'{where}.__init__: *{vararg}')
                    env[vararg] = rest[0]
                elif len(args) > len(params):
                    raise Refuse(f'{where}.__init__: too many arguments')
                return [(f, env[v] if isinstance(v, str) else v)
                        for f, v in stores]
            init = [m for m in c.body if isinstance(m, ast.FunctionDef)
                    and m.name == '__init__']
            if init:
                break
            k += 1
        fn = init[0]
        a = fn.args
        if a.kwarg or a.kwonlyargs or a.posonlyargs:
            raise Refuse(f'{where}.{c.name}.__init__: signature')
        names = [x.arg for x in a.args][1:]
        env = {}
        nd = len(a.defaults)
        for j, pn in enumerate(names):
            if j < len(args) and args[j][0] != 'varargs':
                env[pn] = args[j]
            elif j >= len(names) - nd:
                d = a.defaults[j - (len(names) - nd)]
                if not (isinstance(d, ast.Constant)
                        and isinstance(d.value, str)):
                    raise Refuse(f'{c.name}.__init__: default of {pn}')
                env[pn] = ('const', d.value)
            else:
                raise Refuse(f'{c.name}.__init__: argument {pn}')
        if a.vararg:
            rest = args[len(names):]
            if len(rest) != 1 or rest[0][0] != 'varargs':
                raise Refuse(f'{c.name}.__init__: *{a.vararg.arg}')
            env[a.vararg.arg] = rest[0]
        elif len(args) > len(names):
            raise Refuse(f'{c.name}.__init__: too many arguments')

        def sym(e):
            if isinstance(e, ast.Name) and e.id in env:
                return env[e.id]
            if isinstance(e, ast.Constant) and isinstance(e.value, str):
                return ('const', e.value)
            if isinstance(e, ast.Starred):
                return sym(e.value)
            raise Refuse(f'{c.name}.__init__: `{_src(e)}`')
        fields = []
        for st in fn.body:
            if isinstance(st, ast.Expr) and isinstance(st.value, ast.Constant):
                continue
            if isinstance(st, ast.Expr) and isinstance(st.value, ast.Call) \
                    and _src(st.value.func) == 'super().__init__' \
                    and not st.value.keywords:
                sub = self.init_fields(chain, k + 1,
                                       [sym(x) for x in st.value.args])
                fields = [f for f in fields
                          if f[0] not in dict(sub)] + sub
                continue
            if isinstance(st, ast.Assign) and len(st.targets) == 1 and \
                    (_dotted(st.targets[0]) or '').startswith('self.') and \
                    _dotted(st.targets[0]).count('.') == 1:
                f = _dotted(st.targets[0])[5:]
                fields = [x for x in fields if x[0] != f] + [(f, sym(st.value))]
                continue
            raise Refuse(f'{c.name}.__init__: `{_src(st)}`')
        return fields

    def node_classes(self):
        """Classes of the nodes the parser builds (`self.nodes.X(...)`)."""
        if self.nodes_class is None:
            raise Refuse('parser = Parser(nodes=...) not found')
        cs = self.containers()
        used = []
        for f in self.funcs.values():
            for x in ast.walk(f.node):
                if isinstance(x, ast.Call) and \
                        (_dotted(x.func) or '').startswith('self.nodes.'):
                    n = _dotted(x.func)[11:]
                    nargs = len(x.args)
                    if (n, nargs) not in used:
                        used.append((n, nargs))
        self.classes = {}
        for n, nargs in used:
            chain = self.inner_chain(self.nodes_class, n, cs)
            # the constructor: positional arguments, operands as varargs
            ext = chain[-1][0]
            if ext == 'astutils.Operator' and not any(
                    c is not None and any(
                        isinstance(m, ast.FunctionDef) and m.name == '__init__'
                        for m in c.body) for (_, c) in chain):
                args = [('arg', 0), ('varargs', 1)]
            else:
                args = [('arg', j) for j in range(nargs)]
            fields = self.init_fields(chain, 0, args)
            for fname, v in fields:
                if fname not in FIELD_KINDS:
                    raise Refuse(f'node class {n}: field {fname}')
            ty = dict(fields).get('type')
            if ty is None or ty[0] != 'const':
                raise Refuse(f'node class {n}: .type is not a constant')
            stored = [(fname, v) for fname, v in fields if fname != 'type']
            stored.sort(key=lambda fv: fv[1][1])
            if [v for _, v in stored] not in (
                    [('arg', 0)], [('arg', 0), ('varargs', 1)]):
                raise Refuse(f'node class {n}: constructor arguments '
                             f'{stored}')
            old = self.classes.get(n)
            meth = None
            for (where, c) in chain:
                if c is None:
                    break
                ms = [m for m in c.body if isinstance(m, ast.FunctionDef)
                      and m.name == 'flatten']
                if ms:
                    meth = (where, ms[0])
                    break
            info = dict(type=ty[1], fields=[fn_ for fn_, _ in stored],
                        varargs=stored[-1][1][0] == 'varargs', flatten=meth,
                        chain=[w if c is None else f'{w}.{c.name}'
                               for (w, c) in chain])
            if old is not None and old != info:
                raise Refuse(f'node class {n}: used with different arities')
            self.classes[n] = info
        self.note('node classes (constructor fields read from the __init__ '
                  'methods; astutils.Terminal/Operator as documented): '
                  + '; '.join(f'{n} = {" < ".join(i["chain"])}, .type '
                              f'{i["type"]!r}, flatten of '
                              f'{i["flatten"][0] if i["flatten"] else "?"}'
                              for n, i in self.classes.items()))

    def pnode_text(self):
        lines = ['Inductive pnode :=']
        for n, i in self.classes.items():
            fs = ' '.join(f'({f} : {coq_type(FIELD_KINDS[f])})'
                          for f in i['fields'])
            lines.append(f'| N{n} {fs}')
        out = '\n'.join(lines) + '.\n\n'
        allf = []
        for i in self.classes.values():
            for f in i['fields']:
                if f not in allf:
                    allf.append(f)
        out += ('(* x.type *)\nDefinition n_type (x : pnode) : string :=\n'
                '  match x with\n')
        for n, i in self.classes.items():
            us = ' '.join('_' for _ in i['fields'])
            out += f'  | N{n} {us} => {strlit(i["type"])}\n'
        out += '  end.\n'
        for f in allf:
            out += (f'(* x.{f}; AttributeError = None *)\n'
                    f'Definition n_{f} (x : pnode) : option '
                    f'{coq_type(FIELD_KINDS[f])} :=\n  match x with\n')
            some = False
            for n, i in self.classes.items():
                if f in i['fields']:
                    us = ' '.join('v' if g == f else '_' for g in i['fields'])
                    out += f'  | N{n} {us} => Some v\n'
                else:
                    some = True
            if some:
                out += '  | _ => None\n'
            out += '  end.\n'
        return out

    # ---------------------------------------------------------- expressions
    cur_cls = None
    meth = None

    def ev(self, x, env, k, stmt=False):
        f = self.cur
        if isinstance(x, ast.Attribute) and x.attr in FIELD_KINDS and \
                isinstance(x.value, ast.Name):
            if x.value.id == 'self' and self.cur_cls is not None:
                info = self.classes[self.cur_cls]
                if x.attr == 'type':
                    return k(Val('str', strlit(info['type'])), env)
                if x.attr in info['fields']:
                    return k(Val(FIELD_KINDS[x.attr], f's_{x.attr}'), env)
                return 'None'          # AttributeError
            b = env.vars.get(x.value.id)
            if b is not None and b.kind == 'pnode':
                def after(v, e):
                    if x.attr == 'type':
                        return k(Val('str', f'(n_type {v.code})'), e)
                    t = self.tmp()
                    return bind(f'(n_{x.attr} {v.code})', t,
                                k(Val(FIELD_KINDS[x.attr], t), e))
                return Translator.ev(self, x.value, env, after)
        return Translator.ev(self, x, env, k, stmt)

    def is_pure(self, e, env):
        if isinstance(e, ast.Attribute) and isinstance(e.value, ast.Name) \
                and e.value.id == 'self' and self.cur_cls is not None \
                and e.attr in FIELD_KINDS:
            return e.attr == 'type' or \
                e.attr in self.classes[self.cur_cls]['fields']
        return Translator.is_pure(self, e, env)

    def iterable(self, it, env, k):
        if isinstance(it, ast.Attribute):
            def after(v, e):
                return self.as_list(
                    v, e, lambda l, e1: k(l, e1, None), 'iteration')
            return self.ev(it, env, after)
        return Translator.iterable(self, it, env, k)

    def call(self, x, env, k, stmt):
        f = self.cur
        d = _dotted(x.func) or ''
        if d.startswith('self.nodes.') and d.count('.') == 2 and \
                f.is_method and self.cur_cls is None:
            return self.construct(d[11:], x, env, k)
        if isinstance(x.func, ast.Attribute) and x.func.attr == 'flatten':
            return self.dispatch(x, env, k)
        return Translator.call(self, x, env, k, stmt)

    def construct(self, n, x, env, k):
        f = self.cur
        info = self.classes.get(n)
        if info is None or x.keywords or \
                any(isinstance(a, ast.Starred) for a in x.args):
            raise Refuse(f'{f.name}: `{_src(x)}`')

        def after(vs, e):
            fk = FIELD_KINDS[info['fields'][0]]
            if info['varargs']:
                if len(vs) < 1:
                    raise Refuse(f'{f.name}: `{_src(x)}`')
                first = coerce(vs[0], fk, 'constructor argument')
                rest = [coerce(v, 'pnode', 'operand') for v in vs[1:]]
                return k(Val('pnode', f'(N{n} {first} ['
                             + '; '.join(rest) + '])'), e)
            if len(vs) != 1:
                raise Refuse(f'{f.name}: `{_src(x)}`')
            v = vs[0]
            if is_list(fk):
                # the node keeps the list itself: the variable is dead after
                if not isinstance(x.args[0], ast.Name) or \
                        v.kind not in (fk, ('list', None)):
                    raise Refuse(f'{f.name}: `{_src(x)}`: kind {v.kind}')
                e = e.copy()
                e.vars.pop(x.args[0].id, None)
                return k(Val('pnode', f'(N{n} {v.code})'), e)
            return k(Val('pnode', f'(N{n} '
                         f'{coerce(v, fk, "constructor argument")})'), e)
        return self.evs(list(x.args), env, after)

    def dispatch(self, x, env, k):
        """X.flatten(key=value, ..., *arg, **kw)."""
        f = self.cur
        for a in x.args:
            if not (isinstance(a, ast.Starred) and isinstance(a.value, ast.Name)
                    and a.value.id in env.vars
                    and env.vars[a.value.id].kind == 'noargs'):
                raise Refuse(f'{f.name}: `{_src(x)}`: positional argument')
        explicit = [(kw.arg, kw.value) for kw in x.keywords
                    if kw.arg is not None]
        fwd = [kw.value for kw in x.keywords if kw.arg is None]
        if len(fwd) > 1 or (fwd and not (
                isinstance(fwd[0], ast.Name) and fwd[0].id in env.vars
                and env.vars[fwd[0].id].kind == 'kw')):
            raise Refuse(f'{f.name}: `{_src(x)}`: ** argument')
        slots = dict(KW_SLOTS)
        names = [n for n, _ in explicit]
        if len(set(names)) != len(names) or any(n not in slots for n in names):
            raise Refuse(f'{f.name}: `{_src(x)}`: keywords {names}')
        memvar = None
        for n, v in explicit:
            if is_list(slots[n]):
                if isinstance(v, ast.Name) and v.id in env.vars:
                    memvar = v.id
                elif not (isinstance(v, ast.Constant) and v.value is None):
                    raise Refuse(f'{f.name}: `{_src(x)}`: `{n}=` is not a '
                                 'variable')

        def after(vs, e):
            obj, vals = vs[0], dict(zip(names, vs[1:]))
            if obj.kind != 'pnode':
                raise Refuse(f'{f.name}: `{_src(x)}`: receiver of kind '
                             f'{obj.kind}')
            kwv = e.vars[fwd[0].id].coq if fwd else None
            parts, dups = [], []
            for n, kd in KW_SLOTS:
                if n in vals:
                    v = vals[n]
                    if kd == 'mgr':
                        if v.kind != 'mgr':
                            raise Refuse(f'{f.name}: `{_src(x)}`: {n}')
                        parts.append('true')
                        if kwv:
                            dups.append(f'(k_{n} {kwv})')
                    else:
                        parts.append(f'(Some {coerce(v, kd, n)})')
                        if kwv:
                            dups.append(f'(negb (is_none (k_{n} {kwv})))')
                elif kwv:
                    parts.append(f'(k_{n} {kwv})')
                else:
                    parts.append('false' if kd == 'mgr' else 'None')
            e = e.copy()
            t, m = self.tmp(), self.tmp()
            after_code = ''
            if memvar is not None:
                b = e.vars[memvar]
                if b.maybe:
                    raise Refuse(f'{f.name}: `{_src(x)}`: {memvar}')
                if memvar in getattr(self, 'iterating', ()):
                    raise Refuse(f'{f.name}: `{memvar}` changed while '
                                 'iterated')
                old = coerce(Val(b.kind, b.coq), slots['mem'], memvar)
                e.vars[memvar] = Bind(slots['mem'], f'v_{memvar}')
                after_code = (f'let v_{memvar} := match {m} with Some m_ '
                              f'=> m_ | None => {old} end in\n')
            elif kwv:
                after_code = f'let {kwv} := kw_set_mem {kwv} {m} in\n'
            body = bind(f'({self.prefix}flatten fuel {obj.code} (mkKw '
                        + ' '.join(parts) + '))', f"'({t}, {m})",
                        after_code + k(Val('node', t), e))
            if dups:        # TypeError: multiple values for a keyword
                return ite(' || '.join(dups), 'None', body)
            return body
        return self.evs([x.func.value] + [v for _, v in explicit], env, after)

    def assigned_in(self, st):
        out = Translator.assigned_in(self, st)
        for x in ast.walk(st):
            if isinstance(x, ast.Call) and isinstance(x.func, ast.Attribute) \
                    and x.func.attr == 'flatten':
                lists = [kw.value.id for kw in x.keywords
                         if kw.arg is not None
                         and is_list(dict(KW_SLOTS).get(kw.arg))
                         and isinstance(kw.value, ast.Name)]
                out |= set(lists)
                if not lists:       # the list travels inside **kw
                    out |= {kw.value.id for kw in x.keywords
                            if kw.arg is None
                            and isinstance(kw.value, ast.Name)}
        return out

    def mgr_call(self, x, env, k):
        f = self.cur
        m = x.func.attr
        if m == '__rename_pairs__' and len(x.args) == 3:
            def after(vs, e):
                def on_list(l, e1):
                    if vs[1].kind != ('list', 'pnode') or \
                            vs[2].kind != 'node' or l.kind[1] != 'node':
                        raise Refuse(f'{f.name}: rename block: kinds')
                    t = self.tmp()
                    return bind(f'(ren_pairs {l.code} (py_len {vs[1].code}) '
                                f'{vs[2].code})', t, k(Val('node', t), e1))
                return self.as_list(vs[0], e, on_list, 'rename block')
            return self.evs(list(x.args), env, after)
        if m == 'apply' and len(x.args) == 2 and \
                isinstance(x.args[1], ast.Starred):
            def after(vs, e):
                if vs[0].kind != 'str' or vs[1].kind != ('list', 'node'):
                    raise Refuse(f'{f.name}: `{_src(x)}`: kinds '
                                 f'{vs[0].kind}, {vs[1].kind}')
                t = self.tmp()
                return bind(f'(bdd_apply_nodes {vs[0].code} {vs[1].code})',
                            t, k(Val('node', t), e))
            return self.evs([x.args[0], x.args[1].value], env, after)
        return Translator.mgr_call(self, x, env, k)

    def ret(self, v, env):
        if self.cur_cls is None:
            return Translator.ret(self, v, env)
        parts = [coerce(v, 'node', 'returned value')]
        named, kwname = self.meth
        if 'mem' in named:
            b = env.frozen.get('mem') or env.vars.get('mem')
            if b is None or b.maybe:
                raise Refuse(f'{self.cur.name}: parameter mem lost')
            parts.append('(Some ' + coerce(Val(b.kind, b.coq),
                                           dict(KW_SLOTS)['mem'], 'mem') + ')')
        elif kwname is not None:
            parts.append(f'(k_mem {env.vars[kwname].coq})')
        else:
            parts.append('None')
        return f'Some {tuple_of(parts)}'

    # -------------------------------------------------------------- methods
    def compile_method(self, cname):
        info = self.classes[cname]
        if info['flatten'] is None:
            self.note(f'node class {cname} has no flatten method: None')
            return 'None'
        where, fn = info['flatten']
        a = fn.args
        if a.kwonlyargs or a.posonlyargs or fn.decorator_list:
            raise Refuse(f'{cname}.flatten: signature')
        names = [z.arg for z in a.args]
        if not names or names[0] != 'self':
            raise Refuse(f'{cname}.flatten: first parameter is not self')
        names = names[1:]
        nd = len(a.defaults)
        slots = dict(KW_SLOTS)
        g = Func(f'{cname}.flatten', fn, [], 'node', self.prefix + 'flatten',
                 True)
        g.order = self._order(fn, names + ([a.kwarg.arg] if a.kwarg else []))
        self.cur, self.cur_cls = g, cname
        self.meth = (names, a.kwarg.arg if a.kwarg else None)
        self.ntmp = 0
        env = Env()
        wraps = []
        for j, pn in enumerate(names):
            if pn not in slots:
                raise Refuse(f'{cname}.flatten: parameter {pn} is not a '
                             'known keyword')
            kd = slots[pn]
            dflt = a.defaults[j - (len(names) - nd)] \
                if j >= len(names) - nd else None
            if kd == 'mgr':
                if dflt is not None:
                    raise Refuse(f'{cname}.flatten: default of {pn}')
                env.vars[pn] = Bind('mgr', '')
                wraps.append(lambda body, pn=pn:
                             ite(f'k_{pn} kw_', body, 'None'))
                continue
            env.vars[pn] = Bind(kd, f'v_{pn}')
            if is_list(kd):
                env.alias.add(pn)
            if dflt is None:          # TypeError when missing
                wraps.append(lambda body, pn=pn: match(
                    f'k_{pn} kw_', [(f'Some v_{pn}', body), ('None', 'None')]))
                continue
            if not isinstance(dflt, ast.Constant) or \
                    dflt.value not in (None, True, False):
                raise Refuse(f'{cname}.flatten: default of {pn}')
            dv = {None: 'None', True: 'true', False: 'false'}[dflt.value]
            if (dflt.value is None) != is_list(kd):
                raise Refuse(f'{cname}.flatten: default of {pn}')
            wraps.append(lambda body, pn=pn, dv=dv: let(
                f'v_{pn}', f'match k_{pn} kw_ with Some x_ => x_ | None => '
                f'{dv} end', body))
        rest = ' '.join(('false' if kd == 'mgr' else 'None') if n in names
                        else f'(k_{n} kw_)' for n, kd in KW_SLOTS)
        if a.kwarg:
            env.vars[a.kwarg.arg] = Bind('kw', f'v_{a.kwarg.arg}')
            wraps.append(lambda body: let(f'v_{a.kwarg.arg}',
                                          f'mkKw {rest}', body))
        else:                          # unexpected keyword: TypeError
            wraps.append(lambda body: ite(f'kw_is_empty (mkKw {rest})',
                                          body, 'None'))
        if a.vararg:
            env.vars[a.vararg.arg] = Bind('noargs', '')
        live_block(fn.body, set(), None, None)

        def fall(env):
            raise Refuse(f'{cname}.flatten: control may reach the end '
                         'without return')
        body = self.block(fn.body, 0, env, fall, None)
        for w in reversed(wraps):
            body = w(body)
        self.cur_cls, self.meth = None, None
        return body

    def translate(self):
        body = Translator.translate(self)
        LENIENT[0] = False
        self.aux = []
        branches = []
        for n, i in self.classes.items():
            pat = f'N{n} ' + ' '.join(f's_{f}' for f in i['fields'])
            branches.append((pat, self.compile_method(n)))
        if self.aux:
            raise Refuse('while loop inside a flatten method')
        fl = (f'Fixpoint {self.prefix}flatten (fuel : nat) (v_self : pnode) '
              '(kw_ : kwargs) {struct fuel}\n    : option (D * option '
              '(option (list D))) :=\n  match fuel with\n  | O => None\n'
              '  | S fuel =>\n' + indent(match('v_self', branches), 4)
              + '\n  end.\n\n')
        # constants used by the methods were collected after emit()
        consts = []
        for d in self.used_consts:
            c, ss = self.consts[d]
            line = (f'Definition {c} : list string := ['
                    + '; '.join(strlit(z) for z in ss) + '].')
            if line not in body:
                consts.append(line)
        return ('\n'.join(consts) + ('\n' if consts else '')) + fl + body


SIGS_REC = {
    'parse': dict(params=[TOKENS], ret='pnode'),
    '_recurse': dict(params=[], ret='pnode'),
    'add_expr': dict(params=[TOKENS, 'mgr'], ret='node', module=True),
}


def translate_rec(repo):
    """(pnode declarations, Section body, notes) for omega/symbolic/bdd.py."""
    with open(os.path.join(repo, REC_SRC)) as fh:
        tree = ast.parse(fh.read())
    with open(os.path.join(repo, AST_SRC)) as fh:
        atree = ast.parse(fh.read())
    tr = RecTranslator(tree, atree, SIGS_REC, 'rc_')
    if tr.lexer_module != '':
        raise Refuse('the lexer of bdd.Parser is not bdd.Lexer')
    body = tr.translate()
    return tr.pnode_text(), body, list(tr.notes)


HEADER = r'''(* GENERATED by tools/py2coq_prefix.py from
     omega/symbolic/bdd_iterative.py : Parser.parse, _increase, _push,
                                       _reduce, add_expr, and the constant
                                       sets they read
     omega/symbolic/bdd.py           : the string token rules of class Lexer
   in the working tree of the omega repository.
   Do not edit; regenerated on every check run.

   Python names are prefixed with v_; t1, t2, ... are intermediate values;
   p_x is the value a re-bound list parameter x keeps for the caller.  A
   function body is a term of [option _]: None is any exception.  Functions
   that read tokens take the list of unread tokens [toks] and return the
   rest; a function returns the final value of every list parameter it may
   change in place.  See tools/py2coq_prefix.py for the subset and the notes
   at the end for everything that was skipped. *)
From Coq Require Import ZArith List Bool String Ascii.
From Omega Require Import L3History.Prefix.
Import ListNotations.
Open Scope Z_scope.

(* ---- fixed prelude: the meaning of the Python constructs used ----------- *)
(* a LexToken: .type and .value *)
Record ptok := mkTok { p_type : string; p_value : string }.

(* int(s), exact on the strings that can be the value of a token (NUMBER:
   [-]*\d+, NAME, the operator lexemes): an optional minus sign followed by
   one or more digits; Python accepts more (blanks, +, _ between digits) *)
Definition digit_of (c : ascii) : option Z :=
  let n := Z.of_N (N_of_ascii c) in
  if (48 <=? n) && (n <=? 57) then Some (n - 48) else None.
Fixpoint digits_val (s : string) (acc : Z) : option Z :=
  match s with
  | EmptyString => Some acc
  | String c r =>
      match digit_of c with
      | Some d => digits_val r (10 * acc + d)
      | None => None
      end
  end.
Definition py_int (s : string) : option Z :=
  match s with
  | EmptyString => None
  | String "-"%char EmptyString => None
  | String "-"%char r => option_map Z.opp (digits_val r 0)
  | _ => digits_val s 0
  end.

(* lexer.token(): the next token or None *)
Definition next_token (l : list ptok) : option ptok * list ptok :=
  match l with [] => (None, []) | t :: r => (Some t, r) end.

Definition is_none {A} (o : option A) : bool :=
  match o with None => true | Some _ => false end.
Definition py_len {A} (l : list A) : Z := Z.of_nat (List.length l).
(* l[i] with Python's negative indices; IndexError = None *)
Definition py_index {A} (l : list A) (i : Z) : option A :=
  let n := py_len l in
  if i <? 0 then (if i + n <? 0 then None else nth_error l (Z.to_nat (i + n)))
  else nth_error l (Z.to_nat i).
(* a slice bound: negative counts from the end, clamped to 0 .. len *)
Definition py_bound (n i : Z) : Z :=
  if i <? 0 then Z.max 0 (i + n) else Z.min i n.
Definition py_slice {A} (l : list A) (a b : Z) : list A :=
  let n := py_len l in
  let a' := py_bound n a in
  let b' := py_bound n b in
  firstn (Z.to_nat (b' - a')) (skipn (Z.to_nat a') l).
(* l.pop(i): the list without position i and the element; IndexError = None *)
Definition py_pop {A} (l : list A) (i : Z) : option (list A * A) :=
  let n := py_len l in
  let j := if i <? 0 then i + n else i in
  if (j <? 0) || (n <=? j) then None
  else match nth_error l (Z.to_nat j) with
       | Some x => Some (firstn (Z.to_nat j) l ++ skipn (S (Z.to_nat j)) l, x)
       | None => None
       end.
(* l.insert(i, x): the position is clamped like a slice bound *)
Definition py_insert {A} (l : list A) (i : Z) (x : A) : list A :=
  let j := Z.to_nat (py_bound (py_len l) i) in
  firstn j l ++ x :: skipn j l.
Definition py_range (n : Z) : list Z := map Z.of_nat (seq 0 (Z.to_nat n)).
Fixpoint py_enum_from {A} (i : Z) (l : list A) : list (Z * A) :=
  match l with
  | [] => []
  | x :: r => (i, x) :: py_enum_from (i + 1) r
  end.
Definition py_enumerate {A} (l : list A) : list (Z * A) := py_enum_from 0 l.
(* for x in l: body; the body returns the new state and whether it executed
   `break` *)
Fixpoint for_list_b {A S} (body : A -> S -> option (S * bool)) (l : list A)
    (s : S) : option (S * bool) :=
  match l with
  | [] => Some (s, false)
  | x :: r =>
      match body x s with
      | None => None
      | Some (s', true) => Some (s', true)
      | Some (s', false) => for_list_b body r s'
      end
  end.
Definition for_list {A S} (body : A -> S -> option (S * bool)) (l : list A)
    (s : S) : option S :=
  option_map fst (for_list_b body l s).
Definition str_in (s : string) (l : list string) : bool :=
  existsb (String.eqb s) l.

'''

SECTION = r'''Section Gen.
(* the BDD manager, with the signature of the model (Prefix.v): nodes D,
   bdd.true / bdd.false, bdd.var, bdd._add_int, and bdd.apply as ap1 (for
   '!') and ap2; every exception of the manager is None *)
Variable D : Type.
Variable dtrue dfalse : D.
Variable var : string -> option D.
Variable node : Z -> option D.
Variable ap1 : D -> option D.
Variable ap2 : binop -> D -> D -> option D.

(* what the stack and the memory buffers hold: a string or a node *)
Inductive item := IStr (s : string) | IVal (d : D).
Definition is_str (t : item) : bool :=
  match t with IStr _ => true | IVal _ => false end.
(* a node is not a member of a set of strings and not equal to a string
   (hash collisions aside) *)
Definition item_in (t : item) (l : list string) : bool :=
  match t with IStr s => str_in s l | IVal _ => false end.
Definition item_eq_str (t : item) (s : string) : bool :=
  match t with IStr s' => String.eqb s' s | IVal _ => false end.

(* the operator strings of dd's `apply` that the lexer can produce *)
Definition binop_of_str (s : string) : option binop :=
  if String.eqb s "&"%string then Some And
  else if String.eqb s "|"%string then Some Or
  else if String.eqb s "^"%string then Some Xor
  else if String.eqb s "\A"%string then Some Forall
  else if String.eqb s "\E"%string then Some Exists
  else if String.eqb s "\S"%string then Some Rename
  else None.
(* bdd.apply(op, *args): '!' with one node, a binary operator string with
   two nodes; any other call (wrong number of operands, a string among the
   operands, another operator string) is None *)
Definition bdd_apply (op : string) (args : list item) : option D :=
  match args with
  | [IVal u] => if String.eqb op "!"%string then ap1 u else None
  | [IVal u; IVal v] =>
      match binop_of_str op with
      | Some b => ap2 b u v
      | None => None
      end
  | _ => None
  end.

'''

FOOTER = '\nEnd Gen.\n'


HEADER_REC = r"""(* GENERATED by tools/py2coq_prefix.py from
     omega/symbolic/bdd.py   : Parser.parse, Parser._recurse, add_expr, and
                               the `flatten` methods of the node classes that
                               `parser = Parser(nodes=BDDNodes())` builds
                               (BDDNodes.Operator/Var/Num, Nodes.Buffer/
                               Register); the constructors of those classes
                               are read from the __init__ methods of bdd.py
                               and omega/logic/ast.py
   in the working tree of the omega repository.
   Do not edit; regenerated on every check run.

   Conventions as in PrefixGen.v (whose prelude is used).  A parsed tree is
   a [pnode]: one constructor per node class, its arguments the attributes
   the constructor stores.  `x.flatten(key=value, ..., *arg, **kw)` is
   [rc_flatten fuel x kwargs]: dynamic dispatch on the class of x; keyword
   arguments travel in a record of optional slots, each method takes its
   named parameters out of it (default when absent, None = TypeError when a
   required one is absent or a keyword is given twice) and keeps the rest as
   its **kw; `*arg` is always empty (no call passes positional arguments).
   The list passed as `mem` may be changed in place by the callee, so
   rc_flatten returns, next to the result, the final value of the `mem`
   entry it was given, and the caller re-binds its variable. *)
From Coq Require Import ZArith List Bool String Ascii.
From Omega Require Import L3History.Prefix.
From OmegaGen Require Import PrefixGen.
Import ListNotations.
Open Scope Z_scope.

"""

SECTION_REC = r"""
Section GenRec.
(* the BDD manager as in PrefixGen.v; [ren_pairs m n u] stands for the block
   of BDDNodes.Operator.flatten that pops a variable from the support of
   each node of the memory m, pairs them up, asserts that there are n / 2
   pairs (n cells in the buffer) and calls bdd.rename(u, pairs) *)
Variable D : Type.
Variable dtrue dfalse : D.
Variable var : string -> option D.
Variable node : Z -> option D.
Variable ap1 : D -> option D.
Variable ap2 : binop -> D -> D -> option D.
Variable ren_pairs : list D -> Z -> D -> option D.

Definition bdd_apply_nodes (op : string) (args : list D) : option D :=
  bdd_apply D ap1 ap2 op (map (IVal D) args).

(* keyword arguments of `flatten`: bdd (present or not), mem, same_mem *)
Record kwargs := mkKw {
  k_bdd : bool;
  k_mem : option (option (list D));
  k_same_mem : option bool }.
Definition kw_set_mem (kw : kwargs) (m : option (option (list D))) : kwargs :=
  mkKw (k_bdd kw) m (k_same_mem kw).
Definition kw_is_empty (kw : kwargs) : bool :=
  negb (k_bdd kw) && is_none (k_mem kw) && is_none (k_same_mem kw).

"""

FOOTER_REC = '\nEnd GenRec.\n'


def file_text_rec(repo, gen_lib='OmegaGen'):
    """(text of gen/PrefixRecGen.v, notes)."""
    pnode, body, notes = translate_rec(repo)
    text = (HEADER_REC.replace('OmegaGen', gen_lib)
            + '(* ---- the node classes ---- *)\n' + pnode
            + SECTION_REC + body + FOOTER_REC
            + ''.join(f'(* note: {_comment(n)} *)\n' for n in notes))
    return text, notes


def file_text(repo):
    """(text of gen/PrefixGen.v, notes)."""
    body, table, notes = translate(repo)
    text = (HEADER + '(* ---- the string token rules of bdd.Lexer '
            '(verbose-mode blanks removed) ---- *)\n' + table + '\n'
            + SECTION + body + FOOTER
            + ''.join(f'(* note: {_comment(n)} *)\n' for n in notes))
    return text, notes


if __name__ == '__main__':
    import sys
    if len(sys.argv) > 2 and sys.argv[2] == 'rec':
        print(file_text_rec(sys.argv[1], *sys.argv[3:])[0])
    else:
        print(file_text(sys.argv[1] if len(sys.argv) > 1 else '/repo')[0])
